"""Abstract protocol model (spec/AlpenglowAbs.tla, MC_AlpenglowAbs.tla): exhaustive safety."""

SAFETY = ["Agreement", "SingleChain", "NoFinalAndSkip", "NotarUnique", "FinalImpliesNoOtherNf",
          "FastFinalImpliesNoSkip"]


def tree_defs(stakes, blocks):
    """blocks: list of (s, h, ps, ph)"""
    sv = "SV == <<" + ", ".join(map(str, stakes)) + ">>\n"
    bs = ", ".join(f'[s |-> {s}, h |-> "{h}", par |-> [s |-> {ps}, h |-> "{ph}"]]' for (s, h, ps, ph) in blocks)
    return sv + "Tree == {" + bs + "}\n"


def cfg(n, byz, w, max_slot, invs):
    b = "{" + ", ".join(map(str, byz)) + "}"
    return f"""CONSTANTS
  N = {n}
  StakeVec <- SV
  Byz = {b}
  W = {w}
  MaxSlot = {max_slot}
  BlockTree <- Tree
INIT Init
NEXT Next
CHECK_DEADLOCK FALSE
INVARIANTS {" ".join(invs)}
"""


FORK2 = [(1, "A", 0, "G"), (1, "B", 0, "G"), (2, "A", 1, "A"), (2, "B", 1, "B")]
FORK3 = FORK2 + [(3, "A", 2, "A"), (3, "B", 2, "A")]
# W = 2: slots 2 and 3 form the second window; its first block may build on any ready parent
FORK3_W2 = [(1, "A", 0, "G"), (1, "B", 0, "G"), (2, "A", 1, "A"), (2, "B", 0, "G"), (3, "A", 2, "A")]


def run_mc(ctx, name, stakes, byz, w, max_slot, blocks, workers=12, timeout=1800, witnesses=()):
    d = tree_defs(stakes, blocks)
    if witnesses:
        ctx.witness(name, "MC_AlpenglowAbs", cfg(len(stakes), byz, w, max_slot, []), d, witnesses,
                    workers=6, timeout=600)
    return ctx.tlc(name, "MC_AlpenglowAbs", cfg(len(stakes), byz, w, max_slot, SAFETY), d,
                   workers=workers, timeout=timeout, heap="12g")
