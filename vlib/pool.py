"""Pool models (spec/Pool.tla, spec/MC_Pool.tla): TLC check + edge dump + replay into PoolImpl."""
from .core import ToolError

ALL_INVS = [
    "CertAsSoonAs", "CertOnlyWhen", "CertSignersJustified", "AtMostOnce",
    "AdmissionTable", "CountedOnce",
    "S2NAsSoonAs", "S2SAsSoonAs", "S2NOnlyIf", "S2SOnlyIf",
    "PRInputsJustified", "PRInputsComplete", "ReadySound", "ReadyComplete", "AnnouncedInQuery",
    "FinalizedIff", "HighestIsFinalized", "WatermarkDecided", "AncestorsFinalized", "RetainedBounded",
    "BundleProvesFinalized", "FreshPoolCatchesUp",
]


def cfg_text(n, own, max_slot, invariants, dump, w=4, far=36000, constraint=None, sim_depth=0):
    s = f"""CONSTANTS
  N = {n}
  StakeVec <- SV
  Own = {own}
  W = {w}
  FarFuture = {far}
  MaxSlot = {max_slot}
  Scenarios <- Scn
  SimDepth = {sim_depth}
INIT Init
NEXT Next
VIEW View
CHECK_DEADLOCK FALSE
"""
    if constraint:
        s += f"CONSTRAINT {constraint}\n"
    if dump:
        s += "ACTION_CONSTRAINT EmitEdge\nINVARIANT EmitState\n"
    if invariants:
        s += "INVARIANTS\n  " + " ".join(invariants) + "\n"
    return s


def defs(stakes, scenario_tla):
    sv = "<<" + ", ".join(str(x) for x in stakes) + ">>"
    return f"SV == {sv}\nScn == {scenario_tla}\n"


# --------------------------------------------------------------------------- scenarios
def scn_votes(slots, hashes, kinds, validators=None):
    """TLA+ expression: votes of the given kinds by the given validators (default all)."""
    vs = "Validators" if validators is None else "{" + ", ".join(map(str, validators)) + "}"
    ss = "{" + ", ".join(map(str, slots)) + "}"
    hs = "{" + ", ".join(f'"{h}"' for h in hashes) + "}"
    parts = []
    hk = [k for k in kinds if k in ("notar", "nf")]
    nk = [k for k in kinds if k in ("skip", "sf", "final")]
    if hk:
        ks = "{" + ", ".join(f'"{k}"' for k in hk) + "}"
        parts.append(f"{{MkVote(k, s, h, v) : k \\in {ks}, s \\in {ss}, h \\in {hs}, v \\in {vs}}}")
    if nk:
        ks = "{" + ", ".join(f'"{k}"' for k in nk) + "}"
        parts.append(f"{{MkVote(k, s, NoneH, v) : k \\in {ks}, s \\in {ss}, v \\in {vs}}}")
    return "(" + " \\cup ".join(parts) + ")" if parts else "{}"


def scn(votes="{}", certs=(), blocks=(), waits=()):
    cs = "{" + ", ".join(f'MkCert("{k}", {s}, "{h}")' for (k, s, h) in certs) + "}"
    bs = "{" + ", ".join(f'<< <<{b[0]}, "{b[1]}">>, <<{p[0]}, "{p[1]}">> >>' for (b, p) in blocks) + "}"
    ws = "{" + ", ".join(map(str, waits)) + "}"
    return f"[votes |-> {votes}, certs |-> {cs}, blocks |-> {bs}, waits |-> {ws}]"


def run_model(ctx, name, stakes, own, max_slot, scenarios, invariants, relevant,
              sample=None, workers=8, dump=True, witnesses=(), timeout=1500, budget=0,
              check_workers=12, max_div=60, constraint=None, scale=0, scale_sample=150000):
    """1. TLC checks the invariants on the model (all workers).
       2. TLC dumps every transition; the harness replays them into the real PoolImpl."""
    n = len(stakes)
    d = defs(stakes, "<<" + ", ".join(scenarios) + ">>")
    if witnesses:
        ctx.witness(name, "MC_Pool", cfg_text(n, own, max_slot, [], False), d, witnesses)
    # one TLC run: invariants evaluated in every state + every transition dumped for replay
    r = ctx.tlc(name, "MC_Pool", cfg_text(n, own, max_slot, invariants, dump, constraint=constraint), d,
                workers=(workers if dump else check_workers), timeout=timeout)
    if not dump:
        return r, None
    r2 = r
    args = ["replay-pool", "--tlc-out", r2.out_path, "--stakes", ",".join(map(str, stakes)),
            "--own", own, "--max-slot", max_slot, "--seed", ctx.seed, "--max-div", max_div]
    if sample:
        args += ["--sample", sample]
        ctx.exhaustive = False
    if budget:
        args += ["--budget", budget]
    rep = ctx.harness(args)
    rep["model"] = name
    if not constraint and rep["edges"] != r2.generated - rep["init"]:
        raise ToolError(f"{name}: dump has {rep['edges']} edges, TLC generated {r2.generated}")
    if not sample and not budget and rep["div_count"] == 0 and rep["covered"] != rep["edges"]:
        raise ToolError(f"{name}: replay covered {rep['covered']} of {rep['edges']} edges")
    ctx.replay_report(name, rep, relevant)
    if scale:
        # the model only depends on stake ratios (every threshold is v * den >= total * num, and both sides
        # scale linearly): the same transitions must be reproduced when all stakes are multiplied by `scale`
        a2 = [x for x in args]
        if "--sample" in a2:
            i = a2.index("--sample"); del a2[i:i + 2]
        a2 += ["--stake-scale", scale, "--sample", scale_sample]
        rep2 = ctx.harness(a2)
        rep2["model"] = name + f"_x{scale:.0e}"
        ctx.exhaustive = False
        ctx.replay_report(name + f"_x{scale:.0e}", rep2, relevant)
    import os
    try:
        os.remove(r2.out_path)
    except OSError:
        pass
    return r, rep


# --------------------------------------------------------------------------- relevance filters
def rel_c03(fp, fields):
    return any(f.startswith("ev.Cert") or f.endswith(".Cert") or f == "obs.certs" or f == "panic"
               for f in fields)


def rel_c04(fp, fields):
    return fp.startswith("vote:") and any(f in ("ret", "panic") for f in fields)


def rel_c06(fp, fields):
    return any("SafeTo" in f or f == "panic" for f in fields)


def rel_c07(fp, fields):
    return any("ParentReady" in f or f.startswith("woken") or f == "obs.ready" or f == "panic"
               or (f == "ret" and fp.startswith("wait")) for f in fields)


def rel_c08(fp, fields):
    return any(f in ("obs.hi", "obs.fup", "obs.fst", "obs.ret", "obs.certs", "obs.waiting", "panic")
               or (f == "ret" and (fp.startswith("cert:") or fp.startswith("vote:")))
               for f in fields)


def rel_c18(fp, fields):
    # the bundle consists of the certificates the pool created or stored: a created certificate a receiver would
    # refuse breaks C18 as well (the replay does not walk on through a diverging step, so the standstill steps
    # behind it are not reached)
    return fp.startswith("standstill") or any(f.startswith("ev.Cert.") for f in fields)


# --------------------------------------------------------------------------- multi-slot scenarios
FATES = ["F", "S", "FS", "N", "NS", "NFS", "K", "No", "U"]


def chain_scenario(fates, waits=(), with_votes=(), voters=(0, 1), extra_certs=(), twins=()):
    """A consistent certificate universe over slots 1..len(fates).
    fate of a slot:  F fast-finalized (notar+ff)   S slow-finalized (notar+final)
      FS both (notar+ff+final)   N notarized, on chain   NS notarized then skipped (notar+skip)
      NFS notar-fallback then skipped (nf+skip)   K skipped   No notarized off-chain (skip certificate
      exists but is not delivered to this pool)   U nothing.
    Blocks on the chain (F, S, FS, N) have the previous on-chain block as parent (genesis first).
    with_votes: slots whose notar/final certificates are formed by votes of `voters` instead."""
    certs, blocks, votes = [], [], []
    parent = (0, "G")
    for i, f in enumerate(fates):
        s = i + 1
        h = f"X{s}"
        ks = {"F": ["notar", "ff"], "S": ["notar", "final"], "FS": ["notar", "ff", "final"],
              "N": ["notar"], "NS": ["notar", "skip"], "NFS": ["nf", "skip"], "K": ["skip"],
              "No": ["notar"], "U": []}[f]
        for k in ks:
            hh = h if k in ("notar", "nf", "ff") else "-"
            if s in with_votes and k in ("notar", "final", "skip"):
                for v in voters:
                    votes.append(f'MkVote("{k}", {s}, "{hh}", {v})')
            elif s in with_votes and k == "ff":
                pass  # formed by the same notar votes when they reach 80%
            else:
                certs.append((k, s, hh))
        if f in ("F", "S", "FS", "N"):
            blocks.append(((s, h), parent))
            parent = (s, h)
        elif f in ("NS", "NFS", "No"):
            # the block exists and may be registered, but is not an ancestor of later blocks
            blocks.append(((s, h), parent))
    certs += list(extra_certs)
    # twins: further validly signed blocks (an equivocating leader's other block of a slot, with its own parent)
    blocks += list(twins)
    vs = "{" + ", ".join(votes) + "}"
    return scn(votes=vs, certs=certs, blocks=blocks, waits=waits)


def run_sim(ctx, name, stakes, own, max_slot, scenarios, invariants, relevant, num, depth,
            timeout=1500, max_div=60):
    """TLC -simulate over a (large) model, every visited state printed; behaviours replayed."""
    n = len(stakes)
    d = defs(stakes, "<<" + ", ".join(scenarios) + ">>")
    cfg = cfg_text(n, own, max_slot, invariants, False, sim_depth=depth) + "INVARIANT EmitSim\n"
    r = ctx.tlc(name, "MC_Pool", cfg, d, workers=4, simulate=f"num={num}", timeout=timeout,
                extra=["-depth", str(depth)])
    ctx.exhaustive = False
    args = ["replay-pool", "--sim", "--tlc-out", r.out_path, "--stakes", ",".join(map(str, stakes)),
            "--own", own, "--max-slot", max_slot, "--seed", ctx.seed, "--max-div", max_div]
    rep = ctx.harness(args)
    rep["model"] = name
    # simulation: count the distinct (depth, state, action) triples actually replayed
    ctx.states += rep["nodes"]
    ctx.transitions += rep["steps"]
    ctx.replay_report(name, rep, relevant)
    import os
    try:
        os.remove(r.out_path)
    except OSError:
        pass
    return r, rep
