"""Component-level trace validation: what each real node's pool and Votor did in a simulated execution,
validated step by step against Pool.tla + Votor.tla (spec/Trace_Node.tla)."""
import json
import os
import re

from .core import ToolError

NODE_EVENTS = {"PoolVote", "PoolVoteCounted", "PoolCert", "PoolEmit", "VotorPool", "VotorBlockstore", "VotorTimeout"}


def abs_view(trace):
    """The system-level trace specs (Trace_Abs / Trace_Progress) do not know the component-level records."""
    out = trace + ".abs"
    with open(trace) as f, open(out, "w") as g:
        for line in f:
            m = re.search(r'"e":"([A-Za-z]+)"', line)
            if m and m.group(1) in NODE_EVENTS:
                continue
            g.write(line)
    return out


def split(trace, nodes):
    """Groups the global log into the steps of each node.  Grouping only uses the node id and the record kind:
    every pool call runs under the pool's write lock, so everything the pool of node n records between two call
    records of n belongs to the earlier call; Votor is one task, so everything n broadcasts between two of its
    input records belongs to the earlier input."""
    steps = {n: [] for n in nodes}
    pool_open = {n: None for n in nodes}
    votor_open = {n: None for n in nodes}
    max_slot = 8

    def new_pool(n, st):
        st.update({"ev": [], "fin": [], "iskip": []})
        steps[n].append(st)
        pool_open[n] = st

    with open(trace) as f:
        for line in f:
            e = json.loads(line)
            k = e["e"]
            n = e.get("node", e.get("from"))
            if n not in steps:
                continue
            for key in ("s",):
                if isinstance(e.get(key), int) and e[key] < 100000:
                    max_slot = max(max_slot, e[key])
            if k == "PoolVote":
                new_pool(n, {"op": "pvote", "vt": e["vote"], "counted": False})
                if e["vote"]["s"] < 100000:
                    max_slot = max(max_slot, e["vote"]["s"])
            elif k == "PoolVoteCounted":
                pool_open[n]["counted"] = True
            elif k == "PoolCert":
                new_pool(n, {"op": "pcert", "c": e["c"], "accepted": False, "_first": True})
                if e["c"]["s"] < 100000:
                    max_slot = max(max_slot, e["c"]["s"])
            elif k == "Block":
                new_pool(n, {"op": "pblock", "b": [e["s"], e["h"]], "par": [e["ps"], e["ph"]]})
            elif k == "CertHeld":
                st = pool_open[n]
                if st is None:
                    raise ToolError("CertHeld outside a pool call")
                if st["op"] == "pcert" and st.get("_first") and st["c"] == {"k": e["k"], "s": e["s"], "h": e["h"]}:
                    st["accepted"] = True
                st["_first"] = False
            elif k == "PoolEmit":
                if e["ev"]["t"] == "Standstill":
                    steps[n].append({"op": "pstandstill", "ev": e["ev"]})
                else:
                    pool_open[n]["ev"].append(e["ev"])
                    pool_open[n]["_first"] = False
            elif k == "Finalized":
                pool_open[n]["fin"].append({"s": e["s"], "h": e["h"], "implicit": e["implicit"]})
            elif k == "ImplSkipped":
                pool_open[n]["iskip"].append(e["s"])
            elif k == "VotorPool":
                st = {"op": "vpool", "ev": e["ev"], "msgs": []}
                steps[n].append(st)
                votor_open[n] = st
            elif k == "VotorBlockstore":
                st = {"op": "vbs", "ev": e["ev"], "msgs": []}
                steps[n].append(st)
                votor_open[n] = st
            elif k == "VotorTimeout":
                st = {"op": "vtimeout", "s": e["s"], "crashed": e["crashed"], "msgs": []}
                steps[n].append(st)
                votor_open[n] = st
            elif k == "Vote" and votor_open[n] is not None:
                v = e["vote"]
                votor_open[n]["msgs"].append({"t": "vote", "k": v["k"], "s": v["s"], "h": v["h"], "v": v["v"]})
            elif k == "CertSent" and votor_open[n] is not None:
                votor_open[n]["msgs"].append({"t": "cert", "c": e["c"]})
            elif k in ("Vote", "CertSent"):
                raise ToolError(f"node {n} broadcast before Votor handled any input")
    for n in nodes:
        for st in steps[n]:
            st.pop("_first", None)
    return steps, max_slot


CFG = """CONSTANTS
  N = {n}
  StakeVec <- SV
  Own = {own}
  W = 4
  FarFuture = 36000
  MaxSlot = {max_slot}
INIT Init
NEXT Next
CHECK_DEADLOCK FALSE
INVARIANTS NoMismatch OneInitialVote NoFinalInBadSlot FinalOnlyForOwnNotar FallbackOnlyAfterVoted NoNfForOwnNotar
POSTCONDITION TraceAccepted
"""


def validate(ctx, name, trace, stakes, nodes, timeout=900):
    """Validates the steps of every node in `nodes`.  Returns a list of rejections (dicts)."""
    steps, max_slot = split(trace, nodes)
    max_slot = ((max_slot // 4) + 2) * 4 - 1
    sv = "SV == <<" + ", ".join(map(str, stakes)) + ">>\n"
    rejections = []
    total = 0
    for n in nodes:
        path = os.path.join(ctx.work, f"{name}_node{n}.ndjson")
        with open(path, "w") as f:
            for st in steps[n]:
                f.write(json.dumps(st) + "\n")
        total += len(steps[n])
        if not steps[n]:
            continue
        r = ctx.tlc(f"{name}_n{n}", "Trace_Node", CFG.format(n=len(stakes), own=n, max_slot=max_slot), sv,
                    workers=1, timeout=timeout, heap="4g", dfs=True, env={"TRACE": path}, expect_violation="any")
        if r.error == "timeout":
            raise ToolError(f"node trace validation {name} node {n}: timeout")
        ctx.states += r.distinct
        ctx.transitions += r.generated
        mm = re.search(r'<<"MISMATCH", "(.*)">>', r.tail)
        rj = re.search(r'<<"REJECTED", "(.*)">>', r.tail)
        if rj and not mm:
            raise ToolError(f"node trace validation {name} node {n}: step not consumed without a mismatch report: {rj.group(1)[:300]}")
        if mm or rj:
            js = json.loads((mm or rj).group(1).replace('\\"', '"').replace('\\\\', '\\'))
            rejections.append({"kind": "node-mismatch" if mm else "node-rejected", "node": n, "trace": path,
                               "index": js.get("index"), "what": js.get("what", "rejected"),
                               "step": js.get("step", js.get("event")), "spec": js.get("spec")})
        elif r.violated and r.violated != "NoMismatch":
            # a voting rule is broken by what the node broadcast in this execution
            m = re.search(r"/\\ l = (\d+)", r.tail)
            idx = int(m.group(1)) - 1 if m else -1
            rejections.append({"kind": "node-invariant", "node": n, "trace": path, "index": idx,
                               "what": r.violated, "step": steps[n][idx - 1] if 0 < idx <= len(steps[n]) else None,
                               "spec": None})
        elif r.violated or (r.error and "Postcondition" not in r.tail):
            raise ToolError(f"node trace validation {name} node {n}: {r.error or r.violated}: {r.tail[-600:]}")
    return rejections, total


def fingerprint(rej):
    st = rej.get("step") or {}
    return f"{rej['kind']}:{rej.get('what')}:{st.get('op', '?')}"


def aspects(rej):
    """Which observable differs between the recorded step and the specification's transition."""
    st, sp = rej.get("step") or {}, rej.get("spec") or {}
    if rej["kind"] == "node-rejected":
        return {"rejected"}
    if rej["kind"] == "node-invariant":
        return {"votor", "rule:" + str(rej.get("what"))}
    what = rej.get("what")
    if what == "standstill":
        return {"standstill"}
    if what == "votor":
        out = {"votor"}
        if st.get("op") == "vpool" and (st.get("ev") or {}).get("t") == "Standstill":
            out.add("standstill")
        head = sp.get("head")
        if st.get("op") == "vpool" and (not head or head[0] != st.get("ev")):
            out.add("channel")
        return out
    out = set()
    if sp.get("panic"):
        out.add("panic")
    ok = st.get("counted", st.get("accepted", True))
    if (sp.get("ret") == "Ok") != ok:
        out.add("ret")

    def bag(evs, spec):
        d = {}
        for e in evs or []:
            if e["t"] == "ParentReady":
                key = ("ParentReady", e["s"])
            elif e["t"] == "Cert":
                key = ("Cert", json.dumps(e["c"], sort_keys=True))
            else:
                key = (e["t"], json.dumps(e.get("b", e.get("s")), sort_keys=True))
            d[key] = d.get(key, 0) + 1
        return d
    a, b = bag(st.get("ev"), False), bag(sp.get("ev"), True)
    for k in set(a) | set(b):
        if a.get(k, 0) != b.get(k, 0):
            out.add("ev." + k[0])
    if not out:
        # same verdict and events: a ParentReady parent outside the admissible set, or the finality reports
        out.add("fin")
        if any(e["t"] == "ParentReady" for e in st.get("ev") or []):
            out.add("ev.ParentReady")
    return out


def check(ctx, name, trace, stakes, nodes, relevant=None, config=None):
    """Validates the recorded steps of `nodes`; every relevant mismatch becomes a divergence of ctx's property."""
    rej, total = validate(ctx, name, trace, stakes, nodes)
    ctx.notes.setdefault("node_traces", []).append({"sim": name, "nodes": list(nodes), "steps": total,
                                                    "mismatches": len(rej)})
    for r in rej:
        asp = aspects(r)
        if relevant is None or relevant(asp):
            ctx.divergence(name, fingerprint(r) + ":" + ",".join(sorted(asp)), {"config": config, **r, "aspects": sorted(asp)})
    return total


COMPONENT_SIMS = [
    # equivocating leader, loss/duplication, standstill recovery triggered every 2.5 s
    dict(name="cmp_equiv4", stakes=[2, 2, 2, 1], byz=[3], byz_mode="equivocate", gst=2500, chaos=1200, drop=80,
         dup=40, run_ms=9000, standstill=2500),
    # six validators, a noisy Byzantine one, one crashed (isolated) node, standstill recovery
    dict(name="cmp_six", stakes=[1, 1, 1, 1, 1, 1], byz=[5], byz_mode="spam", crashed=[2], crash_at=2000, gst=3000,
         chaos=1500, drop=100, dup=50, run_ms=9000, standstill=1700),
    # a correct node lags behind (certificates only) and catches up by repair; late equivocated blocks reach it
    dict(name="cmp_lag4", stakes=[2, 2, 2, 1], byz=[3], byz_mode="equivocate", gst=500, chaos=300, drop=10,
         run_ms=14000, lag=(1, 1500, 9000), standstill=4000),
    dict(name="cmp_hostile4", stakes=[2, 2, 2, 1], byz=[3], byz_mode="hostile", gst=1500, chaos=800, drop=30,
         run_ms=9000),
    dict(name="cmp_seven", stakes=[3, 2, 2, 1, 1, 1, 1], byz=[4], byz_mode="equivocate", gst=4000, chaos=2500, drop=150,
         dup=50, run_ms=12000, standstill=3100),
]


def component_sims(ctx, relevant, count=None, names=None):
    """Real nodes under adversarial schedules; every pool call / Votor step of every correct node validated against
    Pool.tla / Votor.tla.  Divergences are attributed by `relevant(aspects)`."""
    from . import sim as S
    if count is None:
        count = 1 if ctx.tier == "quick" else len(COMPONENT_SIMS)
    steps = 0
    chosen = [s for s in COMPONENT_SIMS if s["name"] in names] if (names and ctx.tier == "quick") else COMPONENT_SIMS[:count]
    for k, sc0 in enumerate(chosen):
        sc = dict(sc0)
        name = sc.pop("name")
        sc["seed"] = ctx.seed + 500 + k
        trace, summary = S.run_sim(ctx, name, **sc)
        ctx.traces += 1
        nodes = [i for i in range(len(sc["stakes"])) if i not in sc.get("byz", [])]
        steps += check(ctx, "nt_" + name, trace, sc["stakes"], nodes, relevant, config=sc)
    if steps == 0:
        raise ToolError("vacuity: no node step was validated")
    ctx.exhaustive = False
    return steps
