"""Full-node simulation + TLC trace validation against AlpenglowAbs (spec/Trace_Abs.tla)."""
import json
import os
import re

from .core import ToolError

TRACE_INVS = ["LocalAgreement", "LocalNoFinalAndSkip", "LocalNotarUnique",
              "ObservedAgreement", "ObservedNoFinalAndSkip", "ObservedChain"]


def sv(stakes):
    return "SV == <<" + ", ".join(map(str, stakes)) + ">>\n"


def trace_cfg(n, byz, max_slot, invs, extra_consts="", init="TraceInit", nxt="TraceNext"):
    b = "{" + ", ".join(map(str, byz)) + "}"
    return f"""CONSTANTS
  N = {n}
  StakeVec <- SV
  Byz = {b}
  W = 4
  MaxSlot = {max_slot}
{extra_consts}INIT {init}
NEXT {nxt}
CHECK_DEADLOCK FALSE
INVARIANTS {" ".join(invs)}
POSTCONDITION TraceAccepted
"""


def run_sim(ctx, name, stakes, byz=(), byz_mode="silent", crashed=(), crash_at=0, seed=1, gst=0,
            chaos=1500, drop=0, dup=0, delta=80, run_ms=9000, stake_scale=0, standstill=0, lag=None):
    out = os.path.join(ctx.work, f"{name}.ndjson")
    args = ["sim", "--stakes", ",".join(map(str, stakes)), "--seed", seed, "--run", run_ms,
            "--gst", gst, "--chaos", chaos, "--drop", drop, "--dup", dup, "--delta", delta,
            "--crash-at", crash_at, "--out", out, "--byz-mode", byz_mode]
    if stake_scale:
        args += ["--stake-scale", stake_scale]
    if standstill:
        args += ["--standstill", standstill]
    if lag:
        # (node, from ms, to ms): no shreds / repair answers from correct validators reach `node` in the interval
        args += ["--lag", ",".join(map(str, lag))]
    if byz:
        args += ["--byz", ",".join(map(str, byz))]
    if crashed:
        args += ["--crashed", ",".join(map(str, crashed))]
    summary = ctx.harness(args, timeout=600)
    return out, summary


def validate(ctx, name, trace, stakes, byz, module="Trace_Abs", invs=TRACE_INVS, extra_defs="",
             extra_consts="", timeout=900):
    """Returns None if accepted, else a dict describing the rejection."""
    from . import nodetrace as _nt
    trace = _nt.abs_view(trace)     # the system-level view of the log
    n_events = sum(1 for _ in open(trace))
    max_slot = 8
    with open(trace) as f:
        for line in f:
            m = re.search(r'"s":(\d+)', line)
            if m and int(m.group(1)) < 100000:
                max_slot = max(max_slot, int(m.group(1)))
    max_slot = ((max_slot // 4) + 2) * 4 - 1
    init, nxt = ("PInit", "PNext") if module == "Trace_Progress" else ("TraceInit", "TraceNext")
    r = ctx.tlc(name, module, trace_cfg(len(stakes), byz, max_slot, invs, extra_consts, init, nxt),
                sv(stakes) + extra_defs, workers=1, timeout=timeout, heap="6g", dfs=True,
                env={"TRACE": trace}, expect_violation="any")
    if r.error and r.error != "timeout" and "Postcondition" not in r.tail:
        raise ToolError(f"trace validation {name}: {r.error}")
    if r.error == "timeout":
        raise ToolError(f"trace validation {name}: timeout")
    ctx.states += r.distinct
    ctx.transitions += r.generated
    rej = re.search(r'<<"REJECTED", "(.*)">>', r.tail)
    if rej:
        js = json.loads(rej.group(1).replace('\\"', '"').replace('\\\\', '\\'))
        return {"kind": "rejected", "index": js["index"], "event": js["event"], "trace": trace,
                "events": n_events}
    if r.violated:
        # an invariant failed on the observed execution: report the state
        m = re.search(r"/\\ l = (\d+)", r.tail)
        idx = int(m.group(1)) - 1 if m else -1
        ev = None
        if idx > 0:
            with open(trace) as f:
                for i, line in enumerate(f, 1):
                    if i == idx:
                        ev = json.loads(line)
                        break
        return {"kind": "invariant", "invariant": r.violated, "index": idx, "event": ev, "trace": trace,
                "events": n_events}
    if r.distinct != n_events + 1:
        raise ToolError(f"trace validation {name}: {r.distinct} states for {n_events} events")
    return None


def fingerprint(rej):
    ev = rej.get("event") or {}
    if rej["kind"] == "invariant":
        return f"invariant:{rej['invariant']}"
    e = ev.get("e", "?")
    if e == "Vote":
        return f"rejected:Vote:{ev['vote']['k']}"
    if e == "CertHeld":
        return f"rejected:CertHeld:{ev['k']}"
    if e == "Finalized":
        return f"rejected:Finalized:{'implicit' if ev.get('implicit') else 'direct'}"
    return f"rejected:{e}"
