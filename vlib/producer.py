"""Leader block production (spec/Producer.tla, spec/MC_Producer.tla): TLC check, EDGE/STATE dump and
replay of every transition into the real BlockProducer (harness `replay-producer`).

One leader WINDOW is modelled: what wait_for_first_slot decides (Ready / ParentReadyNotSeen / Skip), the first block
with exact slice byte accounting and the optimistic parent switch, the remaining blocks of the window chained on
the block just produced, the leader's next window after a skipped or completed window, failing Disseminator sends.

Used by C10 (the producer task must not panic / wedge on any transaction stream, ParentReady / finalization timing,
send failure) and C02 (slices, blocks and windows complete at the model's step with the right parents):
    from .. import producer as PR
    PR.run_model(ctx, "producer", relevant=PR.relevant_c10)      # in c10.py
    PR.run_model(ctx, "producer", relevant=PR.relevant_c02)      # in c02.py
`race=True` adds the situations "block of the previous slot AND a later finalization present when the loop reaches
the window" (see work/notes/producer.md, finding 2: the code produces optimistically for a decided window and
panics at the next finalization); leave it off until that finding is repaired or listed as known.
"""
import json
import os
import re

from .core import ToolError

# the real constants of the crate (src/shredder.rs, src/lib.rs); wincode: Option<BlockId> = 1 / 41 bytes
MAX_DATA_PER_SLICE = 32767
MAX_TRANSACTION_SIZE = 512

INVS = ["InvNoOverflow", "InvNoPanic", "InvIndices", "InvOneLast", "InvFirstParent", "InvOneSwitch",
        "InvEffectiveParentIsReady", "InvTxConserved", "InvRoomForOne", "InvNeverStuck", "InvCanComplete",
        "InvBlocksOK", "InvWindowChain", "InvWindowShape", "InvWholeWindows", "InvOutConsistent"]

# situations in which the loop reaches the window (Producer!OnStart)
STARTS = ["pr", "blk", "fin", "finP", "pr+fin", "pr+finP"]
RACE_STARTS = ["blk+fin", "blk+finP"]

# Transaction sizes: cost of a transaction = 8 + len.  A slice without parent has 32758 - 8 = 32750 bytes for
# transactions (32710 with a parent or with the 40 reserved bytes) and closes when less than 520 are left.
# A burst of 57 x 512 leaves 3110 (3070); with 512 (cost 520), 502 (510) and 503 (511) at most six single
# transactions close the slice with 0, 10, 20, 30, 39, 40, ... 519 bytes left: both sides of the 40-byte
# boundary of the parent switch and the exact fit (payload = MAX_DATA_PER_SLICE) are reached.
# The other blocks of the window (and the next window) get `later` transactions of 512 bytes per slice.
QUICK = dict(db=2, df=1, max_idx=1023, w=4, parents=["A", "B"], sizes=[512, 502], over=[513], burst=57,
             singles=6, later=1, loss=["none", "all"], slices=2)
THOROUGH = dict(db=3, df=1, max_idx=1023, w=4, parents=["A", "B", "C"], sizes=[512, 502, 503], over=[513], burst=57,
                singles=6, later=1, loss=["none"], slices=3)
# every loss pattern, smaller byte exploration (thorough, second replay)
LOSSY = dict(QUICK, loss=["none", "odd", "all"], later=2)
# the direct entry (produce_block_* called without the loop) knows one block and no wait_for_first_slot
DIRECT = dict(QUICK, w=1)
# SliceIndex::MAX is 1023 in the code; the `is_max` path (last slice forced, ParentReady awaited before it is
# shipped) is checked by TLC only, with MaxIdx = 2
ISMAX = dict(QUICK, max_idx=2, slices=3)
# the transcription of the code in the race situations (replayed only while that finding is open)
ASIS = dict(QUICK, sizes=[512], over=[513], burst=0, singles=2)


def tla_set(xs):
    return "{" + ", ".join(f'"{x}"' if isinstance(x, str) else str(x) for x in xs) + "}"


def cfg(c, as_is=(), frozen=True, invariants=INVS, dump=True, view=True, starts=STARTS):
    s = f"""CONSTANTS
  MaxData = {MAX_DATA_PER_SLICE}
  MaxTx = {MAX_TRANSACTION_SIZE}
  DeltaBlock = {c['db']}
  DeltaFirst = {c['df']}
  MaxIdx = {c['max_idx']}
  W = {c['w']}
  CodeAsIs = {tla_set(list(as_is))}
  Frozen = {'TRUE' if frozen else 'FALSE'}
  Starts = {tla_set(list(starts))}
  Parents = {tla_set(c['parents'])}
  TxSizes = {tla_set(c['sizes'])}
  OverSizes = {tla_set(c['over'])}
  BurstN = {c['burst']}
  BurstLen = {MAX_TRANSACTION_SIZE}
  MaxSingles = {c['singles']}
  LaterSizes = {{{MAX_TRANSACTION_SIZE}}}
  LaterSingles = {c['later']}
  LossModes = {tla_set(c['loss'])}
  MaxSlices = {c['slices']}
INIT Init
NEXT Next
CHECK_DEADLOCK FALSE
"""
    if view:
        s += "VIEW View\n"
    if dump:
        s += "ACTION_CONSTRAINT EmitEdge\nINVARIANT EmitState\n"
    if invariants:
        s += "INVARIANTS\n  " + " ".join(invariants) + "\n"
    return s


# ---------------------------------------------------------------- relevance filters
def reservation(fp):
    """divergence at a step taken while the 40-byte reservation for the parent switch is in force"""
    return bool(re.search(r":rsv40[:|]", fp))


def is_race(fp):
    """divergence in a run that started with the previous block AND a later finalization present, or the crash
    reproduced from the transcription of the code"""
    return bool(re.search(r":blk\+fin\|", fp)) or fp.startswith("asis|")


def relevant_c10(fp, fields):
    """C10: the task panics / stops, hostile (oversized) transactions, content of the slices, send failures,
    the reservation, the previous-block-versus-finalization race"""
    return reservation(fp) or is_race(fp) or any(f in ("panic", "chk", "sent") for f in fields)


def relevant_c02(fp, fields):
    """C02: slices / blocks / windows at the wrong step or with the wrong parent (timing, last flag, chain)"""
    return not relevant_c10(fp, fields)


# ---------------------------------------------------------------- vacuity: what the dump must contain
def dump_stats(path):
    st = dict(edges=0, done_ready=0, done_same=0, done_switched=0, switch_later=0, exactly_full=0,
              switch_exactly_full=0, room_1_39=0, room_40=0, dropped=0, closed_by_tx=0, closed_by_tick=0,
              last_by_pr=0, rsv40_steps=0, skip_windows=0, later_blocks=0, windows_completed=0,
              next_window_completed=0, chained_parent=0, lossy_slices=0, lossy_last_slices=0)
    with open(path, errors="replace") as f:
        for line in f:
            if not line.startswith('<<"EDGE"'):
                continue
            j = json.loads(json.loads(line[len('<<"EDGE", '):line.rindex(">>")]))
            a, e = j["a"], j["e"]
            st["edges"] += 1
            first = e["w"] == "w1" and e["k"] == 0
            if a.get("rsv") == 40:
                st["rsv40_steps"] += 1
            if a["op"] == "tx" and a["acc"] == 0:
                st["dropped"] += 1
            if e["skip"]:
                st["skip_windows"] += 1
            for s in e["ship"]:
                if a["loss"] != "none":
                    st["lossy_slices"] += 1
                    if s["last"]:
                        st["lossy_last_slices"] += 1
                if not first:
                    continue
                room = MAX_DATA_PER_SLICE - s["size"]
                st["closed_by_tx" if a["op"] == "tx" else "closed_by_tick" if a["op"] == "tick" else "last_by_pr"] += 1
                if room == 0:
                    st["exactly_full"] += 1
                if s["idx"] > 0 and s["par"] != "none":
                    st["switch_later"] += 1
                    if room == 0:
                        st["switch_exactly_full"] += 1
                if s["idx"] > 0 and s["par"] == "none" and 1 <= room <= 39:
                    st["room_1_39"] += 1
                if s["idx"] > 0 and s["par"] == "none" and room == 40:
                    st["room_40"] += 1
            if e["done"]:
                if not first:
                    st["later_blocks"] += 1
                    if e["k"] > 0 and e["eff"] == f"K{e['k'] - 1}":
                        st["chained_parent"] += 1
                    if e["k"] == 3:
                        st["windows_completed"] += 1
                        if e["w"] == "w4":
                            st["next_window_completed"] += 1
                elif a["v"] == "ready":
                    st["done_ready"] += 1
                elif e["eff"] == "A":
                    st["done_same"] += 1
                else:
                    st["done_switched"] += 1
    return st


NEED = ["done_ready", "done_same", "done_switched", "switch_later", "exactly_full", "switch_exactly_full",
        "room_1_39", "room_40", "dropped", "closed_by_tx", "closed_by_tick", "rsv40_steps"]
NEED_WINDOW = ["skip_windows", "later_blocks", "windows_completed", "next_window_completed", "chained_parent",
               "lossy_slices", "lossy_last_slices"]


def replay(ctx, name, c, as_is, entry, starts, max_div=400):
    """TLC dump of one model + replay of every transition into the real code"""
    r = ctx.tlc(name, "MC_Producer", cfg(c, as_is=as_is, invariants=([] if as_is else INVS), starts=starts), "",
                workers=6, timeout=1500, heap="6g")
    rep = ctx.harness(["replay-producer", "--tlc-out", r.out_path, "--entry", entry, "--delta-block", c["db"],
                       "--delta-first", c["df"], "--seed", ctx.seed, "--max-div", max_div])
    rep["model"] = name
    if rep["edges"] != r.generated - rep["init"]:
        raise ToolError(f"{name}: dump has {rep['edges']} edges, TLC generated {r.generated}")
    return r, rep


def rm(path):
    try:
        os.remove(path)
    except OSError:
        pass


def run_model(ctx, name="producer", relevant=None, entry=None, race=False):
    """TLC: the intended producer satisfies every invariant (harness clock and wall clock, is_max with a small
    constant); the transcriptions of unrepaired code violate theirs (sharpness); every transition of the intended
    model is replayed into the real BlockProducer."""
    quick = ctx.tier == "quick"
    c = QUICK if quick else THOROUGH
    starts = STARTS + (RACE_STARTS if race else [])
    # 1. sharpness: the transcription without the reservation (repaired by 92ea5f1) must overflow a slice, the one
    #    that looks at the previous block before the finalization must start a block it can never complete
    for (tag, as_is, inv, st) in [("noreserve", ["noreserve"], "InvNoOverflow", STARTS),
                                  ("blockfirst", ["blockfirst"], "InvCanComplete", STARTS + RACE_STARTS)]:
        w = ctx.tlc(f"{name}_{tag}_w", "MC_Producer", cfg(QUICK, as_is=as_is, dump=False, invariants=[inv], starts=st), "",
                    workers=4, timeout=600, heap="4g", expect_violation=inv)
        if w.violated != inv:
            raise ToolError(f"vacuity: the transcription '{tag}' does not violate {inv} ({w.error or w.violated})")
        ctx.notes.setdefault("witnesses_reached", []).append(f"{tag}:{inv}")
    # 2. design-level variants that are not replayed: wall clock (std Instant advances), SliceIndex::MAX; they
    #    always include the race situations (the intended rule decides them)
    allst = STARTS + RACE_STARTS
    if not quick:
        ctx.tlc(f"{name}_wall", "MC_Producer", cfg(THOROUGH, frozen=False, dump=False, starts=allst), "", workers=6, timeout=900, heap="6g")
        ctx.tlc(f"{name}_ismax", "MC_Producer", cfg(ISMAX, dump=False, starts=allst), "", workers=4, timeout=600, heap="4g")
        ctx.tlc(f"{name}_ismax_wall", "MC_Producer", cfg(ISMAX, frozen=False, dump=False, starts=allst), "", workers=4, timeout=600, heap="4g")
        ctx.witness(f"{name}_ismax", "MC_Producer", cfg(ISMAX, dump=False, invariants=[], view=False, starts=allst), "", ["W_Await"])
    else:
        ctx.tlc(f"{name}_wall", "MC_Producer", cfg(QUICK, frozen=False, dump=False, starts=allst), "", workers=4, timeout=600, heap="4g")
    # 3. intended model -> real code through the real block_production_loop (wait_for_first_slot on the real pool and
    #    blockstore, ParentReady / finalization from real certificates).  thorough: the large model, the model
    #    with every loss pattern, and the one-block model through the direct calls
    runs = [(name, c, entry or "loop", starts)]
    if not quick and entry is None:
        runs.append((name + "_lossy", LOSSY, "loop", starts))
        runs.append((name + "_direct", DIRECT, "direct", ["pr", "blk"]))
    hit_race = False
    for (nm, cc, en, st_) in runs:
        r, rep = replay(ctx, nm, cc, (), en, st_)
        st = dump_stats(r.out_path)
        need = NEED + (NEED_WINDOW if cc["w"] == 4 else [])
        if len(cc["loss"]) == 1:
            need = [k for k in need if not k.startswith("lossy")]
        missing = [k for k in need if st[k] == 0]
        if missing:
            raise ToolError(f"vacuity: {nm} never exercises {missing}")
        seen = {k: rep.get(k, 0) for k in ("windows_skipped", "windows_completed", "failed_sends")}
        if len(cc["loss"]) == 1:
            seen.pop("failed_sends")
        if cc["w"] == 4 and any(v == 0 for v in seen.values()):
            raise ToolError(f"vacuity: the replay of {nm} saw {seen}")
        ctx.notes.setdefault("producer", []).append({"model": nm, "entry": en, "stats": st, "replay": seen})
        ctx.replay_report(nm, rep, relevant)
        hit_race |= any(is_race(d["fingerprint"]) for d in rep.get("divergences", []))
        rm(r.out_path)
    # 4. the code diverges in the race situations: the transcription of the code ("blockfirst") is replayed - it
    #    covers every other behaviour of those runs (its divergences go through the same filter) and exhibits
    #    the consequence: every panic it predicts and the real task reproduces is the crash itself
    if hit_race:
        nm = name + "_asis"
        r, rep = replay(ctx, nm, ASIS, ["blockfirst"], entry or "loop", RACE_STARTS)
        ctx.replay_report(nm, rep, relevant)
        ctx.notes.setdefault("producer", []).append(
            {"model": nm, "conforms_to_code": rep["complete"], "panics_reproduced": rep["panics_reproduced"]})
        if rep["panics_reproduced"] > 0 and (relevant is None or relevant("asis|panic:sender", ["panic"])):
            ctx.divergence(name, "asis|panic:sender",
                           {"what": "the real producer task panics where the transcription of the code predicts it "
                                    "(.expect(\"ParentReady sender should not be dropped\"): optimistic production was "
                                    "started for a window the pool had already pruned; the next finalization drops the "
                                    "oneshot sender)",
                            "panics_reproduced": rep["panics_reproduced"], "walk": rep["panic_walk"],
                            "edges": rep["edges"], "conforms": rep["complete"]})
        rm(r.out_path)
