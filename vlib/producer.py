"""Leader block production (spec/Producer.tla, spec/MC_Producer.tla): TLC check, EDGE/STATE dump and
replay of every transition into the real BlockProducer (harness `replay-producer`).

Used by C10 (the producer task must not panic / wedge on any transaction stream and ParentReady timing) and
C02 (the block completes on time with the ready parent):
    from .. import producer as PR
    PR.run_model(ctx, "producer", relevant=PR.relevant_c10)      # in c10.py
    PR.run_model(ctx, "producer", relevant=PR.relevant_c02)      # in c02.py
"""
import json
import os
import re

from .core import ToolError

# the real constants of the crate (src/shredder.rs, src/lib.rs); wincode: Option<BlockId> = 1 / 41 bytes
MAX_DATA_PER_SLICE = 32767
MAX_TRANSACTION_SIZE = 512

INVS = ["InvNoOverflow", "InvNoPanic", "InvIndices", "InvOneLast", "InvFirstParent", "InvOneSwitch",
        "InvEffectiveParentIsReady", "InvTxConserved", "InvRoomForOne", "InvNeverStuck", "InvOutConsistent"]

# Transaction sizes: cost of a transaction = 8 + len.  A slice without parent has 32758 - 8 = 32750 bytes for
# transactions (32710 with a parent or with the 40 reserved bytes) and closes when less than 520 are left.
# A burst of 57 x 512 leaves 3110 (3070); with 512 (cost 520), 502 (510) and 503 (511) at most six single
# transactions close the slice with 0, 10, 20, 30, 39, 40, ... 519 bytes left: both sides of the 40-byte
# boundary of the parent switch and the exact fit (payload = MAX_DATA_PER_SLICE) are reached.
QUICK = dict(db=2, df=1, max_idx=1023, parents=["A", "B"], sizes=[512, 502], over=[513], burst=57,
             singles=6, slices=2)
THOROUGH = dict(db=3, df=1, max_idx=1023, parents=["A", "B", "C"], sizes=[512, 502, 503], over=[513], burst=57,
                singles=6, slices=3)
# SliceIndex::MAX is 1023 in the code; the `is_max` path (last slice forced, ParentReady awaited before it is
# shipped) is checked by TLC only, with MaxIdx = 2
ISMAX = dict(QUICK, max_idx=2, slices=3)


def tla_set(xs):
    return "{" + ", ".join(f'"{x}"' if isinstance(x, str) else str(x) for x in xs) + "}"


def cfg(c, as_is=False, frozen=True, invariants=INVS, dump=True, view=True, variants=("ready", "notready")):
    s = f"""CONSTANTS
  MaxData = {MAX_DATA_PER_SLICE}
  MaxTx = {MAX_TRANSACTION_SIZE}
  DeltaBlock = {c['db']}
  DeltaFirst = {c['df']}
  MaxIdx = {c['max_idx']}
  CodeAsIs = {'TRUE' if as_is else 'FALSE'}
  Frozen = {'TRUE' if frozen else 'FALSE'}
  Variants = {tla_set(list(variants))}
  Parents = {tla_set(c['parents'])}
  TxSizes = {tla_set(c['sizes'])}
  OverSizes = {tla_set(c['over'])}
  BurstN = {c['burst']}
  BurstLen = {MAX_TRANSACTION_SIZE}
  MaxSingles = {c['singles']}
  MaxSlices = {c['slices']}
INIT Init
NEXT Next
CHECK_DEADLOCK FALSE
"""
    if view:
        s += "VIEW View\n"
    if dump:
        s += "ACTION_CONSTRAINT EmitEdge\nINVARIANT EmitState\n"
    if invariants:
        s += "INVARIANTS\n  " + " ".join(invariants) + "\n"
    return s


# ---------------------------------------------------------------- relevance filters
def reservation(fp):
    """divergence at a step taken while the intended 40-byte reservation is in force, or the reproduced crash"""
    return bool(re.search(r":rsv40\|", fp)) or fp.startswith("asis|")


def relevant_c10(fp, fields):
    """C10: the task panics / stops, hostile (oversized) transactions, content of the slices, the reservation"""
    return reservation(fp) or any(f in ("panic", "chk") for f in fields)


def relevant_c02(fp, fields):
    """C02: slices / completion / parent at the wrong step (timing, last flag, ready parent)"""
    return not relevant_c10(fp, fields)


# ---------------------------------------------------------------- vacuity: what the dump must contain
def dump_stats(path):
    st = dict(edges=0, done_ready=0, done_same=0, done_switched=0, switch_later=0, exactly_full=0,
              switch_exactly_full=0, room_1_39=0, room_40=0, dropped=0, closed_by_tx=0, closed_by_tick=0,
              last_by_pr=0, rsv40_steps=0)
    with open(path, errors="replace") as f:
        for line in f:
            if not line.startswith('<<"EDGE"'):
                continue
            j = json.loads(json.loads(line[len('<<"EDGE", '):line.rindex(">>")]))
            a, e = j["a"], j["e"]
            st["edges"] += 1
            if a.get("rsv") == 40:
                st["rsv40_steps"] += 1
            if a["op"] == "tx" and a["acc"] == 0:
                st["dropped"] += 1
            for s in e["ship"]:
                room = MAX_DATA_PER_SLICE - s["size"]
                st["closed_by_tx" if a["op"] == "tx" else "closed_by_tick" if a["op"] == "tick" else "last_by_pr"] += 1
                if room == 0:
                    st["exactly_full"] += 1
                if s["idx"] > 0 and s["par"] != "none":
                    st["switch_later"] += 1
                    if room == 0:
                        st["switch_exactly_full"] += 1
                if s["idx"] > 0 and s["par"] == "none" and 1 <= room <= 39:
                    st["room_1_39"] += 1
                if s["idx"] > 0 and s["par"] == "none" and room == 40:
                    st["room_40"] += 1
            if e["done"]:
                if a["v"] == "ready":
                    st["done_ready"] += 1
                elif e["eff"] == "A":
                    st["done_same"] += 1
                else:
                    st["done_switched"] += 1
    return st


NEED = ["done_ready", "done_same", "done_switched", "switch_later", "exactly_full", "switch_exactly_full",
        "room_1_39", "room_40", "dropped", "closed_by_tx", "closed_by_tick", "rsv40_steps"]


def replay(ctx, name, c, as_is, entry, relevant, max_div=400):
    """TLC dump of one model + replay of every transition into the real code"""
    r = ctx.tlc(name, "MC_Producer", cfg(c, as_is=as_is, invariants=([] if as_is else INVS)), "",
                workers=6, timeout=1500, heap="6g")
    rep = ctx.harness(["replay-producer", "--tlc-out", r.out_path, "--entry", entry, "--delta-block", c["db"],
                       "--delta-first", c["df"], "--seed", ctx.seed, "--max-div", max_div])
    rep["model"] = name
    if rep["edges"] != r.generated - rep["init"]:
        raise ToolError(f"{name}: dump has {rep['edges']} edges, TLC generated {r.generated}")
    return r, rep


def run_model(ctx, name="producer", relevant=None, entry=None):
    """TLC: the intended producer satisfies every invariant (harness clock and wall clock, is_max with a small
    constant), the pre-repair transcription violates NoOverflow (sharpness); every transition of the intended
    model is replayed into the real BlockProducer."""
    quick = ctx.tier == "quick"
    c = QUICK if quick else THOROUGH
    # 1. sharpness: the transcription of the code before the repair must overflow a slice
    w = ctx.tlc(f"{name}_asis_w", "MC_Producer", cfg(QUICK, as_is=True, dump=False, invariants=["InvNoOverflow"]), "",
                workers=4, timeout=600, heap="4g", expect_violation="InvNoOverflow")
    if w.violated != "InvNoOverflow":
        raise ToolError(f"vacuity: the pre-repair transcription does not overflow ({w.error or w.violated})")
    ctx.notes.setdefault("witnesses_reached", []).append("asis:InvNoOverflow")
    # 2. design-level variants that are not replayed: wall clock (std Instant advances), SliceIndex::MAX
    if not quick:
        ctx.tlc(f"{name}_wall", "MC_Producer", cfg(THOROUGH, frozen=False, dump=False), "", workers=6, timeout=900, heap="6g")
        ctx.tlc(f"{name}_ismax", "MC_Producer", cfg(ISMAX, dump=False), "", workers=4, timeout=600, heap="4g")
        ctx.tlc(f"{name}_ismax_wall", "MC_Producer", cfg(ISMAX, frozen=False, dump=False), "", workers=4, timeout=600, heap="4g")
        ctx.witness(f"{name}_ismax", "MC_Producer", cfg(ISMAX, dump=False, invariants=[], view=False), "", ["W_Await"])
    else:
        ctx.tlc(f"{name}_wall", "MC_Producer", cfg(QUICK, frozen=False, dump=False), "", workers=4, timeout=600, heap="4g")
    # 3. intended model -> real code.  quick: through the real block_production_loop (wait_for_first_slot, ParentReady
    #    from the real pool); thorough: the large model through the loop, the small one through the direct calls
    runs = [(name, c, entry or "loop")]
    if not quick and entry is None:
        runs.append((name + "_direct", QUICK, "direct"))
    hit_reservation = False
    for (nm, cc, en) in runs:
        r, rep = replay(ctx, nm, cc, False, en, relevant)
        st = dump_stats(r.out_path)
        missing = [k for k in NEED if st[k] == 0]
        if missing:
            raise ToolError(f"vacuity: {nm} never exercises {missing}")
        ctx.notes.setdefault("producer", []).append({"model": nm, "entry": en, "stats": st})
        ctx.replay_report(nm, rep, relevant)
        hit_reservation |= any(reservation(d["fingerprint"]) for d in rep.get("divergences", []))
        try:
            os.remove(r.out_path)
        except OSError:
            pass
    # 4. the code lacks the reservation: the intended replay stops at those steps, so the pre-repair transcription
    #    (which such a tree conforms to) is replayed instead - it covers every other behaviour (its divergences go
    #    through the same filter) and exhibits the consequence: every panic it predicts and the real task
    #    reproduces is the crash itself (reported once, with the shortest walk)
    if hit_reservation:
        nm = name + "_asis"
        r, rep = replay(ctx, nm, c, True, entry or "loop", relevant)
        ctx.replay_report(nm, rep, relevant)
        ctx.notes.setdefault("producer", []).append(
            {"model": nm, "conforms_to_pre_repair_code": rep["complete"], "panics_reproduced": rep["panics_reproduced"]})
        if rep["panics_reproduced"] > 0 and (relevant is None or relevant("asis|panic:shred", ["panic"])):
            ctx.divergence(name, "asis|panic:shred",
                           {"what": "the real producer task panics where the pre-repair transcription predicts it "
                                    "(.expect(\"shredding of valid slice should never fail\"): payload > MAX_DATA_PER_SLICE "
                                    "after apply_parent_ready put Some(parent) into a full slice)",
                            "panics_reproduced": rep["panics_reproduced"], "walk": rep["panic_walk"],
                            "edges": rep["edges"], "conforms": rep["complete"]})
        try:
            os.remove(r.out_path)
        except OSError:
            pass
