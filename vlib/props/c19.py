"""C19 Wire format: messages round-trip exactly and fit one datagram.

spec/Wire.tla models every message as an ordered list of typed fields (sizes as a function of the
validator count, certificate shape, shredder and slice payload size), the sequential decoder
(`Accepts`), encode(decode(.)) (`ReEnc`) and the grammar-level malformed classes with the byte
edits realising them.  spec/MC_Wire.tla enumerates the cases; TLC checks FitsDatagram, RoundTrip,
StrictRejected, NormalForm on every case and prints the cases replayed by harness `replay-wire`
against wincode::serialize / alpenglow::network::deserialize with real keys, shredders, proofs."""
import random
import subprocess

from ..core import ToolError

INVS = ["AllWellFormed", "FitsDatagram", "RoundTripInv", "StrictRejected", "NormalFormInv",
        "MalConsistent", "ReEncShrinks"]
MAX_SIGNERS = 2048
MAX_DLEN = 32758          # regular shredder, no parent
MAL_CLASSES = ["trailing1", "trailing8", "truncate1", "tag_oob", "tag_max", "idx_oob", "idx_max", "idx_hi32", "idx_hi56",
               "vidx_big", "words_gt_max", "words_to_max", "extra_word", "nbits_gt_alloc",
               "nbits_zero", "nbits_small", "garbage_live", "len_overflow", "flip_content", "tx_oversize",
               "tx_fill_mtu", "drop_half"]


def tla_set(xs):
    return "{" + ", ".join(str(x) for x in sorted(set(xs))) + "}"


def boundary_ns():
    ns = {1, 2, 3}
    for w in range(1, MAX_SIGNERS // 64 + 1):
        ns.update({64 * w - 1, 64 * w, 64 * w + 1})
    return {n for n in ns if 1 <= n <= MAX_SIGNERS}


def cfg(invs):
    s = """CONSTANTS
  CertNs <- cCertNs
  FullNs <- cFullNs
  MalNs <- cMalNs
  AllDlens <- cAllDlens
  EmitShredBytes <- cEmitSB
  SampleDlens <- cSample
  AllJDlens <- cAllJ
INIT Init
NEXT Next
CHECK_DEADLOCK FALSE
"""
    if invs:
        s += "INVARIANTS\n  " + " ".join(invs) + "\n"
    return s


def defs(cert_ns, full_ns, mal_ns, all_dlens, emit_sb, sample, all_j):
    return (f"cCertNs == {cert_ns}\ncFullNs == {full_ns}\ncMalNs == {tla_set(mal_ns)}\n"
            f"cAllDlens == {'TRUE' if all_dlens else 'FALSE'}\ncEmitSB == {tla_set(emit_sb)}\n"
            f"cSample == {tla_set(sample)}\ncAllJ == {tla_set(all_j)}\n")


def run(ctx):
    ctx.build_harness()
    rnd = random.Random(ctx.seed)
    bnd = boundary_ns()
    all_classes = list(range(2, 1025, 2))
    if ctx.tier == "quick":
        full = set(bnd) | set(rnd.sample(range(1, MAX_SIGNERS + 1), 12))
        mal = {1, 63, 64, 65, 1023, 1024, 1025, 2047, 2048} | set(rnd.sample(sorted(bnd), 4))
        emit_sb = {2, 4, 6, 510, 512, 514, 1020, 1022, 1024} | set(rnd.sample(all_classes, 8))
        sample = rnd.sample(range(0, MAX_DLEN + 1), 6)
        d = defs("1..2048", tla_set(full), mal, False, emit_sb, sample, [0])
        workers, timeout = 4, 600
    else:
        mal = set(range(1, MAX_SIGNERS + 1))
        sample = rnd.sample(range(0, MAX_DLEN + 1), 300)
        d = defs("1..2048", "1..2048", mal, True, all_classes, sample,
                 [0, 1, 32702, 32718, 32742, 32758])
        workers, timeout = 4, 2400
    ctx.assumptions += [
        "blst point (de)serialisation is canonical (trusted library); field contents other than tags, "
        "indices, lengths and bitmask framing are opaque in the specification",
        "the wire decoder cannot know the validator count: validator indices and bitmask lengths are "
        "checked against the epoch later (ValidatedVote / ValidatedCert, C12), not here",
    ]
    # vacuity: the largest certificate and an accepted garbage-bit encoding are enumerated
    wd = defs("{2048}", "{2048}", {65}, False, {2}, [], [0])
    ctx.witness("wire_w", "MC_Wire", cfg([]), wd, ["W_MaxCert", "W_GarbageAccepted"], workers=2)
    if ctx.tier != "quick":
        ctx.witness("wire_w", "MC_Wire", cfg([]), wd, ["W_MaxShred"], workers=2)

    r = ctx.tlc("wire", "MC_Wire", cfg(INVS), d, workers=workers, timeout=timeout, heap="6g")
    lines = int(subprocess.run(["grep", "-a", "-c", '^<<"CASE"', r.out_path],
                               capture_output=True, text=True).stdout.strip() or "0")
    if lines == 0:
        raise ToolError("wire: TLC emitted no CASE lines")
    rep = ctx.harness(["replay-wire", "--tlc-out", r.out_path, "--seed", ctx.seed, "--threads", 6])
    if rep.get("raw_cases") != lines:
        raise ToolError(f"wire: harness read {rep.get('raw_cases')} CASE lines, TLC printed {lines}")
    hist = rep.get("act_hist", {})
    # vacuity on the replay side: every variant and every malformed class was exercised
    need = [f"vote.{k}|none" for k in ("notar", "nf", "skip", "sf", "final")]
    need += [f"cert.{k}|none" for k in ("notar", "nf", "skip", "ff", "final")]
    need += [f"shred.{s}|none" for s in ("regular", "coding", "aont", "pets")]
    need += [f"rresp.shred.{s}|none" for s in ("regular", "coding", "aont", "pets")]
    need += [f"rreq.{k}|none" for k in ("last", "root", "shred")]
    need += [f"rresp.{k}|none" for k in ("last", "root", "nack")]
    need += ["tx.-|none"]
    missing = [x for x in need if hist.get(x, 0) == 0]
    seen_classes = {k.split("|")[1] for k in hist if "|" in k and not k.startswith("stricter")}
    missing += [c for c in MAL_CLASSES if c not in seen_classes]
    if missing:
        raise ToolError(f"wire: vacuous replay, never exercised: {missing}")
    if rep.get("max_n") != MAX_SIGNERS:
        raise ToolError(f"wire: largest validator count replayed is {rep.get('max_n')}")
    stricter = {k: v for k, v in hist.items() if k.startswith("stricter")}
    if stricter:
        ctx.notes["decoder_stricter_than_spec"] = stricter
    ctx.notes["max_wellformed_size"] = rep.get("max_wellformed_size")
    ctx.notes["case_lines"] = lines
    ctx.replay_report("wire", rep)
    if ctx.tier == "quick":
        ctx.exhaustive = False
    return ctx.finish(rule="one case = (message variant with its size parameters, malformed class); sizes for "
                           "every validator count 1..2048 and (thorough) every slice data length are checked "
                           "by TLC; replayed: every vote kind, certificate type x halves x signer shape, every "
                           "shredder at every shred-size class boundary, repair requests/responses, "
                           "transactions 0..512, and every malformed class at every applicable field")
