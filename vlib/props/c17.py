"""C17 Committee sampling always yields a well-formed, stake-respecting committee.

spec/Sampler.tla states the per-draw guarantees declaratively (exact integer arithmetic).
(a) MC_Sampler: TLC enumerates every small validator set / committee size, checks that the
    guarantees are consistent and satisfiable, and emits each case with the expectations;
    the harness draws from every shipped strategy and compares (spec -> code).
(b) Trace_Sampler: the harness records draws of every shipped strategy over generated stake
    distributions (N up to 1000 / 2000); TLC judges every recorded event (code -> spec).
"""
import os
import time

from ..core import ToolError

DECAY = "DP == <<<<1, 1>>, <<2, 1>>, <<5, 2>>>>\n"
INVS = ["FloorsFit", "CanonFAOK", "FaSplit", "FaDiscriminates", "NoZeroDiscriminates",
        "CanonFA1OK", "AllZeroNoFallback", "FaExactSplit", "FaExactDiscriminates",
        "DecayCanonOK", "DecayInfeasibleNone", "ShuffleCanonOK", "ShuffleBrute"]
LABELS = ["all_same", "uniform", "stake_weighted", "turbine", "turbine_f2", "partition",
          "fa1_partition", "fa1_iid", "fa2", "decay_1_1", "decay_2_1", "decay_5_2", "weighted_shuffle"]


def mc_cfg(max_n, max_stake, max_k, brute_k):
    return f"""CONSTANTS
  MaxN = {max_n}
  MaxStake = {max_stake}
  MaxK = {max_k}
  DecayParams <- DP
  BruteK = {brute_k}
INIT Init
NEXT Next
CHECK_DEADLOCK FALSE
INVARIANTS
  {" ".join(INVS)}
"""


TRACE_CFG = """INIT Init
NEXT Next
CHECK_DEADLOCK FALSE
POSTCONDITION AllJudged
"""


def run(ctx):
    ctx.build_harness()
    quick = ctx.tier == "quick"
    ctx.exhaustive = False   # the stake vectors of (a) are exhaustive, the random sources are sampled
    ctx.assumptions += [
        "the random source is rand::StdRng seeded like Rotor::sample_relays; guarantees are per-draw, "
        "statistical quality of the distributions is not judged",
        "TLC integers are 32 bit: the floor(f*k) guarantee is evaluated for stake*k < 2^31; lamport-scale "
        "stake vectors are judged on panics, size, range, zero-weight, cap and determinism only",
        "validator sets containing zero stakes may be refused (the property promises construction for "
        "positive stakes); DecayingAcceptanceSampler may refuse when k > ceil(max_samples) * #validators",
    ]

    # ---------------------------------------------------------------- (a) small cases, spec -> code
    max_n, max_stake, max_k, brute_k = (3, 6, 7, 4) if quick else (4, 8, 8, 4)
    phase = ctx.notes.setdefault("phase_s", {})
    t0 = time.time()
    r = ctx.tlc("small", "MC_Sampler", mc_cfg(max_n, max_stake, max_k, brute_k), DECAY,
                workers=4, timeout=1500)
    phase["tlc_small"] = round(time.time() - t0, 1)
    t0 = time.time()
    expect_cases = sum((max_stake + 1) ** n - 1 for n in range(1, max_n + 1)) * max_k
    if r.distinct != expect_cases:
        raise ToolError(f"MC_Sampler enumerated {r.distinct} cases, expected {expect_cases}")
    rep = ctx.harness(["replay-sampler", "--cases", r.out_path, "--seeds", 2 if quick else 3,
                       "--infeasible-every", 16 if quick else 64, "--seed", ctx.seed], timeout=3000)
    if rep["nodes"] != expect_cases:
        raise ToolError(f"harness replayed {rep['nodes']} cases, TLC emitted {expect_cases}")
    h = rep["act_hist"]
    for key in ["case.owed", "case.owed_boundary", "case.zero", "case.decay_infeasible",
                "case.exact_next_to_residual"] + \
            ["strategy." + x for x in LABELS]:
        if not h.get(key):
            raise ToolError(f"vacuity: no case of kind {key} in the small enumeration")
    ctx.replay_report("sampler_cases", rep)
    os.remove(r.out_path)

    phase["replay_cases"] = round(time.time() - t0, 1)
    t0 = time.time()

    # ---------------------------------------------------------------- (b) recorded draws, code -> spec
    tdir = os.path.join(ctx.work, "trace")
    rec = ctx.harness(["replay-sampler", "--record", tdir, "--tier", ctx.tier, "--seed", ctx.seed],
                      timeout=3000)
    ctx.notes["recorded"] = {k: rec[k] for k in ("events", "draws", "hist", "max_n")}
    phase["record"] = round(time.time() - t0, 1)
    t0 = time.time()
    for kind in ("boundary", "exactheavy", "zeros", "whale"):
        if not rec["hist"].get("dist." + kind):
            raise ToolError(f"vacuity: no recorded stake vector of kind {kind}")
    pairs = []
    for i, ch in enumerate(rec["chunks"]):
        t = ctx.tlc(f"trace{i:03d}", "Trace_Sampler", TRACE_CFG, "", workers=1, timeout=600,
                    heap="4g", env={"TRACE": ch["path"]})
        if t.distinct != ch["events"] + 1:
            raise ToolError(f"trace chunk {i}: TLC judged {t.distinct - 1} of {ch['events']} events")
        pairs.append(f"{ch['path']}={t.out_path}")
    # chunk models are summarised (one entry per chunk would flood the evidence)
    chunk_models = [m for m in ctx.models if m["model"].startswith("trace")]
    ctx.models = [m for m in ctx.models if not m["model"].startswith("trace")]
    ctx.models.append({"model": "Trace_Sampler", "chunks": len(chunk_models),
                       "generated": sum(m["generated"] for m in chunk_models),
                       "distinct": sum(m["distinct"] for m in chunk_models),
                       "depth": max((m["depth"] for m in chunk_models), default=0),
                       "wall_s": round(sum(m["wall_s"] for m in chunk_models), 1),
                       "mode": "trace validation (one state per recorded event)", "violated": None})
    phase["tlc_trace"] = round(time.time() - t0, 1)
    t0 = time.time()
    trep = ctx.harness(["replay-sampler", "--judge", ",".join(pairs), "--seed", ctx.seed], timeout=3000)
    if trep["nodes"] != rec["events"]:
        raise ToolError(f"judged {trep['nodes']} events, recorded {rec['events']}")
    phase["judge"] = round(time.time() - t0, 1)
    th = trep["act_hist"]
    for key in ["events.small", "events.projected", "shuffle.mixed_zero", "shuffle.above_fanout_power"] + ["strategy." + x for x in LABELS]:
        if not th.get(key):
            raise ToolError(f"vacuity: no recorded event of kind {key}")
    ctx.replay_report("sampler_trace", trep)
    for ch in rec["chunks"]:
        os.remove(ch["path"])
    return ctx.finish(rule="(a) every validator set with N<=%d, stakes 0..%d (not all zero), k<=%d is one case, drawn "
                           "from every shipped strategy (two instances, several seeds); (b) every recorded event "
                           "(strategy, generated stake vector, k, seeds) is one TLC state judged against Sampler.tla"
                           % (max_n, max_stake, max_k))
