"""C06 Safe-to-notar / safe-to-skip are signalled exactly when the protocol allows."""
from .. import pool as P

INVS = ["S2NAsSoonAs", "S2SAsSoonAs", "S2NOnlyIf", "S2SOnlyIf", "AtMostOnce", "CountedOnce"]
BLOCKS = [((5, "A"), (4, "P")), ((5, "B"), (4, "P"))]


def low_scenarios(kinds):
    """Parent in slot 1, child in slot 2: the parent's FIRST certificate also finalizes slot 1 and moves
    the pruning watermark onto it (a fast-finalization certificate alone, or final + notar in either order)."""
    blocks = [((2, "A"), (1, "P")), ((2, "B"), (1, "P"))]
    votes = P.scn_votes([2], ["A", "B"], kinds)
    return [P.scn(votes=votes, certs=[("ff", 1, "P")], blocks=blocks),
            P.scn(votes=votes, certs=[("final", 1, "-"), ("notar", 1, "P")], blocks=blocks)]


def scenarios(kinds, parent_kinds, parent_votes=False, sibling=()):
    out = []
    for pk in parent_kinds:
        votes = P.scn_votes([5], ["A", "B"], kinds)
        out.append(P.scn(votes=votes, certs=[(pk, 4, "P")], blocks=BLOCKS))
    if sibling:
        # the certificate in the parent slot is for ANOTHER block than B's parent: B must never be safe
        votes = P.scn_votes([5], ["A", "B"], kinds)
        for pk in sibling:
            out.append(P.scn(votes=votes, certs=[(pk, 4, "P")],
                             blocks=[((5, "A"), (4, "P")), ((5, "B"), (4, "Q"))]))
    if parent_votes:
        # the parent's certificate is formed by votes inside the pool
        votes = "(" + P.scn_votes([5], ["A", "B"], ["notar", "skip"]) + " \\cup " + \
                P.scn_votes([4], ["P"], ["notar"]) + ")"
        out.append(P.scn(votes=votes, blocks=BLOCKS))
    return out


def run(ctx):
    ctx.build_harness()
    if ctx.tier == "quick":
        P.run_model(ctx, "s2n_221_own0", [2, 2, 1], 0, 7,
                    scenarios(["notar", "skip", "sf"], ["notar", "ff"], sibling=["ff", "nf"]), INVS, P.rel_c06,
                    witnesses=["W_S2N", "W_S2S"])
        P.run_model(ctx, "s2n_221_own2", [2, 2, 1], 2, 7,
                    scenarios(["notar", "skip"], ["nf"], parent_votes=True), INVS, P.rel_c06)
        P.run_model(ctx, "s2n_low_221_own0", [2, 2, 1], 0, 7, low_scenarios(["notar", "skip"]), INVS, P.rel_c06)
    else:
        for stakes, own, kinds in (([2, 2, 1], 0, ["notar", "nf", "skip", "sf", "final"]),
                                   ([2, 2, 1], 2, ["notar", "nf", "skip", "sf"]),
                                   ([3, 1, 1], 1, ["notar", "skip", "sf"]),
                                   ([1, 1, 1], 0, ["notar", "skip", "sf"])):
            P.run_model(ctx, f"s2n_{''.join(map(str, stakes))}_own{own}", stakes, own, 7,
                        scenarios(kinds, ["notar", "nf", "ff"], parent_votes=True, sibling=["notar", "nf", "ff"]),
                        INVS, P.rel_c06, sample=1200000, timeout=3500, witnesses=["W_S2N", "W_S2S"])
        P.run_model(ctx, "s2n_low_221_own0", [2, 2, 1], 0, 7, low_scenarios(["notar", "skip", "sf"]), INVS,
                    P.rel_c06, sample=1200000, timeout=3500)
        P.run_model(ctx, "s2n_11111_own0", [1, 1, 1, 1, 1], 0, 7,
                    scenarios(["notar", "skip"], ["notar"]), INVS, P.rel_c06, sample=800000, timeout=3500)
    # code -> spec on real executions: every pool call / Votor step of every correct node of simulated networks
    # (equivocating and noisy Byzantine validators, loss, crashes, standstill recovery) is a transition of the spec
    from .. import nodetrace as NT
    NT.component_sims(ctx, lambda a: "ev.SafeToNotar" in a or "ev.SafeToSkip" in a)
    return ctx.finish(rule="every transition (vote / own vote / block registration / parent certificate arriving in any order) is one case")
