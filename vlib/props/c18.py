"""C18 Standstill recovery re-broadcasts a bundle sufficient to catch up, at any time."""
from .. import pool as P
from .. import votor as V
from . import c05, c07

INVS = ["BundleProvesFinalized", "FreshPoolCatchesUp", "FinalizedIff", "HighestIsFinalized"]


def run(ctx):
    # recovery is triggered after every prefix of every history of the certificate models ...
    rc = c07.run(ctx, invs=INVS, rel=P.rel_c18, witnesses=("W_Finalized", "W_Pruned"), finish=False)
    # ... and of a vote-level model (own votes for later slots are part of the bundle)
    votes = "(" + P.scn_votes([1], ["A"], ["notar", "final"]) + " \\cup " + \
        P.scn_votes([2], ["A"], ["notar", "nf", "skip", "sf"], validators=[0, 1]) + ")"
    s = P.scn(votes=votes, certs=[("skip", 3, "-")], blocks=[((1, "A"), (0, "G"))])
    P.run_model(ctx, "votes", [2, 2, 1], 0, 5, [s], INVS, P.rel_c18, constraint="Consistent",
                sample=(300000 if ctx.tier == "quick" else 2000000), timeout=3000)
    # ... and the voting component forwards the whole bundle in every Votor state (incl. after pruning)
    V.run_model(ctx, "votor_handover", c05.HANDOVER, 7, 7 if ctx.tier == "quick" else 9,
                relevant=lambda fp, fields: "Standstill" in fp,
                sample=60000 if ctx.tier == "quick" else 600000)
    # code -> spec on real executions: standstill recovery triggered periodically at every node of simulated networks;
    # every bundle must equal StandstillBundle of the pool state reached, and Votor must re-broadcast all of it
    from .. import nodetrace as NT
    NT.component_sims(ctx, lambda a: "standstill" in a, count=(2 if ctx.tier == "quick" else None))
    return ctx.finish(rule="recover_from_standstill is invoked in every reachable model state (self-loop "
                           "transition); each invocation with its bundle, receiver-side validation and "
                           "fresh-pool catch-up comparison is one case")
