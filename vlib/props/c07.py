"""C07 Parent-ready is announced exactly for certified, skip-connected parents."""
import random
from .. import pool as P

INVS = ["PRInputsJustified", "PRInputsComplete", "ReadySound", "ReadyComplete", "AnnouncedInQuery",
        "AtMostOnce", "WatermarkDecided"]

TWINS = {0: [((5, "Y5"), (2, "X2"))]}     # scenario index -> an equivocated second block of a FINALIZED slot
QUICK = [
    (["S", "F", "K", "N", "F"], (4, 8)),
    (["NS", "NFS", "K", "K", "S"], (4, 8)),
    (["F", "No", "U", "S"], (4,)),
    # a whole window skipped (in any order, e.g. its first slot last) behind a notarized block
    (["N", "K", "K", "K", "K", "K", "K"], (4, 8)),
    # an off-chain notarized block keeps the watermark low (its slot is decided only through a parent link), so a
    # notarization certificate can arrive for a slot that was already implicitly skipped (slot 4)
    (["F", "No", "F", "NS", "F"], (4,)),
]


def scenario_sets(ctx, quick_skip=()):
    if ctx.tier == "quick":
        return [x for i, x in enumerate([("q%d" % i, [P.chain_scenario(f, waits=w, twins=TWINS.get(i, ()))]) for i, (f, w) in enumerate(QUICK)]) if i not in quick_skip]
    rnd = random.Random(ctx.seed)
    out = [("q%d" % i, [P.chain_scenario(f, waits=w, twins=TWINS.get(i, ()))]) for i, (f, w) in enumerate(QUICK)]
    pool = []
    for _ in range(24):
        k = rnd.choice([4, 5, 5, 6])
        f = [rnd.choice(P.FATES) for _ in range(k)]
        # every other scenario: an equivocated second block in a finalized slot, hanging off an older block
        fin = [i + 1 for i, x in enumerate(f) if x in ("F", "S", "FS") and i >= 1]
        tw = ()
        if fin and rnd.random() < 0.5:
            s = rnd.choice(fin)
            ps = rnd.choice([t for t in range(0, s - 1)])
            tw = [((s, f"Y{s}"), (ps, "G" if ps == 0 else f"X{ps}"))]
        pool.append(P.chain_scenario(f, waits=(4, 8), twins=tw))
    for i in range(0, len(pool), 4):
        out.append(("r%d" % (i // 4), pool[i:i + 4]))
    return out


def run(ctx, invs=INVS, rel=P.rel_c07, witnesses=("W_Ann", "W_Pruned"), finish=True,
        node_rel=lambda a: "ev.ParentReady" in a, node_sims=None, quick_skip=(4,)):
    ctx.build_harness()
    ctx.assumptions += ["certificate universes are consistent (producible with <20% Byzantine stake): "
                        "one notarized block per slot, no skip certificate next to a finalization"]
    first = True
    # (the quick tier of C07 / C18 leaves the finality corner scenario q4 to C08)
    for name, scns in scenario_sets(ctx, quick_skip):
        P.run_model(ctx, "chain_" + name, [2, 2, 1], 0, 9, scns, invs + ["NoPanic"], rel,
                    witnesses=(witnesses if first else ()), timeout=3000,
                    sample=(400000 if ctx.tier == "quick" else 1500000))
        first = False
    # longer horizon (three windows) by simulation
    rnd = random.Random(ctx.seed + 7)
    scns = [P.chain_scenario([rnd.choice(P.FATES) for _ in range(9)], waits=(4, 8, 12),
                             with_votes=(rnd.randint(1, 9),)) for _ in range(6)]
    num, depth = (80, 36) if ctx.tier == "quick" else (1000, 45)
    P.run_sim(ctx, "chain_sim9", [2, 2, 1], 0, 13, scns, invs, rel, num, depth, timeout=3000)
    if not finish:
        return 0
    # code -> spec on real executions: every pool call / Votor step of every correct node of simulated networks
    # (equivocating and noisy Byzantine validators, loss, crashes, standstill recovery) is a transition of the spec
    from .. import nodetrace as NT
    NT.component_sims(ctx, node_rel, names=node_sims)
    return ctx.finish(rule="every transition of the certificate-delivery models (all arrival orders of a consistent "
                           "certificate universe + block registrations + waiter registration) is one case")
