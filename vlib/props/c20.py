"""C20 Execution state: persistent map semantics, fork isolation, content commitment.

spec/ExecState.tla + spec/MC_ExecState.tla, replayed by harness/src/execstate_driver.rs:
  * state models  (SInit/SNext): NF forks of (State, LtHash) under Insert / Remove / Fork
  * engine models (EInit/ENext): DummyExecution fed a block universe in every arrival order
"""
import os

from ..core import ToolError

S_INVS = ["MapGet", "MapLength", "MapIter", "ShapeCanonical", "EqIffSameContents", "LtHashMatches",
          "CommitIffSameContents", "RetIsOldValue", "ForkIsSnapshot"]
E_INVS = ["EngDomains", "EngFold", "EngSeed", "EngDeterministic", "EngPruned"]

# every structural case of the trie operations / engine paths must have been replayed
S_LABELS = ["ins:new", "ins:replace", "ins:split", "ins:splitchain", "rem:hit", "rem:hit-collapse",
            "rem:hit-cascade", "rem:miss-empty", "rem:miss-other", "fork:fresh", "fork:overwrite",
            "fork:same"]
E_LABELS = ["begin:none", "begin:entry", "begin:entry-byslot", "begin:hash", "begin:none-again",
            "exec:txs", "exec:empty", "exec:untracked", "end:event", "end:noevent", "fin:prune",
            "fin:keep"]

NOBLOCKS = "BU == {}\n"


def keyseq(keys):
    return "KS == <<" + ", ".join("<<" + ", ".join(k) + ">>" for k in keys) + ">>\n"


def block(s, h, par, slices, ms):
    p = "NoPar" if par is None else f'[s |-> {par[0]}, h |-> "{par[1]}"]'
    sl = "<<" + ", ".join("<<" + ", ".join(f'"{t}"' for t in s_) + ">>" for s_ in slices) + ">>"
    m = "{" + ", ".join(f'"{x}"' for x in ms) + "}"
    return f'[s |-> {s}, h |-> "{h}", par |-> {p}, sl |-> {sl}, ms |-> {m}]'


def universe(blocks):
    return "BU == {" + ",\n       ".join(block(*b) for b in blocks) + "}\n"


def cfg(kind, nv, nf, invs, dump, sim_depth=0):
    s = f"""CONSTANTS
  KeySeq <- KS
  NV = {nv}
  NF = {nf}
  BlockU <- BU
  SimDepth = {sim_depth}
INIT {kind}Init
NEXT {kind}Next
VIEW View
CHECK_DEADLOCK FALSE
"""
    if kind == "S":
        s += "PROPERTY ForkIsolation\n"
    if dump and sim_depth == 0:
        s += f"ACTION_CONSTRAINT EmitEdge\nINVARIANT {kind}EmitState\n"
    if sim_depth:
        s += "INVARIANT EmitSim\n"
    s += "INVARIANTS\n  " + " ".join(invs) + "\n"
    return s


def check_labels(name, rep, labels):
    missing = [x for x in labels if not rep.get("act_hist", {}).get(x)]
    if missing:
        raise ToolError(f"vacuity: {name}: cases never replayed: {missing}")


def fold(ctx, name, r, rep, labels, sim=False):
    rep["model"] = name
    if sim:
        ctx.states += rep["nodes"]
        ctx.transitions += rep["steps"]
    elif rep["edges"] != r.generated - rep["init"]:
        raise ToolError(f"{name}: dump has {rep['edges']} edges, TLC generated {r.generated}")
    if rep["steps"] == 0:
        raise ToolError(f"{name}: nothing replayed")
    ctx.replay_report(name, rep)
    if rep.get("div_count", 0) == 0:
        check_labels(name, rep, labels)
    for k in ("layouts", "commitment_classes", "timing_ms"):
        if k in rep:
            ctx.notes.setdefault("execstate", {}).setdefault(name, {})[k] = rep[k]
    try:
        os.remove(r.out_path)
    except OSError:
        pass


def state_model(ctx, name, keys, nv, nf, sample=None, labels=S_LABELS, timeout=2400):
    defs = keyseq(keys) + NOBLOCKS
    r = ctx.tlc(name, "MC_ExecState", cfg("S", nv, nf, S_INVS, True), defs, workers=6, timeout=timeout)
    args = ["replay-execstate", "--kind", "state", "--tlc-out", r.out_path, "--keys", ",".join(keys),
            "--nv", nv, "--forks", nf, "--seed", ctx.seed, "--max-div", 60]
    if sample:
        args += ["--sample", sample]
        ctx.exhaustive = False
    rep = ctx.harness(args)
    fold(ctx, name, r, rep, labels)


def state_sim(ctx, name, keys, nv, nf, num, depth, timeout=2400):
    defs = keyseq(keys) + NOBLOCKS
    r = ctx.tlc(name, "MC_ExecState", cfg("S", nv, nf, S_INVS, False, sim_depth=depth), defs, workers=4,
                simulate=f"num={num}", timeout=timeout, extra=["-depth", str(depth + 2)])
    ctx.exhaustive = False
    rep = ctx.harness(["replay-execstate", "--kind", "state", "--sim", "--tlc-out", r.out_path,
                       "--keys", ",".join(keys), "--nv", nv, "--forks", nf, "--seed", ctx.seed,
                       "--max-div", 60])
    if rep["walks"] < num // 2:
        raise ToolError(f"{name}: only {rep['walks']} of {num} simulated behaviours were dumped")
    fold(ctx, name, r, rep, [x for x in S_LABELS if x != "fork:fresh"], sim=True)


def engine_model(ctx, name, blocks, sample=None, labels=E_LABELS, timeout=2400):
    defs = keyseq(["0"]) + universe(blocks)
    r = ctx.tlc(name, "MC_ExecState", cfg("E", 1, 1, E_INVS, True), defs, workers=6, timeout=timeout)
    probes = sorted({(b[0], b[1]) for b in blocks} | {(b[0], "?") for b in blocks})
    args = ["replay-execstate", "--kind", "engine", "--tlc-out", r.out_path, "--probes",
            ",".join(f"{s}:{h}" for s, h in probes), "--seed", ctx.seed, "--max-div", 60]
    if sample:
        args += ["--sample", sample]
        ctx.exhaustive = False
    rep = ctx.harness(args)
    fold(ctx, name, r, rep, labels)


# block universes: (slot, hash, parent | None, slices, arrival paths)
#  chain 1A <- 2A, fork 2B on the same parent with the same transactions in another order,
#  3C on a parent that is never executed (fallback to its block hash) with an empty first slice;
#  t2 extends t1 by a zero byte, t3 is the empty transaction
U_QUICK = [
    (1, "A", None, [["t1"], ["t3"]], "PK"),
    (2, "A", (1, "A"), [["t1", "t2"]], "P"),
    (2, "B", (1, "A"), [["t2", "t1"]], "K"),
    (3, "C", (2, "X"), [[], ["t1"]], "K"),
]
#  deeper: grandchild without transactions, unknown parent, fork arriving by repair
U_DEEP = [
    (1, "A", None, [["t1"], ["t2"]], "PK"),
    (2, "A", (1, "A"), [["t1", "t2"]], "P"),
    (2, "B", (1, "A"), [["t2"], ["t1"]], "K"),
    (3, "A", (2, "A"), [[]], "P"),
    (3, "B", (2, "X"), [["t1"]], "K"),
]
#  hash reuse: an explicit genesis-hash parent must equal "no parent"; the same block hash in two
#  slots; a child of a block without transactions on an unknown parent equals a block on that
#  unknown parent directly (the fold over no transactions is the seed)
U_ALIAS = [
    (1, "A", None, [["t1", "t3"]], "PK"),
    (1, "B", (0, "G"), [["t1"], ["t3"]], "K"),
    (2, "A", (1, "X"), [], "P"),
    (3, "A", (2, "A"), [["t2"]], "PK"),
    (3, "B", (1, "X"), [["t2"]], "K"),
]
E_LABELS_ALIAS = ["begin:none", "begin:entry-byslot", "begin:hash", "begin:hash-again", "exec:txs",
                  "end:event", "end:noevent", "fin:prune"]


def run(ctx):
    ctx.build_harness()
    ctx.assumptions += [
        "SHA-256 is collision-free on the values compared (the lattice hash is modelled as an ideal "
        "multiset hash, the engine's rolling hash as an injective fold)",
        "engine: the by-slot parent lookup is only exercised while the pending block of that slot is "
        "the named parent (one in-progress block per slot on the dissemination path, as documented)",
    ]
    k4 = ["000", "001", "010", "100"]
    k5 = ["000", "001", "010", "011", "100"]
    if ctx.tier == "quick":
        state_model(ctx, "state_2forks_4keys", k4, 2, 2, sample=36000)
        state_sim(ctx, "state_sim_3forks_5keys", k5, 2, 3, num=120, depth=30)
        engine_model(ctx, "engine_quick", U_QUICK, sample=60000)
    else:
        state_model(ctx, "state_2forks_4keys", k4, 2, 2)
        state_model(ctx, "state_3forks_3keys", ["000", "001", "010"], 2, 3, sample=300000)
        state_model(ctx, "state_2forks_5keys", k5, 2, 2, sample=250000)
        state_sim(ctx, "state_sim_4forks_7keys", ["0000", "0001", "0010", "0100", "0101", "1000", "1111"],
                  3, 4, num=1000, depth=40)
        engine_model(ctx, "engine_quick", U_QUICK)
        engine_model(ctx, "engine_deep", U_DEEP, sample=400000)
        engine_model(ctx, "engine_alias", U_ALIAS, labels=E_LABELS_ALIAS)
    return ctx.finish(rule="state models: every (contents of all forks, operation) pair of the model is one "
                           "case, replayed in three key layouts; engine models: every (engine state, call) "
                           "pair; simulation: every step of every simulated behaviour")
