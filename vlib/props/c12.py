"""C12 Shreds are bound to leader, slot, slice and position; equivocation is detected.

spec/ShredAuth.tla (commitment algebra over ideal signatures + the ideal hash of Merkle.tla, try_new,
the block store of one slot) + spec/MC_ShredAuth.tla:
  store : the block store of one slot explored exhaustively over every arrival order of honest shreds,
          relay mutants and (Byzantine leader) conflicting signed slices  (small Total/Data)
  cases : every mutation of every field of a base shred / every replay, with every commitment the receiver
          can have cached -> CASE lines -> ValidatedShred::try_new            (harness/src/shredauth_driver.rs)
  seqs  : shred sequences through the same NodeStep operator -> SEQ lines ->
          BlockstoreImpl::cached_commitment / try_new / add_shred_from_dissemination + BlockstoreEvents."""
from ..core import ToolError

CONST = """CONSTANTS
  Total = {total}
  Data = {data}
  MaxSlices = 1024
  Contents = {{"A", "B", "C", "D", "Z"}}
  AsCoded = {ascoded}
  BaseIdx <- BaseIdxDef
  ZeroIdx <- ZeroIdxDef
  AllTargets = {alltargets}
  MCScn = "{scn}"
  SeqNs <- SeqNsDef
  SeqFs <- SeqFsDef
  SeqOrders <- SeqOrdersDef
CHECK_DEADLOCK FALSE
"""
CASE_INVS = ["CaseWellFormed", "BaseAccepted", "Conformance", "AcceptedImpliesSigned", "AlteredRejected",
             "CacheOnlyShortcutsIdentical", "TwoCommitmentsReported", "CorrectLeaderNeverAccused"]
STORE_INVS = ["MC_NeverFlagged", "MC_CacheOnlySigned", "MC_NeverBothAccepted", "MC_Step"]
SEQ_INVS = ["Seq_CorrectNeverFlagged", "Seq_ConflictReported"]


def tset(xs):
    return "{" + ", ".join(str(x) for x in xs) + "}"


def run(ctx):
    ctx.build_harness()
    quick = ctx.tier == "quick"
    ctx.assumptions += [
        "Ed25519 signatures are unforgeable and SHA-256 is collision resistant (the spec uses ideal signatures and an ideal injective hash)",
        "slice contents are well-formed (decodable payload, parent in the first slice only): malformed contents of a misbehaving leader belong to C13",
        "the block store is observed for one slot and blocks of one or two slices; shreds enter through add_shred_from_dissemination (the repair path shares BlockData::add_shred)"]
    if quick:
        base_idx, zero_idx, alltargets = [0, 5, 31, 32, 63], [0, 1, 10, 30, 31, 40], "FALSE"
        seq_ns, seq_fs, seq_orders = [0, 1, 2, 31], [3, 40], ['"asc"']
        store = {"correct": (6, 3), "byz": (4, 2)}
    else:
        base_idx, zero_idx, alltargets = list(range(64)), list(range(64)), "TRUE"
        seq_ns, seq_fs, seq_orders = [0, 1, 2, 5, 16, 30, 31], [0, 3, 31, 32, 40, 63], ['"asc"', '"desc"', '"mix"']
        store = {"correct": (8, 4), "byz": (8, 4)}
    wdefs = (f"BaseIdxDef == {tset(base_idx)}\nZeroIdxDef == {tset(zero_idx)}\n"
             f"SeqNsDef == {tset(seq_ns)}\nSeqFsDef == {tset(seq_fs)}\nSeqOrdersDef == {tset(seq_orders)}\n")

    def const(total, data, scn="correct", ascoded="FALSE"):
        return CONST.format(total=total, data=data, scn=scn, ascoded=ascoded, alltargets=alltargets)

    # (i) the block store of one slot, every arrival order
    small = const(4, 2, "byz") + "INIT InitStore\nNEXT NextStore\n"
    ctx.witness("store", "MC_ShredAuth", small, wdefs, ["W_MC_Block", "W_MC_Flagged", "W_MC_BlockThenFlagged"], workers=2)
    # design-level exhibition of finding F9: the block store AS CODED lets a relay get a correct leader flagged
    r = ctx.tlc("store_ascoded", "MC_ShredAuth",
                const(4, 2, "correct", "TRUE") + "INIT InitStore\nNEXT NextStore\nINVARIANT MC_NeverFlagged\n",
                wdefs, workers=2, timeout=300, expect_violation="MC_NeverFlagged")
    if r.violated != "MC_NeverFlagged":
        raise ToolError(f"store_ascoded: expected the as-coded block store to violate MC_NeverFlagged ({r.error or r.violated})")
    ctx.notes["as_coded_model_violates"] = "MC_NeverFlagged (tag-flipped shred of a correct leader, finding F9)"
    for scn, (total, data) in store.items():
        r = ctx.tlc(f"store_{scn}", "MC_ShredAuth",
                    const(total, data, scn) + "INIT InitStore\nNEXT NextStore\nINVARIANTS " + " ".join(STORE_INVS) + "\n",
                    wdefs, workers=6, timeout=1500)
        if r.distinct < 30:
            raise ToolError(f"store_{scn}: only {r.distinct} states")

    # (ii) validation cases and (iii) block-store sequences: checked by TLC, printed, replayed
    big = const(64, 32)
    rc = ctx.tlc("cases", "MC_ShredAuth",
                 big + "INIT InitCases\nNEXT NextCases\nINVARIANTS " + " ".join(CASE_INVS) + " EmitCase\n",
                 wdefs, workers=6, timeout=1800)
    rs = ctx.tlc("seqs", "MC_ShredAuth",
                 big + "INIT InitSeqs\nNEXT NextSeqs\nINVARIANTS " + " ".join(SEQ_INVS) + " EmitSeq\n",
                 wdefs, workers=6, timeout=1800)
    rep = ctx.harness(["replay-shredauth", "--cases", rc.out_path, "--seqs", rs.out_path, "--seed", ctx.seed])
    # initial states are seeds (scenario x base position; order x n), the cases / sequences are their successors
    case_seeds = 2 * len(base_idx) + len(zero_idx)
    ncases, nseqs = rc.distinct - case_seeds, rs.distinct - rep.get("seqs_loaded", 0)
    if rep.get("cases_loaded") != ncases or ncases <= 0 or not rep.get("seqs_loaded") or not (0 < nseqs <= len(seq_ns + [32, 33]) * len(seq_orders)):
        raise ToolError(f"TLC found {rc.distinct} / {rs.distinct} states, the harness loaded "
                        f"{rep.get('cases_loaded')} cases / {rep.get('seqs_loaded')} sequences")
    # vacuity: the interesting verdicts must occur among the enumerated cases / sequences
    hist = rep.get("act_hist", {})
    need = ["correct:none:Ok", "byz:none:Equivocation", "byz:replay-shred:Equivocation",
            "correct:sig-bytes:Ok", "correct:sig-bytes:InvalidSignature",      # the shortcut skips the signature, only with a cache
            "correct:tag:Ok", "correct:index:InvalidSignature", "zero:index:Ok", "zero:index:InvalidSignature",
            "correct:index-far:Undecodable", "correct:tag-invalid:Undecodable", "correct:slice:Undecodable",
            "correct:slot:InvalidSignature", "correct:slice:InvalidSignature", "correct:islast:InvalidSignature",
            "byz:islast:Ok", "correct:payload:InvalidSignature", "correct:proof-elem:InvalidSignature",
            "correct:sig-over:InvalidSignature", "correct:replay-header:InvalidSignature", "correct:replay-shred:Ok",
            "seq:relay:tag", "seq:relay:sig-bytes", "seq:equivocation", "seq:equivocation-2nd-slice"]
    missing = [k for k in need if not hist.get(k)]
    if missing:
        raise ToolError(f"vacuity: no case of kind {missing}")
    ctx.exhaustive = False   # block-store sequences at the real width are templates; the exhaustive orders use small Total
    ctx.notes["c12"] = {
        "validation_cases": rep["cases_loaded"], "sequences": rep["seqs_loaded"], "sequence_steps": rep.get("seq_steps"),
        "store_models": {k: {"Total": v[0], "Data": v[1]} for k, v in store.items()},
        "observation_not_part_of_C12": {
            "blocks_whose_stored_shreds_fail_full_validation": rep.get("obs_blocks_serving_shreds_that_fail_full_validation"),
            "why": "a shred accepted through the cached-commitment shortcut may carry arbitrary signature bytes; "
                   "deshred copies the signature of the lowest-indexed stored shred into every regenerated shred"}}
    ctx.replay_report("shredauth", rep)
    return ctx.finish(rule="one case = (scenario, base position, mutation of one or several fields / replay, commitment cached for "
                           "the shred's slot and slice); one sequence = (relay mutant or conflicting slice, its position, how many "
                           "honest shreds precede it, index order, validated with or without the cache); store: every arrival order "
                           "at small Total/Data")
