"""C02 Progress: correct leaders' blocks are finalized once the network is timely."""
from .. import pool as P
from .. import sim as S
from .. import nodetrace as NT
from .. import votor as V
from ..core import ToolError
from . import c05, c07


def configs(ctx):
    if ctx.tier == "quick":
        return [
            # 100% responsive: fast path expected
            dict(name="all4", stakes=[1, 1, 1, 1], seed=ctx.seed, gst=2000, chaos=1000, drop=50, run_ms=10000),
            # one silent Byzantine (14%): its windows are skipped; slow path allowed
            dict(name="byz4", stakes=[2, 2, 2, 1], byz=[3], byz_mode="silent", seed=ctx.seed + 1, gst=1500,
                 chaos=800, drop=50, run_ms=13000),
            # six validators: one crashed, one noisy Byzantine
            dict(name="crash6", stakes=[1, 1, 1, 1, 1, 1], byz=[4], byz_mode="spam", crashed=[3], crash_at=0,
                 seed=ctx.seed + 2, gst=1500, chaos=800, drop=30, run_ms=14000),
            # one validator holds most of the stake (Rotor makes it the relay of most of its own shreds)
            # (no fast-path demand: the heavy validator alone completes the slow path)
            dict(name="heavy4", stakes=[5, 1, 1, 1], seed=ctx.seed + 4, gst=1000, chaos=500, drop=30, run_ms=10000,
                 require_fast=False),
            # an equivocating leader (two blocks per slot to different halves + vote equivocation): the windows
            # of CORRECT leaders after stabilisation must still be finalized (parents chosen among the twins)
            dict(name="equiv4", stakes=[2, 2, 2, 1], byz=[3], byz_mode="equivocate", seed=ctx.seed + 3, gst=1500,
                 chaos=800, drop=50, run_ms=14000, require_fast=False),
        ]
    out = []
    k = 0
    for n, stakes in ((4, [2, 2, 2, 1]), (5, [3, 3, 3, 3, 2]), (6, [1] * 6), (7, [3, 2, 2, 1, 1, 1, 1]), (11, [1] * 11)):
        total = sum(stakes)
        for rep in range(6 if n <= 7 else 2):
            k += 1
            # pick a Byzantine and a crashed validator, each < 20% of the stake, at rotating positions
            cand = [i for i in range(n) if stakes[i] * 5 < total]
            byz = [cand[(rep) % len(cand)]] if cand and rep % 3 != 0 else []
            crash = [c for c in [cand[(rep + 2) % len(cand)]] if c not in byz] if cand and rep % 2 == 1 else []
            mode = ("spam" if rep % 2 else "silent") if rep < 4 else "equivocate"
            out.append(dict(name=f"n{n}_{rep}", stakes=stakes, byz=byz, require_fast=(mode != "equivocate"),
                            byz_mode=mode, crashed=crash, crash_at=0,
                            seed=ctx.seed + 100 + k, gst=2000 + 400 * rep, chaos=800 + 400 * rep,
                            drop=20 * rep, dup=20, run_ms=min(4000 * n + 8000, 36000)))
    return out


PROGRESS_CFG = """CONSTANTS
  N = {n}
  StakeVec <- SV
  Byz = {byz}
  Crashed = {crashed}
  NoisyByz = {noisy}
  AsyncSteps = {steps}
  W = {w}
  MaxSlot = {maxslot}
INIT Init
NEXT Next
INVARIANTS Agreement NoFinalAndSkip
"""


def run_progress_mc(ctx, name, stakes, byz, crashed, noisy, steps, w, maxslot, timeout=1500, witnesses=()):
    """Design level: every terminal state of the timely phase satisfies the goal (deadlock = counterexample)."""
    fmt = lambda xs: "{" + ", ".join(map(str, xs)) + "}"
    cfg = PROGRESS_CFG.format(n=len(stakes), byz=fmt(byz), crashed=fmt(crashed), noisy=("TRUE" if noisy else "FALSE"),
                              steps=steps, w=w, maxslot=maxslot)
    sv = S.sv(stakes)
    if witnesses:
        ctx.witness(name, "MC_AbsProgress", cfg.replace("INVARIANTS Agreement NoFinalAndSkip\n", ""), sv, witnesses,
                    workers=6, timeout=600)
    return ctx.tlc(name, "MC_AbsProgress", cfg, sv, workers=12, timeout=timeout, heap="12g")


def run(ctx):
    ctx.build_harness()
    # component level: a correct leader's block closes its slices and completes at the specified step, with the
    # READY parent as its effective parent, whenever ParentReady arrives relative to slice production
    from .. import producer as PR
    PR.run_model(ctx, "producer", relevant=PR.relevant_c02)
    # the timeout schedule of a window (crashed-leader timeout, then one timeout per slot, one block time apart):
    # rule of the protocol = what the real Votor's timers do on the paused clock, to the millisecond
    V.run_timers(ctx)
    # 0. design level (AlpenglowAbs + leaders + asynchronous prefix, then timely network): progress for EVERY schedule
    run_progress_mc(ctx, "prog6_silent", [1] * 6, [5], [1], False, 4, 2, 5,
                    witnesses=["W_Judged", "W_GoalReached", "W_SkippedWindow"])
    run_progress_mc(ctx, "prog6_noisy", [1] * 6, [5], [1], True, 1, 2, 5)
    if ctx.tier == "thorough":
        run_progress_mc(ctx, "prog6_noisy5", [1] * 6, [5], [1], True, 5, 2, 5, timeout=3000)
        run_progress_mc(ctx, "prog6_silent7", [1] * 6, [0], [3], False, 7, 2, 5, timeout=3000)
        # (W = 4 with two windows does not finish: > 10 M distinct states with the queue still growing after 57 min,
        #  even without an asynchronous prefix; the window arithmetic is exercised with W = 2 here and with the real
        #  W = 4 by the simulated executions)
    ctx.assumptions += ["virtual time: all post-stabilisation delays <= 100 ms (< DELTA = 250 ms)",
                        "crashed < 20% and Byzantine < 20% of the stake"]
    # 0b. component level: progress of the system rests on the real Votor casting exactly the votes the
    #     spec's Votor casts (e.g. the finalization vote when the certificate arrives BEFORE the block) and on the
    #     real pool announcing every ready parent / waking waiters (e.g. a late notarization behind skipped windows)
    V.run_model(ctx, "votor_handover", c05.HANDOVER, 7, 7 if ctx.tier == "quick" else 9,
                relevant=lambda fp, fields: any(f.startswith("msgs") or f in ("panic", "arm") for f in fields),
                sample=60000 if ctx.tier == "quick" else 600000)
    # ... and on the pool raising safe-to-notar / safe-to-skip as soon as their conditions hold, whichever vote
    #     arrives last (a lost safe-to-skip leaves a split slot without fallback votes: no skip certificate, no progress)
    from . import c06
    P.run_model(ctx, "pool_s2n", [2, 2, 1], 0, 7,
                c06.scenarios(["notar", "skip", "sf"], ["notar", "ff"], sibling=["ff", "nf"]),
                c06.INVS, lambda fp, fields: any(f.startswith("ev.missing.SafeTo") or f == "panic" for f in fields),
                sample=(90000 if ctx.tier == "quick" else 1000000))
    for i, (fates, waits) in enumerate(c07.QUICK):
        if ctx.tier == "quick" and i not in (1, 3):
            continue
        P.run_model(ctx, f"pool_chain_q{i}", [2, 2, 1], 0, 9, [P.chain_scenario(fates, waits=waits)],
                    c07.INVS + ["NoPanic"], P.rel_c07, sample=(150000 if ctx.tier == "quick" else 1000000))
    judged_any = False
    for sc in configs(ctx):
        name = sc.pop("name")
        fast = sc.pop("require_fast", True)
        stakes, byz, crashed = sc["stakes"], sc.get("byz", []), sc.get("crashed", [])
        trace, summary = S.run_sim(ctx, name, delta=100, **sc)
        ctx.traces += 1
        ctx.notes.setdefault("sims", []).append({"name": name, **{k: summary[k] for k in
                                                 ("events", "finals", "messages", "task_panics", "node_errors")}})
        for p in summary["task_panics"] + summary["node_errors"]:
            ctx.divergence(name, "panic:node task", {"panic": p, "config": sc})
        silent = byz if sc.get("byz_mode", "silent") == "silent" else []
        consts = (f"  Crashed = {{{', '.join(map(str, crashed))}}}\n"
                  f"  SilentByz = {{{', '.join(map(str, silent))}}}\n"
                  f"  StableFrom = {sc['gst'] + sc['chaos'] + 1000}\n  EndT = {sc['run_ms']}\n  Margin = 3500\n  RequireFast = {'TRUE' if fast else 'FALSE'}\n"
                  f"  Starved = {{{', '.join(map(str, summary.get('starved_slots', [])))}}}\n")
        cfg_extra = consts
        # vacuity: some window must be judged
        import re
        n_events = sum(1 for _ in open(trace))
        NT.check(ctx, "nt_" + name, trace, stakes, [i for i in range(len(stakes)) if i not in byz], config=sc)
        rej = S.validate(ctx, "tv_" + name, trace, stakes, byz, module="Trace_Progress",
                         invs=S.TRACE_INVS + ["GoalAtEnd"], extra_consts=cfg_extra,
                         timeout=(900 if ctx.tier == "quick" else 2400))
        if rej:
            ctx.divergence(name, S.fingerprint(rej), {"config": sc, **rej})
            continue
        import json as _json
        with open(ctx.models[-1]["out_path"]) as f:
            for line in f:
                if line.startswith('<<"JUDGED"'):
                    j = _json.loads(line[len('<<"JUDGED", "'):-4].replace('\\"', '"'))
                    ctx.notes.setdefault("judged", []).append({"sim": name, **j})
                    if j["windows"]:
                        judged_any = True
        if len(ctx.samples) < 3:
            with open(trace) as f:
                ctx.samples.append({"sim": name, "first_events": [next(f).strip() for _ in range(6)]})
    if not judged_any and not ctx.violations:
        raise ToolError("vacuity: no window was judged in any run")
    ctx.exhaustive = False
    return ctx.finish(rule="one case = one simulated execution (chaotic prefix, then timely network) validated event "
                           "by event; the progress goal is evaluated on the windows that started after stabilisation")
