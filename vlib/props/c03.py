"""C03 Certificates a node emits are valid, justified by accepted votes, and timely."""
from .. import pool as P

INVS = ["CertAsSoonAs", "CertOnlyWhen", "CertSignersJustified", "AtMostOnce", "CountedOnce"]


def run(ctx):
    ctx.build_harness()
    ctx.assumptions += ["BLS aggregate signatures (blst) are sound", "TLC fingerprint collisions negligible"]
    votes = P.scn_votes([5], ["A", "B"], ["notar", "nf", "skip", "sf", "final"])
    if ctx.tier == "quick":
        # all five vote kinds, two hashes, three validators, stakes hitting 40/80% exactly;
        # received certificates interleaved
        # (a received Notar certificate may precede the votes: certificates the pool then creates itself must
        #  still be created - and stored - exactly once)
        s = P.scn(votes=votes, certs=[("nf", 5, "A"), ("skip", 5, "-"), ("notar", 5, "A")])
        P.run_model(ctx, "slot_221", [2, 2, 1], 0, 7, [s], INVS, P.rel_c03, sample=250000,
                    witnesses=["W_CertCreated"], scale=3 * 10**18)
        # low slots: the Notar certificate a vote completes can finalize AND prune the slot (a Final certificate is
        # pending, slot 2 is finalized already) before the FastFinal certificate of the same vote is added (F17)
        low = P.scn(votes=P.scn_votes([1], ["A"], ["notar", "skip"]), certs=[("final", 1, "-"), ("ff", 2, "B")])
        P.run_model(ctx, "low_221", [2, 2, 1], 0, 7, [low], INVS + ["NoPanic"], P.rel_c03)
    else:
        low = P.scn(votes=P.scn_votes([1], ["A", "B"], ["notar", "nf", "skip"]),
                    certs=[("final", 1, "-"), ("ff", 2, "B"), ("notar", 2, "B")])
        P.run_model(ctx, "low_221", [2, 2, 1], 0, 7, [low], INVS + ["NoPanic"], P.rel_c03, sample=1000000, timeout=3000)
        for stakes in ([2, 2, 1], [3, 1, 1], [1, 1, 1]):
            s = P.scn(votes=votes, certs=[("nf", 5, "A"), ("skip", 5, "-"), ("final", 5, "-")])
            P.run_model(ctx, "slot_" + "".join(map(str, stakes)), stakes, 0, 7, [s], INVS, P.rel_c03,
                        sample=1500000, witnesses=["W_CertCreated"], timeout=3000,
                        scale=(18 * 10**18) // sum(stakes), scale_sample=500000)
        # four / five validators: model-checked in full, replayed by sample
        for stakes in ([3, 3, 2, 2], [1, 1, 1, 1, 1]):
            v4 = P.scn_votes([5], ["A", "B"], ["notar", "nf", "skip", "sf", "final"])
            P.run_model(ctx, "slot_" + "".join(map(str, stakes)), stakes, 0, 7,
                        [P.scn(votes=P.scn_votes([5], ["A"], ["notar", "nf", "skip", "sf", "final"]))],
                        INVS, P.rel_c03, sample=400000, timeout=3000)
    # code -> spec on real executions: every pool call / Votor step of every correct node of simulated networks
    # (equivocating and noisy Byzantine validators, loss, crashes, standstill recovery) is a transition of the spec
    from .. import nodetrace as NT
    NT.component_sims(ctx, lambda a: "ev.Cert" in a)
    return ctx.finish(rule="every transition of the pool model is one case; non-trivial = distinct (state, action) pairs replayed into PoolImpl")
