"""C09 Only authentic votes and sufficiently backed certificates are admitted.

spec/Auth.tla: signature algebra with ideal signatures, declarative AdmitVote / AdmitCert and the
honest constructors.  spec/MC_Auth.tla: every honest message of a small epoch, every alteration of
it (and pairs of alterations / the full product of vote fields), each with the spec's verdict; TLC
checks MutationRejected, DeclaredStakeIrrelevant, AdmittedIffHonest, ... on every case and prints
the cases; harness `replay-auth` concretises each case with real BLS keys and runs
decode + ValidatedVote::try_new / ValidatedCert::try_new under catch_unwind."""
import os

from ..core import ToolError

INVS = ["WellFormed", "ValidAccepted", "BelowRejected", "MutationRejected", "DeclaredStakeIrrelevant",
        "AdmittedIffHonest", "NoUpgradeBelowStrong", "DistinctStakeOnly", "OutOfRangeRejected"]

# alterations that must occur in every model with at least three validators (vacuity guard)
CERT_LABELS = ["honest", "kind", "slot", "hash", "stake", "swapHalves", "noHalves", "emptyHalves",
               "addHalf", "emptyHalf", "maskAdd", "maskDel", "bagAdd", "bagDel", "bagDup", "bagForeign",
               "sigBytes", "sigTorsion", "sigPayload", "aggPayload", "sigBy", "len", "lenBit", "addSigner",
               "delSigner", "replSigner", "dropHalf", "moveSig"]
VOTE_LABELS = ["id", "kind", "slot", "hash", "signer", "sigPayload", "sigBy", "sigBytes", "sigTorsion", "product"]


def cfg(depth, overlap, product, mod, res):
    return f"""CONSTANTS
  Stakes <- StakesDef
  Slots <- SlotsDef
  Hashes <- HashesDef
  OutIdx <- OutIdxDef
  BaseSlot = 1
  BaseHash = "A"
  Depth = {depth}
  Overlap = {"TRUE" if overlap else "FALSE"}
  VoteProduct = {"TRUE" if product else "FALSE"}
  SampleMod = {mod}
  SampleRes = {res}
INIT Init
NEXT Next
CHECK_DEADLOCK FALSE
INVARIANTS
  {" ".join(INVS)} Emit
"""


def defs(stakes):
    return (f"StakesDef == <<{', '.join(map(str, stakes))}>>\n"
            "SlotsDef == {1, 2}\n"
            'HashesDef == {"A", "B"}\n'
            # N, N+1: just outside; 1000000 stands for 2^32 (alias of validator 0 under 32-bit
            # truncation); 2147483647 stands for u64::MAX (see auth_driver.rs wire_index)
            "OutIdxDef == {N, N + 1, 1000000, 2147483647}\n")


def need(cond, what):
    if not cond:
        raise ToolError("vacuity: " + what)


def run_model(ctx, name, stakes, depth=1, overlap=True, product=True, mod=1, timeout=1500):
    res = ctx.seed % mod
    r = ctx.tlc(name, "MC_Auth", cfg(depth, overlap, product, mod, res), defs(stakes),
                workers=6, timeout=timeout, heap="6g")
    rep = ctx.harness(["replay-auth", "--tlc-out", r.out_path, "--stakes", ",".join(map(str, stakes)),
                       "--seed", ctx.seed, "--threads", 6])
    rep["model"] = name
    try:
        os.remove(r.out_path)
    except OSError:
        pass
    n = len(stakes)
    # nothing lost between TLC and the harness (root state is not a case)
    if mod == 1 and rep["total_cases_in_dump"] != r.distinct - 1:
        raise ToolError(f"{name}: dump has {rep['total_cases_in_dump']} cases, TLC found {r.distinct - 1}")
    if mod > 1:
        ctx.exhaustive = False
        need(rep["total_cases_in_dump"] * mod > (r.distinct - 1) // 4, f"{name}: sample of the dump too small")
    # the wire-level assembly of the harness equals the real constructors on every honest message,
    # i.e. the spec's MakeVote / MakeCert (incl. the declared stake) are the code's constructors
    if rep["selfcheck_failed"] or rep["selfchecked"] == 0:
        raise ToolError(f"{name}: assembled honest messages differ from the real constructors: "
                        f"{str(rep['selfcheck_failed'])[:1500]}")
    # vacuity guards on the SPEC's verdicts
    sh = rep["spec_hist"]

    def cnt(t, label, cls=None, admit=None):
        tot = 0
        for k, v in sh.items():
            kt, kl, kc, ka = k.split("|")
            if kt == t and kl == label and (cls is None or kc == cls) and \
                    (admit is None or ka == ("true" if admit else "false")):
                tot += v
        return tot

    fl = rep["flags"]

    def flag(f, kind=None, admit=None):
        tot = 0
        for k, v in fl.items():
            kf, kk, ka = k.split("|")
            if kf == f and (kind is None or kk == kind) and (admit is None or ka == ("true" if admit else "false")):
                tot += v
        return tot

    need(cnt("vote", "id", "same", True) == 5 * n, f"{name}: honest votes admitted")
    need(cnt("cert", "honest", "same", True) > 0, f"{name}: honest certificates admitted")
    need(cnt("cert", "stake", "stake", True) > 0, f"{name}: declared-stake alterations")
    need(flag("oor", admit=False) > 0 and flag("oor", admit=True) == 0, f"{name}: out-of-range signers")
    if n >= 3:
        for lb in CERT_LABELS:
            need(cnt("cert", lb) > 0, f"{name}: no certificate case '{lb}'")
        for lb in VOTE_LABELS:
            if lb == "product" and not product:
                continue
            need(cnt("vote", lb) > 0, f"{name}: no vote case '{lb}'")
        need(cnt("cert", "honest", "below", False) > 0, f"{name}: under-backed honest constructions")
        need(cnt("cert", "delSigner", "resign", False) > 0 and cnt("cert", "delSigner", "resign", True) > 0,
             f"{name}: signer removal on both sides of a threshold")
        need(cnt("cert", "kind", "retag", True) > 0 and cnt("cert", "kind", "retag", False) > 0,
             f"{name}: re-tagging among notar / fast-final / notar-fallback")
        need(flag("mid", "ff", False) > 0 and flag("mid", "ff", True) == 0,
             f"{name}: fast-final claims backed by 60..80 % stake")
        need(flag("mid", "notar", True) > 0, f"{name}: notarization certificates with 60..80 % stake")
        if overlap:
            need(flag("dc", admit=False) > 0 and flag("dc", admit=True) == 0,
                 f"{name}: double-counting boundary (per-half sum meets the threshold, distinct stake does not)")
        if product:
            need(cnt("vote", "product", "any", True) > 0 and cnt("vote", "product", "any", False) > 0,
                 f"{name}: vote product")
        if depth >= 2:
            need(cnt("cert", "pair", "any", True) > 0 and cnt("cert", "pair", "any", False) > 0,
                 f"{name}: pairs of alterations")
    ctx.notes.setdefault("spec_verdicts", {})[name] = {
        "cases": rep["total_cases_in_dump"], "distinct_wire_messages": rep["nodes"],
        "admitted": sum(v for k, v in sh.items() if k.endswith("|true")),
        "refused": sum(v for k, v in sh.items() if k.endswith("|false")),
        "double_count_boundary": flag("dc"), "ff_between_thresholds": flag("mid", "ff"),
        "out_of_range_signers": flag("oor")}
    # where the implementation stopped the low-order-point alterations (informational: decode or validation)
    ctx.notes.setdefault("sig_torsion_observed", {})[name] = {
        k: v for k, v in rep["act_hist"].items() if ":sigTorsion:" in k}
    ctx.replay_report(name, rep)
    return r, rep


def run(ctx):
    ctx.build_harness()
    ctx.assumptions += [
        "BLS (blst) is an ideal aggregate signature scheme: an aggregate verifies iff it is the sum of exactly "
        "the marked validators' signatures over exactly the payload (no forgery, no rogue-key or cancellation "
        "attacks below the algebra)",
        "altered signature bytes are represented by one bit flip of the encoded point; byte-level fuzzing of the "
        "decoders is C19",
        "the bytes handed to wincode::deserialize::<ConsensusMessage> are what the all-to-all interface delivers; "
        "admission is observed at ValidatedVote::try_new / ValidatedCert::try_new (handle_all2all_message calls "
        "them before touching the pool)"]
    if ctx.tier == "quick":
        run_model(ctx, "n1", [1])
        run_model(ctx, "n3", [2, 2, 1])
        run_model(ctx, "n4", [3, 3, 2, 2], overlap=False)
    else:
        run_model(ctx, "n1", [1], depth=2)
        run_model(ctx, "n3", [2, 2, 1], depth=2)
        run_model(ctx, "n4", [3, 3, 2, 2])
        run_model(ctx, "n4b", [4, 3, 2, 1], product=False)
        run_model(ctx, "n5", [1, 1, 1, 1, 1], overlap=False, product=False)
        # all 1.7 M pairs are checked by TLC; 1 in 32 (chosen by fingerprint and seed) is replayed
        run_model(ctx, "n4pairs", [3, 3, 2, 2], depth=2, product=False, mod=32)
    return ctx.finish(rule="one case = one abstract vote / certificate of the signature algebra (honest message, "
                           "single alteration, pair of alterations, or element of the full product of vote fields) "
                           "with the spec's verdict; distinct = distinct wire messages")
