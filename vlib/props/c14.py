"""C14 Repair stores only data matching the requested hash and cannot be derailed.

spec/Repair.tla + spec/MC_Repair.tla, harness/src/repair_driver.rs.  Per block shape (NS slices, NG shred
groups per slice, Thr groups reconstruct a slice):

  check   : Budgets=TRUE (hostile responses / timer rounds counted -> finite DAG).  TLC checks
            StoredOnlyIfHashMatches, ProvenRootsAreTrue, NoPanic, Progressable, NoCorruption,
            UnsolicitedIgnored, GoodAnswersVerify and, by deadlock checking, GoodPeerEventuallyCompletes
            (a terminal state in which the block is not stored is a deadlock).
  ascoded : the same model with the two deviations of the pinned code transcribed (AsCoded=TRUE) must
            VIOLATE NoPanic, StoredOnlyIfHashMatches and the terminal-state property (vacuity guard:
            the model is sharp enough to express the failures).
  dissem  : every model starts from each content of the slot's dissemination spot (nothing / a shred of every
            slice of the equivocating leader's other block / a shred of every slice of the block itself); the
            spec's requester never reads it, the real block store is pre-populated through
            add_shred_from_dissemination before the repair starts (graph: first step `populate`; loop: per scenario).
  graph   : Budgets=FALSE, every transition dumped and replayed into the real Repair / RepairRequestHandler
            / BlockstoreImpl (outputs and projected state compared after every step).
  resp    : responder cases (holding x request x sender) checked (AnswersVerify, NackWhenUnknown,
            FullServesAll) and replayed into real handlers.
  loop    : scenarios (hostile scripts) run to quiescence by the spec (ScenarioCompletes) and replayed
            through the real repair_loop task with its timers."""
import json
import os
from concurrent.futures import ThreadPoolExecutor

from ..core import ToolError

INVS = ["Inv_StoredOnlyIfHashMatches", "Inv_ProvenRootsAreTrue", "Inv_NoPanic", "Inv_Progressable",
        "Inv_NeverFlagged"]
# action properties (checked by TLC on every transition; act/exp are outside the VIEW)
PROPS = ["NoCorruption", "UnsolicitedIgnored", "GoodAnswersVerify", "InvalidChangesNothing", "DissemNeverWritten"]
CHECKS = ["INVARIANTS", "  " + " ".join(INVS), "PROPERTIES", "  " + " ".join(PROPS)]
WITNESSES = ["W_Stored", "W_StoredAfterHostileHit", "W_AllOutstandingAnswered"]
# every hostile kind must have hit an outstanding request of every type it applies to, in the replay
NEED_LABELS = ["populate:empty", "populate:other", "populate:same", "start", "timeout", "good:lsr", "good:sr", "good:sh",
               "hostile:valid:lsr->lsr:hit", "hostile:valid:sr->sr:hit", "hostile:valid:sh->sh:hit",
               "hostile:valid:sh->sh:miss", "hostile:nack:nack->lsr:hit", "hostile:nack:nack->sr:hit",
               "hostile:nack:nack->sh:hit", "hostile:variant:sr->lsr:hit", "hostile:variant:lsr->sr:hit",
               "hostile:variant:sr->sh:hit", "hostile:alias:lsr->lsr:hit", "hostile:root:lsr->lsr:hit",
               "hostile:root:sr->sr:hit", "hostile:root:sh->sh:hit", "hostile:proof:lsr->lsr:hit",
               "hostile:proof:sr->sr:hit", "hostile:other:lsr->lsr:hit", "hostile:other:sr->sr:hit",
               "hostile:other:lsr->lsr:miss", "hostile:slot:sh->sh:hit", "hostile:sig:sh->sh:hit",
               "hostile:payload:sh->sh:hit", "hostile:tag:sh->sh:hit", "hostile:twin:sh->sh:hit", "hostile:index:sh->sh:hit"]


def cfg(ns, ng, thr, ascoded=False, budgets=False, max_hostile=0, max_timeouts=0, max_again=0, scen_len=1,
        init="Init", nxt="Next", view=True, deadlock=False, lines=()):
    b = lambda x: "TRUE" if x else "FALSE"  # noqa: E731
    s = f"""CONSTANTS
  NS = {ns}
  NG = {ng}
  Thr = {thr}
  AsCoded = {b(ascoded)}
  Budgets = {b(budgets)}
  MaxHostile = {max_hostile}
  MaxTimeouts = {max_timeouts}
  MaxAgain = {max_again}
  ScenLen = {scen_len}
  Dissems = {{"empty", "other", "same"}}
INIT {init}
NEXT {nxt}
CHECK_DEADLOCK {b(deadlock)}
"""
    if view:
        s += "VIEW View\n"
    return s + "\n".join(lines) + "\n"


def classify_all(ctx, model, fps, examples):
    """every distinct fingerprint -> known finding or violation (the engine's own list is capped)"""
    for fp in sorted(fps):
        ctx.divergence(model, fp, examples.get(fp))


def witness_run(ctx, shape, tag, bud):
    """vacuity guards on one shape: reachability witnesses; the transcription of the round-1 code must break the property"""
    ns, ng, thr = shape["ns"], shape["ng"], shape["thr"]
    w = 1
    ctx.witness(f"w_{tag}", "MC_Repair", cfg(ns, ng, thr, **bud), "", WITNESSES, workers=w)
    # the pinned code's deviations, transcribed, break the property in the model
    r = ctx.tlc(f"w_{tag}_W_TwinHit", "MC_Repair", cfg(ns, ng, thr, lines=["PROPERTY W_TwinHit"], **bud),
                workers=w, timeout=600, expect_violation="W_TwinHit")
    if r.violated != "W_TwinHit":
        raise ToolError(f"vacuity: witness W_TwinHit not reachable in {tag} ({r.error or r.violated})")
    for name, lines, dl in (("Inv_NoPanic", ["INVARIANT Inv_NoPanic"], False),
                            ("Inv_StoredOnlyIfHashMatches", ["INVARIANT Inv_StoredOnlyIfHashMatches"], False),
                            ("Inv_Progressable", ["INVARIANT Inv_Progressable"], False),
                            ("InvalidChangesNothing", ["PROPERTY InvalidChangesNothing"], False),
                            ("deadlock", [], True)):
        r = ctx.tlc(f"ascoded_{tag}_{name}", "MC_Repair",
                    cfg(ns, ng, thr, ascoded=True, deadlock=dl, lines=lines, **bud), workers=w,
                    timeout=600, expect_violation=name)
        if r.violated != name:
            raise ToolError(f"vacuity: the transcription of the pinned code does not violate {name} in {tag} "
                            f"({r.error or r.violated})")
        ctx.notes.setdefault("ascoded_violates", []).append(f"{tag}:{name}")



def shape_run(ctx, shape):
    ns, ng, thr = shape["ns"], shape["ng"], shape["thr"]
    tag = f"ns{ns}g{ng}" + ("a" if shape["again"] else "")
    bud = dict(budgets=True, max_hostile=shape["hostile"], max_timeouts=shape["timeouts"], max_again=shape["again"])
    w = 2
    if shape.get("witness_only"):
        return witness_run(ctx, shape, tag, bud)

    # ---- (check) the property on the spec, finite DAG, terminal states by deadlock checking
    ctx.tlc(f"check_{tag}", "MC_Repair",
            cfg(ns, ng, thr, deadlock=True, lines=CHECKS, **bud),
            workers=w, timeout=1500)
    # ---- (graph) every transition, replayed into the real objects
    r = ctx.tlc(f"graph_{tag}", "MC_Repair",
                cfg(ns, ng, thr, max_again=shape["again"],
                    lines=["ACTION_CONSTRAINT EmitEdge", "INVARIANT EmitState"] + CHECKS),
                workers=w, timeout=1500)
    args = ["replay-repair", "--ns", ns, "--ng", ng, "--tlc-out", r.out_path, "--seed", ctx.seed]
    if shape.get("sample"):
        args += ["--sample", shape["sample"]]
        ctx.exhaustive = False
    rep = ctx.harness(args)
    model = f"repair-{tag}"
    rep["model"] = model
    if rep["nodes"] != r.distinct:
        raise ToolError(f"{model}: dump has {rep['nodes']} states, TLC found {r.distinct}")
    want = min(rep["edges"], shape.get("sample") or rep["edges"])
    if rep["edges"] < r.distinct:
        raise ToolError(f"{model}: only {rep['edges']} transitions dumped for {r.distinct} states")
    # a divergence ends its walk and cuts the transition off the graph: transitions that can only be
    # reached through diverging ones are not replayed.  That is a consequence of a violation, and a
    # tool error only if nothing (new) diverged.
    short = rep["covered"] < want
    fps = rep.pop("all_fingerprints")
    rep["divergences"] = []          # classified below from the complete list
    ctx.replay_report(model, rep)
    nviol = len(ctx.violations)
    classify_all(ctx, model, fps.keys(), {k: v["example"] for k, v in fps.items()})
    if short and len(ctx.violations) == nviol:
        raise ToolError(f"{model}: {rep['covered']} of {want} transitions replayed ({rep['edges']} dumped)")
    if shape.get("labels"):
        missing = [x for x in NEED_LABELS if x not in rep["act_hist"]]
        if missing and len(ctx.violations) == nviol:
            raise ToolError(f"vacuity: {model}: action classes never replayed: {missing}")
    os.remove(r.out_path)

    # ---- (resp) responder cases
    r = ctx.tlc(f"resp_{tag}", "MC_Repair",
                cfg(ns, ng, thr, init="InitR", nxt="NextR", view=False,
                    lines=["INVARIANT EmitRCase", "INVARIANTS", "  AnswersVerify NackWhenUnknown FullServesAll"]),
                workers=w, timeout=600)
    rep = ctx.harness(["replay-repair", "--ns", ns, "--ng", ng, "--rcases", r.out_path, "--seed", ctx.seed])
    if rep["loaded"] != r.distinct or rep["edges"] != r.distinct:
        raise ToolError(f"resp-{tag}: {rep['loaded']} cases replayed, TLC enumerated {r.distinct}")
    kinds = {k.split(":")[-1] for k in rep["act_hist"]}
    if not {"lsr", "sr", "sh", "nack", "none"} <= kinds:
        raise ToolError(f"vacuity: resp-{tag}: answer kinds {sorted(kinds)}")
    rep["model"] = f"resp-{tag}"
    ctx.replay_report(f"resp-{tag}", rep)

    # ---- (loop) scenarios through the real repair_loop
    if shape.get("scen_len"):
        r = ctx.tlc(f"loop_{tag}", "MC_Repair",
                    cfg(ns, ng, thr, scen_len=shape["scen_len"], init="InitS", nxt="NextR", view=False,
                        lines=["INVARIANT EmitScen", "INVARIANT ScenarioCompletes"]),
                    workers=w, timeout=1200)
        args = ["replay-repair", "--ns", ns, "--ng", ng, "--scenarios", r.out_path, "--seed", ctx.seed]
        if shape.get("scen_limit"):
            args += ["--limit", shape["scen_limit"]]
            ctx.exhaustive = False
        rep = ctx.harness(args)
        if rep["loaded"] != r.distinct or rep["edges"] == 0:
            raise ToolError(f"loop-{tag}: {rep['loaded']} scenarios loaded, TLC enumerated {r.distinct}")
        rep["model"] = f"loop-{tag}"
        fps = dict(rep.get("fingerprints", {}))
        ex = {d["fingerprint"]: d for d in rep.get("divergences", [])}
        rep["divergences"] = []
        ctx.replay_report(f"loop-{tag}", rep)
        ctx.notes.setdefault("loop", []).append({"model": f"loop-{tag}", "scenarios": rep["edges"],
                                                 "requests_on_the_wire": rep.get("requests_on_the_wire")})
        classify_all(ctx, f"loop-{tag}", fps.keys(), ex)
        os.remove(r.out_path)


def run(ctx):
    ctx.build_harness()
    ctx.assumptions += [
        "SHA-256 / Ed25519 are ideal (the spec uses an injective hash; a signature verifies iff the leader made it)",
        "a shred group (TOTAL_SHREDS/NG consecutive indices of one signed slice) is answered as a whole",
        "single-step replay drives Repair through verif hooks (handle_response; the body of the timeout branch); "
        "the select! loop and its timers are exercised by the scenario replay only",
        "the leader of the repaired slot may be Byzantine (signs any slice with either last-flag, several blocks per slot)"]
    if ctx.tier == "quick":
        shapes = [
            dict(ns=2, ng=2, thr=1, again=1, hostile=3, timeouts=2, labels=True, scen_len=1),
            dict(ns=2, ng=4, thr=2, again=0, hostile=2, timeouts=1, sample=7000),
            dict(ns=1, ng=2, thr=1, again=1, hostile=3, timeouts=2, scen_len=2, scen_limit=450),
            dict(ns=2, ng=2, thr=1, again=1, hostile=3, timeouts=2, witness_only=True),
        ]
        par = 4
    else:
        shapes = [
            dict(ns=3, ng=4, thr=2, again=0, hostile=2, timeouts=1, sample=100000),
            dict(ns=2, ng=4, thr=2, again=1, hostile=3, timeouts=2, sample=100000, scen_len=1),
            dict(ns=3, ng=2, thr=1, again=1, hostile=3, timeouts=2, scen_len=2, scen_limit=6000),
            dict(ns=2, ng=4, thr=2, again=0, hostile=3, timeouts=2),
            dict(ns=2, ng=2, thr=1, again=1, hostile=5, timeouts=3, labels=True, scen_len=2),
            dict(ns=1, ng=2, thr=1, again=1, hostile=6, timeouts=3, scen_len=2),
            dict(ns=2, ng=2, thr=1, again=1, hostile=5, timeouts=3, witness_only=True),
        ]
        par = 3
    with ThreadPoolExecutor(max_workers=par) as ex:
        futs = [ex.submit(shape_run, ctx, s) for s in shapes]
        errs = []
        for f in futs:
            try:
                f.result()
            except Exception as e:  # noqa: BLE001
                errs.append(e)
        if errs:
            raise errs[0]
    ctx.notes["shapes"] = [json.dumps(s, sort_keys=True) for s in shapes]
    return ctx.finish(rule="graph: one case = one transition (requester state x {start, good answer to an outstanding "
                           "request, hostile response of every kind to every request, all timers expire}); "
                           "resp: one case = (holding, request, sender); loop: one case = one hostile script "
                           "(<= 2 entries) run through the real repair_loop until quiescence")
