"""C11 Erasure coding: any 32 of a slice's 64 shreds restore it bit-for-bit.

spec/Shred.tla (EC part) + spec/MC_Shred.tla:
  arith : every coded length 0..MAX+64 through the integer transcription of ReedSolomonCoder::shred/deshred
  bytes : symbolic payloads (length x last three bytes over {0x00, 0x80, other}) through chunking and un-padding
  cases : (variant x slice x held shape x failure injection) through the receiver model; each case is
          printed with the verdict the specification demands and replayed into the four real shredders
          (harness/src/shred_driver.rs)
  hist  : every history of HistLen calls (shred / deshred / deshred one short x size classes) served by ONE
          shredder object; each step must answer like a fresh object (EC_InstanceIndependent); replayed on a
          single reused object per history."""
import os
import random

from ..core import ToolError

CONST = """CONSTANTS
  ECData = 32
  ECTotal = 64
  ECMaxShard = 1024
  ECKeyBytes = 16
  ArithMax = {arith_max}
  ByteLens <- ByteLensDef
  SweepAll <- SweepAllDef
  SweepExtra <- SweepExtraDef
  ShapeGrid = {grid}
  ShapeN <- ShapeNDef
  HistLen = {hist_len}
  HistSizes <- HistSizesDef
CHECK_DEADLOCK FALSE
"""
MAX_PADDED = 32 * 1024
CASE_INVS = ["CaseWellFormed", "MixWellFormed", "C11_Limit", "C11_ShardArith", "C11_Receiver"]


def defs(byte_lens, sweep_all, sweep_extra, shape_n, hist_sizes):
    def tset(xs):
        return "{" + ", ".join(xs) + "}"
    pairs = tset('<<"%s", %s>>' % (v, "TRUE" if p else "FALSE") for v, p in sweep_all)
    return ("ByteLensDef == %s\nSweepAllDef == %s\nSweepExtraDef == %s\nShapeNDef == %s\nHistSizesDef == %s\n"
            % (byte_lens, pairs, tset(str(x) for x in sorted(set(sweep_extra))), tset(str(x) for x in shape_n),
               tset('"%s"' % x for x in hist_sizes)))


def run(ctx):
    ctx.build_harness()
    quick = ctx.tier == "quick"
    rnd = random.Random(ctx.seed)
    ctx.assumptions += [
        "Reed-Solomon over GF(2^16) inside reed-solomon-simd is an ideal MDS code (the harness observes it only on the sampled inputs)",
        "payload bytes and the concrete index subsets are sampled (seeded); the model contributes the case structure and the verdicts",
        "SHA-256 Merkle roots and Ed25519 signatures do not collide on the sampled inputs"]
    if quick:
        byte_lens = "(0..200) \\cup {2047, 2048, 4100}"
        sweep_all = []
        # 40 seeded lengths + the padding residues 64..127 mod 128 (4096..4159 of the fixed list has 0..63)
        sweep_extra = [rnd.randrange(9, MAX_PADDED) for _ in range(40)] + list(range(4160, 4224))
        shape_n = [0, 1000]
        grid = "FALSE"
        subsets = {"shape": 6, "sweep": 1, "inject": 3}
        hist_len, hist_sizes = 3, ["small", "max"]
        workers, threads = 6, 4
    else:
        byte_lens = "(0..1100) \\cup (2040..2120) \\cup (4090..4170) \\cup {32700, 32766, 32767}"
        # every data length of these (variant, parent) pairs; together they cover every coded length 9..MAX
        sweep_all = [("regular", False), ("aont", True), ("pets", False), ("coding_only", True)]
        sweep_extra = [rnd.randrange(9, MAX_PADDED) for _ in range(1500)]
        shape_n = [0, 1000, 32600]
        grid = "TRUE"
        subsets = {"shape": 20, "sweep": 2, "inject": 8}
        hist_len, hist_sizes = 4, ["small", "mid", "max"]
        workers, threads = 6, 6
    wdefs = defs(byte_lens, sweep_all, sweep_extra, shape_n, hist_sizes)
    const = CONST.format(arith_max=MAX_PADDED + 64, grid=grid, hist_len=hist_len)

    # (i) arithmetic, every length
    arith_cfg = const + "INIT InitArith\nNEXT Next\n"
    ctx.witness("arith", "MC_Shred", arith_cfg, wdefs,
                ["W_ArithIrregular", "W_ArithMaxShard", "W_ArithRefused"], workers=2)
    r = ctx.tlc("arith", "MC_Shred", arith_cfg + "INVARIANTS ArithInv ArithLimit\n", wdefs, workers=4, timeout=600)
    if r.distinct != MAX_PADDED + 65:
        raise ToolError(f"arith: {r.distinct} lengths checked, expected {MAX_PADDED + 65}")
    # (i') symbolic bytes
    r = ctx.tlc("bytes", "MC_Shred", const + "INIT InitBytes\nNEXT NextBytes\nINVARIANTS BytesInv BytesRejects\n",
                wdefs, workers=workers, timeout=1200)
    if r.distinct < 1000:
        raise ToolError(f"bytes: only {r.distinct} symbolic payloads")
    # (ii) receiver cases: checked by TLC, printed, replayed
    case_cfg = const + "INIT InitCases\nNEXT NextCases\n"
    ctx.witness("cases", "MC_Shred", case_cfg, wdefs,
                ["W_CaseOk", "W_CaseRefused", "W_CaseUndecodable", "W_CaseLayout"], workers=workers,
                timeout=1200)
    r = ctx.tlc("cases", "MC_Shred", case_cfg + "INVARIANTS " + " ".join(CASE_INVS) + " EmitCase\n", wdefs,
                workers=workers, timeout=2400)
    # (iii) histories on one shredder object: leader / receiver / other shard sizes, in every order
    hist_cfg = const + "INIT InitHist\nNEXT NextHist\n"
    ctx.witness("hist", "MC_Shred", hist_cfg, wdefs, ["W_HistPattern"], workers=2)
    rh = ctx.tlc("hist", "MC_Shred", hist_cfg + "INVARIANTS C11_History EmitHist\n", wdefs, workers=workers,
                 timeout=2400)
    n_hist = 4 * (3 * len(hist_sizes)) ** hist_len
    rep = ctx.harness(["replay-shred", "--tlc-out", r.out_path, "--hist-out", rh.out_path,
                       "--seed", ctx.seed, "--threads", threads,
                       "--subsets-shape", subsets["shape"], "--subsets-sweep", subsets["sweep"],
                       "--subsets-inject", subsets["inject"]])
    rep["model"] = "shred"
    hist = rep.get("act_hist", {})
    seeds = r.distinct - rep["loaded"]
    if rep["loaded"] == 0 or rep["edges"] < rep["loaded"] or seeds <= 0 or seeds > 2000:
        raise ToolError(f"cases: TLC found {r.distinct} states, the harness loaded {rep['loaded']} and ran {rep['edges']} cases")
    if rep.get("histories_loaded") != n_hist or rep.get("histories") != n_hist:
        raise ToolError(f"hist: {n_hist} histories expected, harness loaded {rep.get('histories_loaded')} and ran {rep.get('histories')}")
    # vacuity: every verdict class of every shredder must have been exercised
    need = [f"{fam}:{v}:{o}" for fam in ("sweep", "shape") for v in ("regular", "coding_only", "pets", "aont")
            for o in ("ok", "NotEnoughShreds")]
    need += [f"hist:{v}:{o}" for v in ("regular", "coding_only", "pets", "aont") for o in ("ok", "NotEnoughShreds")]
    need += ["sweep:refused", "inject:xvariant:InvalidLayout", "inject:xvariant:Undecodable",
             "inject:xvariant:NotEnoughShreds", "inject:mixsize:InvalidLayout", "inject:mixroot:Undecodable"]
    missing = [k for k in need if not hist.get(k)]
    if missing:
        raise ToolError(f"vacuity: no case of kind {missing}")
    ctx.exhaustive = False      # index subsets and payload bytes are sampled
    ctx.notes["c11"] = {"cases": rep["loaded"], "index_subsets_decoded": rep.get("subsets"),
                        "regenerated_shreds_verified": rep.get("regenerated_shreds_verified"),
                        "histories_on_one_object": n_hist, "calls_per_history": hist_len, "history_size_classes": hist_sizes,
                        "every_data_length_of": [f"{v}/{'parent' if p else 'no parent'}" for v, p in sweep_all],
                        "subsets_per_case": subsets}
    ctx.replay_report("shred", rep)
    for pth in (r.out_path, rh.out_path):
        try:
            os.remove(pth)
        except OSError:
            pass
    return ctx.finish(rule="one case = (shredder variant, producer variant, slice: slot/index/last flag/parent/data length/"
                           "content class, held shape: how many positions of each range, failure injection); the harness "
                           "draws the concrete positions and bytes; arithmetic: every coded length 0..MAX+64")
