"""C16 All nodes agree on shred routing, so fault-free dissemination reaches everyone.

Part 1 (model checking): MC_Dissemination - ONE global routing function, every function, every
delivery order, small instances: delivery invariants.
Part 2 (code -> spec trace validation): the harness records dissemination runs of independently
constructed Rotor / Rotor-FA1 / Turbine / trivial instances on a recording network; TLC validates the
traces against Trace_Dissemination (routing function unlogged, inferred; delivery predicate at the
end of each run; tree shape at the end of each configuration)."""
import json
import re
import threading
from concurrent.futures import ThreadPoolExecutor

from ..core import ToolError

ctx_lock = threading.Lock()

MODEL = "dissem-trace"

MC_CFG = """INIT Init
NEXT Next
CONSTANTS
 Kinds <- KindsDef
 MinN = 2
 MaxN = {maxn}
 MaxF = {maxf}
 RecN = {recn}
 NShreds <- NShredsDef
 Deviant <- DeviantDef
CHECK_DEADLOCK FALSE
"""
MC_INVS = ("INVARIANTS EveryoneReceivesInv ExactlyOnceTurbine OneRelayBroadcastRotor TrivialOnce "
           "DeliveredInv NeverTwiceInv WellAddressed MessageBudget\n")
WITNESSES = ["W_Terminal", "W_RelayIsLeader", "W_RelayNotLeader", "W_LeaderInnerNode", "W_DeepTree"]

# the trace spec is deterministic: the event index identifies the state
TRACE_CFG = "INIT Init\nNEXT Next\nCHECK_DEADLOCK FALSE\nVIEW ViewI\n"


def mc_defs(two_upto, deviant=-1, kinds=("rotor", "turbine", "trivial")):
    ks = ", ".join('"%s"' % k for k in kinds)
    return (f"KindsDef == {{{ks}}}\n"
            f"NShredsDef == [k \\in 2..12 |-> IF k <= {two_upto} THEN 2 ELSE 1]\n"
            f"DeviantDef == {deviant}\n")


def tagged(path, tag):
    """All `<<"TAG", "{json}">>` lines of a TLC output file."""
    out = []
    prefix = '<<"%s", "' % tag
    with open(path, errors="replace") as f:
        for line in f:
            if not line.startswith(prefix):
                continue
            body = line.rstrip("\n")[len(prefix):]
            if not body.endswith('">>'):
                raise ToolError(f"malformed {tag} line in {path}")
            out.append(json.loads(json.loads('"' + body[:-3] + '"')))
    return out


def model_checking(ctx):
    quick = ctx.tier == "quick"
    # every protocol, N in 2..MaxN, fanout 1..MaxF, every global function, every delivery order
    if quick:
        cfg = MC_CFG.format(maxn=6, maxf=3, recn=5)
        defs = mc_defs(two_upto=4)
    else:
        cfg = MC_CFG.format(maxn=7, maxf=4, recn=5)
        defs = mc_defs(two_upto=5)
    r = ctx.tlc("mc", "MC_Dissemination", cfg + MC_INVS, defs, workers=4,
                timeout=(300 if quick else 1500))
    ctx.notes["mc"] = {"states": r.distinct, "generated": r.generated, "wall_s": round(r.wall_s, 1)}
    if r.distinct < 1000:
        raise ToolError("MC_Dissemination explored suspiciously few states")


def vacuity(ctx):
    small = MC_CFG.format(maxn=4, maxf=2, recn=2)
    ctx.witness("mcw", "MC_Dissemination", small, mc_defs(two_upto=3), WITNESSES, workers=2, timeout=300)
    # agreement is necessary: one validator routing with its own function breaks delivery
    r = ctx.tlc("mc_deviant", "MC_Dissemination", small + "INVARIANTS DeliveredInv NeverTwiceInv\n",
                mc_defs(two_upto=3, deviant=1), workers=2, timeout=300, expect_violation="DeliveredInv")
    if r.violated not in ("DeliveredInv", "NeverTwiceInv"):
        raise ToolError(f"vacuity: a deviating validator does not break delivery in the model ({r.error or r.violated})")
    ctx.notes.setdefault("witnesses_reached", []).append("deviant validator breaks " + r.violated)


def recogniser(ctx):
    """thorough: the tree recogniser against all 6 * 6^5 parent graphs on 6 validators (constant-level
    ASSUME of MC_Dissemination; the state space of this run is a dummy)"""
    r = ctx.tlc("mc_recogniser", "MC_Dissemination", MC_CFG.format(maxn=2, maxf=4, recn=6),
                mc_defs(two_upto=1, kinds=("trivial",)), workers=1, timeout=1500)
    ctx.notes["recogniser_cross_check"] = {"validators_upto": 6, "wall_s": round(r.wall_s, 1)}


def instance_history(trace, idx, node, inst):
    """`note` events (history of an instance) of the configuration that contains event `idx`."""
    notes = []
    with open(trace) as f:
        for k, line in enumerate(f, 1):
            if k >= idx:
                break
            if '"op":"cfg"' in line:
                notes = []
            elif '"op":"note"' in line:
                e = json.loads(line)
                if e.get("node") == node and e.get("inst") == inst:
                    notes.append(e.get("what"))
    return notes


def validate_trace(ctx, t):
    kind = t["label"]
    n_lines = sum(1 for _ in open(t["trace"]))
    if n_lines != t["events"] or n_lines == 0:
        raise ToolError(f"trace {kind}: {n_lines} lines, harness reported {t['events']} events")
    r = ctx.tlc(f"trace_{kind}", "Trace_Dissemination", TRACE_CFG, "", workers=1,
                timeout=(600 if ctx.tier == "quick" else 3000), heap="6g",
                env={"TRACE": t["trace"]}, dfs=True)
    with ctx_lock:
        ctx.states -= r.distinct       # trace steps are counted as validated calls, not as model states
        ctx.transitions -= r.generated
    done = tagged(r.out_path, "DONE")
    if len(done) != 1 or done[0]["events"] != n_lines or r.distinct != n_lines + 1:
        raise ToolError(f"trace {kind}: TLC did not consume the whole trace (see {r.out_path})")
    return kind, done[0]["cnt"], tagged(r.out_path, "DIVERGE"), r


def run(ctx):
    ctx.build_harness()
    ctx.exhaustive = False   # part 1 is exhaustive within its bounds, part 2 samples configurations
    ctx.assumptions += [
        "validator set, leader schedule ((slot div 4) mod n) and fanout are common knowledge (inputs of the property)",
        "observation = destinations of Network::send / send_to_many made by Disseminator::send / forward; "
        "beliefs that never influence a send (e.g. Turbine parent) are not observable",
        "UDP loop-back: a validator receives what it sends to its own address (leader = relay / tree member)",
    ]
    rep = ctx.harness(["replay-dissem", "--out", ctx.work, "--tier", ctx.tier, "--seed", ctx.seed])
    traces = rep["traces"]

    # at most 6 TLC workers at any time: model checking (4) + vacuity runs (2), then the traces (1 each)
    with ThreadPoolExecutor(max_workers=6) as ex:
        f_vac = ex.submit(vacuity, ctx)
        f_rec = ex.submit(recogniser, ctx) if ctx.tier != "quick" else None
        model_checking(ctx)
        f_vac.result()
        futs = [ex.submit(validate_trace, ctx, t) for t in sorted(traces, key=lambda t: -t["events"])]
        results = [f.result() for f in futs]
        if f_rec:
            f_rec.result()

    by_kind = {t["label"]: t for t in traces}
    summary = {}
    for label, cnt, divs, r in results:
        t = by_kind[label]
        kind = t["kind"]
        summary[label] = {"events": t["events"], "configs": cnt["cfgs"], "runs_started": cnt["runs"],
                         "shred_disseminations_delivered": cnt["delivered"],
                         "net_calls_conforming": cnt["net"], "probe_calls_conforming": cnt["probes"],
                         "entries_inferred": cnt["inferred"], "turbine_trees_recognised": cnt["trees"],
                         "events_skipped_after_divergence": cnt["skipped"], "divergences": cnt["divs"],
                          "switched_instances": t.get("switched_instances", 0),
                         "tlc_wall_s": round(r.wall_s, 1)}
        if cnt["cfgs"] != t["cfgs"] or cnt["divs"] != len(divs):
            raise ToolError(f"trace {kind}: configuration / divergence count mismatch")
        # vacuity of the trace validation
        if cnt["divs"] == 0 and (cnt["net"] != t["calls"] or cnt["probes"] != t["probes"]
                                 or cnt["runs"] != t["runs"] or cnt["skipped"] != 0):
            raise ToolError(f"trace {kind}: accepted trace but not every call was validated")
        if kind != "rotor_fa1" or cnt["divs"] == 0:
            if cnt["delivered"] == 0 or (kind != "trivial" and cnt["inferred"] == 0):
                raise ToolError(f"trace {kind}: nothing delivered / inferred")
        # instances with a history (with_sampler / with_fanout after routing) must be among the copies
        if kind != "trivial" and t.get("switched_instances", 0) == 0 and t.get("panics", 0) == 0:
            raise ToolError(f"trace {label}: no switched (with_sampler / with_fanout) instance was exercised")
        if kind == "turbine" and cnt["divs"] == 0 and cnt["trees"] == 0:
            raise ToolError("trace turbine: no complete tree was observed")
        out = []
        for d in divs:
            reason = d["reason"]
            if reason.startswith("driver:") or reason in ("unknown",):
                raise ToolError(f"trace {kind}: recording inconsistent with itself: {reason} at event {d['idx']}")
            ev = d.get("ev", {})
            what = ev.get("call") or ev.get("what") or ev.get("op")
            cls = d.get("class", "-")
            if reason == "panic":
                # a panic is data: classified by where it happened and its message
                cls = re.sub(r"[^a-z0-9]+", "_", str(ev.get("msg", "")).lower()).strip("_")[:80] or "-"
            fp = f"{kind}:{reason}:{what}:{cls}"
            out.append({"fingerprint": fp, "fields": [reason],
                        "trace": t["trace"], "event_index": d["idx"],
                        "config": {"id": d["cfg"], "n": d["n"], "fanout": d["f"]},
                        "offending_event": ev, "spec_expected": d.get("detail"),
                        "instance_history": instance_history(t["trace"], d["idx"], ev.get("node"), ev.get("inst"))})
        ctx.replay_report(MODEL, {"model": MODEL + ":" + label, "walks": cnt["runs"], "steps": t["events"],
                                  "edges": cnt["net"] + cnt["probes"], "covered": cnt["net"] + cnt["probes"],
                                  "complete": cnt["divs"] == 0, "div_count": cnt["divs"],
                                  "fingerprints": sorted({o["fingerprint"] for o in out}),
                                  "divergences": out, "samples": t.get("samples", [])})
    ctx.notes["trace_validation"] = summary
    ctx.notes["stake_vectors"] = rep.get("stake_vectors")
    # part 3: the NODE's glue around the disseminator (consensus.rs handle_disseminator_shred: validate, forward,
    # store; the leader's own relay duty): fault-free executions of full nodes - no loss, no crash, no Byzantine
    # validator - in which every shred of every finalized slot must be scheduled for every validator other than the
    # slot's leader (EveryoneReceives of Dissemination.tla evaluated on the real system)
    from .. import sim as S
    runs = [([1, 1, 1, 1, 1], 0), ([5, 1, 1, 1], 1)] if ctx.tier == "quick" else \
        [([1, 1, 1, 1, 1], 0), ([5, 1, 1, 1], 1), ([1] * 7, 2), ([9, 1, 1], 3), ([3, 2, 2, 1, 1, 1, 1], 4), ([1, 1], 5)]
    for stakes, k in runs:
        name = f"faultfree{len(stakes)}_{k}"
        trace, summary = S.run_sim(ctx, name, stakes, seed=ctx.seed + 900 + k, gst=0, chaos=0, drop=0, dup=0, delta=60,
                                   run_ms=(9000 if ctx.tier == "quick" else 20000))
        ctx.traces += 1
        ctx.notes.setdefault("faultfree_sims", []).append({"name": name, "stakes": stakes, "finals": summary["finals"],
                                                            "shreds_checked": summary["shreds_checked"],
                                                            "gaps": len(summary["shred_gaps"])})
        if summary["shreds_checked"] < 500:
            raise ToolError(f"vacuity: only {summary['shreds_checked']} shreds checked in {name}")
        for p_ in summary["panics"] + summary["task_panics"] + summary["node_errors"]:
            ctx.divergence(name, "panic", {"panic": p_, "stakes": stakes})
        if summary["shred_gaps"]:
            ctx.divergence(name, "node:shred-not-forwarded-to-everyone",
                           {"stakes": stakes, "gaps": summary["shred_gaps"], "shreds_checked": summary["shreds_checked"]})
    return ctx.finish(rule="part 1: every reachable state of MC_Dissemination (every protocol, N, fanout, global "
                           "routing function and delivery order within the bounds); part 2: one trace per protocol "
                           "kind; a case is one recorded API call (send/forward) of one independently constructed "
                           "instance, validated by TLC against the single inferred routing function, plus the "
                           "delivery predicate per run and the tree recogniser per configuration")
