"""C08 Per-node finality tracking and pruning are certificate-justified and lossless."""
from .. import pool as P
from . import c07

INVS = ["FinalizedIff", "HighestIsFinalized", "WatermarkDecided", "AncestorsFinalized",
        "RetainedBounded", "AtMostOnce", "AdmissionTable"]


def run(ctx):
    return c07.run(ctx, invs=INVS, rel=P.rel_c08, witnesses=("W_Finalized", "W_Pruned"),
                   node_rel=lambda a: "fin" in a or "panic" in a, node_sims=["cmp_lag4"], quick_skip=())
