"""C01 Finalization agreement: correct nodes never finalize conflicting blocks."""
from .. import absmodel as A
from .. import sim as S
from .. import nodetrace as NT
from .. import votor as V
from .. import pool as P
from . import c05, c06


def sims(ctx):
    if ctx.tier == "quick":
        return [
            dict(name="honest4", stakes=[2, 2, 2, 1], seed=ctx.seed, run_ms=7000),
            dict(name="byzspam4", stakes=[2, 2, 2, 1], byz=[3], byz_mode="spam", seed=ctx.seed + 1,
                 gst=4000, chaos=1500, drop=100, dup=50, run_ms=9000),
            # equivocating leader: two blocks per slot shown to different halves, plus vote equivocation
            dict(name="equiv4", stakes=[2, 2, 2, 1], byz=[3], byz_mode="equivocate", seed=ctx.seed + 3,
                 gst=1000, chaos=600, drop=20, dup=20, run_ms=9000),
            dict(name="crash6", stakes=[1, 1, 1, 1, 1, 1], byz=[5], byz_mode="spam", crashed=[2],
                 crash_at=2500, seed=ctx.seed + 2, gst=3000, chaos=1200, drop=50, run_ms=8000),
            # a lagging correct node (certificates without blocks for 7 s, late equivocated blocks, catch-up by repair)
            dict(name="lag4", stakes=[2, 2, 2, 1], byz=[3], byz_mode="equivocate", seed=ctx.seed + 5, gst=500, chaos=300,
                 drop=10, run_ms=12000, lag=(1, 1500, 8500)),
            # the same stake ratios at the top of the u64 range (total 1.75e19 < 2^64)
            dict(name="equiv4_big", stakes=[2, 2, 2, 1], stake_scale=25 * 10**17, byz=[3], byz_mode="equivocate",
                 seed=ctx.seed + 4, gst=1000, chaos=600, drop=20, dup=20, run_ms=7000),
        ]
    out = []
    for i in range(10):
        out.append(dict(name=f"byz4_{i}", stakes=[2, 2, 2, 1], byz=[3], byz_mode=("equivocate" if i % 2 else "spam"),
                        seed=ctx.seed + 10 + i, gst=5000 + 500 * i, chaos=1000 + 300 * i, drop=40 * i,
                        dup=30, run_ms=12000))
    for i in range(8):
        out.append(dict(name=f"six_{i}", stakes=[1, 1, 1, 1, 1, 1], byz=[(i % 6)], byz_mode=("equivocate" if i % 2 == 0 else "spam"),
                        crashed=[(i + 3) % 6], crash_at=1000 * i, seed=ctx.seed + 40 + i, gst=4000,
                        chaos=2000, drop=100, dup=50, run_ms=11000))
    out.append(dict(name="equiv4_big", stakes=[2, 2, 2, 1], stake_scale=25 * 10**17, byz=[3], byz_mode="equivocate",
                    seed=ctx.seed + 4, gst=1000, chaos=600, drop=20, dup=20, run_ms=12000))
    for i in range(4):
        out.append(dict(name=f"seven_{i}", stakes=[3, 2, 2, 1, 1, 1, 1], byz=[3 + i % 4], byz_mode="spam",
                        crashed=[(i + 5) % 7 if (i + 5) % 7 > 2 else 6], crash_at=2000,
                        seed=ctx.seed + 70 + i, gst=3000, chaos=1500, drop=50, run_ms=10000))
    return out


def run(ctx):
    ctx.build_harness()
    ctx.assumptions += ["< 20% of the stake Byzantine", "BLS/Ed25519/SHA-256 are secure (ideal signatures in the spec)",
                        "bounded validator counts and slot ranges (no inductive proof)"]
    # 1. design level: the abstract protocol is safe for every schedule and every Byzantine vote (exhaustive)
    A.run_mc(ctx, "abs_w4_s2", [2, 2, 2, 1], [3], 4, 2, A.FORK2,
             witnesses=["W_Finalized", "W_SlowFinalized", "W_SkipCert", "W_NfVote", "W_SfVote"])
    if ctx.tier == "thorough":
        A.run_mc(ctx, "abs_w2_s3", [2, 2, 2, 1], [3], 2, 3, A.FORK3_W2, timeout=3000,
                 witnesses=["W_ImplFinalized"])
        A.run_mc(ctx, "abs_w4_s3", [2, 2, 2, 1], [3], 4, 3, A.FORK3, timeout=3400)
        # five validators, other threshold geometry (total 14: 20% = 2.8, 40% = 5.6, 60% = 8.4, 80% = 11.2)
        A.run_mc(ctx, "abs5_w4_s2", [3, 3, 3, 3, 2], [4], 4, 2, A.FORK2, timeout=2400)
    # 2. code level, components: the real Votor takes exactly the spec's transitions
    V.run_model(ctx, "votor_handover", c05.HANDOVER, 7, 7 if ctx.tier == "quick" else 9,
                sample=60000 if ctx.tier == "quick" else 600000)
    # ... and the real pool raises safe-to-notar / safe-to-skip, certificates and parent-ready exactly
    #     as the spec's pool does (these events drive the fallback votes and parent choices)
    rel = lambda fp, fields: any(f.startswith("ev.") or f == "panic" for f in fields)
    P.run_model(ctx, "pool_s2n", [2, 2, 1], 0, 7,
                c06.scenarios(["notar", "skip", "sf"], ["notar", "ff"], sibling=["ff", "nf"]),
                c06.INVS, rel, sample=(90000 if ctx.tier == "quick" else 1000000),
                scale=3 * 10**18, scale_sample=(40000 if ctx.tier == "quick" else 300000))
    # 3. code level, system: real nodes under adversarial schedules are behaviours of the abstract protocol
    for sc in sims(ctx):
        name = sc.pop("name")
        stakes = sc["stakes"]
        byz = sc.get("byz", [])
        trace, summary = S.run_sim(ctx, name, **sc)
        ctx.traces += 1
        ctx.notes.setdefault("sims", []).append({"name": name, **{k: summary[k] for k in
                                                 ("events", "finals", "messages", "task_panics", "node_errors")}})
        for p in summary["task_panics"] + summary["node_errors"]:
            if "consensus safety violation" in p:
                ctx.divergence(name, "panic:consensus safety violation", {"panic": p, "config": sc})
        rej = S.validate(ctx, "tv_" + name, trace, stakes, byz)
        # component level: every pool call and Votor step of every correct node is a transition of Pool.tla / Votor.tla
        NT.check(ctx, "nt_" + name, trace, stakes, [i for i in range(len(stakes)) if i not in byz], config=sc)
        if rej:
            ctx.divergence(name, S.fingerprint(rej), {"config": sc, **rej})
        elif len(ctx.samples) < 3:
            with open(trace) as f:
                ctx.samples.append({"sim": name, "first_events": [next(f).strip() for _ in range(6)]})
    ctx.exhaustive = False
    return ctx.finish(rule="abstract model: every reachable state; votor: every sampled transition; "
                           "system: every event of every simulated execution validated as an abstract action")
