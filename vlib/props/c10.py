"""C10 No network input or Byzantine-signed content can crash or wedge a node."""
import json

from .. import sim as S
from .. import nodetrace as NT
from ..core import ToolError

CFG = """CONSTANTS
  MaxTx = 512
  Datagram = 1492
INIT Init
NEXT Next
CHECK_DEADLOCK FALSE
"""


def run(ctx):
    ctx.build_harness()
    # component level: the leader's block production (Producer.tla) under every interleaving of transactions
    # (boundary sizes, oversized), ticks and ParentReady (same / other parent), replayed into the real BlockProducer
    from .. import producer as PR
    PR.run_model(ctx, "producer", relevant=PR.relevant_c10, race=True)
    ctx.assumptions += ["under hostile traffic only finalization (not the one-round fast path) is demanded: the block "
                        "producer measures slice time with std::time::Instant, which stands still under the paused clock, "
                        "so a transaction flood stretches block production in virtual time (a simulation artefact)",
                        "hostile inputs are well-formed on the wire (byte-level malformation: see C19)",
                        "< 20% Byzantine stake (safety-violation assertions of the finality tracker are out of reach)"]
    # 1. design level: the intended validation of every interface implies the requirements of the later stages
    ctx.witness("nodeio", "MC_NodeIO", CFG, "", ["W_BeforeFixPanics"])
    r = ctx.tlc("nodeio", "MC_NodeIO", CFG + "INVARIANTS NoPanic StillServing EmitCase\n", "", workers=4, timeout=600)
    classes = set()
    with open(r.out_path) as f:
        for line in f:
            if line.startswith('<<"CASE"'):
                j = json.loads(line[len('<<"CASE", "'):-4].replace('\\"', '"'))
                if j["panic"]:
                    raise ToolError("spec expects a panic for " + json.dumps(j))
                classes.add(json.dumps(j["input"], sort_keys=True))
    ctx.notes["hostile_classes_in_spec"] = len(classes)
    if len(classes) < 50:
        raise ToolError("vacuity: too few hostile classes enumerated")
    # 2. code level: real nodes under hostile traffic on every interface (Byzantine validator that is also a
    #    leader: malformed signed blocks, hostile votes, unsolicited / mismatched repair traffic, oversized txs)
    if ctx.tier == "quick":
        runs = [dict(name="hostile4", stakes=[2, 2, 2, 1], byz=[3], seed=ctx.seed, run_ms=15000),
                dict(name="hostile6", stakes=[1, 1, 1, 1, 1, 1], byz=[2], seed=ctx.seed + 1, run_ms=17000,
                     gst=1500, chaos=700, drop=30)]
    else:
        runs = []
        for k in range(8):
            runs.append(dict(name=f"hostile4_{k}", stakes=[2, 2, 2, 1], byz=[3], seed=ctx.seed + 10 + k,
                             run_ms=22000, gst=500 * k, chaos=400 * k, drop=10 * k, dup=20))
        for k in range(6):
            runs.append(dict(name=f"hostile6_{k}", stakes=[1, 1, 1, 1, 1, 1], byz=[k], seed=ctx.seed + 30 + k,
                             run_ms=30000, gst=2000, chaos=1000, drop=30, crashed=[(k + 2) % 6], crash_at=3000))
    # 3. equivocating leaders (two blocks per slot shown to a seeded split of the receivers): the tasks of the
    #    correct nodes - in particular the next leader's block production - must survive, finalization continues
    n_eq = 8 if ctx.tier == "quick" else 40
    for k in range(n_eq):
        name = f"equiv_{k}"
        stakes = [2, 2, 2, 1] if k % 2 == 0 else [1, 1, 1, 1, 1, 1]
        byz = [3] if k % 2 == 0 else [(k // 2) % 6]
        # every fourth run: a correct node lags (certificates but no blocks for 8 s) and the equivocator hands it the
        # OTHER block of its already certified slots late
        lag = ((byz[0] + 1) % len(stakes), 1500, 9500) if k % 4 in (2, 3) else None
        trace, summary = S.run_sim(ctx, name, stakes, byz=byz, byz_mode="equivocate", seed=ctx.seed + 100 + k,
                                   gst=1000, chaos=500, delta=80, run_ms=20000, lag=lag)
        ctx.traces += 1
        ctx.notes.setdefault("equivocation_sims", []).append(
            {"name": name, "finals": summary["finals"], "panics": summary["panics"]})
        for p in summary["panics"] + summary["node_errors"] + summary["task_panics"]:
            where = p.split(":")[0].split("/")[-1] if "/" in p else "task"
            ctx.divergence(name, f"panic:{where}", {"panic": p, "stakes": stakes, "byz": byz, "seed": ctx.seed + 100 + k})
        if min(f["finalized_slot"] for f in summary["finals"]) < 30 and not summary["panics"]:
            ctx.divergence(name, "wedged:finalization stopped", {"finals": summary["finals"], "seed": ctx.seed + 100 + k})
    for sc in runs:
        name = sc.pop("name")
        stakes, byz, crashed = sc["stakes"], sc["byz"], sc.get("crashed", [])
        sc.setdefault("gst", 0)
        sc.setdefault("chaos", 0)
        trace, summary = S.run_sim(ctx, name, byz_mode="hostile", delta=100, **sc)
        ctx.traces += 1
        hostile_events = sum(1 for line in open(trace) if '"e":"Hostile"' in line)
        ctx.notes.setdefault("sims", []).append({"name": name, "hostile_bursts": hostile_events,
                                                 **{k: summary[k] for k in ("events", "finals", "messages", "panics", "node_errors")}})
        if hostile_events < 10 and not (summary["panics"] or summary["node_errors"] or summary["task_panics"]):
            raise ToolError(f"vacuity: only {hostile_events} hostile bursts in {name}")
        # the spec expects: no task panics ...
        for p in summary["panics"] + summary["node_errors"] + summary["task_panics"]:
            where = p.split(":")[0].split("/")[-1] if "/" in p else "task"
            ctx.divergence(name, f"panic:{where}", {"panic": p, "config": sc})
        # ... and the node keeps voting, producing, repairing, finalizing (progress goal on the execution)
        consts = (f"  Crashed = {{{', '.join(map(str, crashed))}}}\n  SilentByz = {{}}\n"
                  f"  StableFrom = {sc['gst'] + sc['chaos'] + 1000}\n  EndT = {sc['run_ms']}\n  Margin = 3500\n  RequireFast = FALSE\n"
                  f"  Starved = {{{', '.join(map(str, summary.get('starved_slots', [])))}}}\n")
        NT.check(ctx, "nt_" + name, trace, stakes, [i for i in range(len(stakes)) if i not in byz], config=sc)
        rej = S.validate(ctx, "tv_" + name, trace, stakes, byz, module="Trace_Progress",
                         invs=S.TRACE_INVS + ["GoalAtEnd"], extra_consts=consts)
        if rej:
            ctx.divergence(name, S.fingerprint(rej), {"config": sc, **rej})
        else:
            judged = []
            with open(ctx.models[-1]["out_path"]) as f:
                for line in f:
                    if line.startswith('<<"JUDGED"'):
                        judged.append(json.loads(line[len('<<"JUDGED", "'):-4].replace('\\"', '"')))
            ctx.notes.setdefault("judged", []).append({"sim": name, "judged": judged})
            if not judged or not judged[0]["windows"]:
                raise ToolError(f"vacuity: no window judged after hostile traffic in {name}")
            if len(ctx.samples) < 3:
                ctx.samples.append({"sim": name, "hostile_bursts": hostile_events, "finals": summary["finals"]})
    ctx.exhaustive = False
    return ctx.finish(rule="design: every hostile input class of NodeIO.tla; code: one case = one simulated execution with a "
                           "burst of hostile traffic on all five interfaces per observed slot and malformed signed blocks in "
                           "the Byzantine leader's windows")
