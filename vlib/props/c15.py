"""C15 Merkle proofs verify exactly for the leaf at the stated position."""

INVS = ["VerifyIff", "LastIff", "CreatedProofVerifies", "LengthLimit", "AlteredRejected"]


def cfg(max_leaves, invs, emit):
    s = f"""CONSTANTS
  MaxLeaves = {max_leaves}
  FarIndex = 1048576
INIT Init
NEXT Next
CHECK_DEADLOCK FALSE
"""
    if emit:
        s += "INVARIANT EmitCase\n"
    if invs:
        s += "INVARIANTS\n  " + " ".join(invs) + "\n"
    return s


def run(ctx):
    ctx.build_harness()
    ctx.assumptions += ["SHA-256 is collision resistant (the spec uses an ideal injective hash)"]
    n = 9 if ctx.tier == "quick" else 17
    ctx.witness("merkle", "MC_Merkle", cfg(4, [], False), "",
                ["W_Aliasing", "W_LastTrue", "W_LastFalseButPlainTrue"])
    r = ctx.tlc("merkle", "MC_Merkle", cfg(n, INVS, True), "", workers=6, timeout=3000)
    rep = ctx.harness(["replay-merkle", "--tlc-out", r.out_path])
    if rep["edges"] != r.distinct:
        from ..core import ToolError
        raise ToolError(f"merkle: {rep['edges']} cases replayed, TLC enumerated {r.distinct}")
    ctx.replay_report("merkle", rep)
    return ctx.finish(rule="one case = (tree size/pattern, leaf index, claimed index, leaf, root, proof variant, "
                           "plain/last verifier); all enumerated by TLC with the spec's verdict")
