"""C05 A correct node's own votes obey the voting rules under every event order."""
from .. import node as ND
from .. import votor as V

G = (0, "G")
W0 = V.universe(
    blocks=[(1, "A", G), (1, "B", G), (2, "A", (1, "A")), (2, "B", (1, "B")), (3, "A", (2, "A"))],
    ready=[], certs=[("notar", 1, "A"), ("notar", 2, "A"), ("final", 1, "-")],
    s2n=[(1, "B"), (2, "B")], evslots=[1, 2, 3])
HANDOVER = V.universe(
    blocks=[(3, "A", (2, "A")), (4, "A", (3, "A")), (4, "B", (2, "A")), (5, "A", (4, "A"))],
    ready=[(4, (3, "A")), (4, (2, "A"))],
    certs=[("notar", 4, "A"), ("ff", 4, "A"), ("final", 5, "-"), ("notar", 5, "A")],
    s2n=[(4, "B")], evslots=[3, 4, 5])
# the node has notarized slots 1..3 (window 0) before anything of window 1 happens: the first block of the next
# window may arrive before / without its ParentReady, next to the certificate of the block it builds on
BOUNDARY = V.universe(
    blocks=[(1, "A", G), (2, "A", (1, "A")), (3, "A", (2, "A")), (4, "A", (3, "A")), (4, "B", (2, "A")), (5, "A", (4, "A"))],
    ready=[(4, (3, "A"))], certs=[("notar", 3, "A"), ("notar", 4, "A")], s2n=[(4, "B")], evslots=[4],
    prefix=[(1, "A", G), (2, "A", (1, "A")), (3, "A", (2, "A"))])


def run(ctx):
    ctx.build_harness()
    ctx.assumptions += ["pool guarantees towards Votor (C06): safe-to-notar/skip only after the own vote",
                        "timer arming (set_timeouts) is compared per step; the firing times themselves are exercised by C02"]
    if ctx.tier == "quick":
        V.run_model(ctx, "w0", W0, 7, 7, sample=80000,
                    witnesses=["W_Final", "W_Nf", "W_Sf"])
        V.run_model(ctx, "handover", HANDOVER, 7, 7, sample=80000,
                    witnesses=["W_Pruned", "W_NotarSecondWindow"])
        V.run_model(ctx, "boundary", BOUNDARY, 7, 6, sample=80000, witnesses=["W_NotarSecondWindow"])
    else:
        V.run_model(ctx, "w0", W0, 7, 10, sample=2500000, witnesses=["W_Final", "W_Nf", "W_Sf"])
        V.run_model(ctx, "handover", HANDOVER, 7, 10, sample=2500000,
                    witnesses=["W_Pruned", "W_NotarSecondWindow"])
        V.run_model(ctx, "boundary", BOUNDARY, 7, 9, sample=1500000, witnesses=["W_NotarSecondWindow"])
    # the composition Pool + Votor (consensus.rs wiring): the rules hold without assumptions about the pool,
    # and the real pair takes exactly the spec's transitions
    ND.run_model(ctx, "node_w0", ND.W0["stakes"], ND.W0["own"], ND.W0["max_slot"],
                 8 if ctx.tier == "quick" else 13, ND.W0["d"],
                 sample=(70000 if ctx.tier == "quick" else 1500000), witnesses=["W_Final"])
    # code -> spec on real executions: every pool call / Votor step of every correct node of simulated networks
    # (equivocating and noisy Byzantine validators, loss, crashes, standstill recovery) is a transition of the spec
    from .. import nodetrace as NT
    NT.component_sims(ctx, lambda a: "votor" in a or "channel" in a)
    return ctx.finish(rule="every (votor state, event) pair of the model is one case; events: pool events, "
                           "blockstore events (several blocks per slot, children before parents), timeouts")
