"""C13 Blockstore rebuilds exactly the disseminated block, once, and flags bad ones.

spec/Blockstore.tla (one slot's SlotBlockData/BlockData as pure operators, real thresholds 32-of-64) +
spec/MC_Blockstore.tla (scenarios = what the leader signed: a correct block, a correct block plus one
conflicting signed slice, a block with one malformed slice; follower deliveries in every order with every
duplication; leader fast path).  TLC checks the C13 invariants on every reachable state and dumps every
transition; harness/src/blockstore_driver.rs replays walks covering every transition into a real
BlockstoreImpl and compares return values, events, the Pool hand-over and the projected state per step."""
import os

from ..core import ToolError

INVS = ["BlockIffComplete", "BlockIsLeaders", "HonestCompletes", "FirstShredOnce", "BlockOnce", "InvalidOnce",
        "NoBlockAfterInvalid", "MalformedFlagged_Equivocation", "MalformedFlagged_Slice", "MalformedFlagged_Block",
        "MalformedNeverAnnounced", "MalformedFlagged_Scenario", "AnnouncedIsSane", "RefusesAfterInvalid",
        "ServesAll", "FastPathEqualsFollower", "FastPathCompletes", "Structure", "RepairSpotOnce", "RepairCompletes"]

ALL_CLASSES = ["honest", "honest_switch", "conflict_content", "conflict_last_flag", "beyond_last",
               "second_last_marker", "garbage", "undecodable_txs", "no_parent", "switch_to_self", "switch_twice",
               "parent_not_earlier"]
BAD_CLASSES = [c for c in ALL_CLASSES if not c.startswith("honest")]
MIN_SLICES = {"honest_switch": 2, "switch_to_self": 2, "switch_twice": 3}   # smallest block shape a class exists for

# fixed embeddings of the model's groups of shreds into the real 64 shreds of a slice
E4 = [(0, 15), (16, 31), (32, 47), (48, 63)]                 # 2-of-4: data halves / coding halves
EDGE = [(0, 30), (31, 31), (32, 62), (63, 63)]               # threshold reached by a single shred / in mid-group
E8 = [(8 * i, 8 * i + 7) for i in range(8)]                  # 4-of-8
E5 = [(0, 7), (8, 15), (24, 31), (32, 39), (56, 63)]         # 4-of-5, leaves real shreds undelivered
E3 = [(0, 15), (16, 47), (48, 63)]                           # the middle group alone restores a slice


def wrapper(blocks, classes, vias):
    bl = "<<" + ", ".join(f"<<{lo}, {hi}>>" for lo, hi in blocks) + ">>"
    cl = "{" + ", ".join(f'"{c}"' for c in classes) + "}"
    vi = "{" + ", ".join(f'"{v}"' for v in vias) + "}"
    w = f"PS == [A |-> 3, B |-> 4, C |-> 2, L |-> 9, S |-> 5]\nBL == {bl}\nCL == {cl}\nVI == {vi}\n"
    w += "".join(f'W_bad_{c} == W_BadClass("{c}")\n' for c in BAD_CLASSES)
    return w


def cfg(max_n, switch_in, invariants, dump, repair=False):
    s = f"""CONSTANTS
  BSlot = 5
  ParSlot <- PS
  MaxIdx = {max_n}
  Blocks <- BL
  MaxN = {max_n}
  Classes <- CL
  SwitchIn = {"TRUE" if switch_in else "FALSE"}
  RepairOn = {"TRUE" if repair else "FALSE"}
  Vias <- VI
INIT Init
NEXT Next
VIEW View
CHECK_DEADLOCK FALSE
"""
    if dump:
        s += "ACTION_CONSTRAINT EmitEdge\nINVARIANT EmitState\n"
    if invariants:
        s += "INVARIANTS\n  " + " ".join(invariants) + "\n"
    return s


def run_model(ctx, name, blocks, max_n, classes, switch_in=True, vias=("node", "direct"), sample=None,
              witnesses=False, timeout=2400, workers=6, repair=False):
    w = wrapper(blocks, classes, vias)
    if witnesses:
        ws = ["W_HonestDone"] + (["W_DoneThenBad"] if any(c in BAD_CLASSES for c in classes) else [])
        ws += [f"W_bad_{c}" for c in BAD_CLASSES
                                                  if c in classes and max_n >= MIN_SLICES.get(c, 1)]
        if repair:
            ws += ["W_RepairThenDissem", "W_DissemDoneRepairPartial"]
        ctx.witness(name, "MC_Blockstore", cfg(max_n, switch_in, [], False, repair), w, ws, workers=2)
    r = ctx.tlc(name, "MC_Blockstore", cfg(max_n, switch_in, INVS, True, repair), w, workers=workers, timeout=timeout)
    args = ["replay-blockstore", "--tlc-out", r.out_path, "--seed", ctx.seed, "--model", name]
    if sample:
        args += ["--sample", sample]
        ctx.exhaustive = False
    rep = ctx.harness(args)
    rep["model"] = name
    if rep["edges"] != r.generated - rep["init"]:
        raise ToolError(f"{name}: dump has {rep['edges']} edges, TLC generated {r.generated}")
    if rep["nodes"] != r.distinct:
        raise ToolError(f"{name}: dump has {rep['nodes']} states, TLC found {r.distinct}")
    # vacuity on the replay side: every class must have produced its characteristic outcome in the REAL store
    oc = rep.get("outcomes", {})
    need = []
    for c in classes:
        if max_n < MIN_SLICES.get(c, 1):
            continue
        need.append(f"{c}:ev:FirstShred")
        if c.startswith("honest"):
            need += [f"{c}:ev:Block", f"{c}:own-ev:Block", f"{c}:ret:dup"]
            if repair:
                # the repair spot completed, too, and the block was served after dissemination completed it
                need += [f"{c}:rep-ev:FirstShred", f"{c}:rep-ev:Block", f"{c}:obs:served-after-dissemination"]
        elif c not in ("beyond_last",) or not sample:
            need.append(f"{c}:ev:InvalidBlock")
    missing = [k for k in need if not oc.get(k)]
    before = len(ctx.violations)
    ctx.replay_report(name, rep)
    if missing and len(ctx.violations) == before:
        # (walks end at a divergence: with unexplained divergences the outcome histogram says nothing)
        raise ToolError(f"vacuity: {name}: the real store never produced {missing}")
    if not sample and rep["covered"] < rep["edges"]:
        # transitions out of states that are only reachable through a diverging (known-finding) transition are
        # not replayed; without divergences everything must be covered
        if rep["div_count"] == 0:
            raise ToolError(f"{name}: only {rep['covered']} of {rep['edges']} transitions replayed")
        ctx.notes.setdefault("uncovered_behind_divergences", {})[name] = rep["edges"] - rep["covered"]
    ctx.notes.setdefault("c13", {})[name] = {
        "groups": blocks, "max_slices": max_n, "classes": len(classes), "scenarios": rep.get("scenarios"),
        "add_shred_calls": rep.get("micro_calls"), "serve_checks": rep.get("serve_checks"),
        "tlc_s": round(r.wall_s, 1)}
    try:
        os.remove(r.out_path)
    except OSError:
        pass
    return r, rep


def run(ctx):
    ctx.build_harness()
    ctx.assumptions += [
        "one slot: the dissemination spot and ONE repair spot (filed under the correct leader's block hash, fed with "
        "the leader's own shreds); repairs of other hashes, hostile repair responses (C14) and pruning are not modelled",
        "shreds are delivered in fixed groups of real shred indices (ascending inside a group); the specification "
        "counts real shreds, so the 32-of-64 threshold is the real one; orders inside a group are not permuted",
        "via=node transcribes handle_disseminator_shred (validation against the cached commitment, drop on error); "
        "the method itself is private to the node and is not executed",
        "SHA-256 Merkle roots and Ed25519 signatures do not collide on the concretised slices"]
    if ctx.tier == "quick":
        run_model(ctx, "bs_n2", E4, 2, ALL_CLASSES, switch_in=True)
        run_model(ctx, "bs_edge", EDGE, 2, ALL_CLASSES, switch_in=False)
        run_model(ctx, "bs_n3", E4, 3, ["honest", "honest_switch", "conflict_last_flag", "beyond_last", "switch_twice",
                                        "switch_to_self"], switch_in=False, vias=("direct",))
        # dissemination and repair of the same block interleaved
        run_model(ctx, "bs_rep", E4, 2, ["honest", "honest_switch"], switch_in=False, vias=("direct",), repair=True)
    else:
        run_model(ctx, "bs_n2", E4, 2, ALL_CLASSES, switch_in=True, witnesses=True)
        run_model(ctx, "bs_n3", E4, 3, ALL_CLASSES, switch_in=True)
        run_model(ctx, "bs_edge", EDGE, 2, ALL_CLASSES, switch_in=True)
        run_model(ctx, "bs_e5", E5, 2, ["honest", "honest_switch", "conflict_content", "beyond_last", "second_last_marker",
                                        "garbage", "undecodable_txs"], switch_in=False, vias=("direct",))
        run_model(ctx, "bs_e8", E8, 1, ALL_CLASSES, switch_in=False)
        run_model(ctx, "bs_rep", E4, 2, ["honest", "honest_switch"], switch_in=False, repair=True, witnesses=True)
        run_model(ctx, "bs_rep3", E3, 3, ["honest", "honest_switch"], switch_in=False, vias=("direct",), repair=True)
    return ctx.finish(rule="one case = one transition (store state, signed slice, group of real shreds, ingest path) of a "
                           "scenario; scenarios: block shapes 1..3 slices with and without a parent switch, every placement "
                           "of one conflicting signed slice (content / last flag / beyond the last slice) or one malformed "
                           "slice (undecodable payload / transactions, no parent, switch to itself / twice, parent not "
                           "earlier); every delivery order, duplication and subset of the groups; leader fast path")
