"""C04 Vote admission: one countable vote per validator, slashing flagged order-free."""
from .. import pool as P

INVS = ["AdmissionTable", "CountedOnce", "AtMostOnce"]


def run(ctx):
    ctx.build_harness()
    ctx.assumptions += ["votes offered to the pool are validly signed (ValidatedVote, see C09)"]
    kinds = ["notar", "nf", "skip", "sf", "final"]
    if ctx.tier == "quick":
        # every sequence of the 7 votes (2 hashes) of two validators (own and another), exhaustively
        s1 = P.scn(votes=P.scn_votes([5], ["A", "B"], kinds, validators=[0, 1]))
        P.run_model(ctx, "admit2", [2, 2, 1], 0, 7, [s1], INVS, P.rel_c04)
        # slot bounds: votes for slots 1..3 while slot 2 gets finalized and pruned
        s2 = P.scn(votes=P.scn_votes([1, 2, 3], ["A"], ["notar", "skip", "final"], validators=[1]),
                   certs=[("ff", 2, "A"), ("notar", 1, "A")],
                   blocks=[((2, "A"), (1, "A")), ((1, "A"), (0, "G"))])
        P.run_model(ctx, "bounds", [2, 2, 1], 0, 7, [s2], INVS, P.rel_c04, witnesses=["W_Pruned"])
        # admission does not depend on which certificates the slot already holds (received or formed before the vote)
        s4 = P.scn(votes=P.scn_votes([5], ["A"], kinds, validators=[1]),
                   certs=[("final", 5, "-"), ("notar", 5, "A"), ("skip", 5, "-")])
        P.run_model(ctx, "withcerts", [2, 2, 1], 0, 7, [s4], INVS, P.rel_c04, constraint=None)
    else:
        s1 = P.scn(votes=P.scn_votes([5], ["A", "B"], kinds))
        P.run_model(ctx, "admit3", [2, 2, 1], 0, 7, [s1], INVS, P.rel_c04, sample=1500000, timeout=3000)
        s3 = P.scn(votes=P.scn_votes([5], ["A", "B", "C"], kinds, validators=[0, 1]))
        P.run_model(ctx, "admit3h", [2, 2, 1], 0, 7, [s3], INVS, P.rel_c04, timeout=3000)
        s2 = P.scn(votes=P.scn_votes([1, 2, 3], ["A"], kinds, validators=[1]),
                   certs=[("ff", 2, "A"), ("notar", 1, "A"), ("final", 1, "-")],
                   blocks=[((2, "A"), (1, "A")), ((1, "A"), (0, "G"))])
        P.run_model(ctx, "bounds", [2, 2, 1], 0, 7, [s2], INVS, P.rel_c04, witnesses=["W_Pruned"])
        s4 = P.scn(votes=P.scn_votes([5], ["A", "B"], kinds, validators=[1, 2]),
                   certs=[("final", 5, "-"), ("notar", 5, "A"), ("skip", 5, "-"), ("nf", 5, "B")])
        P.run_model(ctx, "withcerts", [2, 2, 1], 0, 7, [s4], INVS, P.rel_c04, sample=1000000, timeout=3000)
    # code -> spec on real executions: every pool call / Votor step of every correct node of simulated networks
    # (equivocating and noisy Byzantine validators, loss, crashes, standstill recovery) is a transition of the spec
    from .. import nodetrace as NT
    NT.component_sims(ctx, lambda a: "ret" in a)
    return ctx.finish(rule="every (accepted-vote-set, offered vote) pair of the model is one case")
