"""Shared machinery of /verif/bin/check: TLC runner, harness runner, evidence writer,
known-findings matching, VIOLATION reporting."""
import hashlib
import json
import os
import re
import shutil
import subprocess
import sys
import time

VERIF = os.path.dirname(os.path.dirname(os.path.abspath(__file__)))
SPEC = os.path.join(VERIF, "spec")
# VERIF_ALT_ROOT relocates harness / work / evidence (used only to evaluate seeded changes on a
# scratch copy of the repository while other checks keep running against /repo)
ALT = os.environ.get("VERIF_ALT_ROOT")
OUT_ROOT = ALT if ALT else VERIF
HARNESS = os.path.join(OUT_ROOT, "harness")
HARNESS_BIN = os.path.join(HARNESS, "target", "debug", "verif-harness")
TLA_CP = "/opt/veriftools/tla/tla2tools.jar:/opt/veriftools/tla/CommunityModules-deps.jar"


class ToolError(Exception):
    pass


class TlcResult:
    def __init__(self):
        self.ok = False
        self.generated = 0
        self.distinct = 0
        self.depth = 0
        self.violated = None       # name of violated invariant / property, if any
        self.out_path = None
        self.wall_s = 0.0
        self.error = None
        self.coverage_zero = []    # actions never taken (with -coverage)


class Ctx:
    def __init__(self, prop, tier, seed):
        self.prop = prop
        self.tier = tier
        self.seed = seed
        self.t0 = time.time()
        self.work = os.path.join(OUT_ROOT, "work", prop)
        shutil.rmtree(self.work, ignore_errors=True)
        os.makedirs(self.work, exist_ok=True)
        self.states = 0
        self.transitions = 0
        self.traces = 0
        self.samples = []
        self.models = []
        self.assumptions = []
        self.violations = []       # (fingerprint, replay_path)
        self.known_hits = {}
        self.exhaustive = True
        self.notes = {}
        self.known = load_known()

    # ------------------------------------------------------------------ TLC
    def tlc(self, name, module, cfg, wrapper_defs="", workers=8, simulate=None,
            timeout=1200, heap="8g", expect_violation=None, env=None, extra=None, dfs=False):
        """Run TLC on a generated wrapper module `MC_<name>` that EXTENDS `module`.
        cfg: text of the .cfg file.  wrapper_defs: extra TLA+ definitions (constants)."""
        mod = f"MCgen_{name}"
        wdir = os.path.join(self.work, name)
        os.makedirs(wdir, exist_ok=True)
        with open(os.path.join(wdir, mod + ".tla"), "w") as f:
            f.write(f"---- MODULE {mod} ----\nEXTENDS {module}\n{wrapper_defs}\n====\n")
        with open(os.path.join(wdir, mod + ".cfg"), "w") as f:
            f.write(cfg)
        out_path = os.path.join(wdir, "tlc.out")
        jopts = ["-XX:+UseParallelGC", f"-Xmx{heap}", "-Xss512m", f"-DTLA-Library={SPEC}"]
        if dfs:
            jopts.append("-Dtlc2.tool.queue.IStateQueue=StateDeque")
        cmd = ["java"] + jopts + ["-cp", TLA_CP, "tlc2.TLC", "-workers", str(workers),
                                    "-metadir", os.path.join(wdir, "states"), "-cleanup",
                                    "-noGenerateSpecTE", "-config", mod + ".cfg"]
        if simulate:
            cmd += ["-simulate", simulate, "-seed", str(self.seed)]
        if extra:
            cmd += extra
        cmd += [mod + ".tla"]
        r = TlcResult()
        r.out_path = out_path
        t = time.time()
        e = dict(os.environ)
        if env:
            e.update(env)
        with open(out_path, "w") as out:
            try:
                p = subprocess.run(cmd, cwd=wdir, stdout=out, stderr=subprocess.STDOUT,
                                   timeout=timeout, env=e)
                rc = p.returncode
            except subprocess.TimeoutExpired:
                rc = -9
                r.error = "timeout"
        r.wall_s = time.time() - t
        shutil.rmtree(os.path.join(wdir, "states"), ignore_errors=True)
        # parse the non-dump lines
        tail = subprocess.run(["grep", "-a", "-v", "-E", '^<<"(EDGE|STATE|REPLAY)"', out_path],
                              capture_output=True, text=True).stdout
        m = re.search(r"(\d+) states generated, (\d+) distinct states found", tail)
        if m:
            r.generated = int(m.group(1))
            r.distinct = int(m.group(2))
        m = re.search(r"depth of the complete state graph search is (\d+)", tail)
        if m:
            r.depth = int(m.group(1))
        m = re.search(r"Invariant (\S+) is violated", tail)
        if m:
            r.violated = m.group(1)
        m = re.search(r"Action property (\S+) is violated", tail)
        if m:
            r.violated = m.group(1)
        if "Temporal properties were violated" in tail:
            r.violated = r.violated or "temporal"
        if "Deadlock reached" in tail:
            r.violated = r.violated or "deadlock"
        if rc == -9:
            r.error = "timeout"
        elif "Postcondition" in tail and "is false" in tail:
            r.violated = r.violated or "postcondition"
        elif r.violated is None and "No error has been found" not in tail and not simulate:
            r.error = "tlc failed: " + tail[-1500:]
        elif simulate and r.violated is None and ("Error:" in tail and "TLC threw" in tail):
            r.error = "tlc failed: " + tail[-1500:]
        r.ok = r.error is None and r.violated is None
        r.tail = tail
        self.models.append({"model": name, "generated": r.generated, "distinct": r.distinct,
                            "depth": r.depth, "wall_s": round(r.wall_s, 1),
                            "mode": ("simulate " + simulate) if simulate else "bfs",
                            "violated": r.violated, "out_path": out_path})
        if expect_violation is None:
            if r.error:
                raise ToolError(f"TLC {name}: {r.error}")
            if r.violated:
                # the specification itself violates a property: the design (not the code) is
                # wrong -> tool error, never reported as a code violation
                raise ToolError(f"TLC {name}: spec-level violation of {r.violated} (see {out_path})")
            self.states += r.distinct
            self.transitions += r.generated
        return r

    def witness(self, name, module, cfg_base, wrapper_defs, witnesses, workers=4, timeout=300):
        """Vacuity guard: each witness invariant must be VIOLATED (the state is reachable)."""
        for w in witnesses:
            cfg = cfg_base + f"\nINVARIANT {w}\n"
            r = self.tlc(f"{name}_{w}", module, cfg, wrapper_defs, workers=workers,
                         timeout=timeout, expect_violation=w)
            if r.violated != w:
                raise ToolError(f"vacuity: witness {w} not reachable in {name} ({r.error or r.violated})")
            self.notes.setdefault("witnesses_reached", []).append(w)

    # -------------------------------------------------------------- harness
    def build_harness(self):
        t = time.time()
        e = dict(os.environ)
        e["CARGO_NET_OFFLINE"] = "true"
        p = subprocess.run(["cargo", "build"], cwd=HARNESS, capture_output=True, text=True, env=e)
        if p.returncode != 0:
            raise ToolError("harness build failed:\n" + p.stderr[-3000:])
        self.notes["harness_build_s"] = round(time.time() - t, 1)

    def harness(self, args, timeout=3600):
        try:
            p = subprocess.run([HARNESS_BIN] + [str(a) for a in args], capture_output=True, text=True,
                               timeout=timeout, cwd=self.work)
        except subprocess.TimeoutExpired:
            raise ToolError(f"harness {args[0]} did not finish within {timeout} s")
        if p.returncode != 0:
            raise ToolError(f"harness {args[0]} failed rc={p.returncode}: {p.stderr[-2000:]}")
        try:
            return json.loads(p.stdout.strip().splitlines()[-1])
        except Exception as ex:
            raise ToolError(f"harness {args[0]}: bad output: {ex}: {p.stdout[-500:]}")

    # ---------------------------------------------------------- divergences
    def divergence(self, model, fingerprint, detail):
        """Classify one code/spec divergence: known finding or violation."""
        key = f"{model}|{fingerprint}"
        for k in self.known:
            if k.get("status") != "known" or k.get("property") != self.prop:
                continue
            if re.search(k["pattern"], key):
                self.known_hits.setdefault(k["id"], k)
                return
        n = len(self.violations)
        path = os.path.join(self.work, f"violation-{n}.json")
        with open(path, "w") as f:
            json.dump({"property": self.prop, "model": model, "fingerprint": fingerprint,
                       "seed": self.seed, "tier": self.tier, "detail": detail,
                       "how_to_rerun": f"VERIF_SEED={self.seed} /verif/bin/check {self.prop} --tier {self.tier}"},
                      f, indent=1)
        self.violations.append((key, path))

    def replay_report(self, model, rep, relevant=None):
        """Fold a harness replay report into the evidence; classify divergences.
        relevant: predicate(fingerprint, fields) -> bool selecting divergences of this property."""
        self.traces += rep.get("walks", 0)
        for s in rep.get("samples", [])[:2]:
            if len(self.samples) < 4:
                self.samples.append({"model": model, "walk": s})
        self.notes.setdefault("replay", []).append(
            {k: rep.get(k) for k in ("model", "nodes", "edges", "covered", "steps", "walks",
                                     "complete", "div_count", "fingerprints", "act_hist")})
        other = 0
        for d in rep.get("divergences", []):
            if relevant is None or relevant(d["fingerprint"], d["fields"]):
                self.divergence(model, d["fingerprint"], d)
            else:
                other += 1
        if other:
            self.notes["divergences_attributed_to_other_properties"] = \
                self.notes.get("divergences_attributed_to_other_properties", 0) + other

    # ------------------------------------------------------------- finishing
    def finish(self, level="model_checking", rule=None, extra_cov=None):
        for k in self.known_hits.values():
            print(f"KNOWN-FINDING: property={self.prop} {k['what']}")
        cov = {
            "states": self.states,
            "transitions": self.transitions,
            "traces_validated_against_impl": self.traces,
            "samples": self.samples if self.samples else [{"note": "no replay samples", "models": self.models}],
            "exhaustive": bool(self.exhaustive),
            "models": self.models,
            "notes": self.notes,
        }
        if rule:
            cov["rule"] = rule
        if extra_cov:
            cov.update(extra_cov)
        ev = {
            "property_id": self.prop,
            "tier": self.tier,
            "seed": self.seed,
            "level": level,
            "coverage": cov,
            "assumptions": self.assumptions,
            "wall_s": round(time.time() - self.t0, 1),
            "violations": len(self.violations),
        }
        os.makedirs(os.path.join(OUT_ROOT, "evidence"), exist_ok=True)
        with open(os.path.join(OUT_ROOT, "evidence", self.prop + ".json"), "w") as f:
            json.dump(ev, f, indent=1, sort_keys=True)
        if self.violations:
            seen = set()
            for key, path in self.violations:
                if key in seen:
                    continue
                seen.add(key)
                print(f"VIOLATION property={self.prop} replay={path}")
                print(f"  fingerprint: {key}")
            return 1
        print(f"OK property={self.prop} tier={self.tier} states={self.states} "
              f"transitions={self.transitions} traces={self.traces} wall={ev['wall_s']}s")
        return 0


def load_known():
    p = os.path.join(VERIF, "known_findings.json")
    if not os.path.exists(p):
        return []
    with open(p) as f:
        return json.load(f).get("findings", [])
