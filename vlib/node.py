"""Node model (spec/MC_Node.tla): Pool + Votor composed as in consensus.rs; replay into the real pair."""
from .core import ToolError

INVS = ["OneInitialVote", "NoFinalInBadSlot", "FinalOnlyForOwnNotar", "FallbackOnlyAfterVoted",
        "NoNfForOwnNotar", "OwnNeverRefused", "OwnVotesNeverSlashable", "NoPanic"]


def tla_set(items):
    return "{" + ", ".join(items) + "}"


def vote(k, s, h, v):
    return f'[k |-> "{k}", s |-> {s}, h |-> "{h}", v |-> {v}]'


def cert(k, s, h):
    return f'[k |-> "{k}", s |-> {s}, h |-> "{h}"]'


def block(s, h, ps, ph):
    return f'[s |-> {s}, h |-> "{h}", par |-> <<{ps}, "{ph}">>]'


def defs(stakes, votes, certs, blocks, evslots):
    sv = "<<" + ", ".join(map(str, stakes)) + ">>"
    return (f"SV == {sv}\nUV == {tla_set(votes)}\nUC == {tla_set(certs)}\nUB == {tla_set(blocks)}\n"
            f"UE == {tla_set(map(str, evslots))}\n")


def cfg(n, own, max_slot, max_steps, invs, dump, urgent="TRUE"):
    s = f"""CONSTANTS
  N = {n}
  StakeVec <- SV
  Own = {own}
  W = 4
  FarFuture = 36000
  MaxSlot = {max_slot}
  VoteU <- UV
  CertU <- UC
  BlockU <- UB
  EvSlots <- UE
  MaxSteps = {max_steps}
  Urgent = {urgent}
INIT Init
NEXT Next
VIEW View
CHECK_DEADLOCK FALSE
"""
    if dump:
        s += "ACTION_CONSTRAINT EmitEdge\nINVARIANT EmitState\n"
    if invs:
        s += "INVARIANTS\n  " + " ".join(invs) + "\n"
    return s


def run_model(ctx, name, stakes, own, max_slot, max_steps, d, relevant=None, sample=None, witnesses=(),
              timeout=2400, workers=8):
    n = len(stakes)
    if witnesses:
        ctx.witness(name, "MC_Node", cfg(n, own, max_slot, max_steps, [], False), d, witnesses, timeout=900)
    r = ctx.tlc(name, "MC_Node", cfg(n, own, max_slot, max_steps, INVS, True), d, workers=workers, timeout=timeout)
    args = ["replay-node", "--tlc-out", r.out_path, "--stakes", ",".join(map(str, stakes)), "--own", own,
            "--max-slot", max_slot, "--seed", ctx.seed, "--max-div", 60]
    if sample:
        args += ["--sample", sample]
        ctx.exhaustive = False
    rep = ctx.harness(args)
    rep["model"] = name
    if rep["edges"] != r.generated - rep["init"]:
        raise ToolError(f"{name}: dump has {rep['edges']} edges, TLC generated {r.generated}")
    ctx.replay_report(name, rep, relevant)
    import os
    try:
        os.remove(r.out_path)
    except OSError:
        pass
    return r, rep


# window 0: own = validator 0 (stake 2 of 5); validators 1 (2) and 2 (1) vote; two blocks in slot 2
W0 = dict(
    stakes=[2, 2, 1], own=0, max_slot=7,
    d=defs([2, 2, 1],
           [vote("notar", 1, "A", 1), vote("notar", 1, "A", 2),
            vote("notar", 2, "A", 1), vote("notar", 2, "B", 2), vote("skip", 2, "-", 1), vote("skip", 2, "-", 2),
            vote("final", 1, "-", 1)],
           [],
           [block(1, "A", 0, "G"), block(2, "A", 1, "A"), block(2, "B", 1, "A")],
           [1, 2]))
