"""Votor models (spec/Votor.tla, spec/MC_Votor.tla): TLC check + edge dump + replay into Votor."""
from .core import ToolError

INVS = ["OneInitialVote", "RulesAtCastTime", "NoFinalInBadSlot", "FinalOnlyForOwnNotar",
        "FallbackOnlyAfterVoted", "OwnVotesNeverSlashable", "NoNfForOwnNotar", "StandstillForwarded"]


def blk(s, h, par):
    return f'[s |-> {s}, h |-> "{h}", par |-> <<{par[0]}, "{par[1]}">>]'


def universe(blocks, ready, certs, s2n, evslots):
    b = "{" + ", ".join(blk(*x) for x in blocks) + "}"
    r = "{" + ", ".join(f'<<{s}, <<{p[0]}, "{p[1]}">>>>' for (s, p) in ready) + "}"
    c = "{" + ", ".join(f'[k |-> "{k}", s |-> {s}, h |-> "{h}"]' for (k, s, h) in certs) + "}"
    n = "{" + ", ".join(f'<<{s}, "{h}">>' for (s, h) in s2n) + "}"
    e = "{" + ", ".join(map(str, evslots)) + "}"
    return f"UB == {b}\nUR == {r}\nUC == {c}\nUN == {n}\nUE == {e}\n"


def cfg(max_slot, max_steps, invariants, dump):
    s = f"""CONSTANTS
  W = 4
  VMaxSlot = {max_slot}
  BlockU <- UB
  ReadyU <- UR
  CertU <- UC
  S2NU <- UN
  EvSlots <- UE
  MaxSteps = {max_steps}
INIT Init
NEXT Next
VIEW View
CHECK_DEADLOCK FALSE
"""
    if dump:
        s += "ACTION_CONSTRAINT EmitEdge\nINVARIANT EmitState\n"
    if invariants:
        s += "INVARIANTS\n  " + " ".join(invariants) + "\n"
    return s


def run_model(ctx, name, uni, max_slot, max_steps, relevant=None, sample=None, witnesses=(),
              timeout=2400, workers=8, own=0):
    if witnesses:
        ctx.witness(name, "MC_Votor", cfg(max_slot, max_steps, [], False), uni, witnesses)
    r = ctx.tlc(name, "MC_Votor", cfg(max_slot, max_steps, INVS, True), uni, workers=workers,
                timeout=timeout)
    args = ["replay-votor", "--tlc-out", r.out_path, "--own", own, "--max-slot", max_slot,
            "--seed", ctx.seed, "--max-div", 60]
    if sample:
        args += ["--sample", sample]
        ctx.exhaustive = False
    rep = ctx.harness(args)
    rep["model"] = name
    if rep["edges"] != r.generated - rep["init"]:
        raise ToolError(f"{name}: dump has {rep['edges']} edges, TLC generated {r.generated}")
    ctx.replay_report(name, rep, relevant)
    import os
    try:
        os.remove(r.out_path)
    except OSError:
        pass
    return r, rep
