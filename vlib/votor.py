"""Votor models (spec/Votor.tla, spec/MC_Votor.tla): TLC check + edge dump + replay into Votor."""
from .core import ToolError

INVS = ["OneInitialVote", "RulesAtCastTime", "NoFinalInBadSlot", "FinalOnlyForOwnNotar",
        "FallbackOnlyAfterVoted", "OwnVotesNeverSlashable", "NoNfForOwnNotar", "StandstillForwarded"]


def blk(s, h, par):
    return f'[s |-> {s}, h |-> "{h}", par |-> <<{par[0]}, "{par[1]}">>]'


def universe(blocks, ready, certs, s2n, evslots, prefix=()):
    b = "{" + ", ".join(blk(*x) for x in blocks) + "}"
    r = "{" + ", ".join(f'<<{s}, <<{p[0]}, "{p[1]}">>>>' for (s, p) in ready) + "}"
    c = "{" + ", ".join(f'[k |-> "{k}", s |-> {s}, h |-> "{h}"]' for (k, s, h) in certs) + "}"
    n = "{" + ", ".join(f'<<{s}, "{h}">>' for (s, h) in s2n) + "}"
    e = "{" + ", ".join(map(str, evslots)) + "}"
    up = "<<" + ", ".join(blk(*x) for x in prefix) + ">>"
    return f"UB == {b}\nUR == {r}\nUC == {c}\nUN == {n}\nUE == {e}\nUP == {up}\n"


def cfg(max_slot, max_steps, invariants, dump):
    s = f"""CONSTANTS
  W = 4
  VMaxSlot = {max_slot}
  BlockU <- UB
  ReadyU <- UR
  CertU <- UC
  S2NU <- UN
  EvSlots <- UE
  MaxSteps = {max_steps}
  Prefix <- UP
INIT Init
NEXT Next
VIEW View
CHECK_DEADLOCK FALSE
"""
    if dump:
        s += "ACTION_CONSTRAINT EmitEdge\nINVARIANT EmitState\n"
    if invariants:
        s += "INVARIANTS\n  " + " ".join(invariants) + "\n"
    return s


def run_model(ctx, name, uni, max_slot, max_steps, relevant=None, sample=None, witnesses=(),
              timeout=2400, workers=8, own=0):
    if witnesses:
        ctx.witness(name, "MC_Votor", cfg(max_slot, max_steps, [], False), uni, witnesses)
    r = ctx.tlc(name, "MC_Votor", cfg(max_slot, max_steps, INVS, True), uni, workers=workers,
                timeout=timeout)
    args = ["replay-votor", "--tlc-out", r.out_path, "--own", own, "--max-slot", max_slot,
            "--seed", ctx.seed, "--max-div", 60]
    if sample:
        args += ["--sample", sample]
        ctx.exhaustive = False
    rep = ctx.harness(args)
    rep["model"] = name
    if rep["edges"] != r.generated - rep["init"]:
        raise ToolError(f"{name}: dump has {rep['edges']} edges, TLC generated {r.generated}")
    ctx.replay_report(name, rep, relevant)
    import os
    try:
        os.remove(r.out_path)
    except OSError:
        pass
    return r, rep


TIMERS_CFG = """CONSTANTS
  W = 4
  DeltaTimeout = {dt}
  DeltaBlock = {db}
  DeltaFirst = {df}
  Windows = {windows}
INIT Init
NEXT Next
INVARIANTS CodedIsRule Ordered Emit
"""


def run_timers(ctx, name="votor_timers", windows=(1, 2, 5, 40)):
    """VotorTimers.tla: the timeout schedule of a window: crashed-leader timeout first, then one timeout per slot in
    slot order, one block time apart (protocol rule = accumulated sleeps of the code).  The three durations are
    tuning constants of consensus.rs, not part of the property: they are read off the real Votor once (probe of one
    window on the paused clock; sanity: block time > 0, 0 <= first-slice time <= block time, base timeout >= 2 DELTA)
    and TLC then fixes the schedule of every window, which the real timers must meet to the millisecond."""
    import json
    import os
    from .core import ToolError
    wdir = os.path.join(ctx.work, name + "_probe")
    os.makedirs(wdir, exist_ok=True)
    probe = os.path.join(wdir, "probe.out")
    with open(probe, "w") as f:
        f.write('<<"CASE", ' + json.dumps(json.dumps({"s": 4, "schedule": [{"k": "timeout", "s": 4, "at": 6000}]})) + '>>\n')
    rep0 = ctx.harness(["replay-votor-timers", "--tlc-out", probe, "--seed", ctx.seed])
    fired = rep0["divergences"][0]["observed"]["fired"] if rep0["divergences"] else []
    if len(fired) < 3:
        ctx.divergence(name, "timers:count", {"fired": fired, "what": "fewer than three timeouts fired for a window"})
        return rep0
    a, b, g = fired[0][0], fired[1][0], fired[2][0] - fired[1][0]
    dt, db, df = b - g, g, a - (b - g)
    if not (db > 0 and 0 <= df <= db and dt >= 500):
        ctx.divergence(name, "timers:shape", {"fired": fired, "inferred": {"DeltaTimeout": dt, "DeltaBlock": db, "DeltaFirst": df},
                                              "what": "no admissible constants explain the probed schedule"})
        return rep0
    ctx.notes["timer_constants_ms"] = {"DeltaTimeout": dt, "DeltaBlock": db, "DeltaFirst": df}
    r = ctx.tlc(name, "VotorTimers", TIMERS_CFG.format(dt=dt, db=db, df=df, windows="{" + ", ".join(map(str, windows)) + "}"),
                "", workers=1, timeout=300, heap="1g")
    rep = ctx.harness(["replay-votor-timers", "--tlc-out", r.out_path, "--seed", ctx.seed])
    rep["model"] = name
    if rep["covered"] != len(windows):
        raise ToolError(f"{name}: {rep['covered']} of {len(windows)} windows replayed")
    ctx.replay_report(name, rep, None)
    return rep
