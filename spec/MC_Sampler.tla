----------------------------- MODULE MC_Sampler -----------------------------
(***************************************************************************)
(* Exhaustive enumeration of all small validator sets and committee sizes: *)
(*   - the declarative guarantees of Sampler.tla are internally consistent *)
(*     (floors never sum above k, a committee satisfying all guarantees    *)
(*     exists, the predicates discriminate, the decay cap is feasible      *)
(*     exactly when Sampler!DecayFeasible says so);                        *)
(*   - every enumerated (stakes, k) is emitted as a CASE with the spec's   *)
(*     expectations (guaranteed seats, boundary flags, zero-weight flags,  *)
(*     seat caps, may-refuse flags) for replay into the real samplers.     *)
(***************************************************************************)
EXTENDS Sampler, Json, TLC, TLCExt

CONSTANTS
  MaxN,         \* validator sets of 1..MaxN validators
  MaxStake,     \* stakes 0..MaxStake (not all zero)
  MaxK,         \* committee sizes 1..MaxK
  DecayParams,  \* sequence of <<num, den>> : max_samples = num/den of the decaying sampler
  BruteK        \* brute-force all committees up to this size (decay infeasibility)

VARIABLE cs     \* the case: [st |-> stake vector, k |-> committee size]

StakeVecs == UNION {[1 .. n -> 0 .. MaxStake] : n \in 1 .. MaxN}
Cases == {[st |-> st, k |-> k] : st \in {s \in StakeVecs : \E i \in DOMAIN s : s[i] > 0},
                                  k \in 1 .. MaxK}

Expect(c) ==
  LET st == c.st
      k == c.k
      n == Len(st)
  IN [st |-> st, k |-> k, n |-> n, total |-> Total(st),
      min |-> [v \in 1 .. n |-> MinSeats(st, k, v - 1)],
      bnd |-> [v \in 1 .. n |-> OnBoundary(st, k, v - 1)],
      pcap |-> [v \in 1 .. n |-> MinSeats(st, k, v - 1) + 2],
      zero |-> [v \in 1 .. n |-> st[v] = 0],
      npos |-> Cardinality(Positive(st)),
      mustConstruct |-> MustConstruct("any", ZeroIds(st)),
      decay |-> [i \in DOMAIN DecayParams |->
                   LET p == DecayParams[i] IN
                   [num |-> p[1], den |-> p[2], cap |-> CapSeats(p[1], p[2]),
                    mustReturn |-> MustReturn("decay", ZeroIds(st), Cardinality(Positive(st)), k, p[1], p[2]),
                    feasible |-> DecayFeasible(st, k, p[1], p[2])]]]

\* which guarantees apply to which strategy (read by the harness)
ASSUME PrintT(<<"TABLE", ToJson([all |-> AllStrategies, stakeProportional |-> StakeProportional,
                                 faitAccompli |-> FaitAccompli, decaying |-> Decaying,
                                 fa1Exact |-> FaitAccompli1, partitionFallback |-> PartitionFallback,
                                 shuffles |-> ShuffleStrategies])>>)

Init == /\ cs \in Cases
        /\ PrintT(<<"CASE", ToJson(Expect(cs))>>)
Next == UNCHANGED cs

---------------------------------------------------------------------------
(* consistency of the guarantees                                           *)

SumMin(st, k) == LET RECURSIVE S(_)
                     S(v) == IF v = Len(st) THEN 0 ELSE MinSeats(st, k, v) + S(v + 1)
                 IN S(0)

\* the guaranteed seats always fit into the committee
FloorsFit == SumMin(cs.st, cs.k) <= cs.k

\* a committee satisfying every Fait-Accompli guarantee exists
CanonFAOK ==
  LET c == CanonFA(cs.st, cs.k) IN
  /\ WellFormed(c, cs.k, cs.st)
  /\ FaSeats(c, cs.st, cs.k)

\* committees used to exercise the predicates: canonical ones and single-seat mutations
Replace(c, j, w) == [c EXCEPT ![j] = w]
Mutations(c, st) == {Replace(c, j, w) : j \in DOMAIN c, w \in Ids(st)}
TestCommittees == LET a == CanonFA(cs.st, cs.k)
                      b == CanonRR(cs.st, cs.k)
                      d == CanonFA1(cs.st, cs.k)
                  IN {a, b, d} \cup Mutations(a, cs.st) \cup Mutations(b, cs.st) \cup Mutations(d, cs.st)

\* the boundary / interior split is exactly FaSeats; Owed() loses nothing
FaSplit ==
  \A c \in TestCommittees :
    /\ FaSeats(c, cs.st, cs.k) <=> (FaSeatsBoundary(c, cs.st, cs.k) /\ FaSeatsInterior(c, cs.st, cs.k))
    /\ FaSeats(c, cs.st, cs.k) <=> FaSeatsOn(c, cs.st, cs.k, Total(cs.st), Ids(cs.st))

\* taking a guaranteed seat away is noticed
FaDiscriminates ==
  LET c == CanonFA(cs.st, cs.k) IN
  \A j \in DOMAIN c, w \in Ids(cs.st) :
    (w # c[j] /\ Seats(c, c[j]) = MinSeats(cs.st, cs.k, c[j])) => ~FaSeats(Replace(c, j, w), cs.st, cs.k)

\* FA1: a committee satisfying all FA1 guarantees together exists (enough validators with a
\* non-zero residual exist to take the k' fallback seats, one each)
CanonFA1OK ==
  LET c == CanonFA1(cs.st, cs.k) IN
  /\ WellFormed(c, cs.k, cs.st)
  /\ FaSeats(c, cs.st, cs.k)
  /\ FaExactAll(c, cs.st, cs.k)
  /\ FaExactWhenNoResidual(c, cs.st, cs.k)
  /\ FaPartitionCap(c, cs.st, cs.k)

\* every residual zero => the guaranteed seats fill the committee, the fallback draws nothing
AllZeroNoFallback == AllResidualsZero(cs.st, cs.k) <=> (SumMin(cs.st, cs.k) = cs.k)

\* the trace form (Owed only) together with NoZero is exactly the definition
FaExactSplit ==
  \A c \in TestCommittees :
    FaExactAll(c, cs.st, cs.k) <=>
      (FaExactWhenNoResidual(c, cs.st, cs.k) /\ \A v \in ZeroIds(cs.st) : Seats(c, v) = 0)

\* an extra seat for a validator without residual is noticed
FaExactDiscriminates ==
  LET c == CanonFA1(cs.st, cs.k) IN
  \A j \in DOMAIN c, w \in Ids(cs.st) :
    (w # c[j] /\ OnBoundary(cs.st, cs.k, w)) => ~FaExactAll(Replace(c, j, w), cs.st, cs.k)

\* a zero-weight seat is noticed
NoZeroDiscriminates ==
  \A c \in TestCommittees :
    WellFormed(c, cs.k, cs.st) <=> (\A j \in DOMAIN c : cs.st[c[j] + 1] > 0)

\* decay cap: feasible => a committee under the cap exists (round robin)
DecayCanonOK ==
  \A i \in DOMAIN DecayParams :
    LET p == DecayParams[i] IN
    DecayFeasible(cs.st, cs.k, p[1], p[2]) =>
      LET c == CanonRR(cs.st, cs.k) IN WellFormed(c, cs.k, cs.st) /\ DecayCap(c, p[1], p[2])

\* decay cap: infeasible => no committee at all (brute force for small k)
DecayInfeasibleNone ==
  \A i \in DOMAIN DecayParams :
    LET p == DecayParams[i] IN
    (~DecayFeasible(cs.st, cs.k, p[1], p[2]) /\ cs.k <= BruteK) =>
      \A c \in [1 .. cs.k -> Ids(cs.st)] :
        ~(WellFormed(c, cs.k, cs.st) /\ DecayCap(c, p[1], p[2]))

---------------------------------------------------------------------------
(* weighted shuffle: the guarantees are satisfiable together and discriminate (the stake  *)
(* vector matters, not k: evaluated on the k = 1 copy of every stake vector)              *)

ShuffleCanonOK ==
  cs.k = 1 =>
    LET c == CanonShuffle(cs.st)
        n == Len(cs.st)
        z == ZeroIds(cs.st)
        np == Cardinality(Positive(cs.st))
    IN /\ ShufflePermutation(c, n)
       /\ ShuffleZerosLast(c, z, np)
       /\ ShuffleZerosLastDef(c, z)
       /\ \A m \in 0 .. n :
            LET part == SubSeq(c, 1, m)
                rest == SubSeq(c, m + 1, n)
            IN /\ ShufflePrefix(part, c, m)
               /\ ShuffleContinues(part, rest, c)
               /\ ShuffleRemoves(part, rest, n)
               /\ ShuffleRestZerosLast(part, rest, z, np)

\* over ALL sequences of validator ids of length n (brute force):
\*  - permutation <=> every validator exactly once
\*  - "removes exactly what was drawn" for some / every split <=> permutation
\*  - the evaluated form of zeros-last agrees with its definition on permutations
ShuffleBrute ==
  cs.k = 1 =>
    LET n == Len(cs.st)
        z == ZeroIds(cs.st)
        np == Cardinality(Positive(cs.st))
    IN \A c \in [1 .. n -> Ids(cs.st)] :
         /\ ShufflePermutation(c, n) <=> (\A v \in Ids(cs.st) : Seats(c, v) = 1)
         /\ \A m \in 0 .. n :
              ShuffleRemoves(SubSeq(c, 1, m), SubSeq(c, m + 1, n), n) <=> ShufflePermutation(c, n)
         /\ ShufflePermutation(c, n) =>
              /\ ShuffleZerosLast(c, z, np) <=> ShuffleZerosLastDef(c, z)
              /\ \A m \in 0 .. n :
                   ShuffleZerosLast(c, z, np) =>
                     ShuffleRestZerosLast(SubSeq(c, 1, m), SubSeq(c, m + 1, n), z, np)

\* the cap is the documented ceil(max_samples)
ASSUME /\ CapSeats(1, 1) = 1 /\ CapSeats(2, 1) = 2 /\ CapSeats(5, 2) = 3 /\ CapSeats(7, 2) = 4
       /\ Determinism({<<1, 2>>}) /\ Determinism({}) /\ ~Determinism({<<1, 2>>, <<2, 1>>})
       /\ MinSeats(<<1, 48>>, 49, 0) = 1 /\ OnBoundary(<<1, 48>>, 49, 0)
       /\ FaExactWhenNoResidual(<<0, 1, 2>>, <<2, 1, 1>>, 2) /\ ~FaExactWhenNoResidual(<<0, 0>>, <<2, 1, 1>>, 2)
       /\ FaPartitionCap(<<0, 0, 0, 1>>, <<2, 1, 1>>, 4) /\ ~FaPartitionCap(<<1, 1, 1, 1>>, <<2, 1, 1>>, 4)
       /\ MinSeats(<<1, 49>>, 49, 0) = 0 /\ ~OnBoundary(<<1, 49>>, 49, 0)
=============================================================================
