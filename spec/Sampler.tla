------------------------------ MODULE Sampler ------------------------------
(***************************************************************************)
(* Committee sampling (src/disseminator/rotor/sampling_strategy.rs).       *)
(*                                                                         *)
(* The samplers are randomised, so the specification does not say WHICH    *)
(* committee is drawn.  It states the guarantees that hold for EVERY draw  *)
(* (C17), as declarative predicates over integers and finite sequences:    *)
(*                                                                         *)
(*   Sized        the committee has exactly k seats                        *)
(*   InRange      every seat is held by a member of the validator set      *)
(*   NoZero       a zero-weight validator is never drawn                   *)
(*   FaSeats      Fait-Accompli: stake fraction f  =>  >= floor(f*k) seats *)
(*   DecayCap     decaying acceptance: <= ceil(max_samples) seats          *)
(*   Determinism  the committee is a function of (validator set, rng seed) *)
(*   Constructible / Returns   no panic for positive stakes                *)
(*                                                                         *)
(* Validator ids are 0-based as in the implementation: validator v has     *)
(* stake st[v+1]; a committee is a sequence of validator ids.              *)
(* All arithmetic is exact integer arithmetic (no floating point).         *)
(***************************************************************************)
EXTENDS Naturals, Sequences, FiniteSets

---------------------------------------------------------------------------
(* strategies shipped with the crate (labels used by the harness)          *)

\* single-validator strategies wrapped by IidQuorumSampler, and quorum strategies
AllStrategies == {"all_same", "uniform", "stake_weighted", "turbine", "turbine_f2", "decay",
                  "partition", "fa1_partition", "fa1_iid", "fa2"}
\* strategies whose sampling weights are the stakes: zero stake => zero weight
StakeProportional == {"stake_weighted", "decay", "partition", "fa1_partition", "fa1_iid", "fa2"}
FaitAccompli == {"fa1_partition", "fa1_iid", "fa2"}
\* FA1-F: phase 2 draws the remaining seats from a fallback sampler whose weights are the
\* residual stakes S'(v) = S(v) - floor(f*k) * Total/k
FaitAccompli1 == {"fa1_partition", "fa1_iid"}
\* ... and the fallback is the PartitionSampler (one seat per bin of equal residual stake)
PartitionFallback == {"fa1_partition"}
Decaying == {"decay"}
\* the stake-weighted shuffle behind Turbine's trees (turbine/weighted_shuffle.rs); not a
\* committee sampler (no k): judged by the Shuffle* predicates below
ShuffleStrategies == {"weighted_shuffle"}

---------------------------------------------------------------------------
(* stake arithmetic                                                        *)

Ids(st) == 0 .. (Len(st) - 1)

RECURSIVE SumTo(_, _)
SumTo(st, i) == IF i = 0 THEN 0 ELSE st[i] + SumTo(st, i - 1)
Total(st) == SumTo(st, Len(st))

Positive(st) == {v \in Ids(st) : st[v + 1] > 0}
ZeroIds(st) == Ids(st) \ Positive(st)

\* number of seats validator v holds in committee c
Seats(c, v) == Cardinality({j \in DOMAIN c : c[j] = v})

\* guaranteed seats of validator v: floor(f * k) with f = st[v+1] / Total(st)
MinSeatsT(st, k, tot, v) == (st[v + 1] * k) \div tot
MinSeats(st, k, v) == MinSeatsT(st, k, Total(st), v)
\* f * k is an integer: the stake sits exactly on a multiple of Total/k
OnBoundaryT(st, k, tot, v) == (st[v + 1] * k) % tot = 0
OnBoundary(st, k, v) == OnBoundaryT(st, k, Total(st), v)
\* only validators with at least Total/k stake are owed anything
Owed(st, k, tot) == {v \in Ids(st) : st[v + 1] * k >= tot}

\* seat cap of the decaying-acceptance sampler: ceil(max_samples), max_samples = num/den
\* (doc comment: "Any element is sample at most ceil(max_samples) times";
\*  max_samples = 1 is stake-weighted sampling WITHOUT replacement)
CapSeats(num, den) == (num + den - 1) \div den
\* a committee of k seats under the cap exists iff enough positive-stake validators exist
DecayFeasible(st, k, num, den) == k <= CapSeats(num, den) * Cardinality(Positive(st))

---------------------------------------------------------------------------
(* per-draw predicates                                                     *)

Sized(c, k) == Len(c) = k
InRange(c, n) == \A j \in DOMAIN c : c[j] \in 0 .. (n - 1)
\* zero-weight validators given as a set (the harness projects big stake vectors to it)
NoZero(c, zeros) == \A j \in DOMAIN c : c[j] \notin zeros

FaSeatsOn(c, st, k, tot, V) == \A v \in V : Seats(c, v) >= MinSeatsT(st, k, tot, v)
FaSeats(c, st, k) == FaSeatsOn(c, st, k, Total(st), Owed(st, k, Total(st)))
\* split by whether f*k is an exact integer (where rounding of f*k matters) or not
FaSeatsBoundary(c, st, k) ==
  LET tot == Total(st) IN FaSeatsOn(c, st, k, tot, {v \in Owed(st, k, tot) : OnBoundaryT(st, k, tot, v)})
FaSeatsInterior(c, st, k) ==
  LET tot == Total(st) IN FaSeatsOn(c, st, k, tot, {v \in Owed(st, k, tot) : ~OnBoundaryT(st, k, tot, v)})

(* FA1: the weight of validator v in the fallback is its residual stake                    *)
(*   S'(v) = S(v) - floor(f*k) * Total / k,                                               *)
(* which is zero exactly when f*k is an integer (OnBoundary).  "A zero-weight validator   *)
(* is never drawn" therefore means: such a validator holds EXACTLY its f*k guaranteed     *)
(* seats.  The implementation builds the fallback from the ORIGINAL stakes when every     *)
(* residual is zero (WeightedIndex rejects all-zero weights); this is no exception to the *)
(* guarantee: then the guaranteed seats sum to k (MC_Sampler!AllZeroNoFallback), the      *)
(* fallback has quorum size k' = 0 and draws nothing.                                     *)
AllResidualsZero(st, k) == LET tot == Total(st) IN \A v \in Ids(st) : OnBoundaryT(st, k, tot, v)
FaExactOn(c, st, k, tot, V) ==
  \A v \in V : OnBoundaryT(st, k, tot, v) => Seats(c, v) = MinSeatsT(st, k, tot, v)
\* the definition: over every validator
FaExactAll(c, st, k) == FaExactOn(c, st, k, Total(st), Ids(st))
\* the form evaluated on traces: a boundary validator that is owed nothing has stake 0 (NoZero)
FaExactWhenNoResidual(c, st, k) ==
  LET tot == Total(st) IN FaExactOn(c, st, k, tot, Owed(st, k, tot))

\* FA1 with partition fallback: every residual is below one bin (Total/k), so a validator sits in
\* at most two bins and the fallback draws it at most twice (doc comment of PartitionSampler)
FaPartitionCap(c, st, k) ==
  LET tot == Total(st) IN
  \A v \in {c[j] : j \in DOMAIN c} : Seats(c, v) <= MinSeatsT(st, k, tot, v) + 2

DecayCap(c, num, den) ==
  \A v \in {c[j] : j \in DOMAIN c} : Seats(c, v) <= CapSeats(num, den)

WellFormed(c, k, st) == Sized(c, k) /\ InRange(c, Len(st)) /\ NoZero(c, ZeroIds(st))

\* all committees obtained for the same validator set and the same seed agree
\* (first instance, a second independently constructed instance, the first instance again)
Determinism(cs) == \A a, b \in cs : a = b

---------------------------------------------------------------------------
(* when may a sampler refuse (panic)?  Never for positive stakes, unless   *)
(* no committee satisfying its own cap exists.                             *)

AllPositive(zeros) == zeros = {}
MustConstruct(strategy, zeros) == AllPositive(zeros)
MustReturn(strategy, zeros, npos, k, num, den) ==
  /\ AllPositive(zeros)
  /\ (strategy \in Decaying => k <= CapSeats(num, den) * npos)

---------------------------------------------------------------------------
(* weighted shuffle (WeightedShuffle::new / shuffle)                       *)
(*                                                                         *)
(* Doc comment of the type: "returned indices are unique in the range      *)
(* [0, weights.len())", "zero weighted indices are shuffled and appear     *)
(* only at the end, after non-zero weighted indices".  The shuffle is a    *)
(* lazy iterator that removes what it returns: a partial draw is a prefix  *)
(* of the full shuffle for the same random source, continuing with the     *)
(* same source completes the full shuffle, and continuing with ANY source  *)
(* returns exactly the validators not drawn so far.                        *)
(* Nothing is excluded: the unchanged code builds and drains a shuffle for *)
(* every stake vector, including the empty one and all-zero stakes (then   *)
(* it is a uniform permutation).  Not modelled: "weights that overflow the *)
(* total sum are treated as zero" (totals >= 2^64).                        *)

Range(c) == {c[j] : j \in DOMAIN c}
\* every validator exactly once
ShufflePermutation(c, n) == Len(c) = n /\ Range(c) = 0 .. (n - 1)
\* zero-weight validators only after all positive ones (npos = number of positive stakes);
\* for a permutation this is: the first npos places hold no zero-weight validator
ShuffleZerosLastDef(c, zeros) ==
  \A a, b \in DOMAIN c : (a < b /\ c[a] \in zeros) => c[b] \in zeros
ShuffleZerosLast(c, zeros, npos) ==
  \A j \in DOMAIN c : j <= npos => c[j] \notin zeros
\* a partial draw of m validators is the prefix of the full shuffle (same random source)
ShufflePrefix(part, full, m) ==
  part = SubSeq(full, 1, IF m < Len(full) THEN m ELSE Len(full))
\* continuing after a partial draw with the same random source completes the full shuffle
ShuffleContinues(part, cont, full) == part \o cont = full
\* drawn validators are removed, nothing else: whatever source continues, it returns
\* exactly the validators not drawn so far, each once
ShuffleRemoves(part, rest, n) ==
  /\ Len(part) + Len(rest) = n
  /\ Range(rest) = (0 .. (n - 1)) \ Range(part)
\* the remaining zero-weight validators still come last
ShuffleRestZerosLast(part, rest, zeros, npos) ==
  LET drawnPos == Cardinality(Range(part) \ zeros) IN
  \A j \in DOMAIN rest : j <= npos - drawnPos => rest[j] \notin zeros

\* canonical shuffle: positive validators in id order, then the zero-weight ones
ZeroSeq(st) == LET RECURSIVE Build(_)
                   Build(v) == IF v = Len(st) THEN <<>>
                               ELSE (IF st[v + 1] = 0 THEN <<v>> ELSE <<>>) \o Build(v + 1)
               IN Build(0)

---------------------------------------------------------------------------
(* canonical committees: used to show the predicates are satisfiable       *)

\* floor seats for everybody in id order, remaining seats to the first positive validator
RECURSIVE Repeat(_, _)
Repeat(v, m) == IF m = 0 THEN <<>> ELSE <<v>> \o Repeat(v, m - 1)
RECURSIVE FloorPart(_, _, _)
FloorPart(st, k, v) ==
  IF v = Len(st) THEN <<>> ELSE Repeat(v, MinSeats(st, k, v)) \o FloorPart(st, k, v + 1)
FirstPositive(st) == CHOOSE v \in Positive(st) : \A w \in Positive(st) : v <= w
CanonFA(st, k) ==
  LET fl == FloorPart(st, k, 0) IN fl \o Repeat(FirstPositive(st), k - Len(fl))

\* FA1 shape: floor seats, then one further seat for each of the first k' validators (id order)
\* with a non-zero residual
CanonFA1(st, k) ==
  LET fl == FloorPart(st, k, 0)
      RECURSIVE Extra(_, _)
      Extra(v, m) == IF m = 0 \/ v = Len(st) THEN <<>>
                     ELSE IF OnBoundary(st, k, v) THEN Extra(v + 1, m)
                     ELSE <<v>> \o Extra(v + 1, m - 1)
  IN fl \o Extra(0, k - Len(fl))

\* round robin over the positive validators
PosSeq(st) == LET P == Positive(st)
                  RECURSIVE Build(_)
                  Build(v) == IF v = Len(st) THEN <<>>
                              ELSE (IF v \in P THEN <<v>> ELSE <<>>) \o Build(v + 1)
              IN Build(0)
CanonShuffle(st) == PosSeq(st) \o ZeroSeq(st)
CanonRR(st, k) == LET ps == PosSeq(st) IN [j \in 1 .. k |-> ps[((j - 1) % Len(ps)) + 1]]
=============================================================================
