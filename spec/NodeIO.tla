------------------------------- MODULE NodeIO -------------------------------
(***************************************************************************)
(* C10: the node's five network interfaces as a pipeline of stages.  Every *)
(* hostile-but-well-formed input class travels through the stages of its   *)
(* interface; a stage either drops / reports the input or hands a derived  *)
(* value to the next stage.  Each `assert!/expect/unwrap/arithmetic` site   *)
(* of a later stage that is reachable from an interface is written as a    *)
(* REQUIREMENT on what the earlier stages let through.  TLC checks that    *)
(* the intended validation of the earlier stages implies every             *)
(* requirement (NoPanic) and that the node keeps serving (StillServing).   *)
(* The cases are also emitted and injected into real nodes by the          *)
(* simulator (harness `sim --byz-mode hostile`).                           *)
(***************************************************************************)
EXTENDS Naturals, Sequences, FiniteSets, TLC

CONSTANTS MaxTx, Datagram        \* MAX_TRANSACTION_SIZE (512), maximal payload of one datagram (1492)

Interfaces == {"all2all", "shreds", "repair_resp", "repair_req", "txs"}

\* ---- hostile input classes per interface (abstract fields only) -------------------------
VoteInputs ==
  [iface : {"all2all"}, sig : {"ok", "bad"}, signer : {"in", "out"},
   slot : {"past", "current", "far", "genesis"}]
\* a block signed by a (Byzantine) leader; relation of the parent's slot to the block's slot
BlockInputs ==
  [iface : {"shreds"}, leaderSig : {"ok", "bad"},
   parent : {"earlier", "same", "later", "missing"},
   payload : {"decodable", "garbage"},
   lastFlags : {"consistent", "contradictory"}]
RepairRespInputs ==
  [iface : {"repair_resp"}, solicited : BOOLEAN, content : {"valid", "nack", "wrongvariant", "wrongroot", "badproof"}]
RepairReqInputs ==
  [iface : {"repair_req"}, sender : {"in", "out"}, block : {"known", "unknown"}, index : {"inrange", "max"}]
TxInputs == [iface : {"txs"}, size : {0, 1, MaxTx, MaxTx + 1, Datagram}]

Inputs == VoteInputs \cup BlockInputs \cup RepairRespInputs \cup RepairReqInputs \cup TxInputs

\* ---- stage 1: what each interface's first validation lets through (INTENDED) ------------
\* all2all: ValidatedVote / ValidatedCert (signer in range, signature) then the pool's slot bounds
VoteAdmitted(i) == i.sig = "ok" /\ i.signer = "in" /\ i.slot \in {"current", "genesis"}
\* shreds: leader signature, then the blockstore's reconstruction checks
BlockAnnounced(i) ==
  /\ i.leaderSig = "ok"
  /\ i.parent = "earlier"           \* missing / same / later parent => invalid block (reported)
  /\ i.payload = "decodable"
  /\ i.lastFlags = "consistent"
BlockReportedInvalid(i) == i.leaderSig = "ok" /\ ~BlockAnnounced(i)
\* repair responses: must match an outstanding request and verify
RespUsed(i) == i.solicited /\ i.content = "valid"
\* repair requests: sender must be a validator; unknown block / index beyond the block => NACK
ReqAnswered(i) == i.sender = "in"
ReqAnswer(i) == IF i.block = "known" /\ i.index = "inrange" THEN "data" ELSE "nack"
\* transactions: only those that fit the reserved space
TxAccepted(i) == i.size <= MaxTx

\* ---- stage 2: requirements of the later stages (the assertion sites) --------------------
\* Pool::add_block           assert!(block slot > parent slot)
\* block producer            buffer_space - buffer.len() must not underflow: every accepted tx <= MaxTx
\* Repair::handle_response   the stored block's hash equals the requested hash (only verified data stored)
\* finality tracker          "consensus safety violation" branches need > 20% Byzantine stake (out of scope)
Requirement(i) ==
  CASE i.iface = "shreds"      -> BlockAnnounced(i) => i.parent = "earlier"
    [] i.iface = "txs"         -> TxAccepted(i) => i.size <= MaxTx
    [] i.iface = "repair_resp" -> RespUsed(i) => i.content = "valid"
    [] OTHER -> TRUE

\* the validation the pinned code had before the repairs: no parent-slot check, no tx size check
BlockAnnouncedBeforeFix(i) ==
  i.leaderSig = "ok" /\ i.parent # "missing" /\ i.payload = "decodable" /\ i.lastFlags = "consistent"
RequirementBeforeFix(i) ==
  CASE i.iface = "shreds" -> BlockAnnouncedBeforeFix(i) => i.parent = "earlier"
    [] i.iface = "txs"    -> i.size <= MaxTx
    [] OTHER -> TRUE

\* what the node does with the input (the expectation the simulator compares against)
Outcome(i) ==
  CASE i.iface = "all2all"     -> IF VoteAdmitted(i) THEN "admitted" ELSE "dropped"
    [] i.iface = "shreds"      -> IF BlockAnnounced(i) THEN "announced"
                                  ELSE IF BlockReportedInvalid(i) THEN "reported" ELSE "dropped"
    [] i.iface = "repair_resp" -> IF RespUsed(i) THEN "used" ELSE "dropped"
    [] i.iface = "repair_req"  -> IF ReqAnswered(i) THEN ReqAnswer(i) ELSE "dropped"
    [] i.iface = "txs"         -> IF TxAccepted(i) THEN "included" ELSE "dropped"
=============================================================================
