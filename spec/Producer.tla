------------------------------ MODULE Producer ------------------------------
(***************************************************************************)
(* The leader's production of the blocks of ONE leader window              *)
(* (src/consensus/block_producer.rs, block_production_loop) as pure         *)
(* operators over a record: one operator per input of the task              *)
(*   OnStart(p, cond)   OnTx(p, len)   OnTick(p)   OnParentReady(p, b)      *)
(*   OnFinalize(p)                                                          *)
(* each returning [p, out]: the new state and what the producer did in      *)
(* reaction (slices handed to shredder + disseminator + blockstore, block    *)
(* completion with the parent given to Pool::add_block, panic of the task). *)
(*                                                                         *)
(*  variant "ready"    = produce_block_parent_ready    (SlotReady::Ready)   *)
(*  variant "notready" = produce_block_parent_not_ready (optimistic, on the  *)
(*                       block of the previous slot; ParentReady may name    *)
(*                       the same block or another one: one-time switch)    *)
(*                                                                         *)
(* Byte arithmetic is exact (produce_slice_payload):                        *)
(*   buffer_space = MAX_DATA_PER_SLICE - len(parent) - 8 [- reserve]        *)
(*   buffer       = 8 (count) + sum (8 + len(tx))                           *)
(*   slice closes when buffer_space - buffer < MAX_TRANSACTION_SIZE + 8     *)
(*   encoded payload = len(parent) + 8 + buffer; the shredder refuses       *)
(*   more than MAX_DATA_PER_SLICE (-> .expect panics).                      *)
(*                                                                         *)
(* INTENDED RULE (CodeAsIs = FALSE): a slice that is started without a      *)
(* parent while ParentReady is still outstanding (not-ready variant, index  *)
(* > 0, receiver not yet terminated) reserves SwitchRoom = 40 bytes, the    *)
(* growth of the parent field None -> Some when apply_parent_ready switches *)
(* the parent on that slice.  CodeAsIs = TRUE transcribes the code before   *)
(* that repair (no reservation).                                            *)
(*                                                                         *)
(* WINDOW: the first block of the window is produced in the variant that    *)
(* wait_for_first_slot chose from the situation `cond` it found             *)
(* (StartVariant below), the remaining W-1 blocks with                      *)
(* produce_block_parent_ready(slot, id of the block just produced).  A      *)
(* window whose first slot is not above the pool's finalized slot is        *)
(* SKIPPED (nothing is produced for it) and the leader goes on to its next  *)
(* window ("w4", which the same finalization made ready with parent "F").   *)
(* INTENDED RULE 2: ParentReady held -> Ready; else later finalization ->   *)
(* Skip; else block of the previous slot -> optimistic production.          *)
(* "blockfirst" \in CodeAsIs transcribes the code, which looks at the       *)
(* previous block BEFORE the finalization: it then produces optimistically  *)
(* for a decided window; if the pool has pruned that window, ParentReady    *)
(* can never arrive and the next finalization drops the oneshot sender ->   *)
(* .expect("ParentReady sender should not be dropped") panics.              *)
(* "noreserve" \in CodeAsIs: the code before the repair 92ea5f1.            *)
(*                                                                         *)
(* Time is counted in ticks.  Frozen = TRUE models the clock of the         *)
(* conformance harness: tokio's clock is virtual but the code measures      *)
(* `start_time.elapsed()` with std::time::Instant, which stands still:      *)
(* every received transaction re-arms the slice timer with the full         *)
(* duration and a slice that closes because it is full gives back the full  *)
(* duration.  Frozen = FALSE is the wall-clock behaviour (deadline fixed    *)
(* at the start of the slice).                                              *)
(***************************************************************************)
EXTENDS Integers, Sequences, FiniteSets

CONSTANTS
  MaxData,      \* MAX_DATA_PER_SLICE                       (32767)
  MaxTx,        \* MAX_TRANSACTION_SIZE                     (512)
  DeltaBlock,   \* delta_block in ticks
  DeltaFirst,   \* delta_first_slice in ticks (<= DeltaBlock)
  MaxIdx,       \* SliceIndex::is_max  (the code: MAX_SLICES_PER_BLOCK - 1 = 1023)
  W,            \* blocks per leader window (SLOTS_PER_WINDOW = 4; 1: only the first block is modelled)
  CodeAsIs,     \* set of transcriptions of unrepaired code: "noreserve" (no room reserved for the parent
                \* switch, repaired by 92ea5f1), "blockfirst" (wait_for_first_slot looks at the previous
                \* slot's block before the later finalization); {} = the intended behaviour
  Frozen        \* TRUE: std Instant stands still (harness clock); FALSE: wall clock

ASSUME DeltaFirst >= 1 /\ DeltaBlock >= DeltaFirst /\ W \in 1..4

NoParent == "none"            \* Option<BlockId>::None
Unseen == "unseen"            \* ParentReady not yet received
ParentLen(par) == IF par = NoParent THEN 1 ELSE 41     \* wincode: tag, + slot (8) + hash (32)
SwitchRoom == 40              \* ParentLen(Some) - ParentLen(None)
LenPrefix == 8                \* length prefix of SlicePayload::data
CountPrefix == 8              \* number of transactions
TxOverhead == 8               \* length prefix of one transaction
Inf == 1000000                \* Duration::MAX

PMin(a, b) == IF a <= b THEN a ELSE b
PMax(a, b) == IF a >= b THEN a ELSE b

Reserve(variant, par, pr) ==
  IF "noreserve" \notin CodeAsIs /\ variant = "notready" /\ par = NoParent /\ pr = Unseen THEN SwitchRoom ELSE 0
Space(par, rsv) == MaxData - ParentLen(par) - LenPrefix - rsv
EncSize(par, buf) == ParentLen(par) + LenPrefix + buf
TxCost(len) == TxOverhead + len

\* ship: slices handed out in this step; done: a block was completed and registered (Pool::add_block) with
\* parent eff; w / k: window and position of the block the step's outputs belong to; skip: the window was skipped
NoOut == [ship |-> <<>>, done |-> FALSE, eff |-> "", panic |-> "", acc |-> 0, w |-> "", k |-> 0, skip |-> FALSE]
R(p, out) == [p |-> p, out |-> out]

InitProducer ==
  [phase |-> "idle",      \* idle | collect | await | done (all windows of the run produced) | panic
   cond |-> "",           \* situation in which the loop reached w1 (see OnStart)
   win |-> "w1",          \* window being produced: "w1" (the one under test), "w4" (the leader's next window)
   k |-> 0,               \* position of the block being produced in its window
   blocks |-> <<>>,       \* [w, k, par] per block completed and registered with the pool
   skipped |-> <<>>,      \* windows for which wait_for_first_slot returned Skip
   fin |-> FALSE,         \* a slot beyond w1 is finalized (block "F" in the slot before w4: w4 is ready)
   pruned |-> FALSE,      \* ... and the pool has pruned w1: ParentReady for w1 can never be emitted
   viol |-> FALSE,        \* a completed block broke a per-block property (see BlockOK)
   variant |-> "",
   opt |-> "",            \* the parent the block is started on
   idx |-> 0, buf |-> 0, cnt |-> 0, par |-> NoParent, rsv |-> 0,
   dur |-> 0,             \* duration given to produce_slice_payload for this slice
   timer |-> 0,           \* ticks until the slice's sleep fires
   dl |-> 0,              \* duration_left of the block when this slice was started
   ndl |-> 0,             \* new_duration_left kept while awaiting ParentReady on the last slice
   pr |-> Unseen,         \* ready parent (variant ready: known from the start)
   mid |-> FALSE,         \* ParentReady received while this slice was being produced (select branch 2)
   since |-> 0,           \* ticks since then (wall clock only)
   shipped |-> <<>>,      \* [idx, last, par, size, ntx] per slice handed to shred_and_disseminate
   accepted |-> 0,        \* ghost: transactions taken into slices
   accBytes |-> 0,        \* ghost: their payload bytes
   dropped |-> 0,         \* ghost: oversized transactions dropped
   eff |-> ""]            \* parent registered with Pool::add_block

---------------------------------------------------------------------------
\* the loop head `for slice_index in SliceIndex::all()`
StartSlice(p, idx, dl) ==
  LET par == IF idx = 0 THEN p.opt ELSE NoParent
      dur == IF p.variant = "ready"
             THEN (IF idx = 0 THEN DeltaFirst ELSE dl)
             ELSE (IF idx = 0 THEN PMin(dl, DeltaFirst) ELSE PMin(dl, DeltaBlock))
      rsv == Reserve(p.variant, par, p.pr)
  IN [p EXCEPT !.phase = "collect", !.idx = idx, !.buf = CountPrefix, !.cnt = 0, !.par = par,
               !.rsv = rsv, !.dur = dur, !.timer = dur, !.dl = dl, !.ndl = 0,
               !.mid = FALSE, !.since = 0]

\* blockstore: effective parent = parent of slice 0, replaced by the (single, different) parent of a later slice
RECURSIVE Effective(_, _, _, _)
Effective(sl, i, cur, sw) ==
  IF i > Len(sl) THEN [par |-> cur, bad |-> FALSE, sw |-> sw]
  ELSE IF sl[i].par = NoParent THEN Effective(sl, i + 1, cur, sw)
  ELSE IF sl[i].par = cur THEN [par |-> cur, bad |-> TRUE, sw |-> sw]       \* "parent switched to same value"
  ELSE IF sw >= 1 THEN [par |-> cur, bad |-> TRUE, sw |-> sw]               \* "parent switched more than once"
  ELSE Effective(sl, i + 1, sl[i].par, sw + 1)
EffectiveParent(sl) ==
  IF sl = <<>> \/ sl[1].par = NoParent THEN [par |-> NoParent, bad |-> TRUE, sw |-> 0]
  ELSE Effective(sl, 2, sl[1].par, 0)

---------------------------------------------------------------------------
(* per-block properties, over the record; "done" = the block (in the terminal state: the last block) is complete *)
Sl(p) == p.shipped
NoOverflow(p) == \A i \in 1..Len(Sl(p)) : Sl(p)[i].size <= MaxData
NoPanic(p) == p.phase # "panic"
IndicesInOrder(p) == \A i \in 1..Len(Sl(p)) : Sl(p)[i].idx = i - 1
OneLastSlice(p) ==
  /\ p.phase # "panic" => \A i \in 1..Len(Sl(p)) : Sl(p)[i].last <=> (p.phase = "done" /\ i = Len(Sl(p)))
  /\ p.phase = "done" => Len(Sl(p)) >= 1
FirstSliceHasParent(p) == Len(Sl(p)) >= 1 => Sl(p)[1].par # NoParent
Switches(p) == {i \in 2..Len(Sl(p)) : Sl(p)[i].par # NoParent}
AtMostOneSwitch(p) ==
  /\ Cardinality(Switches(p)) <= 1
  /\ \A i \in Switches(p) : p.variant = "notready" /\ p.pr # Unseen /\ p.pr # p.opt /\ Sl(p)[i].par = p.pr
EffectiveParentIsReady(p) ==
  p.phase = "done" => /\ p.pr # Unseen
                      /\ p.eff = p.pr
                      /\ EffectiveParent(Sl(p)) = [par |-> p.pr, bad |-> FALSE, sw |-> Cardinality(Switches(p))]

RECURSIVE SumNtx(_, _)
SumNtx(sl, i) == IF i > Len(sl) THEN 0 ELSE sl[i].ntx + SumNtx(sl, i + 1)
RECURSIVE SumBytes(_, _)
SumBytes(sl, i) ==
  IF i > Len(sl) THEN 0
  ELSE (sl[i].size - ParentLen(sl[i].par) - LenPrefix - CountPrefix - TxOverhead * sl[i].ntx) + SumBytes(sl, i + 1)
\* every accepted transaction is in exactly one slice (counts and bytes add up), dropped ones in none
CurBytes(p) == IF p.phase \in {"collect", "await"} THEN p.buf - CountPrefix - TxOverhead * p.cnt ELSE 0
TxBalance(p) == p.accepted - SumNtx(Sl(p), 1) - p.cnt
ByteBalance(p) == p.accBytes - SumBytes(Sl(p), 1) - CurBytes(p)
TxConserved(p) == p.phase # "panic" => (TxBalance(p) = 0 /\ ByteBalance(p) = 0)

\* names of the blocks of the window being produced, as parents of their successors
KName(k) == <<"K0", "K1", "K2", "K3">>[k + 1]

\* `for slot in window`: produce_block_parent_ready / _not_ready for block k of window w
StartBlock(p, w, k, variant, parent) ==
  StartSlice([p EXCEPT !.win = w, !.k = k, !.variant = variant, !.opt = parent,
                       !.pr = IF variant = "ready" THEN parent ELSE Unseen,
                       !.shipped = <<>>, !.accepted = 0, !.accBytes = 0, !.eff = ""],
             0, IF variant = "ready" THEN DeltaBlock ELSE Inf)

\* what must hold of every completed block (evaluated when its last slice was stored)
BlockOK(q) ==
  LET d == [q EXCEPT !.phase = "done", !.cnt = 0, !.buf = 0] IN
  /\ TxBalance(d) = 0 /\ ByteBalance(d) = 0
  /\ NoOverflow(d) /\ IndicesInOrder(d) /\ OneLastSlice(d) /\ FirstSliceHasParent(d)
  /\ AtMostOneSwitch(d) /\ EffectiveParentIsReady(d)

\* the block is complete: Pool::add_block(block, q.eff); the loop goes on with the next slot of the window,
\* after the window with the leader's next window if that is ready, else it waits (end of the modelled run)
BlockDone(q) ==
  LET q1 == [q EXCEPT !.blocks = Append(@, [w |-> q.win, k |-> q.k, par |-> q.eff]),
                      !.viol = @ \/ ~BlockOK(q)]
  IN IF q.k + 1 < W THEN StartBlock(q1, q.win, q.k + 1, "ready", KName(q.k))
     ELSE IF q.win = "w1" /\ q.fin THEN StartBlock(q1, "w4", 0, "ready", "F")
     ELSE [q1 EXCEPT !.phase = "done", !.buf = 0, !.cnt = 0, !.timer = 0]

\* shred_and_disseminate
Ship(p, isLast, ndl) ==
  LET size == EncSize(p.par, p.buf)
      s == [idx |-> p.idx, last |-> isLast, par |-> p.par, size |-> size, ntx |-> p.cnt]
      q == [p EXCEPT !.shipped = Append(@, s)]      \* handed to shred_and_disseminate
  IN
  IF size > MaxData                                 \* ShredError::TooMuchData -> .expect("shredding of valid slice ...")
  THEN R([q EXCEPT !.phase = "panic"], [NoOut EXCEPT !.panic = "shred", !.w = p.win, !.k = p.k])
  ELSE    IF isLast
          THEN LET e == EffectiveParent(q.shipped) IN
               IF e.bad
               THEN R([q EXCEPT !.phase = "panic"], [NoOut EXCEPT !.ship = <<s>>, !.panic = "reconstruct", !.w = p.win, !.k = p.k])
               ELSE LET r == BlockDone([q EXCEPT !.eff = e.par])
                    IN R(r, [NoOut EXCEPT !.ship = <<s>>, !.done = TRUE, !.eff = e.par, !.w = p.win, !.k = p.k])
          ELSE R(StartSlice(q, p.idx + 1, ndl), [NoOut EXCEPT !.ship = <<s>>, !.w = p.win, !.k = p.k])

\* apply_parent_ready: a no-op when the ready parent is the one the block was started on
Apply(par, ready, opt) == IF ready = opt THEN par ELSE ready

\* produce_slice_payload returned with `left` (0 = its sleep fired)
Finish(p, left) ==
  LET ndl == IF p.variant = "ready"
             THEN (IF p.idx = 0 THEN PMax(p.dl - (DeltaFirst - left), 0) ELSE left)
             ELSE IF p.mid THEN (IF Frozen THEN DeltaBlock ELSE PMax(DeltaBlock - p.since, 0))
             ELSE IF p.pr = Unseen THEN Inf
             ELSE left
      q == IF p.mid THEN [p EXCEPT !.par = Apply(p.par, p.pr, p.opt)] ELSE p
      isLast == (p.idx = MaxIdx) \/ (ndl = 0)
  IN IF p.mid /\ p.pr = "dropped"      \* RecvError handed to apply_parent_ready
     THEN R([p EXCEPT !.phase = "panic"], [NoOut EXCEPT !.panic = "sender", !.w = p.win, !.k = p.k])
     ELSE
     IF isLast /\ p.variant = "notready" /\ p.pr = Unseen
     THEN R([q EXCEPT !.phase = "await", !.ndl = ndl, !.timer = 0], NoOut)    \* (&mut parent_ready_receiver).await
     ELSE Ship(q, isLast, ndl)

---------------------------------------------------------------------------
(* wait_for_first_slot.  `c` is the situation at the moment the loop reaches window w1 (established before):
     "pr"       ParentReady(w1, A) held by the pool
     "blk"      block A of the previous slot in the blockstore (disseminated), no ParentReady yet
     "fin"      a slot beyond w1 finalized (block F, parent chain unknown: nothing pruned)
     "finP"     the same with the chain known: the pool has pruned w1
     "pr+fin"   both; the ParentReady state survives
     "pr+finP"  ParentReady first, then the pruning finalization: the ParentReady state is gone
     "blk+fin", "blk+finP"  previous block and finalization both there
   (nothing at all: the loop polls and waits - not modelled.  ParentReady / previous block / finalization arriving
    WHILE the loop waits race in tokio::select! with a 1 ms poller: nondeterministic, not modelled.) *)
HasPr(c) == c \in {"pr", "pr+fin"}
HasBlk(c) == c \in {"blk", "blk+fin", "blk+finP"}
HasFin(c) == c \in {"fin", "finP", "pr+fin", "pr+finP", "blk+fin", "blk+finP"}
IsPruned(c) == c \in {"finP", "pr+finP", "blk+finP"}
StartVariant(c) ==
  IF HasPr(c) THEN "ready"                                   \* Either::Left(parent)
  ELSE IF "blockfirst" \in CodeAsIs
       THEN (IF HasBlk(c) THEN "notready" ELSE "skip")        \* the poller looks at the blockstore first
       ELSE (IF HasFin(c) THEN "skip" ELSE "notready")
OnStart(p, c) ==
  LET v == StartVariant(c)
      q == [p EXCEPT !.cond = c, !.fin = HasFin(c), !.pruned = IsPruned(c)]
  IN IF v = "skip"
     THEN R(StartBlock([q EXCEPT !.skipped = Append(@, "w1")], "w4", 0, "ready", "F"),
            [NoOut EXCEPT !.skip = TRUE, !.w = "w1"])
     ELSE R(StartBlock(q, "w1", 0, v, "A"), NoOut)

\* one transaction arrives on the TransactionNetwork while a slice is being filled
OnTx(p, len) ==
  IF p.phase # "collect" THEN R(p, NoOut)          \* stays in the channel
  ELSE IF len > MaxTx
  THEN R([p EXCEPT !.dropped = @ + 1, !.timer = IF Frozen THEN p.dur ELSE @], NoOut)
  ELSE LET q == [p EXCEPT !.buf = @ + TxCost(len), !.cnt = @ + 1,
                          !.accepted = @ + 1, !.accBytes = @ + len,
                          !.timer = IF Frozen THEN p.dur ELSE @]
           full == Space(q.par, q.rsv) - q.buf < MaxTx + TxOverhead
           r == IF full THEN Finish(q, IF Frozen THEN q.dur ELSE q.timer) ELSE R(q, NoOut)
       IN R(r.p, [r.out EXCEPT !.acc = 1])

\* one tick of time passes
OnTick(p) ==
  IF p.phase # "collect" THEN R(p, NoOut)
  ELSE LET q == [p EXCEPT !.timer = @ - 1, !.since = IF p.mid THEN @ + 1 ELSE @]
       IN IF q.timer <= 0 THEN Finish([q EXCEPT !.timer = 0], 0) ELSE R(q, NoOut)

\* the oneshot of Pool::wait_for_parent_ready fires with block b (the pool cannot emit it for a pruned window)
OnParentReady(p, b) ==
  IF p.variant # "notready" \/ p.pr # Unseen \/ p.pruned THEN R(p, NoOut)
  ELSE IF p.phase = "collect" THEN R([p EXCEPT !.pr = b, !.mid = TRUE, !.since = 0], NoOut)
  ELSE IF p.phase = "await"
  THEN Ship([p EXCEPT !.pr = b, !.par = Apply(p.par, b, p.opt)], TRUE, p.ndl)
  ELSE R(p, NoOut)

\* the next finalization reaches the pool: it prunes again; the oneshot sender a pruned window was given is dropped
\* -> the receiver yields RecvError: in the select! the slice is finished first, then (or at once, in the final
\* await) apply_parent_ready: .expect("ParentReady sender should not be dropped")
Dropped == "dropped"
OnFinalize(p) ==
  IF p.variant = "notready" /\ p.pr = Unseen /\ p.pruned
  THEN IF p.phase = "collect" THEN R([p EXCEPT !.pr = Dropped, !.mid = TRUE, !.since = 0], NoOut)
       ELSE IF p.phase = "await"
       THEN R([p EXCEPT !.pr = Dropped, !.phase = "panic"], [NoOut EXCEPT !.panic = "sender", !.w = p.win, !.k = p.k])
       ELSE R(p, NoOut)
  ELSE R(p, NoOut)

\* failing Disseminator::send is best-effort: the slice is stored and production goes on all the same; the
\* number of shreds that left the node is the only thing that depends on it
Sent(loss) == IF loss = "all" THEN 0 ELSE IF loss = "odd" THEN 32 ELSE 64

---------------------------------------------------------------------------
(* properties, over the record (the per-block ones are defined before Ship) *)
\* the slice being filled always has room for one more maximal transaction
RoomForOne(p) == p.phase = "collect" => Space(p.par, p.rsv) - p.buf >= MaxTx + TxOverhead
\* once ParentReady is known, time alone completes the block, the window and the run
RECURSIVE TicksToDone(_, _)
TicksToDone(p, fuel) ==
  IF p.phase = "done" THEN 0
  ELSE IF fuel = 0 \/ p.phase = "panic" THEN Inf
  ELSE 1 + TicksToDone(OnTick(p).p, fuel - 1)
NeverStuck(p) ==
  (p.phase \in {"collect", "await"} /\ p.pr # Unseen) => TicksToDone(p, (2 * W + 3) * DeltaBlock + 1) < Inf
\* the block being produced can still be completed: ParentReady is known or can still be emitted
CanComplete(p) == ~(p.phase \in {"collect", "await"} /\ p.variant = "notready" /\ p.pr \in {Unseen, "dropped"} /\ p.pruned)

(* the window *)
Bl(p) == p.blocks
NoBlockViolation(p) == ~p.viol
\* blocks of a window are produced in slot order, each on the block just produced
WindowChain(p) ==
  \A i \in 1..Len(Bl(p)) :
    IF Bl(p)[i].k = 0
    THEN (i = 1 \/ (Bl(p)[i - 1].k = W - 1 /\ Bl(p)[i - 1].w # Bl(p)[i].w))
    ELSE i > 1 /\ Bl(p)[i - 1].w = Bl(p)[i].w /\ Bl(p)[i - 1].k = Bl(p)[i].k - 1 /\ Bl(p)[i].par = KName(Bl(p)[i].k - 1)
\* first blocks build on the ready parent; nothing is produced for a skipped window; the block in production is the next one
WindowShape(p) ==
  /\ \A i \in 1..Len(Bl(p)) : Bl(p)[i].k = 0 => Bl(p)[i].par \in (IF Bl(p)[i].w = "w4" THEN {"F"} ELSE {"A", "B", "C"})
  /\ \A i \in 1..Len(Bl(p)) : \A j \in 1..Len(p.skipped) : Bl(p)[i].w # p.skipped[j]
  /\ p.phase \in {"collect", "await"} =>
        IF p.k = 0 THEN (Bl(p) = <<>> \/ Bl(p)[Len(Bl(p))].k = W - 1)
        ELSE Bl(p) # <<>> /\ Bl(p)[Len(Bl(p))].k = p.k - 1 /\ Bl(p)[Len(Bl(p))].w = p.win
\* the run ends with complete windows: exactly W blocks per window that was not skipped
WholeWindows(p) ==
  p.phase = "done" =>
    /\ Len(Bl(p)) \in {W, 2 * W} /\ Bl(p)[Len(Bl(p))].k = W - 1
    /\ (p.skipped # <<>> => Len(Bl(p)) = W /\ Bl(p)[1].w = "w4")
    /\ (p.fin => Bl(p)[Len(Bl(p))].w = "w4")
=============================================================================
