------------------------------ MODULE Producer ------------------------------
(***************************************************************************)
(* The leader's production of ONE block (src/consensus/block_producer.rs)   *)
(* as pure operators over a record: one operator per input of the task      *)
(*   OnStart(p, variant)   OnTx(p, len)   OnTick(p)   OnParentReady(p, b)   *)
(* each returning [p, out]: the new state and what the producer did in      *)
(* reaction (slices handed to shredder + disseminator + blockstore, block    *)
(* completion with the parent given to Pool::add_block, panic of the task). *)
(*                                                                         *)
(*  variant "ready"    = produce_block_parent_ready    (SlotReady::Ready)   *)
(*  variant "notready" = produce_block_parent_not_ready (optimistic, on the  *)
(*                       block of the previous slot; ParentReady may name    *)
(*                       the same block or another one: one-time switch)    *)
(*                                                                         *)
(* Byte arithmetic is exact (produce_slice_payload):                        *)
(*   buffer_space = MAX_DATA_PER_SLICE - len(parent) - 8 [- reserve]        *)
(*   buffer       = 8 (count) + sum (8 + len(tx))                           *)
(*   slice closes when buffer_space - buffer < MAX_TRANSACTION_SIZE + 8     *)
(*   encoded payload = len(parent) + 8 + buffer; the shredder refuses       *)
(*   more than MAX_DATA_PER_SLICE (-> .expect panics).                      *)
(*                                                                         *)
(* INTENDED RULE (CodeAsIs = FALSE): a slice that is started without a      *)
(* parent while ParentReady is still outstanding (not-ready variant, index  *)
(* > 0, receiver not yet terminated) reserves SwitchRoom = 40 bytes, the    *)
(* growth of the parent field None -> Some when apply_parent_ready switches *)
(* the parent on that slice.  CodeAsIs = TRUE transcribes the code before   *)
(* that repair (no reservation).                                            *)
(*                                                                         *)
(* Time is counted in ticks.  Frozen = TRUE models the clock of the         *)
(* conformance harness: tokio's clock is virtual but the code measures      *)
(* `start_time.elapsed()` with std::time::Instant, which stands still:      *)
(* every received transaction re-arms the slice timer with the full         *)
(* duration and a slice that closes because it is full gives back the full  *)
(* duration.  Frozen = FALSE is the wall-clock behaviour (deadline fixed    *)
(* at the start of the slice).                                              *)
(***************************************************************************)
EXTENDS Integers, Sequences, FiniteSets

CONSTANTS
  MaxData,      \* MAX_DATA_PER_SLICE                       (32767)
  MaxTx,        \* MAX_TRANSACTION_SIZE                     (512)
  DeltaBlock,   \* delta_block in ticks
  DeltaFirst,   \* delta_first_slice in ticks (<= DeltaBlock)
  MaxIdx,       \* SliceIndex::is_max  (the code: MAX_SLICES_PER_BLOCK - 1 = 1023)
  CodeAsIs,     \* TRUE: the code before the repair (no room reserved for the parent switch)
  Frozen        \* TRUE: std Instant stands still (harness clock); FALSE: wall clock

ASSUME DeltaFirst >= 1 /\ DeltaBlock >= DeltaFirst

NoParent == "none"            \* Option<BlockId>::None
Unseen == "unseen"            \* ParentReady not yet received
ParentLen(par) == IF par = NoParent THEN 1 ELSE 41     \* wincode: tag, + slot (8) + hash (32)
SwitchRoom == 40              \* ParentLen(Some) - ParentLen(None)
LenPrefix == 8                \* length prefix of SlicePayload::data
CountPrefix == 8              \* number of transactions
TxOverhead == 8               \* length prefix of one transaction
Inf == 1000000                \* Duration::MAX

PMin(a, b) == IF a <= b THEN a ELSE b
PMax(a, b) == IF a >= b THEN a ELSE b

Reserve(variant, par, pr) ==
  IF ~CodeAsIs /\ variant = "notready" /\ par = NoParent /\ pr = Unseen THEN SwitchRoom ELSE 0
Space(par, rsv) == MaxData - ParentLen(par) - LenPrefix - rsv
EncSize(par, buf) == ParentLen(par) + LenPrefix + buf
TxCost(len) == TxOverhead + len

NoOut == [ship |-> <<>>, done |-> FALSE, eff |-> "", panic |-> "", acc |-> 0]
R(p, out) == [p |-> p, out |-> out]

InitProducer ==
  [phase |-> "idle",      \* idle | collect | await | done | panic
   variant |-> "",
   opt |-> "",            \* the parent the block is started on
   idx |-> 0, buf |-> 0, cnt |-> 0, par |-> NoParent, rsv |-> 0,
   dur |-> 0,             \* duration given to produce_slice_payload for this slice
   timer |-> 0,           \* ticks until the slice's sleep fires
   dl |-> 0,              \* duration_left of the block when this slice was started
   ndl |-> 0,             \* new_duration_left kept while awaiting ParentReady on the last slice
   pr |-> Unseen,         \* ready parent (variant ready: known from the start)
   mid |-> FALSE,         \* ParentReady received while this slice was being produced (select branch 2)
   since |-> 0,           \* ticks since then (wall clock only)
   shipped |-> <<>>,      \* [idx, last, par, size, ntx] per slice handed to shred_and_disseminate
   accepted |-> 0,        \* ghost: transactions taken into slices
   accBytes |-> 0,        \* ghost: their payload bytes
   dropped |-> 0,         \* ghost: oversized transactions dropped
   eff |-> ""]            \* parent registered with Pool::add_block

---------------------------------------------------------------------------
\* the loop head `for slice_index in SliceIndex::all()`
StartSlice(p, idx, dl) ==
  LET par == IF idx = 0 THEN p.opt ELSE NoParent
      dur == IF p.variant = "ready"
             THEN (IF idx = 0 THEN DeltaFirst ELSE dl)
             ELSE (IF idx = 0 THEN PMin(dl, DeltaFirst) ELSE PMin(dl, DeltaBlock))
      rsv == Reserve(p.variant, par, p.pr)
  IN [p EXCEPT !.phase = "collect", !.idx = idx, !.buf = CountPrefix, !.cnt = 0, !.par = par,
               !.rsv = rsv, !.dur = dur, !.timer = dur, !.dl = dl, !.ndl = 0,
               !.mid = FALSE, !.since = 0]

\* blockstore: effective parent = parent of slice 0, replaced by the (single, different) parent of a later slice
RECURSIVE Effective(_, _, _, _)
Effective(sl, i, cur, sw) ==
  IF i > Len(sl) THEN [par |-> cur, bad |-> FALSE, sw |-> sw]
  ELSE IF sl[i].par = NoParent THEN Effective(sl, i + 1, cur, sw)
  ELSE IF sl[i].par = cur THEN [par |-> cur, bad |-> TRUE, sw |-> sw]       \* "parent switched to same value"
  ELSE IF sw >= 1 THEN [par |-> cur, bad |-> TRUE, sw |-> sw]               \* "parent switched more than once"
  ELSE Effective(sl, i + 1, sl[i].par, sw + 1)
EffectiveParent(sl) ==
  IF sl = <<>> \/ sl[1].par = NoParent THEN [par |-> NoParent, bad |-> TRUE, sw |-> 0]
  ELSE Effective(sl, 2, sl[1].par, 0)

\* shred_and_disseminate
Ship(p, isLast, ndl) ==
  LET size == EncSize(p.par, p.buf)
      s == [idx |-> p.idx, last |-> isLast, par |-> p.par, size |-> size, ntx |-> p.cnt]
      q == [p EXCEPT !.shipped = Append(@, s)]      \* handed to shred_and_disseminate
  IN
  IF size > MaxData                                 \* ShredError::TooMuchData -> .expect("shredding of valid slice ...")
  THEN R([q EXCEPT !.phase = "panic"], [NoOut EXCEPT !.panic = "shred"])
  ELSE    IF isLast
          THEN LET e == EffectiveParent(q.shipped) IN
               IF e.bad
               THEN R([q EXCEPT !.phase = "panic"], [NoOut EXCEPT !.ship = <<s>>, !.panic = "reconstruct"])
               ELSE R([q EXCEPT !.phase = "done", !.eff = e.par, !.buf = 0, !.cnt = 0, !.timer = 0],
                      [NoOut EXCEPT !.ship = <<s>>, !.done = TRUE, !.eff = e.par])
          ELSE R(StartSlice(q, p.idx + 1, ndl), [NoOut EXCEPT !.ship = <<s>>])

\* apply_parent_ready: a no-op when the ready parent is the one the block was started on
Apply(par, ready, opt) == IF ready = opt THEN par ELSE ready

\* produce_slice_payload returned with `left` (0 = its sleep fired)
Finish(p, left) ==
  LET ndl == IF p.variant = "ready"
             THEN (IF p.idx = 0 THEN PMax(p.dl - (DeltaFirst - left), 0) ELSE left)
             ELSE IF p.mid THEN (IF Frozen THEN DeltaBlock ELSE PMax(DeltaBlock - p.since, 0))
             ELSE IF p.pr = Unseen THEN Inf
             ELSE left
      q == IF p.mid THEN [p EXCEPT !.par = Apply(p.par, p.pr, p.opt)] ELSE p
      isLast == (p.idx = MaxIdx) \/ (ndl = 0)
  IN IF isLast /\ p.variant = "notready" /\ p.pr = Unseen
     THEN R([q EXCEPT !.phase = "await", !.ndl = ndl, !.timer = 0], NoOut)    \* (&mut parent_ready_receiver).await
     ELSE Ship(q, isLast, ndl)

---------------------------------------------------------------------------
OnStart(p, variant, parent) ==
  R(StartSlice([p EXCEPT !.variant = variant, !.opt = parent,
                         !.pr = IF variant = "ready" THEN parent ELSE Unseen],
               0, IF variant = "ready" THEN DeltaBlock ELSE Inf), NoOut)

\* one transaction arrives on the TransactionNetwork while a slice is being filled
OnTx(p, len) ==
  IF p.phase # "collect" THEN R(p, NoOut)          \* stays in the channel
  ELSE IF len > MaxTx
  THEN R([p EXCEPT !.dropped = @ + 1, !.timer = IF Frozen THEN p.dur ELSE @], NoOut)
  ELSE LET q == [p EXCEPT !.buf = @ + TxCost(len), !.cnt = @ + 1,
                          !.accepted = @ + 1, !.accBytes = @ + len,
                          !.timer = IF Frozen THEN p.dur ELSE @]
           full == Space(q.par, q.rsv) - q.buf < MaxTx + TxOverhead
           r == IF full THEN Finish(q, IF Frozen THEN q.dur ELSE q.timer) ELSE R(q, NoOut)
       IN R(r.p, [r.out EXCEPT !.acc = 1])

\* one tick of time passes
OnTick(p) ==
  IF p.phase # "collect" THEN R(p, NoOut)
  ELSE LET q == [p EXCEPT !.timer = @ - 1, !.since = IF p.mid THEN @ + 1 ELSE @]
       IN IF q.timer <= 0 THEN Finish([q EXCEPT !.timer = 0], 0) ELSE R(q, NoOut)

\* the oneshot of Pool::wait_for_parent_ready fires with block b
OnParentReady(p, b) ==
  IF p.variant # "notready" \/ p.pr # Unseen THEN R(p, NoOut)
  ELSE IF p.phase = "collect" THEN R([p EXCEPT !.pr = b, !.mid = TRUE, !.since = 0], NoOut)
  ELSE IF p.phase = "await"
  THEN Ship([p EXCEPT !.pr = b, !.par = Apply(p.par, b, p.opt)], TRUE, p.ndl)
  ELSE R(p, NoOut)

---------------------------------------------------------------------------
(* properties, over the record *)
Sl(p) == p.shipped
NoOverflow(p) == \A i \in 1..Len(Sl(p)) : Sl(p)[i].size <= MaxData
NoPanic(p) == p.phase # "panic"
IndicesInOrder(p) == \A i \in 1..Len(Sl(p)) : Sl(p)[i].idx = i - 1
OneLastSlice(p) ==
  /\ p.phase # "panic" => \A i \in 1..Len(Sl(p)) : Sl(p)[i].last <=> (p.phase = "done" /\ i = Len(Sl(p)))
  /\ p.phase = "done" => Len(Sl(p)) >= 1
FirstSliceHasParent(p) == Len(Sl(p)) >= 1 => Sl(p)[1].par # NoParent
Switches(p) == {i \in 2..Len(Sl(p)) : Sl(p)[i].par # NoParent}
AtMostOneSwitch(p) ==
  /\ Cardinality(Switches(p)) <= 1
  /\ \A i \in Switches(p) : p.variant = "notready" /\ p.pr # Unseen /\ p.pr # p.opt /\ Sl(p)[i].par = p.pr
EffectiveParentIsReady(p) ==
  p.phase = "done" => /\ p.pr # Unseen
                      /\ p.eff = p.pr
                      /\ EffectiveParent(Sl(p)) = [par |-> p.pr, bad |-> FALSE, sw |-> Cardinality(Switches(p))]
RECURSIVE SumNtx(_, _)
SumNtx(sl, i) == IF i > Len(sl) THEN 0 ELSE sl[i].ntx + SumNtx(sl, i + 1)
RECURSIVE SumBytes(_, _)
SumBytes(sl, i) ==
  IF i > Len(sl) THEN 0
  ELSE (sl[i].size - ParentLen(sl[i].par) - LenPrefix - CountPrefix - TxOverhead * sl[i].ntx) + SumBytes(sl, i + 1)
\* every accepted transaction is in exactly one slice (counts and bytes add up), dropped ones in none
CurBytes(p) == IF p.phase \in {"collect", "await"} THEN p.buf - CountPrefix - TxOverhead * p.cnt ELSE 0
TxBalance(p) == p.accepted - SumNtx(Sl(p), 1) - p.cnt
ByteBalance(p) == p.accBytes - SumBytes(Sl(p), 1) - CurBytes(p)
TxConserved(p) == p.phase # "panic" => (TxBalance(p) = 0 /\ ByteBalance(p) = 0)
\* the slice being filled always has room for one more maximal transaction
RoomForOne(p) == p.phase = "collect" => Space(p.par, p.rsv) - p.buf >= MaxTx + TxOverhead
\* once ParentReady is known, time alone completes the block
RECURSIVE TicksToDone(_, _)
TicksToDone(p, fuel) ==
  IF p.phase = "done" THEN 0
  ELSE IF fuel = 0 \/ p.phase = "panic" THEN Inf
  ELSE 1 + TicksToDone(OnTick(p).p, fuel - 1)
NeverStuck(p) ==
  (p.phase \in {"collect", "await"} /\ p.pr # Unseen) => TicksToDone(p, 3 * DeltaBlock + 1) < Inf
=============================================================================
