------------------------------- MODULE Votor -------------------------------
(***************************************************************************)
(* The voting state machine (src/consensus/votor.rs) as pure operators     *)
(* over a record.  One operator per handler:                               *)
(*   OnPool(v, e)   OnBlockstore(v, e)   OnTimeout(v, kind, s)             *)
(* each returning [v, out, arm]: new state, the SEQUENCE of broadcast      *)
(* messages, and the windows for which timeouts were (re-)armed.           *)
(***************************************************************************)
EXTENDS Naturals, Sequences, FiniteSets, TLC

CONSTANTS W, VMaxSlot      \* window size; slots 0..VMaxSlot carry state (VMaxSlot + 1 multiple of W)

VNoneH == "-"
VGenesisHash == "G"
VGenesis == <<0, VGenesisHash>>
VSlots == 0..VMaxSlot
VFirstInWindow(s) == (s \div W) * W
VWindowSlots(s) == {t \in VSlots : VFirstInWindow(t) = VFirstInWindow(s)}
VMax2(a, b) == IF a >= b THEN a ELSE b

DefaultSlot == [voted |-> FALSE, vnotar |-> VNoneH, bad |-> FALSE, notarized |-> VNoneH,
                pready |-> {}, shred |-> FALSE, pending |-> <<>>, retired |-> FALSE]
GenesisSlot == [voted |-> TRUE, vnotar |-> VGenesisHash, bad |-> FALSE, notarized |-> VGenesisHash,
                pready |-> {VGenesis}, shred |-> FALSE, pending |-> <<>>, retired |-> TRUE]

InitVotor == [slots |-> [s \in VSlots |-> IF s = 0 THEN GenesisSlot ELSE DefaultSlot],
              hfc |-> 0]       \* highest_final_cert_slot

\* messages
MsgVote(k, s, h) == [t |-> "vote", k |-> k, s |-> s, h |-> h]
MsgCert(c) == [t |-> "cert", c |-> c]

VA(v, out, arm) == [v |-> v, out |-> out, arm |-> arm]
VA0(v) == VA(v, <<>>, <<>>)
Say(a, m) == VA(a.v, Append(a.out, m), a.arm)
Arm(a, s) == VA(a.v, a.out, Append(a.arm, s))
SetSlot(a, s, f, val) == VA([a.v EXCEPT !.slots[s][f] = val], a.out, a.arm)

FirstUnpruned(v) == VFirstInWindow(v.hfc)
Retired(v, s) == s \in VSlots /\ v.slots[s].retired
Voted(v, s) == v.slots[s].voted

\* try_final
TryFinal(a, s, h) ==
  LET st == a.v.slots[s] IN
  IF st.notarized = h /\ st.vnotar = h /\ ~st.bad /\ h # VNoneH
  THEN SetSlot(Say(a, MsgVote("final", s, VNoneH)), s, "retired", TRUE)
  ELSE a

\* try_notar: returns [a, ok]
TryNotar(a, s, h, par) ==
  LET v == a.v IN
  IF Voted(v, s) THEN [a |-> a, ok |-> FALSE]
  ELSE LET valid == IF s = VFirstInWindow(s) THEN par \in v.slots[s].pready
                    ELSE par[1] = s - 1 /\ v.slots[s - 1].vnotar = par[2] /\ par[2] # VNoneH
                                /\ s - 1 >= FirstUnpruned(v)
       IN IF ~valid THEN [a |-> a, ok |-> FALSE]
          ELSE LET a1 == Say(a, MsgVote("notar", s, h))
                   a2 == VA([a1.v EXCEPT !.slots[s].voted = TRUE, !.slots[s].vnotar = h,
                                         !.slots[s].pending = <<>>], a1.out, a1.arm)
               IN [a |-> TryFinal(a2, s, h), ok |-> TRUE]

\* try_skip_window: every unvoted slot of the window, in ascending order
RECURSIVE SkipFrom(_, _, _)
SkipFrom(a, t, last) ==
  IF t > last THEN a
  ELSE IF Voted(a.v, t) THEN SkipFrom(a, t + 1, last)
  ELSE LET a1 == VA([a.v EXCEPT !.slots[t].voted = TRUE, !.slots[t].bad = TRUE], a.out, a.arm)
       IN SkipFrom(Say(a1, MsgVote("skip", t, VNoneH)), t + 1, last)
TrySkipWindow(a, s) == SkipFrom(a, VFirstInWindow(s), VFirstInWindow(s) + W - 1)

\* check_pending_blocks: snapshot of slots with a pending block, ascending
RECURSIVE PendingFrom(_, _, _)
PendingFrom(a, t, snap) ==
  IF t > VMaxSlot THEN a
  ELSE IF t \in snap /\ a.v.slots[t].pending # <<>>
       THEN LET pb == a.v.slots[t].pending[1]
            IN PendingFrom(TryNotar(a, t, pb.h, pb.par).a, t + 1, snap)
       ELSE PendingFrom(a, t + 1, snap)
CheckPending(a) ==
  PendingFrom(a, 0, {t \in VSlots : a.v.slots[t].pending # <<>>})

\* prune: drop state below the window of the highest final certificate
Prune(v) ==
  [v EXCEPT !.slots = [s \in VSlots |-> IF s < VFirstInWindow(v.hfc) THEN DefaultSlot ELSE v.slots[s]]]

\* events:  [t |-> "ParentReady", s, p] [t |-> "SafeToNotar", b] [t |-> "SafeToSkip", s]
\*          [t |-> "Cert", c]  [t |-> "Standstill", s, certs (seq), votes (seq)]
PoolEventSlot(e) ==
  CASE e.t \in {"ParentReady", "SafeToSkip", "Standstill"} -> e.s
    [] e.t = "SafeToNotar" -> e.b[1]
    [] e.t = "Cert" -> e.c.s

IgnorePool(v, e) ==
  LET s == PoolEventSlot(e) IN
  CASE e.t = "Standstill" -> FALSE
    [] e.t = "Cert" -> s < FirstUnpruned(v)
    [] OTHER -> s < FirstUnpruned(v) \/ Retired(v, s)

RECURSIVE SayAll(_, _)
SayAll(a, ms) == IF ms = <<>> THEN a ELSE SayAll(Say(a, Head(ms)), Tail(ms))

OnPool(v, e) ==
  IF IgnorePool(v, e) THEN VA0(v)
  ELSE
  CASE e.t = "ParentReady" ->
         LET a1 == SetSlot(VA0(v), e.s, "pready", v.slots[e.s].pready \cup {e.p})
         IN Arm(CheckPending(a1), e.s)
    [] e.t = "SafeToNotar" ->
         LET s == e.b[1]
             a1 == Say(VA0(v), MsgVote("nf", s, e.b[2]))
             a2 == TrySkipWindow(a1, s)
         IN SetSlot(a2, s, "bad", TRUE)
    [] e.t = "SafeToSkip" ->
         LET a1 == Say(VA0(v), MsgVote("sf", e.s, VNoneH))
             a2 == TrySkipWindow(a1, e.s)
         IN SetSlot(a2, e.s, "bad", TRUE)
    [] e.t = "Cert" ->
         LET c == e.c IN
         CASE c.k = "notar" ->
                LET a1 == SetSlot(VA0(v), c.s, "notarized", c.h)
                IN Say(TryFinal(a1, c.s, c.h), MsgCert(c))
           [] c.k \in {"final", "ff"} ->
                LET a1 == Arm(VA0(v), VFirstInWindow(c.s))
                    v1 == [a1.v EXCEPT !.hfc = VMax2(@, c.s)]
                IN Say(VA(Prune(v1), a1.out, a1.arm), MsgCert(c))
           [] OTHER -> Say(VA0(v), MsgCert(c))
    [] e.t = "Standstill" ->
         SayAll(SayAll(VA0(v), [i \in 1..Len(e.certs) |-> MsgCert(e.certs[i])]),
                [i \in 1..Len(e.votes) |-> e.votes[i]])

\* blockstore events: [t |-> "FirstShred", s] [t |-> "InvalidBlock", s] [t |-> "Block", s, h, par]
IgnoreLate(v, s) == s <= v.hfc \/ Retired(v, s)

OnBlockstore(v, e) ==
  IF IgnoreLate(v, e.s) THEN VA0(v)
  ELSE
  CASE e.t = "FirstShred" -> SetSlot(VA0(v), e.s, "shred", TRUE)
    [] e.t = "InvalidBlock" -> TrySkipWindow(VA0(v), e.s)
    [] e.t = "Block" ->
         IF Voted(v, e.s) THEN VA0(v)
         ELSE LET r == TryNotar(VA0(v), e.s, e.h, e.par)
              IN IF r.ok THEN CheckPending(r.a)
                 ELSE SetSlot(r.a, e.s, "pending", <<[h |-> e.h, par |-> e.par]>>)

\* timeouts: kind \in {"timeout", "crashed"}
OnTimeout(v, kind, s) ==
  IF IgnoreLate(v, s) THEN VA0(v)
  ELSE IF kind = "timeout"
       THEN IF ~Voted(v, s) THEN TrySkipWindow(VA0(v), s) ELSE VA0(v)
       ELSE IF ~v.slots[s].shred /\ ~Voted(v, s) THEN TrySkipWindow(VA0(v), s) ELSE VA0(v)
=============================================================================
