---------------------------- MODULE Dissemination ----------------------------
(***************************************************************************)
(* Block dissemination as implemented in src/disseminator/{rotor,turbine,  *)
(* trivial}.rs and driven by consensus.rs::handle_disseminator_shred:      *)
(*                                                                         *)
(*   leader:    Disseminator::send(shred)     - once per shred             *)
(*   receiver:  Disseminator::forward(shred)  - once per RECEIVED copy,    *)
(*              before storing, without de-duplication, by every node      *)
(*              (the leader included: it forwards what comes back to it).  *)
(*                                                                         *)
(* Routing is a function of the shred id sh = <<slot, slice, shred>> only: *)
(*   Rotor    entry = the relay (a validator)                              *)
(*   Turbine  entry = a tree [root, kids] which is TreeOf(ord, fanout) for *)
(*            a permutation ord of ALL validators (the leader is in it)    *)
(* Pure operators over a run-state value, shared by the model-checking     *)
(* module (one global function, every delivery order) and by the trace     *)
(* specification (global function inferred from the recorded calls).       *)
(***************************************************************************)
EXTENDS Integers, Sequences, FiniteSets

Vals(n) == 0..(n - 1)

SlotsPerWindow == 4
\* EpochInfo::leader
LeaderOf(slot, n) == (slot \div SlotsPerWindow) % n

---------------------------------------------------------------------------
(* Turbine trees                                                           *)
\* ord: sequence (1-based) of validators; tree position p (0-based) holds ord[p+1];
\* position p has its children at positions p*f+1 .. p*f+f (TurbineTree::new).
PosKids(ord, f, p) == {ord[q + 1] : q \in {x \in (p * f + 1)..(p * f + f) : x < Len(ord)}}
PosOf(ord, v) == (CHOOSE q \in 1..Len(ord) : ord[q] = v) - 1
TreeOf(ord, f) ==
  [root |-> ord[1],
   kids |-> [v \in {ord[q] : q \in 1..Len(ord)} |-> PosKids(ord, f, PosOf(ord, v))]]

Perms(S) == {o \in [1..Cardinality(S) -> S] : \A a, b \in 1..Cardinality(S) : a # b => o[a] # o[b]}

(* Deciding "t = TreeOf(ord, f) for SOME permutation ord of Vals(n)" without enumerating        *)
(* permutations.  A tree filled in level order is heap-shaped: each subtree is heap-shaped and  *)
(* determined by its size, and the subtree sizes of siblings do not increase from left to       *)
(* right.  So, if any ordering exists, the level-order walk that visits siblings by decreasing  *)
(* subtree size is one.                                                                         *)
RECURSIVE EnumSet(_)
EnumSet(S) == IF S = {} THEN <<>> ELSE LET c == CHOOSE x \in S : TRUE IN <<c>> \o EnumSet(S \ {c})
RECURSIVE Walk(_, _, _, _)
\* level-order walk from the root, siblings in any order; stops when more than `bound` nodes
Walk(ord, p, kids, bound) ==
  IF p >= Len(ord) \/ Len(ord) > bound THEN ord
  ELSE LET v == ord[p + 1]
       IN Walk(ord \o (IF v \in DOMAIN kids THEN EnumSet(kids[v]) ELSE <<>>), p + 1, kids, bound)

\* root + kids is a spanning tree of Vals(n): the walk meets every validator exactly once
IsSpanningTree(t, n) ==
  /\ t.root \in Vals(n)
  /\ DOMAIN t.kids = Vals(n)
  /\ LET w == Walk(<<t.root>>, 0, t.kids, n)
     IN Len(w) = n /\ {w[q] : q \in 1..n} = Vals(n)

RECURSIVE SubSize(_, _), SumSizes(_, _)
SumSizes(kids, S) ==
  IF S = {} THEN 0 ELSE LET c == CHOOSE x \in S : TRUE IN SubSize(kids, c) + SumSizes(kids, S \ {c})
SubSize(kids, v) == 1 + SumSizes(kids, kids[v])

RECURSIVE BySize(_, _)
BySize(S, size) ==
  IF S = {} THEN <<>>
  ELSE LET c == CHOOSE x \in S : \A y \in S : size[x] > size[y] \/ (size[x] = size[y] /\ x <= y)
       IN <<c>> \o BySize(S \ {c}, size)

RECURSIVE CanonWalk(_, _, _, _)
CanonWalk(ord, p, kids, size) ==
  IF p >= Len(ord) THEN ord
  ELSE CanonWalk(ord \o BySize(kids[ord[p + 1]], size), p + 1, kids, size)

CanonOrd(t, n) ==
  LET size == [v \in Vals(n) |-> SubSize(t.kids, v)]
  IN CanonWalk(<<t.root>>, 0, t.kids, size)

IsTurbineTree(t, n, f) ==
  /\ IsSpanningTree(t, n)
  /\ TreeOf(CanonOrd(t, n), f) = t

---------------------------------------------------------------------------
(* Routing rules: destinations of one call, given the entry of the global  *)
(* function for the shred.  kind \in {"rotor", "turbine", "trivial"}       *)
\* Rotor::send_as_leader / Turbine::send_shred_to_root / TrivialDisseminator::send
SendDests(kind, n, e) ==
  CASE kind = "rotor"   -> {e}
    [] kind = "turbine" -> {e.root}
    [] kind = "trivial" -> Vals(n)

\* Rotor::broadcast_if_relay / Turbine::forward_shred / TrivialDisseminator::forward
ForwardDests(kind, n, L, v, e) ==
  CASE kind = "rotor"   -> IF v = e THEN Vals(n) \ {v, L} ELSE {}
    [] kind = "turbine" -> e.kids[v]
    [] kind = "trivial" -> {}

\* does this forward call count as "the relay broadcast" of the shred (Rotor)
IsRelayBroadcast(kind, v, e) == kind = "rotor" /\ v = e

---------------------------------------------------------------------------
(* One dissemination run: a function  sh -> per-shred state, defined for   *)
(* the shreds the leader has sent.                                         *)
(*   net : bag of in-flight copies <<from, to>>  (function -> count >= 1)  *)
(*   rcv : validator -> number of copies received                          *)
(*   bc  : sequence of validators that made a relay broadcast (Rotor)      *)
EmptyRun == <<>>
Led(st) == DOMAIN st

BagDel(b, x) == IF b[x] > 1 THEN [b EXCEPT ![x] = @ - 1]
                ELSE [y \in DOMAIN b \ {x} |-> b[y]]
BagCount(b, x) == IF x \in DOMAIN b THEN b[x] ELSE 0
\* one more copy from `from` to each destination in the set `dests`
BagAddAll(b, from, dests) ==
  LET new == {<<from, w>> : w \in dests}
  IN [y \in DOMAIN b \cup new |-> BagCount(b, y) + (IF y \in new THEN 1 ELSE 0)]

InFlight(st) == UNION {{<<m[1], m[2], sh>> : m \in DOMAIN st[sh].net} : sh \in DOMAIN st}
HasMsg(st, sh, from, to) == sh \in DOMAIN st /\ <<from, to>> \in DOMAIN st[sh].net
Quiet(st) == \A sh \in DOMAIN st : DOMAIN st[sh].net = {}

\* the leader L originates sh: one copy per destination
LeaderSend(st, n, L, sh, dests) ==
  [x \in DOMAIN st \cup {sh} |->
     IF x = sh THEN [net |-> BagAddAll(<<>>, L, dests), rcv |-> [v \in Vals(n) |-> 0], bc |-> <<>>]
     ELSE st[x]]

\* validator `to` takes the copy <<from, to>> of sh off the network and (atomically, as in
\* handle_disseminator_shred) forwards it to `dests`
Deliver(st, sh, from, to, dests, relayBroadcast) ==
  [st EXCEPT ![sh] = [net |-> BagAddAll(BagDel(@.net, <<from, to>>), to, dests),
                      rcv |-> [@.rcv EXCEPT ![to] = @ + 1],
                      bc  |-> IF relayBroadcast THEN Append(@.bc, to) ELSE @.bc]]

---------------------------------------------------------------------------
(* C16, delivery part: predicates on the per-shred state s = st[sh] once   *)
(* nothing is in flight.                                                   *)
\* every validator other than the leader holds the shred
EveryoneReceives(s, n, L) == \A v \in Vals(n) \ {L} : s.rcv[v] >= 1
\* ... exactly one copy (the leader sees its own shred at most once: when it is the relay /
\* part of the tree)
ExactlyOnce(s, n, L) == \A v \in Vals(n) : IF v = L THEN s.rcv[v] <= 1 ELSE s.rcv[v] = 1
\* safety form, true in every state of a run: nobody ever gets a second copy
NeverTwice(s, n) == \A v \in Vals(n) : s.rcv[v] <= 1
\* Rotor: exactly one relay broadcast
OneRelayBroadcast(s) == Len(s.bc) = 1

Delivered(kind, s, n, L) ==
  /\ EveryoneReceives(s, n, L)
  /\ ExactlyOnce(s, n, L)
  /\ (kind = "rotor" => OneRelayBroadcast(s))

=============================================================================
