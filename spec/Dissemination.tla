---------------------------- MODULE Dissemination ----------------------------
(***************************************************************************)
(* Block dissemination as implemented in src/disseminator/{rotor,turbine,  *)
(* trivial}.rs and driven by consensus.rs::handle_disseminator_shred:      *)
(*                                                                         *)
(*   leader:    Disseminator::send(shred)     - once per shred             *)
(*   receiver:  Disseminator::forward(shred)  - once per RECEIVED copy,    *)
(*              before storing, without de-duplication, by every node      *)
(*              (the leader included: it forwards what comes back to it).  *)
(*                                                                         *)
(* Routing is a function of the shred id sh = <<slot, slice, shred>> only: *)
(*   Rotor    entry = the relay (a validator)                              *)
(*   Turbine  entry = a tree [root, kids] which is TreeOf(ord, fanout) for *)
(*            a permutation ord of ALL validators (the leader is in it)    *)
(* Pure operators over a run-state record, shared by the model-checking    *)
(* module (one global function, every delivery order) and by the trace     *)
(* specification (global function inferred from the recorded calls).       *)
(***************************************************************************)
EXTENDS Integers, Sequences, FiniteSets

Vals(n) == 0..(n - 1)

SlotsPerWindow == 4
\* EpochInfo::leader
LeaderOf(slot, n) == (slot \div SlotsPerWindow) % n

---------------------------------------------------------------------------
(* Turbine trees                                                           *)
\* ord: sequence (1-based) of validators; tree position p (0-based) holds ord[p+1];
\* position p has children at positions p*f+1 .. p*f+f (TurbineTree::new).
PosKids(ord, f, p) == {ord[q + 1] : q \in {x \in (p * f + 1)..(p * f + f) : x < Len(ord)}}
PosOf(ord, v) == (CHOOSE q \in 1..Len(ord) : ord[q] = v) - 1
TreeOf(ord, f) ==
  [root |-> ord[1],
   kids |-> [v \in {ord[q] : q \in 1..Len(ord)} |-> PosKids(ord, f, PosOf(ord, v))]]

Perms(S) == {o \in [1..Cardinality(S) -> S] : \A a, b \in 1..Cardinality(S) : a # b => o[a] # o[b]}

---------------------------------------------------------------------------
(* Routing rules: destinations of one call, given the entry of the global  *)
(* function for the shred.  kind \in {"rotor", "turbine", "trivial"}       *)
\* Rotor::send_as_leader / Turbine::send_shred_to_root / TrivialDisseminator::send
SendDests(kind, n, e) ==
  CASE kind = "rotor"   -> {e}
    [] kind = "turbine" -> {e.root}
    [] kind = "trivial" -> Vals(n)

\* Rotor::broadcast_if_relay / Turbine::forward_shred / TrivialDisseminator::forward
ForwardDests(kind, n, L, v, e) ==
  CASE kind = "rotor"   -> IF v = e THEN Vals(n) \ {v, L} ELSE {}
    [] kind = "turbine" -> e.kids[v]
    [] kind = "trivial" -> {}

\* does this forward call count as "the relay broadcast" of the shred (Rotor)
IsRelayBroadcast(kind, v, e) == kind = "rotor" /\ v = e

---------------------------------------------------------------------------
(* One dissemination run.                                                  *)
(*   net : bag of in-flight messages <<from, to, sh>>  (function msg -> count >= 1)   *)
(*   rcv : <<v, sh>> -> number of copies of sh received by v                           *)
(*   led : shreds the leader has sent                                                  *)
(*   bc  : sh -> sequence of validators that made a relay broadcast of sh (Rotor)      *)
EmptyRun == [net |-> <<>>, rcv |-> <<>>, led |-> {}, bc |-> <<>>]

BagAdd(b, x) == IF x \in DOMAIN b THEN [b EXCEPT ![x] = @ + 1]
                ELSE [y \in DOMAIN b \cup {x} |-> IF y = x THEN 1 ELSE b[y]]
BagDel(b, x) == IF b[x] > 1 THEN [b EXCEPT ![x] = @ - 1]
                ELSE [y \in DOMAIN b \ {x} |-> b[y]]
BagCount(b, x) == IF x \in DOMAIN b THEN b[x] ELSE 0
\* add one message from `from` to each destination in the set `dests`
BagAddAll(b, from, dests, sh) ==
  LET new == {<<from, w, sh>> : w \in dests}
  IN [y \in DOMAIN b \cup new |-> BagCount(b, y) + (IF y \in new THEN 1 ELSE 0)]

InFlight(st) == DOMAIN st.net
Quiet(st) == DOMAIN st.net = {}

\* the leader originates sh: one message per destination
LeaderSend(st, L, sh, dests) ==
  [st EXCEPT !.net = BagAddAll(@, L, dests, sh), !.led = @ \cup {sh}]

\* node m[2] takes message m = <<from, to, sh>> off the network, and (atomically, as in
\* handle_disseminator_shred) forwards it to `dests`
Deliver(st, m, dests, relayBroadcast) ==
  [st EXCEPT !.net = BagAddAll(BagDel(@, m), m[2], dests, m[3]),
             !.rcv = BagAdd(@, <<m[2], m[3]>>),
             !.bc  = IF relayBroadcast
                     THEN (IF m[3] \in DOMAIN @ THEN [@ EXCEPT ![m[3]] = Append(@, m[2])]
                           ELSE [y \in DOMAIN @ \cup {m[3]} |-> IF y = m[3] THEN <<m[2]>> ELSE @[y]])
                     ELSE @]

Got(st, v, sh) == BagCount(st.rcv, <<v, sh>>)
Broadcasts(st, sh) == IF sh \in DOMAIN st.bc THEN st.bc[sh] ELSE <<>>

---------------------------------------------------------------------------
(* C16, delivery part: predicates of a quiescent run (nothing in flight). *)
\* every validator other than the leader holds every shred the leader sent
EveryoneReceives(st, n, L) ==
  \A sh \in st.led : \A v \in Vals(n) \ {L} : Got(st, v, sh) >= 1
\* ... exactly once (the leader sees its own shred at most once: when it is the relay /
\* part of the tree)
ExactlyOnce(st, n, L) ==
  \A sh \in st.led : \A v \in Vals(n) : IF v = L THEN Got(st, v, sh) <= 1 ELSE Got(st, v, sh) = 1
\* safety form, true in every state of a run: nobody ever gets a second copy
NeverTwice(st) == \A x \in DOMAIN st.rcv : st.rcv[x] <= 1
\* Rotor: exactly one relay broadcast per shred
OneRelayBroadcast(st) == \A sh \in st.led : Len(Broadcasts(st, sh)) = 1
\* nothing is received that the leader did not send
OnlyLeaderShreds(st) == \A x \in DOMAIN st.rcv : x[2] \in st.led

Delivered(kind, st, n, L) ==
  /\ EveryoneReceives(st, n, L)
  /\ ExactlyOnce(st, n, L)
  /\ (kind = "rotor" => OneRelayBroadcast(st))

=============================================================================
