----------------------------- MODULE Blockstore -----------------------------
(***************************************************************************)
(* One slot of the block store (src/consensus/blockstore.rs,                *)
(* src/consensus/blockstore/slot_block_data.rs): the dissemination spot of  *)
(* `SlotBlockData` / `BlockData` as pure operators over a record.           *)
(*                                                                         *)
(*   One(s, u, r)      one call of add_shred_from_dissemination with real   *)
(*                     shred r (0..63) of the signed slice u                *)
(*   Deliver(s, u, lo, hi, via)  the calls for real shreds lo..hi, in order *)
(*   Own(s, u)         add_own_slice (leader fast path)                     *)
(*   Repair(s, p, u, lo, hi)  add_shred_from_repair into the spot p filed    *)
(*                     under the repaired block's hash; Resolve = getters    *)
(*                                                                         *)
(* each returning the new store, the return value(s) and the SEQUENCE of    *)
(* BlockstoreEvents sent to Votor.  The operators follow the code's order   *)
(* of checks:  misbehaviour flag -> commitment cache (equivocation) ->      *)
(* last-slice consistency -> duplicate -> first shred of the block (returns *)
(* FirstShred WITHOUT attempting reconstruction) -> slice -> block.         *)
(*                                                                         *)
(* The specification states the INTENDED behaviour (property C13).  Two     *)
(* rules deserve a remark (see the notes file):                             *)
(*   LaterKnown      a last-slice marker arriving after shreds of later     *)
(*                   slices is leader equivocation (intended; the pinned    *)
(*                   code prunes those shreds silently instead)             *)
(*   ParentEarlier   the parent a block names must be in an earlier slot    *)
(*                   (finding F8, fixed in /repo by c6f4724)                *)
(*                                                                         *)
(* A signed slice is [idx, last, par, body, ntx]: slice index, last-slice   *)
(* flag, parent name or NoPar, kind of content and a content discriminator  *)
(* (number of transactions).  The leader's signature covers                 *)
(* Commit(u) = (idx, last, Root(u)); the slice Merkle root is a function    *)
(* of the payload (parent, content) only.  Everything a Byzantine leader    *)
(* can sign is a signed slice: malformed content is validly signed.         *)
(***************************************************************************)
EXTENDS Integers, Sequences, FiniteSets, TLC

CONSTANTS
  BSlot,      \* slot of the block under dissemination
  ParSlot,    \* parent name -> slot of that parent block
  MaxIdx      \* largest slice index that carries state

DATA == 32                      \* shreds needed to restore a slice
TOTAL == 64                     \* shreds per slice
Shreds == 0..(TOTAL - 1)
SliceIdx == 0..MaxIdx
NoPar == "none"

Sl(i, l, p, b, n) == [idx |-> i, last |-> l, par |-> p, body |-> b, ntx |-> n]
Root(u) == <<u.par, u.body, u.ntx>>
Commit(u) == <<u.idx, u.last, Root(u)>>
NoC == <<>>                      \* no cached commitment
CIdx(c) == c[1]
CLast(c) == c[2]
CRoot(c) == c[3]
RPar(r) == r[1]
RBody(r) == r[2]
RNtx(r) == r[3]

NoB == [ok |-> FALSE, hash |-> <<>>, par |-> NoPar, ntx |-> 0]

EmptyStore == [cache |-> [i \in SliceIdx |-> NoC],   \* commitment_cache
               held  |-> [i \in SliceIdx |-> {}],    \* shreds: indices held per slice
               last  |-> -1,                         \* last_slice
               rec   |-> {},                         \* slices reconstructed (raw slices are dropped on completion)
               done  |-> NoB,                        \* completed block
               bad   |-> FALSE]                      \* leader_misbehaved

Res(s, ret, evs) == [s |-> s, ret |-> ret, evs |-> evs, why |-> ""]
\* Err(Equivocation | InvalidShred) -> flag_leader_misbehavior: InvalidBlock the first time
\* `why` names the rule that flags (documentation of the step; not observable)
Flag(s, ret, why) == [s |-> [s EXCEPT !.bad = TRUE], ret |-> ret,
                       evs |-> IF s.bad THEN <<>> ELSE <<"InvalidBlock">>, why |-> why]

---------------------------------------------------------------------------
(* content rules *)

\* payload roots of slices 0..last, as a function over 0..last
Payloads(s) == [i \in 0..s.last |-> CRoot(s.cache[i])]

Switches(p) == {i \in DOMAIN p : i > 0 /\ RPar(p[i]) # NoPar}
\* optimistic handover: at most one switch, and not to the parent named by the first slice
ParentsOK(p) == /\ Cardinality(Switches(p)) <= 1
                /\ \A i \in Switches(p) : RPar(p[i]) # RPar(p[0])
EffParent(p) == IF Switches(p) = {} THEN RPar(p[0]) ELSE RPar(p[CHOOSE i \in Switches(p) : TRUE])
TxOK(p) == \A i \in DOMAIN p : RBody(p[i]) = "tx"
\* the parent the block ends up with is in an earlier slot (F8)
ParentEarlier(p) == ParSlot[EffParent(p)] < BSlot
BlockWellFormed(p) == ParentsOK(p) /\ TxOK(p) /\ ParentEarlier(p)

\* a slice that cannot be accepted once it is decoded
SliceMalformed(i, r) == RBody(r) = "garbage" \/ (i = 0 /\ RPar(r) = NoPar)

RECURSIVE SumTx(_, _)
SumTx(p, i) == IF i < 0 THEN 0 ELSE RNtx(p[i]) + SumTx(p, i - 1)

\* the block: hash = double-Merkle root over the slice roots 0..last (kept symbolic: the sequence of roots)
BlockOf(s) == LET p == Payloads(s) IN
  [ok |-> TRUE, hash |-> [k \in 1..(s.last + 1) |-> p[k - 1]], par |-> EffParent(p), ntx |-> SumTx(p, s.last)]

---------------------------------------------------------------------------
(* try_reconstruct_block *)
TryBlock(s) ==
  IF s.done.ok \/ s.last = -1 \/ s.rec # 0..s.last THEN Res(s, "none", <<>>)
  ELSE IF ~BlockWellFormed(Payloads(s)) THEN Flag(s, "invalid", "malformed_block")
  ELSE Res([s EXCEPT !.done = BlockOf(s)], "block", <<"Block">>)

(* try_reconstruct_slice, then the block *)
TrySlice(s, u) ==
  IF s.done.ok \/ u.idx \in s.rec \/ Cardinality(s.held[u.idx]) < DATA THEN Res(s, "none", <<>>)
  ELSE IF SliceMalformed(u.idx, Root(u)) THEN Flag(s, "invalid", "malformed_slice")
  ELSE TryBlock([s EXCEPT !.rec = @ \cup {u.idx},
                          !.held[u.idx] = Shreds])      \* deshred restores the missing shreds in place

\* consistency of a shred with a known last slice
Consistent(u, l) == (u.idx < l /\ ~u.last) \/ (u.idx = l /\ u.last)
\* a last marker contradicts shreds already accepted for later slices (finding fixed by 9934741)
LaterKnown(s, i) == \E j \in SliceIdx : j > i /\ s.cache[j] # NoC

(* BlockData::add_shred: one real shred r of the signed slice u into one spot (dissemination or repair) *)
Core(s, u, r) ==
  IF s.cache[u.idx] # NoC /\ s.cache[u.idx] # Commit(u) THEN Flag(s, "equiv", "conflict")
  ELSE
    LET s1 == [s EXCEPT !.cache[u.idx] = Commit(u)] IN
    IF s1.last = -1 /\ u.last /\ LaterKnown(s1, u.idx) THEN Flag(s1, "equiv", "late_marker")
    ELSE IF s1.last # -1 /\ ~Consistent(u, s1.last) THEN Flag(s1, "equiv", "last_inconsistent")
    ELSE
      LET s2 == IF s1.last = -1 /\ u.last THEN [s1 EXCEPT !.last = u.idx] ELSE s1 IN
      IF r \in s2.held[u.idx] THEN Res(s2, "dup", <<>>)
      ELSE
        LET first == \A i \in SliceIdx : s2.held[i] = {}
            s3 == [s2 EXCEPT !.held[u.idx] = @ \cup {r}]
        IN IF first THEN Res(s3, "none", <<"FirstShred">>) ELSE TrySlice(s3, u)

(* add_shred_from_dissemination: a flagged slot refuses, nothing is announced again *)
One(s, u, r) == IF s.bad THEN Res(s, "invalid", <<>>) ELSE Core(s, u, r)

(* consensus.rs, handle_disseminator_shred: a shred is validated against the cached commitment of its  *)
(* slice (ValidatedShred::try_new) before it reaches the store.  A validly signed shred carrying ANOTHER *)
(* commitment for that slice proves leader equivocation: the shred is dropped and the leader is flagged. *)
NodeOne(s, u, r) ==
  IF s.cache[u.idx] # NoC /\ s.cache[u.idx] # Commit(u) THEN Flag(s, "dropped", "node_conflict")
  ELSE One(s, u, r)
\* via = "node": through the node's validation; "direct": a fully verified shred handed to the store
Ingest(s, u, r, via) == IF via = "node" THEN NodeOne(s, u, r) ELSE One(s, u, r)

(* the real shreds lo..hi of u, one call each, in ascending order *)
RECURSIVE Fold(_, _, _, _, _, _)
Fold(s, u, r, hi, via, acc) ==
  IF r > hi THEN [s |-> s, rets |-> acc.rets, evs |-> acc.evs, blk |-> acc.blk, why |-> acc.why]
  ELSE LET o == Ingest(s, u, r, via) IN
       Fold(o.s, u, r + 1, hi, via,
            [rets |-> Append(acc.rets, o.ret), evs |-> acc.evs \o o.evs,
             blk |-> IF o.ret = "block" THEN o.s.done ELSE acc.blk,
             why |-> IF acc.why = "" THEN o.why ELSE acc.why])
Deliver(s, u, lo, hi, via) == Fold(s, u, lo, hi, via, [rets |-> <<>>, evs |-> <<>>, blk |-> NoB, why |-> ""])

(* add_own_slice: the leader stores its own slice (all shreds, decoded payload); the leader produces   *)
(* each slice once, in order, and stops after the last one                                             *)
OwnEnabled(s, u) == s.cache[u.idx] = NoC /\ s.last = -1
Own(s, u) ==
  LET first == \A i \in SliceIdx : s.held[i] = {}
      s1 == [s EXCEPT !.cache[u.idx] = Commit(u),
                      !.last = IF u.last THEN u.idx ELSE @,
                      !.held[u.idx] = Shreds,
                      !.rec = @ \cup {u.idx}]
      b == TryBlock(s1)
  IN [s |-> b.s, rets |-> <<b.ret>>, evs |-> (IF first THEN <<"FirstShred">> ELSE <<>>) \o b.evs,
      blk |-> IF b.ret = "block" THEN b.s.done ELSE NoB, why |-> b.why]

---------------------------------------------------------------------------
(* add_shred_from_repair(hash, shred): the same BlockData logic on the spot `p` filed under the block hash *)
(* the repair asked for.  The spot has its own first shred and its own completion: FirstShred and Block     *)
(* are announced for it whatever the dissemination spot `s` holds or has announced; the misbehaviour flag  *)
(* of the slot is not consulted on entry, but an Equivocation / InvalidShred error sets it (InvalidBlock    *)
(* the first time).                                                                                        *)
RepairOne(s, p, u, r) ==
  LET o == Core(p, u, r) IN
  [s |-> IF o.s.bad THEN [s EXCEPT !.bad = TRUE] ELSE s,
   p |-> [o.s EXCEPT !.bad = FALSE],
   ret |-> o.ret,
   evs |-> IF o.s.bad /\ s.bad THEN <<>> ELSE o.evs,      \* a flagging step announces nothing else
   why |-> o.why]

RECURSIVE RFold(_, _, _, _, _, _)
RFold(s, p, u, r, hi, acc) ==
  IF r > hi THEN [s |-> s, p |-> p, rets |-> acc.rets, evs |-> acc.evs, blk |-> acc.blk, why |-> acc.why]
  ELSE LET o == RepairOne(s, p, u, r) IN
       RFold(o.s, o.p, u, r + 1, hi,
             [rets |-> Append(acc.rets, o.ret), evs |-> acc.evs \o o.evs,
              blk |-> IF o.ret = "block" THEN o.p.done ELSE acc.blk,
              why |-> IF acc.why = "" THEN o.why ELSE acc.why])
Repair(s, p, u, lo, hi) == RFold(s, p, u, lo, hi, [rets |-> <<>>, evs |-> <<>>, blk |-> NoB, why |-> ""])

---------------------------------------------------------------------------
(* getters (Blockstore trait) for the block id (slot, h): BlockstoreImpl::get_block_data resolves to the   *)
(* dissemination spot `s` if it COMPLETED a block with that hash, else to the repair spot `p` filed under h *)
(* (complete or not; EmptyStore if there is none)                                                          *)
Resolve(s, p, h) == IF s.done.ok /\ s.done.hash = h THEN s ELSE p
GetBlock(d) == d.done                                                         \* get_block
GetLast(d) == d.last                                                          \* get_last_slice_index
GetShred(d, i, r) == IF i \in SliceIdx /\ r \in d.held[i] THEN <<d.cache[i], r>> ELSE NoC          \* get_shred
GetSliceRoot(d, i) == IF i \in SliceIdx /\ d.held[i] # {} THEN CRoot(d.cache[i]) ELSE NoC          \* get_slice_root
HasProof(d, i) == d.done.ok /\ i \in 0..d.last                               \* create_double_merkle_proof
\* everything of a completed block is served
ServesBlock(d) == /\ d.done.ok
                  /\ \A i \in 0..d.last : /\ HasProof(d, i)
                                          /\ GetSliceRoot(d, i) = d.done.hash[i + 1]
                                          /\ \A r \in Shreds : GetShred(d, i, r) = <<d.cache[i], r>>
=============================================================================
