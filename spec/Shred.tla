------------------------------- MODULE Shred -------------------------------
(***************************************************************************)
(* Erasure coding of one slice (src/shredder.rs, src/shredder/             *)
(* reed_solomon.rs, src/shredder/validated_shreds.rs).  All operators of   *)
(* this part carry the prefix EC.  (The commitment / authentication        *)
(* algebra of C12 extends this module later; nothing here depends on it.)  *)
(*                                                                         *)
(* Layers, implementation-shaped:                                    *)
(*  1. integer arithmetic of ReedSolomonCoder::shred (padding length,      *)
(*     shard size, the "last shreds" buffer and the boundary index),       *)
(*  2. the same over symbolic byte strings (alphabet: zero byte, the 0x80  *)
(*     marker, any other byte): chunking into shards, re-joining and       *)
(*     un-padding as ReedSolomonCoder::deshred does it,                    *)
(*  3. the receiver: an array of TOTAL_SHREDS optional shreds handed to    *)
(*     Shredder::deshred, its verdict, the returned slice and the array    *)
(*     afterwards.  Reed-Solomon itself is ideal (MDS): ECData consistent  *)
(*     shards of one codeword determine it, fewer determine nothing.       *)
(*  4. shredder objects: results do not depend on what an object was used  *)
(*     for before (EC_InstanceIndependent).                                *)
(* The property (C11) is stated declaratively (EC_* predicates) and        *)
(* checked by TLC over every case / history MC_Shred enumerates.           *)
(***************************************************************************)
EXTENDS Naturals, Sequences, FiniteSets, TLC

CONSTANTS
  ECData,       \* DATA_SHREDS         (32)
  ECTotal,      \* TOTAL_SHREDS        (64)
  ECMaxShard,   \* MAX_DATA_PER_SHRED  (1024)
  ECKeyBytes    \* cipher::KEY_BYTES   (16)

ECBlock      == 2 * ECData                 \* padding granularity (RS shards must be even-sized)
ECMaxPadded  == ECData * ECMaxShard        \* MAX_DATA_PER_SLICE_AFTER_PADDING
ECMaxPayload == ECMaxPadded - 1            \* MAX_DATA_PER_SLICE (at least one byte of padding)
ECPositions  == 0..(ECTotal - 1)

---------------------------------------------------------------------------
(* The four shredders: how many of the ECTotal output positions are data   *)
(* shreds (they come first), and how many key bytes are appended.          *)
ECVariants == {"regular", "coding_only", "pets", "aont"}
ECNumData(v) ==
  CASE v = "regular"     -> ECData
    [] v = "coding_only" -> 0
    [] v = "pets"        -> ECData - 1       \* the data shard holding the key is withheld
    [] v = "aont"        -> ECData
ECNumCoding(v) == ECTotal - ECNumData(v)
ECOverhead(v)  == IF v \in {"pets", "aont"} THEN ECKeyBytes ELSE 0
ECMaxSlice(v)  == ECMaxPayload - ECOverhead(v)          \* Shredder::MAX_DATA_SIZE
ECKindAt(v, i) == IF i < ECNumData(v) THEN "data" ELSE "coding"

(* Slice::payload_bytes: Option<(Slot, BlockHash)> tag byte (+ 8 + 32),    *)
(* 8-byte length prefix of `data`, then the data bytes.                    *)
ECParentBytes(hasParent) == IF hasParent THEN 1 + 8 + 32 ELSE 1
ECSerializedLen(hasParent, n) == ECParentBytes(hasParent) + 8 + n
(* what the Reed-Solomon coder is handed by variant v *)
ECCodedLen(v, hasParent, n) == ECSerializedLen(hasParent, n) + ECOverhead(v)

---------------------------------------------------------------------------
(* 1. ReedSolomonCoder::shred over integers; L = payload.len()             *)
ECCeilDiv(a, b)      == (a + b - 1) \div b
ECNextMultiple(a, b) == ECCeilDiv(a, b) * b            \* usize::next_multiple_of

ECRefused(L)   == L > ECMaxPayload
ECPadLen(L)    == ECBlock - (L % ECBlock)               \* padding_bytes
ECShardSize(L) == ECCeilDiv(L + ECPadLen(L), ECData)    \* shred_bytes
ECLastBytes(L) == ECNextMultiple(ECBlock, ECShardSize(L))        \* last_shreds_bytes
ECTailLen(L)   == ECLastBytes(L) - ECPadLen(L)          \* payload bytes that go into last_shreds
ECBoundary(L)  == L - ECTailLen(L)                      \* boundary (only meaningful if >= 0)
ECShardCount(L) ==                                      \* chunks of payload[..boundary] + chunks of last_shreds
  ECCeilDiv(ECBoundary(L), ECShardSize(L)) + ECCeilDiv(ECLastBytes(L), ECShardSize(L))

(* everything the Rust code relies on silently (usize underflow, `resize`  *)
(* truncating, the encoder's "expect"s) for an accepted length L           *)
ECArithOK(L) ==
  /\ ECPadLen(L) \in 1..ECBlock
  /\ (L + ECPadLen(L)) % ECBlock = 0
  /\ ECShardSize(L) * ECData = L + ECPadLen(L)          \* div_ceil loses nothing
  /\ ECShardSize(L) % 2 = 0 /\ ECShardSize(L) >= 2 /\ ECShardSize(L) <= ECMaxShard
  /\ ECLastBytes(L) >= ECPadLen(L)                      \* last_shreds_bytes - padding_bytes >= 0
  /\ ECTailLen(L) <= L                                  \* boundary >= 0
  /\ ECBoundary(L) % ECShardSize(L) = 0                 \* every chunk before the boundary is full
  /\ ECLastBytes(L) % ECShardSize(L) = 0
  /\ ECTailLen(L) + 1 <= ECLastBytes(L)                 \* the marker fits; `resize` only ever grows
  /\ ECShardCount(L) = ECData                           \* exactly DATA_SHREDS original shards
  /\ ECShardSize(L) * ECData <= ECMaxPadded             \* deshred's TooMuchData guard never fires
(* ReedSolomonCoder::deshred over integers.  The re-joined buffer has     *)
(* ECData * ECShardSize(L) bytes: L payload bytes of any value, the        *)
(* non-zero marker at offset L, zeros after it.  The scan for trailing     *)
(* zeros therefore stops at the marker whatever the payload ends with.     *)
ECPaddedLen(L) == ECData * ECShardSize(L)
ECUnpadLen(L) ==
  LET zeros == ECPaddedLen(L) - (L + 1)        \* trailing zero bytes
      pad == zeros + 1                         \* padding_bytes
  IN IF zeros < 0 \/ ECPaddedLen(L) < pad THEN 0 - 1      \* InvalidPadding
     ELSE ECPaddedLen(L) - pad                 \* marker_idx = new length
ECUnpadOK(L) == ECUnpadLen(L) = L

---------------------------------------------------------------------------
(* 2. the same over symbolic bytes                                         *)
ECZero == "z"      \* 0x00
ECMark == "m"      \* 0x80
ECOther == "x"     \* any other value
ECBytes == {ECZero, ECMark, ECOther}

ECRepeat(b, k) == TLCEval([i \in 1..k |-> b])
ECDrop(s, k) == SubSeq(s, k + 1, Len(s))      \* s[k..]
ECTake(s, k) == SubSeq(s, 1, k)               \* s[..k]
RECURSIVE ECChunks(_, _)
ECChunks(s, k) == IF Len(s) = 0 THEN <<>>     \* slice::chunks
                  ELSE IF Len(s) <= k THEN <<s>>
                  ELSE <<ECTake(s, k)>> \o ECChunks(ECDrop(s, k), k)
RECURSIVE ECJoin(_)
ECJoin(ss) == IF Len(ss) = 0 THEN <<>> ELSE Head(ss) \o ECJoin(Tail(ss))

(* Vec::resize *)
ECResize(s, k) == IF Len(s) >= k THEN ECTake(s, k) ELSE s \o ECRepeat(ECZero, k - Len(s))

(* the data shards ReedSolomonCoder::shred hands to the encoder *)
ECDataShards(p) ==
  LET L == Len(p)
      last == ECResize(ECDrop(p, ECBoundary(L)) \o <<ECMark>>, ECLastBytes(L))
  IN ECChunks(ECTake(p, ECBoundary(L)), ECShardSize(L)) \o ECChunks(last, ECShardSize(L))

(* padding removal of ReedSolomonCoder::deshred on the re-joined buffer *)
\* iter().rev().take_while(|b| b == 0).count()
RECURSIVE ECTrailingZerosFrom(_, _)
ECTrailingZerosFrom(b, k) == IF k = 0 \/ b[k] # ECZero THEN 0 ELSE 1 + ECTrailingZerosFrom(b, k - 1)
ECTrailingZeros(b) == ECTrailingZerosFrom(b, Len(b))
ECUnpad(b) ==
  LET pad == ECTrailingZeros(b) + 1 IN
  IF Len(b) < pad THEN [ok |-> FALSE, bytes |-> <<>>]                 \* checked_sub fails
  ELSE IF b[Len(b) - pad + 1] # ECMark THEN [ok |-> FALSE, bytes |-> <<>>]
  ELSE [ok |-> TRUE, bytes |-> ECTake(b, Len(b) - pad)]

ECBytesOK(p) ==
  LET sh == ECDataShards(p) IN
  /\ Len(sh) = ECData
  /\ \A k \in 1..Len(sh) : Len(sh[k]) = ECShardSize(Len(p))
  /\ ECUnpad(ECJoin(sh)) = [ok |-> TRUE, bytes |-> p]

---------------------------------------------------------------------------
(* 3. shredding and the receiver                                           *)
(* A slice is [slot, index, last, parent, n, fill]: n data bytes of        *)
(* content class `fill`, parent "none" or a block name.  Shredding it with *)
(* variant pv yields a codeword, described by the source record            *)
(* [slice, pv, len]; codewords are referred to by an identifier, `cw` maps *)
(* identifiers to source records.  Two identifiers are two different       *)
(* codewords (another slice, other content or another variant) and are     *)
(* taken to differ in every shard.  The leader's shred at position i of    *)
(* codeword w is ECShredOf(w, i).                                          *)
ECShred(v, slice) ==
  LET L == ECCodedLen(v, slice.parent # "none", slice.n) IN
  IF ECRefused(L) THEN [ok |-> FALSE, err |-> "TooMuchData", shard |-> 0, len |-> L]
  ELSE [ok |-> TRUE, err |-> "-", shard |-> ECShardSize(L), len |-> L]
(* the documented limit (Shredder::MAX_DATA_SIZE) says the same *)
ECFits(v, slice) == ECSerializedLen(slice.parent # "none", slice.n) <= ECMaxSlice(v)

ECSource(v, slice) == [slice |-> slice, pv |-> v, len |-> ECCodedLen(v, slice.parent # "none", slice.n)]
ECNoSlice == [slot |-> 0, index |-> 0, last |-> FALSE, parent |-> "none", n |-> 0, fill |-> "-"]
ECNoShred == [w |-> "-", i |-> 0, none |-> TRUE]
ECShredOf(w, i) == [w |-> w, i |-> i, none |-> FALSE]
ECSizeOf(cw, s) == ECShardSize(cw[s.w].len)
ECKindOf(cw, s) == ECKindAt(cw[s.w].pv, s.i)

ECLeaderArray(w) == TLCEval([i \in ECPositions |-> ECShredOf(w, i)])
ECRestrict(arr, H) == TLCEval([i \in ECPositions |-> IF i \in H THEN arr[i] ELSE ECNoShred])
ECHeld(arr) == {i \in ECPositions : ~arr[i].none}
ECMin(S) == CHOOSE x \in S : \A y \in S : x <= y

(* ValidatedShreds::try_new; H: held positions, first: any_shred *)
ECLayoutOK(v, cw, arr, H, first) ==
  LET sz == ECSizeOf(cw, first) IN
  /\ sz # 0 /\ sz % 2 = 0
  /\ \A i \in H : ECSizeOf(cw, arr[i]) = sz
  /\ \A i \in H : ECKindOf(cw, arr[i]) = ECKindAt(v, i)

(* Position i of the array is fed to v's decoder as original shard i or as *)
(* recovery shard i - ECNumData(v) of a code with ECNumCoding(v) recovery  *)
(* shards; it is that shard of codeword w only if it was produced for w by *)
(* a variant with the same split.                                          *)
ECConsistentWith(v, cw, arr, H, w) ==
  {i \in H : arr[i].w = w /\ ECNumData(cw[w].pv) = ECNumData(v)}
ECDecode(v, cw, arr, H, first) ==
  IF ECConsistentWith(v, cw, arr, H, first.w) = H THEN "codeword"
  ELSE IF \A w \in {arr[i].w : i \in H} : Cardinality(ECConsistentWith(v, cw, arr, H, w)) < ECData
       THEN "garbage"        \* any ECData shards the decoder uses mix two codewords
  ELSE "unspecified"         \* which shards the decoder uses is its own business

ECErr(e, arr) == [ok |-> FALSE, err |-> e, slice |-> ECNoSlice, arr |-> arr]

(* Shredder::deshred, step by step.  "Undecodable" stands for the three    *)
(* errors that blame the sender: BadEncoding, InvalidMerkleTree,           *)
(* TooMuchData.                                                            *)
ECDeshred(v, cw, arr) ==
  LET H == ECHeld(arr) IN
  IF H = {} THEN ECErr("NotEnoughShreds", arr)
  ELSE LET first == arr[ECMin(H)] IN
  IF ~ECLayoutOK(v, cw, arr, H, first) THEN ECErr("InvalidLayout", arr)
  ELSE IF Cardinality(H) < ECData THEN ECErr("NotEnoughShreds", arr)
  ELSE LET w == first.w  dec == ECDecode(v, cw, arr, H, first) IN
       IF dec = "unspecified" THEN ECErr("Unspecified", arr)
       ELSE IF ECSizeOf(cw, first) * ECData > ECMaxPadded THEN ECErr("Undecodable", arr)
       ELSE IF dec = "garbage" THEN ECErr("Undecodable", arr)     \* padding / Merkle root mismatch
       ELSE IF cw[w].pv # v THEN ECErr("Undecodable", arr)        \* key material missing or misread
       ELSE [ok |-> TRUE, err |-> "-", slice |-> cw[w].slice,
             arr |-> TLCEval([i \in ECPositions |-> IF arr[i].none THEN ECShredOf(w, i) ELSE arr[i]])]

---------------------------------------------------------------------------
(* C11, declaratively, as predicates over one call: the receiver's variant *)
(* v, the codewords cw, the array arr handed in and the result res         *)
(* (= [ok, err, slice, arr]).  w: the codeword an honest leader produced.  *)
EC_Honest(w, arr) == \A i \in ECHeld(arr) : arr[i] = ECShredOf(w, i)

\* any ECData or more of the leader's shreds reconstruct, fewer never do
EC_Threshold(v, cw, w, arr, res) ==
  (EC_Honest(w, arr) /\ cw[w].pv = v) => (res.ok <=> Cardinality(ECHeld(arr)) >= ECData)
EC_FewNeverReconstruct(arr, res) == Cardinality(ECHeld(arr)) < ECData => ~res.ok
\* ... exactly the original slice, and the whole array becomes the leader's output
EC_Restores(cw, w, arr, res) ==
  (EC_Honest(w, arr) /\ res.ok) =>
     /\ res.slice = cw[w].slice
     /\ res.arr = ECLeaderArray(w)
     /\ \A i \in ECHeld(arr) : res.arr[i] = arr[i]
\* on any error the array is left as it was
EC_ErrorUntouched(arr, res) == ~res.ok => res.arr = arr
\* a correct sender is never blamed for a short array
EC_ShortIsNotBlamed(v, cw, w, arr, res) ==
  (EC_Honest(w, arr) /\ cw[w].pv = v /\ ~res.ok) => res.err = "NotEnoughShreds"
\* regenerated shreds are as good as received ones: forget what was held, decode again
ECForget(arr, res) == ECRestrict(res.arr, ECPositions \ ECHeld(arr))
EC_Again(arr, res, res2) ==      \* res2: the result for ECForget(arr, res)
  res.ok => /\ res2.ok <=> (ECTotal - Cardinality(ECHeld(arr)) >= ECData)
            /\ res2.ok => (res2.slice = res.slice /\ res2.arr = res.arr)
\* size limit
EC_LimitExact(v, slice) == ECShred(v, slice).ok <=> ECFits(v, slice)

---------------------------------------------------------------------------
(* 4. shredder objects.  One Shredder value serves many calls (they are    *)
(* pooled: ShredderPool; a node is leader in some slots and receiver in    *)
(* others).  In the specification such an object has no state that         *)
(* matters: all it carries is the log of the calls it has served, and      *)
(* the result of a call is a function of the call's arguments alone.       *)
ECFresh == <<>>                                    \* Shredder::default()
ECLogged(inst, call) == Append(inst, call)         \* the object after serving `call`
ECShredOn(inst, v, slice) == ECShred(v, slice)
ECDeshredOn(inst, v, cw, arr) == ECDeshred(v, cw, arr)
\* whatever an object has been used for before, it answers like a fresh one
EC_InstanceIndependent(inst, v, cw, slice, arr) ==
  /\ ECShredOn(inst, v, slice) = ECShredOn(ECFresh, v, slice)
  /\ ECDeshredOn(inst, v, cw, arr) = ECDeshredOn(ECFresh, v, cw, arr)
\* Shredding draws fresh key material only in the all-or-nothing variants; the others map equal
\* (slice, signing key) to the same 64 shreds, whichever object does it and however often.
ECDeterministic(v) == ECOverhead(v) = 0
=============================================================================
