---------------------------- MODULE VotorTimers ----------------------------
(***************************************************************************)
(* The timeout schedule Votor arms for one leader window (votor.rs         *)
(* set_timeouts; constants in consensus.rs).  The protocol's rule          *)
(*   Timeout(i) fires at  arm + DeltaTimeout + (i - s + 1) * DeltaBlock    *)
(* for the slots i of the window starting at s, preceded by the            *)
(* crashed-leader timeout at  arm + DeltaTimeout + DeltaFirst  (nothing    *)
(* of the first slice was seen in time).  The code accumulates sleeps      *)
(* (DeltaTimeout + DeltaFirst, then DeltaBlock - DeltaFirst, then          *)
(* DeltaBlock each); TLC checks that the accumulated schedule equals the   *)
(* rule for every admissible choice of the constants, and emits the        *)
(* schedule of every window as a case for the replay, which arms the real  *)
(* Votor on the paused clock, advances virtual time in 1 ms steps and      *)
(* compares the instants at which the real timeouts fire.                  *)
(***************************************************************************)
EXTENDS Naturals, Sequences, TLC, Json

CONSTANTS W,             \* slots per window
          DeltaTimeout,  \* ms
          DeltaBlock,    \* ms
          DeltaFirst,    \* ms
          Windows        \* window indices enumerated

ASSUME DeltaFirst <= DeltaBlock

\* the rule
Rule(s) == <<[k |-> "crashed", s |-> s, at |-> DeltaTimeout + DeltaFirst]>>
           \o [i \in 1..W |-> [k |-> "timeout", s |-> s + i - 1, at |-> DeltaTimeout + i * DeltaBlock]]

\* the code: one task sleeping between sends
RECURSIVE Acc(_, _, _)
Acc(s, i, t) == IF i > W THEN <<>>
                ELSE LET t2 == t + (IF i = 1 THEN DeltaBlock - DeltaFirst ELSE DeltaBlock)
                     IN <<[k |-> "timeout", s |-> s + i - 1, at |-> t2]>> \o Acc(s, i + 1, t2)
Coded(s) == <<[k |-> "crashed", s |-> s, at |-> DeltaTimeout + DeltaFirst]>>
            \o Acc(s, 1, DeltaTimeout + DeltaFirst)

VARIABLE w
Init == w \in Windows
Next == UNCHANGED w

CodedIsRule == Coded(w * W) = Rule(w * W)
\* timeouts of a window fire in slot order, the crashed-leader one first, one block time apart
Ordered == LET r == Rule(w * W) IN
           /\ \A i \in 1..(Len(r) - 1) : r[i].at < r[i + 1].at
           /\ \A i \in 2..(Len(r) - 1) : r[i + 1].at - r[i].at = DeltaBlock
Emit == PrintT(<<"CASE", ToJson([s |-> w * W, schedule |-> Rule(w * W)])>>)
=============================================================================
