------------------------------- MODULE Repair -------------------------------
(***************************************************************************)
(* Block repair (src/repair.rs) over the double-Merkle tree of             *)
(* src/crypto/merkle.rs (module Merkle: ideal hash) and the per-hash       *)
(* "repaired" spot of the block store (slot_block_data.rs BlockData).      *)
(*                                                                         *)
(*  * requester  : Handle(st, rp)   = Repair::handle_response              *)
(*                 StartRepair(st,b)= Repair::repair_block                 *)
(*                 TimeoutAll(st)   = every pending timer of repair_loop   *)
(*                                    expires once                         *)
(*  * store      : AddGroup(bs, sh) = BlockData::add_shred                 *)
(*  * responder  : Answer(hold, r)  = RepairRequestHandler::answer_request *)
(*                                                                         *)
(* Shreds are handled in GROUPS: a group is TOTAL_SHREDS/NG consecutive    *)
(* shred indices of one slice, all taken from the same signed slice; Thr   *)
(* groups reconstruct the slice (DATA_SHREDS = Thr * TOTAL_SHREDS/NG).     *)
(*                                                                         *)
(* AsCoded = FALSE is the INTENDED behaviour (the property holds).         *)
(* AsCoded = TRUE transcribes the two deviations of the pinned code:       *)
(*   (D1) the outstanding request is removed BEFORE the response is        *)
(*        validated, (D2) the last-slice flag of a repaired shred is not   *)
(*        compared with the proven last-slice index.                       *)
(* TLC exhibits the consequences of both (see MC_Repair).                  *)
(***************************************************************************)
EXTENDS Merkle, Integers

CONSTANTS NS, NG, Thr, AsCoded

ASSUME NS \in 1..3 /\ NG \in 1..4 /\ Thr \in 1..NG /\ AsCoded \in BOOLEAN

Groups == 0..(NG - 1)
SliceIdx == 0..(NS - 1)

---------------------------------------------------------------------------
(* Blocks of the (possibly Byzantine) leader.  A slice is identified by    *)
(* the name of its Merkle root; the root covers the payload only, so the   *)
(* same payload signed with either last-flag has the same root.            *)
(*   "B" the block under repair,  "O" another block of the same slot,      *)
(*   "Z" a block of another slot.                                          *)
ANames == <<"a0", "a1", "a2">>
ONames == <<"o0", "o1", "o2">>
BlockOf(b) == CASE b = "B" -> [i \in 1..NS |-> ANames[i]]
                [] b = "O" -> [i \in 1..NS |-> ONames[i]]
                [] b = "Z" -> <<"z0">>
SlotOf(b) == IF b = "Z" THEN 2 ELSE 1
HashOf(b) == Root(BlockOf(b))                  \* the block identifier's hash
HName(t) == IF t = HashOf("B") THEN "B" ELSE IF t = HashOf("O") THEN "O" ELSE "X"

---------------------------------------------------------------------------
(* Requests and responses *)
Lsr(b) == [t |-> "lsr", blk |-> b, s |-> 0, g |-> 0]
Sr(b, s) == [t |-> "sr", blk |-> b, s |-> s, g |-> 0]
Sh(b, s, g) == [t |-> "sh", blk |-> b, s |-> s, g |-> g]

\* proof descriptor: the path of leaf i in the tree of block blk, optionally with a corrupted element
Pf(b, i, junk) == [blk |-> b, i |-> i, junk |-> junk]
NoPf == [blk |-> "-", i |-> 0, junk |-> FALSE]
PfTerm(pf) ==
  IF pf.blk = "-" THEN <<>>
  ELSE LET P == Proof(BlockOf(pf.blk), pf.i)
       IN IF ~pf.junk THEN P
          ELSE IF Len(P) = 0 THEN <<[junk |-> 7]>> ELSE [P EXCEPT ![1] = [junk |-> 7]]

\* shred-group descriptor: group g of the shreds of slice idx of block src, shredded with
\* the header flag `last` and signed by `signer`; dmg: payload bytes altered afterwards
\* tag: the data/coding kind on the wire ("ok": as the leader made it, "flip": the other kind).  The
\* kind is covered by neither the leader's signature nor the Merkle path: anybody relaying an
\* authentic shred can flip it, and it says nothing about the leader.
Shg(src, idx, g, last, signer, dmg) ==
  [src |-> src, idx |-> idx, g |-> g, last |-> last, signer |-> signer, dmg |-> dmg, tag |-> "ok"]
Flip(sh) == [sh EXCEPT !.tag = "flip"]
KindOK(sh) == sh.tag = "ok"          \* is_data() = (shred index < DATA_SHREDS)
NoSh == Shg("-", 0, 0, FALSE, "-", FALSE)
ShRoot(sh) == IF sh.dmg \/ sh.src = "-" THEN "junk" ELSE BlockOf(sh.src)[sh.idx + 1]
\* ValidatedShred::try_new(shred, None, leader_pk): the leader's signature over
\* (slot, slice index, last flag, derived root).  A Byzantine leader signs anything it likes.
SigOK(sh) == sh.signer = "leader" /\ ~sh.dmg /\ sh.src # "-"
TrueLast(sh) == sh.idx = Len(BlockOf(sh.src)) - 1

Rp(v, req, idx, root, pf, sh) ==
  [v |-> v, req |-> req, idx |-> idx, root |-> root, pf |-> pf, sh |-> sh]
NackRp(req) == Rp("nack", req, 0, "-", NoPf, NoSh)

---------------------------------------------------------------------------
(* The slot's DISSEMINATION spot.  Besides the per-hash repaired spots the *)
(* block store keeps, per slot, whatever arrived through Rotor, with its   *)
(* own commitment cache (Blockstore::cached_commitment).  Repair exists    *)
(* for the case that this is NOT the block being repaired (an equivocating *)
(* leader: the node saw a shred of O, block B got notarized), so nothing   *)
(* the requester does may depend on it: a repaired shred is validated with *)
(* the full signature check (no cached commitment) and filed under the     *)
(* requested hash only.                                                    *)
(*   dissem = "empty" : nothing arrived through dissemination              *)
(*            "other" : one shred of every slice of block O (same slot,    *)
(*                      same leader key, other content)                    *)
(*            "same"  : one shred of every slice of block B itself         *)
DissemKinds == {"empty", "other", "same"}
DissemCache(dissem, i) ==
  CASE dissem = "other" -> <<i = NS - 1, BlockOf("O")[i + 1]>>
    [] dissem = "same" -> <<i = NS - 1, BlockOf("B")[i + 1]>>
    [] OTHER -> <<>>
\* what ValidatedShred::try_new would answer if it WERE handed the dissemination cache
\* (not used by Handle: documents why it must not be)
WithDissemCache(sh, cache) ==
  IF cache = <<>> THEN SigOK(sh)
  ELSE IF cache = <<sh.last, ShRoot(sh)>> THEN TRUE            \* signature not even looked at
  ELSE FALSE                                                   \* "equivocation": correct shreds of B refused

---------------------------------------------------------------------------
(* The repaired spot of the block store for hash(B): BlockData::add_shred  *)
NoCm == <<>>
EmptyStore ==
  [sh |-> [i \in SliceIdx |-> {}],        \* shred groups held per slice
   cm |-> [i \in SliceIdx |-> NoCm],      \* commitment cache: <<last flag, root>>
   marker |-> -1,                         \* last_slice
   slices |-> {},                         \* reconstructed, not yet assembled slices
   done |-> "-"]                          \* name of the hash of the completed block

MarkLast(bs, i) ==
  [bs EXCEPT !.marker = i,
             !.slices = {k \in @ : k <= i},
             !.sh = [k \in SliceIdx |-> IF k <= i THEN bs.sh[k] ELSE {}]]

\* result: new store, verdict, name of the hash of the block completed by this group ("-" if none)
AddRes(bs, res, blk) == [bs |-> bs, res |-> res, blk |-> blk]
AddGroup(bs, sh) ==
  LET i == sh.idx
      c == <<sh.last, ShRoot(sh)>>
  IN
  \* a shred whose kind contradicts its index is dropped before anything else: it is not evidence
  \* against the leader (AddShredError::WrongKind; the leader is NOT flagged)
  IF ~KindOK(sh) THEN AddRes(bs, "wrongkind", "-")
  ELSE IF i \notin SliceIdx THEN AddRes(bs, "equiv", "-")     \* (never reached: roots beyond the last slice are never proven)
  ELSE IF bs.cm[i] # NoCm /\ bs.cm[i] # c THEN AddRes(bs, "equiv", "-")
  ELSE
    LET bs1 == [bs EXCEPT !.cm[i] = c]
        consistent == \/ bs1.marker = -1
                      \/ (i < bs1.marker /\ ~sh.last)
                      \/ (i = bs1.marker /\ sh.last)
        \* a last marker below a slice already accepted contradicts it (rule of fix 9934741, as in Blockstore / ShredAuth)
        laterKnown == bs1.marker = -1 /\ sh.last /\ \E k \in SliceIdx : k > i /\ bs1.cm[k] # NoCm
    IN
    IF laterKnown \/ ~consistent THEN AddRes(bs1, "equiv", "-")
    ELSE
      LET bs2 == IF bs1.marker = -1 /\ sh.last THEN MarkLast(bs1, i) ELSE bs1 IN
      IF sh.g \in bs2.sh[i] THEN AddRes(bs2, "dup", "-")
      ELSE
        LET bs3 == [bs2 EXCEPT !.sh[i] = @ \cup {sh.g}]
            recon == bs3.done = "-" /\ i \notin bs3.slices /\ Cardinality(bs3.sh[i]) >= Thr
            \* deshred regenerates every missing shred of the slice in place
            bs4 == IF recon THEN [bs3 EXCEPT !.slices = @ \cup {i}, !.sh[i] = Groups] ELSE bs3
            assemble == recon /\ bs4.marker # -1 /\ Cardinality(bs4.slices) = bs4.marker + 1
        IN
        IF ~assemble THEN AddRes(bs4, "ok", "-")
        ELSE LET h == HName(Root([k \in 1..(bs4.marker + 1) |-> bs4.cm[k - 1][2]]))
             IN AddRes([bs4 EXCEPT !.done = h, !.slices = {}], "ok", h)

---------------------------------------------------------------------------
(* Requester *)
InitReq ==
  [out |-> {},                               \* outstanding requests
   roots |-> [i \in SliceIdx |-> "-"],       \* proven slice roots of B
   last |-> -1,                              \* proven last slice index of B
   bs |-> EmptyStore,
   ann |-> <<>>,                             \* Block events announced so far (names of hashes)
   flagged |-> FALSE,                        \* the store reported the slot's leader (InvalidBlock, leader_misbehaved)
   panic |-> FALSE]

\* result of one step: new state, requests put on the wire, Block events emitted
Res(st, wire, ev) == [st |-> st, wire |-> wire, ev |-> ev]

StartRepair(st, b) ==
  IF b = "B" /\ st.bs.done = "B" THEN Res(st, {}, <<>>)
  ELSE Res([st EXCEPT !.out = @ \cup {Lsr(b)}], {Lsr(b)}, <<>>)

\* every pending timer expires once: exactly the outstanding requests are sent again
TimeoutAll(st) == Res(st, st.out, <<>>)

HdrMatches(sh, r) == SlotOf(sh.src) = SlotOf(r.blk) /\ sh.idx = r.s /\ sh.g = r.g

Handle(st, rp) ==
  LET r == rp.req IN
  IF r \notin st.out THEN Res(st, {}, <<>>)                   \* unsolicited / replayed / late
  ELSE
    LET taken == [st EXCEPT !.out = @ \ {r}]
        \* an invalid response must leave the request outstanding, so that its timeout retries it
        reject == Res(IF AsCoded THEN taken ELSE st, {}, <<>>)
    IN
    CASE rp.v = "nack" -> Res(st, {r}, <<>>)                  \* retried immediately
      [] rp.v = "lsr" ->
           IF r.t # "lsr" \/ ~CheckLast(rp.root, rp.idx, HashOf(r.blk), PfTerm(rp.pf)) THEN reject
           ELSE LET new == {Sr(r.blk, s) : s \in 0..rp.idx}
                IN Res([taken EXCEPT !.roots[rp.idx] = rp.root, !.last = rp.idx, !.out = @ \cup new],
                       new, <<>>)
      [] rp.v = "sr" ->
           IF r.t # "sr" \/ ~Check(rp.root, r.s, HashOf(r.blk), PfTerm(rp.pf)) THEN reject
           ELSE LET new == {Sh(r.blk, r.s, g) : g \in Groups}
                IN Res([taken EXCEPT !.roots[r.s] = rp.root, !.out = @ \cup new], new, <<>>)
      [] rp.v = "sh" ->
           IF r.t # "sh" \/ ~HdrMatches(rp.sh, r) THEN reject
           ELSE IF st.roots[r.s] = "-" THEN Res([taken EXCEPT !.panic = TRUE], {}, <<>>)  \* unreachable!()
           ELSE IF ShRoot(rp.sh) # st.roots[r.s] THEN reject
           ELSE IF ~SigOK(rp.sh) THEN reject
           ELSE IF ~AsCoded /\ rp.sh.last # (r.s = st.last) THEN reject     \* (D2)
           ELSE
             LET a == AddGroup(st.bs, rp.sh)
                 \* Equivocation / InvalidShred from the store flag the leader of the slot
                 st1 == [taken EXCEPT !.bs = a.bs, !.flagged = @ \/ a.res = "equiv"]
             IN \* refused for its kind: nothing stored, nobody blamed, and the request stays
                \* outstanding -- the shred was not obtained, a correct answer must still be usable
                IF a.res = "wrongkind" THEN reject
                ELSE IF a.blk = "-" THEN Res(st1, {}, <<>>)
                ELSE Res([st1 EXCEPT !.ann = Append(@, a.blk),
                                     !.panic = (a.blk # r.blk)],     \* assert_eq!(block_info.hash, block_hash)
                         {}, <<a.blk>>)

---------------------------------------------------------------------------
(* Responder: what a node holding `hold` of block B answers *)
Holds(hold, s) == \/ hold = "full"
                  \/ (hold = "part0" /\ s = 0)
                  \/ (hold = "partlast" /\ s = NS - 1)
Answer(hold, r) ==
  IF r.blk # "B" \/ hold = "none" THEN NackRp(r)
  ELSE
    CASE r.t = "lsr" ->
           IF hold = "full" THEN Rp("lsr", r, NS - 1, BlockOf("B")[NS], Pf("B", NS - 1, FALSE), NoSh)
           ELSE NackRp(r)
      [] r.t = "sr" ->
           IF hold = "full" /\ r.s \in SliceIdx
           THEN Rp("sr", r, 0, BlockOf("B")[r.s + 1], Pf("B", r.s, FALSE), NoSh)
           ELSE NackRp(r)
      [] r.t = "sh" ->
           IF r.s \in SliceIdx /\ Holds(hold, r.s) /\ r.g \in Groups
           THEN Rp("sh", r, 0, "-", NoPf, Shg("B", r.s, r.g, r.s = NS - 1, "leader", FALSE))
           ELSE NackRp(r)

\* "the answer verifies against the block hash" (what any requester can check)
Verifies(rp) ==
  LET r == rp.req IN
  CASE rp.v = "lsr" -> r.t = "lsr" /\ CheckLast(rp.root, rp.idx, HashOf(r.blk), PfTerm(rp.pf))
    [] rp.v = "sr" -> r.t = "sr" /\ Check(rp.root, r.s, HashOf(r.blk), PfTerm(rp.pf))
    [] rp.v = "sh" -> /\ r.t = "sh" /\ HdrMatches(rp.sh, r) /\ SigOK(rp.sh)
                      /\ r.s < Len(BlockOf(r.blk)) /\ ShRoot(rp.sh) = BlockOf(r.blk)[r.s + 1]
                      /\ rp.sh.last = TrueLast(rp.sh) /\ KindOK(rp.sh)
    [] OTHER -> FALSE

---------------------------------------------------------------------------
(* Properties of a requester state *)
\* what is stored for hash(B) is content of B: every held group belongs to the slice of B at that
\* position, signed with the flag that slice has in B; a completed block hashes to B
StoredOnlyIfHashMatches(st) ==
  /\ st.bs.done \in {"-", "B"}
  /\ \A k \in 1..Len(st.ann) : st.ann[k] = "B"
  /\ \A i \in SliceIdx : st.bs.cm[i] # NoCm => st.bs.cm[i] = <<i = NS - 1, BlockOf("B")[i + 1]>>
  /\ st.bs.marker \in {-1, NS - 1}
ProvenRootsAreTrue(st) ==
  /\ \A i \in SliceIdx : st.roots[i] \in {"-", BlockOf("B")[i + 1]}
  /\ st.last \in {-1, NS - 1}
NoPanic(st) == ~st.panic
\* whatever repair peers send, the repair path never reports the leader: what reaches the repaired
\* spot is content of B, proven against hash(B), so it cannot contradict itself; a flipped kind is no evidence
CorrectLeaderNeverFlaggedByRepair(st) == ~st.flagged
\* as long as the block is not stored there is an outstanding request whose correct answer is
\* still accepted and brings the repair forward
\* slice i is being worked on: its root is requested, or its root is proven and enough shred
\* groups are held or requested to reconstruct it
SliceServed(st, i) ==
  \/ i \in st.bs.slices
  \/ Sr("B", i) \in st.out
  \/ /\ st.roots[i] # "-"
     /\ Cardinality(st.bs.sh[i] \cup {g \in Groups : Sh("B", i, g) \in st.out}) >= Thr
Progressable(st, started) ==
  (started /\ st.bs.done = "-") =>
     IF st.last = -1 THEN Lsr("B") \in st.out
     ELSE \A i \in 0..st.last : SliceServed(st, i)
=============================================================================
