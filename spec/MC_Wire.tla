------------------------------ MODULE MC_Wire ------------------------------
(***************************************************************************)
(* Case enumeration for Wire.tla.  Every initial state is one case         *)
(*   c = [m |-> message descriptor, mal |-> malformed class]               *)
(* TLC checks the invariants below on every case (all validator counts,    *)
(* all slice payload sizes, all malformed classes) and prints one CASE     *)
(* line (descriptor, expected sizes, byte edits, expected verdict) for the *)
(* cases selected for replay against the real encoder / decoder.           *)
(***************************************************************************)
EXTENDS Wire, Json, TLCExt

CONSTANTS
  CertNs,          \* validator counts for which certificate cases exist (checked)
  FullNs,          \* subset: all signer-subset shapes, emitted for replay
  MalNs,           \* subset: malformed classes applied
  AllDlens,        \* BOOLEAN: every slice data length is a case (else only size-class boundaries)
  EmitShredBytes,  \* shred payload size classes emitted for replay
  SampleDlens,     \* extra slice data lengths emitted for replay (seeded sample)
  AllJDlens        \* slice data lengths for which all 64 shred indices are emitted

VARIABLE c
vars == <<c>>

Shapes == {"first", "last", "all", "even"}
PairShapes == {<<"first", "last">>, <<"all", "all">>, <<"even", "last">>, <<"last", "even">>}

Cert(k, n, a, b) == [t |-> "cert", k |-> k, n |-> n, a |-> a, b |-> b]
CertDescs(n) ==
  IF n \in FullNs
  THEN {Cert(k, n, a, "none") : k \in {"notar", "ff", "final"}, a \in Shapes}
       \cup {Cert(k, n, a, "none") : k \in {"nf", "skip"}, a \in Shapes}
       \cup {Cert(k, n, "none", b) : k \in {"nf", "skip"}, b \in Shapes}
       \cup {Cert(k, n, p[1], p[2]) : k \in {"nf", "skip"}, p \in PairShapes}
  ELSE {Cert(k, n, "all", "none") : k \in {"notar", "ff", "final"}}
       \cup {Cert(k, n, "all", "all") : k \in {"nf", "skip"}}
CertMalDescs(n) ==
  {Cert(k, n, "all", "none") : k \in {"notar", "ff", "final", "nf", "skip"}}
  \cup {Cert(k, n, "none", "all") : k \in {"nf", "skip"}}
  \cup {Cert(k, n, "all", "first") : k \in {"nf", "skip"}}

Shred(sh, dlen, parent, si, last, j) ==
  [sh |-> sh, dlen |-> dlen, parent |-> parent, si |-> si, last |-> last, j |-> j]
AsMsg(s) == [t |-> "shred", sh |-> s.sh, dlen |-> s.dlen, parent |-> s.parent, si |-> s.si,
             last |-> s.last, j |-> s.j]
NoShred == Shred("regular", 0, FALSE, 0, FALSE, 0)

IsBoundary(sh, d, parent) ==
  \/ d \in {0, MaxDlen(sh, parent)}
  \/ (CoderInput(sh, d, parent) % (2 * DataShreds)) \in {0, 2 * DataShreds - 1}
BoundaryDlens(sh, parent) == {d \in 0..MaxDlen(sh, parent) : IsBoundary(sh, d, parent)}
JSet(sh) == {0, TotalShreds - 1} \cup ({DataOut(sh) - 1, DataOut(sh)} \cap (0..(TotalShreds - 1)))
Ends == {<<0, FALSE>>, <<MaxSlices - 1, TRUE>>}            \* <<slice index, is_last>>

ShredDescs ==
  UNION {
    {Shred(sh, d, parent, e[1], e[2], j) :
        d \in BoundaryDlens(sh, parent) \cup (SampleDlens \cap (0..MaxDlen(sh, parent))),
        e \in Ends, j \in JSet(sh)}
    \cup {Shred(sh, d, parent, 0, FALSE, j) :
        d \in (AllJDlens \cap (0..MaxDlen(sh, parent))), j \in 0..(TotalShreds - 1)}
    \cup (IF AllDlens THEN {Shred(sh, d, parent, 0, FALSE, 0) : d \in 0..MaxDlen(sh, parent)} ELSE {})
    : sh \in Shredders, parent \in BOOLEAN}
ShredMalDescs ==
  UNION {{Shred(sh, d, FALSE, e[1], e[2], IF e[2] THEN TotalShreds - 1 ELSE 0) :
             d \in {0, MaxDlen(sh, FALSE)}, e \in Ends} : sh \in Shredders}

Rreq(k, sv, si, j) == [t |-> "rreq", k |-> k, sv |-> sv, si |-> si, j |-> j]
RreqDescs == {Rreq(k, sv, e[1], e[2]) : k \in {"last", "root", "shred"}, sv \in {0, MaxSigners - 1},
                                       e \in {<<0, 0>>, <<MaxSlices - 1, TotalShreds - 1>>}}

Rresp(k, rk, si, j, depth, s) ==
  [t |-> "rresp", k |-> k, rk |-> rk, si |-> si, j |-> j, depth |-> depth, s |-> s]
RrespDescs ==
  {Rresp(k, k, si, 0, d, NoShred) : k \in {"last", "root"}, si \in {0, MaxSlices - 1},
                                    d \in 0..MaxBlockTreeHeight}
  \cup {Rresp("nack", rk, MaxSlices - 1, TotalShreds - 1, 0, NoShred) : rk \in {"last", "root", "shred"}}
  \cup UNION {{Rresp("shred", "shred", e[1], j, 0, Shred(sh, d, parent, e[1], e[2], j)) :
                  d \in BoundaryDlens(sh, parent), e \in Ends, j \in {0, TotalShreds - 1}}
              : sh \in Shredders, parent \in BOOLEAN}
RrespMalDescs ==
  {Rresp(k, k, MaxSlices - 1, 0, d, NoShred) : k \in {"last", "root"}, d \in {0, MaxBlockTreeHeight}}
  \cup {Rresp("nack", rk, MaxSlices - 1, TotalShreds - 1, 0, NoShred) : rk \in {"last", "root", "shred"}}
  \cup {Rresp("shred", "shred", MaxSlices - 1, TotalShreds - 1, 0,
              Shred(sh, MaxDlen(sh, FALSE), FALSE, MaxSlices - 1, TRUE, TotalShreds - 1)) : sh \in Shredders}

VoteDescs == {[t |-> "vote", k |-> k, sv |-> sv] :
                 k \in {"notar", "nf", "skip", "sf", "final"}, sv \in {0, MaxSigners - 1}}
TxDescs == {[t |-> "tx", len |-> l] : l \in 0..MaxTxSize}
TxMalDescs == {[t |-> "tx", len |-> l] : l \in {0, 1, MaxTxSize}}

Base(S) == {[m |-> m, mal |-> NoMal] : m \in S}
WithMuts(S) == UNION {{[m |-> m, mal |-> mu] : mu \in Muts(m)} : m \in S}

-----------------------------------------------------------------------------
\* which cases are replayed against the implementation
Emit(cs) ==
  LET m == cs.m IN
  \/ cs.mal # NoMal
  \/ m.t \in {"vote", "rreq", "tx"}
  \/ m.t = "cert" /\ m.n \in FullNs
  \/ m.t = "shred" /\ \/ m.dlen \in SampleDlens \cup AllJDlens
                      \/ IsBoundary(m.sh, m.dlen, m.parent)
                         /\ ShredBytes(m.sh, m.dlen, m.parent) \in EmitShredBytes
  \/ m.t = "rresp" /\ (m.k = "shred" => ShredBytes(m.s.sh, m.s.dlen, m.s.parent) \in EmitShredBytes)

CaseRec(cs) ==
  LET e == Expect(cs.m, cs.mal) IN
  [m |-> cs.m, mal |-> cs.mal.cls,
   field |-> IF cs.mal.fi > 0 THEN Layout(cs.m)[cs.mal.fi].f ELSE "-",
   size |-> e.size, msize |-> e.msize, ops |-> e.ops, verdict |-> e.verdict, strict |-> e.strict,
   resize |-> e.resize, same |-> e.same, eq |-> e.eq,
   kind |-> IF cs.m.t = "shred" THEN (IF cs.m.j < DataOut(cs.m.sh) THEN "data" ELSE "coding") ELSE "-"]
Out(cs) == Emit(cs) => PrintT(<<"CASE", ToJson(CaseRec(cs))>>)

Init ==
  \/ c \in Base(VoteDescs) \cup WithMuts(VoteDescs) /\ Out(c)
  \/ c \in Base(UNION {CertDescs(n) : n \in CertNs}) /\ Out(c)
  \/ c \in WithMuts(UNION {CertMalDescs(n) : n \in MalNs}) /\ Out(c)
  \/ c \in Base({AsMsg(s) : s \in ShredDescs}) /\ Out(c)
  \/ c \in WithMuts({AsMsg(s) : s \in ShredMalDescs}) /\ Out(c)
  \/ c \in Base(RreqDescs) \cup WithMuts(RreqDescs) /\ Out(c)
  \/ c \in Base(RrespDescs) /\ Out(c)
  \/ c \in WithMuts(RrespMalDescs) /\ Out(c)
  \/ c \in Base(TxDescs) \cup WithMuts(TxMalDescs) /\ Out(c)
Next == UNCHANGED c

-----------------------------------------------------------------------------
(* invariants: the property on the specification *)
ME == LET mu == Mutate(Layout(c.m), c.mal) IN [fs |-> mu.fs, tail |-> mu.tail]
NetBytes(ops) ==
  LET d(o) == CASE o.op \in {"append", "insert"} -> o.n
                [] o.op \in {"truncate", "remove"} -> 0 - o.n
                [] OTHER -> 0
      RECURSIVE S(_)
      S(i) == IF i = 0 THEN 0 ELSE d(ops[i]) + S(i - 1)
  IN S(Len(ops))

\* every message a correct node emits is one of the enumerated well-formed descriptors
AllWellFormed == WellFormed(c.m)
\* ... and fits one datagram, for every validator count and every slice size
FitsDatagram == c.mal = NoMal => Size(c.m) <= MTU
\* well-formed encodings decode, and re-encode to themselves
RoundTripInv == c.mal = NoMal => RoundTrip(c.m)
\* trailing bytes, out-of-range indices / tags, oversized bitmasks are rejected
StrictRejected == Strict(c.mal) => ~Accepts(ME)
\* whatever is accepted re-encodes to a fixed point of decode->encode with the same value
NormalFormInv == NormalForm(ME)
\* the class is applicable and its byte edits change the length as the abstract defect does
MalConsistent ==
  /\ c.mal = NoMal \/ c.mal \in Muts(c.m)
  /\ ESize(ME) = Size(c.m) + NetBytes(Mutate(Layout(c.m), c.mal).ops)
\* re-encoding never grows, and an accepted encoding of a well-formed message fits too
ReEncShrinks == Accepts(ME) => ESize(ReEnc(ME)) <= ESize(ME)

\* vacuity witnesses (must be violated)
W_MaxCert == ~(c.m.t = "cert" /\ c.m.k = "nf" /\ c.m.n = MaxSigners /\ c.m.a # "none" /\ c.m.b # "none")
W_MaxShred == ~(c.m.t = "rresp" /\ c.m.k = "shred" /\ Size(c.m) >= 1389)
W_GarbageAccepted == ~(c.mal.cls = "garbage_live" /\ Accepts(ME))
=============================================================================
