------------------------------ MODULE MC_Wire ------------------------------
(***************************************************************************)
(* Case enumeration for Wire.tla.  Initial states are GROUPS of cases (one  *)
(* per validator count, per block of slice data lengths, ...), so that the *)
(* TLC workers expand them in parallel; every successor is one case        *)
(*   c = [g |-> "case", m |-> message descriptor, mal |-> malformed class] *)
(* TLC checks the invariants below on every case (all validator counts,    *)
(* all slice payload sizes, all malformed classes) and prints one CASE     *)
(* line (descriptor, expected sizes, byte edits, expected verdict) for the *)
(* cases selected for replay against the real encoder / decoder.           *)
(***************************************************************************)
EXTENDS Wire, Json, TLCExt

CONSTANTS
  CertNs,          \* validator counts for which certificate cases exist (checked)
  FullNs,          \* subset: all signer-subset shapes, emitted for replay
  MalNs,           \* subset: malformed classes applied
  AllDlens,        \* BOOLEAN: every slice data length is a case (else only size-class boundaries)
  EmitShredBytes,  \* shred payload size classes emitted for replay
  SampleDlens,     \* extra slice data lengths emitted for replay (seeded sample)
  AllJDlens        \* slice data lengths for which all 64 shred indices are emitted

VARIABLE c
vars == <<c>>

Shapes == {"first", "last", "all", "even", "rand"}
PairShapes == {<<"first", "last">>, <<"all", "all">>, <<"even", "last">>, <<"last", "even">>, <<"rand", "rand">>}

Cert(k, n, a, b) == [t |-> "cert", k |-> k, n |-> n, a |-> a, b |-> b]
CertDescs(n) ==
  IF n \in FullNs
  THEN {Cert(k, n, a, "none") : k \in {"notar", "ff", "final"}, a \in Shapes}
       \cup {Cert(k, n, a, "none") : k \in {"nf", "skip"}, a \in Shapes}
       \cup {Cert(k, n, "none", b) : k \in {"nf", "skip"}, b \in Shapes}
       \cup {Cert(k, n, p[1], p[2]) : k \in {"nf", "skip"}, p \in PairShapes}
  ELSE {Cert(k, n, "all", "none") : k \in {"notar", "ff", "final"}}
       \cup {Cert(k, n, "all", "all") : k \in {"nf", "skip"}}
CertMalDescs(n) ==
  {Cert(k, n, "all", "none") : k \in {"notar", "ff", "final", "nf", "skip"}}
  \cup {Cert(k, n, "none", "all") : k \in {"nf", "skip"}}
  \cup {Cert(k, n, "all", "first") : k \in {"nf", "skip"}}

Shred(sh, dlen, parent, si, last, j) ==
  [sh |-> sh, dlen |-> dlen, parent |-> parent, si |-> si, last |-> last, j |-> j]
AsMsg(s) == [t |-> "shred", sh |-> s.sh, dlen |-> s.dlen, parent |-> s.parent, si |-> s.si,
             last |-> s.last, j |-> s.j]
NoShred == Shred("regular", 0, FALSE, 0, FALSE, 0)

\* slice data lengths at which the shred size class changes (and the extremes)
IsBoundary(sh, d, parent) ==
  \/ d \in {0, MaxDlen(sh, parent)}
  \/ (CoderInput(sh, d, parent) % (2 * DataShreds)) \in {0, 2 * DataShreds - 1}
\* lengths enumerated with several slice / shred indices
Rich(sh, d, parent) == IsBoundary(sh, d, parent) \/ d \in SampleDlens \/ d \in AllJDlens
JSet(sh) == {0, TotalShreds - 1} \cup ({DataOut(sh) - 1, DataOut(sh)} \cap (0..(TotalShreds - 1)))
Ends == {<<0, FALSE>>, <<MaxSlices - 1, TRUE>>}            \* <<slice index, is_last>>

Rreq(k, sv, si, j) == [t |-> "rreq", k |-> k, sv |-> sv, si |-> si, j |-> j]
RreqDescs == {Rreq(k, sv, e[1], e[2]) : k \in {"last", "root", "shred"}, sv \in {0, MaxSigners - 1},
                                       e \in {<<0, 0>>, <<MaxSlices - 1, TotalShreds - 1>>}}

Rresp(k, rk, si, j, depth, s) ==
  [t |-> "rresp", k |-> k, rk |-> rk, si |-> si, j |-> j, depth |-> depth, s |-> s]
RrespSmallDescs ==
  {Rresp(k, k, si, 0, d, NoShred) : k \in {"last", "root"}, si \in {0, MaxSlices - 1},
                                    d \in 0..MaxBlockTreeHeight}
  \cup {Rresp("nack", rk, MaxSlices - 1, TotalShreds - 1, 0, NoShred) : rk \in {"last", "root", "shred"}}
RrespMalDescs ==
  {Rresp(k, k, MaxSlices - 1, 0, d, NoShred) : k \in {"last", "root"}, d \in {0, MaxBlockTreeHeight}}
  \cup {Rresp("nack", rk, MaxSlices - 1, TotalShreds - 1, 0, NoShred) : rk \in {"last", "root", "shred"}}
  \cup {Rresp("shred", "shred", MaxSlices - 1, TotalShreds - 1, 0,
              Shred(sh, MaxDlen(sh, FALSE), FALSE, MaxSlices - 1, TRUE, TotalShreds - 1)) : sh \in Shredders}

VoteDescs == {[t |-> "vote", k |-> k, sv |-> sv] :
                 k \in {"notar", "nf", "skip", "sf", "final"}, sv \in {0, MaxSigners - 1}}
TxMalLens == {0, 1, MaxTxSize}

-----------------------------------------------------------------------------
\* which cases are replayed against the implementation
EmitShred(s) ==
  /\ Rich(s.sh, s.dlen, s.parent)
  /\ \/ s.dlen \in SampleDlens \cup AllJDlens
     \/ ShredBytes(s.sh, s.dlen, s.parent) \in EmitShredBytes
Emit(cs) ==
  LET m == cs.m IN
  \/ cs.mal # NoMal
  \/ m.t \in {"vote", "rreq", "tx"}
  \/ m.t = "cert" /\ m.n \in FullNs
  \/ m.t = "shred" /\ EmitShred(m)
  \/ m.t = "rresp" /\ (m.k = "shred" => EmitShred(m.s))

CaseRec(cs) ==
  LET e == Expect(cs.m, cs.mal) IN
  [m |-> cs.m, mal |-> cs.mal.cls,
   field |-> IF cs.mal.fi > 0 THEN Layout(cs.m)[cs.mal.fi].f ELSE "-",
   size |-> e.size, msize |-> e.msize, ops |-> e.ops, verdict |-> e.verdict, strict |-> e.strict,
   resize |-> e.resize, same |-> e.same, eq |-> e.eq,
   kind |-> IF cs.m.t = "shred" THEN (IF cs.m.j < DataOut(cs.m.sh) THEN "data" ELSE "coding") ELSE "-"]
Out(cs) == Emit(cs) => PrintT(<<"CASE", ToJson(CaseRec(cs))>>)

\* (no large sets are built: TLC enumerates the nested quantifiers)
NoMsg == [t |-> "group"]
Group(tag, p) == [g |-> tag, p |-> p, m |-> NoMsg, mal |-> NoMal]
IsCase == c.g = "case"
Case(m, mal) == c' = [g |-> "case", p |-> <<>>, m |-> m, mal |-> mal] /\ Out(c')
BaseCase(m) == Case(m, NoMal)
MutCases(m) == \E mu \in Muts(m) : Case(m, mu)

DlenBlock == 512
NextShred(sh, parent, blk) ==
  \E d \in (blk * DlenBlock)..((blk + 1) * DlenBlock - 1) :
    /\ d <= MaxDlen(sh, parent)
    /\ LET s0 == Shred(sh, d, parent, 0, FALSE, 0) IN
       IF EmitShred(s0)
       THEN \E e \in Ends : \E j \in (IF d \in AllJDlens THEN 0..(TotalShreds - 1) ELSE JSet(sh)) :
              \/ BaseCase(AsMsg(Shred(sh, d, parent, e[1], e[2], j)))
              \/ /\ IsBoundary(sh, d, parent) /\ j \in {0, TotalShreds - 1}
                 /\ BaseCase(Rresp("shred", "shred", e[1], j, 0, Shred(sh, d, parent, e[1], e[2], j)))
       ELSE /\ AllDlens \/ IsBoundary(sh, d, parent)       \* checked, not replayed
            /\ \/ BaseCase(AsMsg(s0))
               \/ BaseCase(Rresp("shred", "shred", 0, 0, 0, s0))
NextShredMal ==
  \E sh \in Shredders : \E d \in {0, MaxDlen(sh, FALSE)} : \E e \in Ends :
    MutCases(AsMsg(Shred(sh, d, FALSE, e[1], e[2], IF e[2] THEN TotalShreds - 1 ELSE 0)))

Init ==
  \/ c \in {Group(t, <<>>) : t \in {"vote", "shredmal", "rreq", "rresp", "rrespmal", "tx"}}
  \/ \E n \in CertNs : c = Group("cert", <<n>>)
  \/ \E n \in MalNs : c = Group("certmal", <<n>>)
  \/ \E sh \in Shredders, parent \in BOOLEAN, blk \in 0..(MaxDataPerSlice \div DlenBlock) :
       c = Group("shred", <<sh, parent, blk>>)

Next ==
  CASE c.g = "vote" -> \E m \in VoteDescs : BaseCase(m) \/ MutCases(m)
    [] c.g = "cert" -> \E m \in CertDescs(c.p[1]) : BaseCase(m)
    [] c.g = "certmal" -> \E m \in CertMalDescs(c.p[1]) : MutCases(m)
    [] c.g = "shred" -> NextShred(c.p[1], c.p[2], c.p[3])
    [] c.g = "shredmal" -> NextShredMal
    [] c.g = "rreq" -> \E m \in RreqDescs : BaseCase(m) \/ MutCases(m)
    [] c.g = "rresp" -> \E m \in RrespSmallDescs : BaseCase(m)
    [] c.g = "rrespmal" -> \E m \in RrespMalDescs : MutCases(m)
    [] c.g = "tx" -> \/ \E l \in 0..MaxTxSize : BaseCase([t |-> "tx", len |-> l])
                     \/ \E l \in TxMalLens : MutCases([t |-> "tx", len |-> l])
    [] OTHER -> FALSE

-----------------------------------------------------------------------------
(* invariants: the property on the specification *)
ME == LET mu == Mutate(Layout(c.m), c.mal) IN [fs |-> mu.fs, tail |-> mu.tail]
NetBytes(ops) ==
  LET d(o) == CASE o.op \in {"append", "insert"} -> o.n
                [] o.op \in {"truncate", "remove"} -> 0 - o.n
                [] OTHER -> 0
      RECURSIVE S(_)
      S(i) == IF i = 0 THEN 0 ELSE d(ops[i]) + S(i - 1)
  IN S(Len(ops))

\* every message a correct node emits is one of the enumerated well-formed descriptors
AllWellFormed == IsCase => WellFormed(c.m)
\* ... and fits one datagram, for every validator count and every slice size
FitsDatagram == IsCase /\ c.mal = NoMal => Size(c.m) <= MTU
\* well-formed encodings decode, and re-encode to themselves
RoundTripInv == IsCase /\ c.mal = NoMal => RoundTrip(c.m)
\* trailing bytes, out-of-range indices / tags, oversized bitmasks are rejected
StrictRejected == IsCase /\ Strict(c.mal) => ~Accepts(ME)
\* whatever is accepted re-encodes to a fixed point of decode->encode with the same value
NormalFormInv == IsCase => NormalForm(ME)
\* the class is applicable and its byte edits change the length as the abstract defect does
MalConsistent ==
  IsCase => /\ c.mal = NoMal \/ c.mal \in Muts(c.m)
            /\ ESize(ME) = Size(c.m) + NetBytes(Mutate(Layout(c.m), c.mal).ops)
\* re-encoding never grows, and an accepted encoding of a well-formed message fits too
ReEncShrinks == IsCase /\ Accepts(ME) => ESize(ReEnc(ME)) <= ESize(ME)

\* vacuity witnesses (must be violated)
W_MaxCert == ~(IsCase /\ c.m.t = "cert" /\ c.m.k = "nf" /\ c.m.n = MaxSigners /\ c.m.a # "none" /\ c.m.b # "none")
W_MaxShred == ~(IsCase /\ c.m.t = "rresp" /\ c.m.k = "shred" /\ Size(c.m) >= 1389)
W_GarbageAccepted == ~(IsCase /\ c.mal.cls = "garbage_live" /\ Accepts(ME))
=============================================================================
