--------------------------- MODULE MC_Blockstore ---------------------------
(***************************************************************************)
(* Model checking + edge dump for Blockstore.tla (property C13).            *)
(*                                                                         *)
(* A behaviour: `setup` picks a scenario (the set of slices the leader of   *)
(* slot BSlot signed: a correct block, a correct block plus ONE conflicting *)
(* signed slice, or a block with ONE malformed slice) and a role; then      *)
(*   follower: Deliver(k, b, via) in any order, with any duplication, of    *)
(*             the b-th group of real shreds of the k-th signed slice,      *)
(*   leader:   OwnSlice for the slices of the block, in order (fast path).  *)
(* The groups `Blocks` are the FIXED embedding of the model's "mini slices" *)
(* into the real 32-of-64 code: group b stands for the real shred indices   *)
(* Blocks[b][1]..Blocks[b][2]; the specification itself counts real shreds, *)
(* so thresholds coincide by construction.                                  *)
(***************************************************************************)
EXTENDS Blockstore, Json, TLCExt

CONSTANTS
  Blocks,     \* sequence of <<lo, hi>>: groups of real shred indices delivered by one model step
  MaxN,       \* block shapes: 1..MaxN slices
  Classes,    \* scenario classes enumerated
  SwitchIn,   \* honest blocks with a parent switch are also used as the base of conflict scenarios?
  RepairOn,   \* honest scenarios: the node also repairs the leader's block (add_shred_from_repair under its hash)
  Vias        \* how a shred reaches the store: "node" (validated against the cached commitment,
              \* as consensus.rs does) and/or "direct" (fully verified, handed to the store)

ASSUME MaxIdx >= MaxN
ASSUME \A b \in DOMAIN Blocks : Blocks[b][1] <= Blocks[b][2] /\ Blocks[b][1] >= 0 /\ Blocks[b][2] < TOTAL

---------------------------------------------------------------------------
(* scenarios *)
NTX(i) == CASE i = 0 -> 2 [] i = 1 -> 0 [] i = 2 -> 61 [] OTHER -> 1

\* a correct leader's block of n slices; sw = index of the slice that switches the parent (0 = none)
Honest(n, sw) == [k \in 1..n |-> Sl(k - 1, k = n,
                                    IF k = 1 THEN "A" ELSE IF k - 1 = sw THEN "B" ELSE NoPar,
                                    "tx", NTX(k - 1))]
Shapes == {x \in (1..MaxN) \X (0..(MaxN - 1)) : x[2] < x[1]}
BaseShapes == {x \in Shapes : x[2] = 0 \/ SwitchIn}

\* cls: class; sl: the signed slices; n: the first n of them are "the block";
\* honest: everything signed is one correct block
Sc(cls, sl, n, honest) == [cls |-> cls, sl |-> sl, n |-> n, honest |-> honest]

ScHonest == {Sc(IF x[2] = 0 THEN "honest" ELSE "honest_switch", Honest(x[1], x[2]), x[1], TRUE) : x \in Shapes}

\* one additional signed slice next to a correct block
ScConflictContent ==     \* same index and flag, other content
  {Sc("conflict_content", Append(Honest(x[1], x[2]), [Honest(x[1], x[2])[k] EXCEPT !.ntx = @ + 1]), x[1], FALSE)
     : <<x, k>> \in {y \in BaseShapes \X (1..MaxN) : y[2] <= y[1][1]}}
ScConflictFlag ==        \* same index and content, contradictory last-slice flag
  {Sc("conflict_last_flag", Append(Honest(x[1], x[2]), [Honest(x[1], x[2])[k] EXCEPT !.last = ~@]), x[1], FALSE)
     : <<x, k>> \in {y \in BaseShapes \X (1..MaxN) : y[2] <= y[1][1]}}
ScBeyond ==              \* a slice after the one marked last (itself marked last or not)
  {Sc(IF l THEN "second_last_marker" ELSE "beyond_last", Append(Honest(x[1], x[2]), Sl(x[1], l, NoPar, "tx", 1)), x[1], FALSE)
     : <<x, l>> \in BaseShapes \X BOOLEAN}

\* one malformed slice inside an otherwise correct block
Plain == {x \in Shapes : x[2] = 0}
ScGarbage == {Sc("garbage", [Honest(x[1], 0) EXCEPT ![k].body = "garbage"], x[1], FALSE)
                : <<x, k>> \in {y \in Plain \X (1..MaxN) : y[2] <= y[1][1]}}
ScUndec == {Sc("undecodable_txs", [Honest(x[1], 0) EXCEPT ![k].body = "undec"], x[1], FALSE)
                : <<x, k>> \in {y \in Plain \X (1..MaxN) : y[2] <= y[1][1]}}
ScNoParent == {Sc("no_parent", [Honest(x[1], 0) EXCEPT ![1].par = NoPar], x[1], FALSE) : x \in Plain}
ScSelfSwitch == {Sc("switch_to_self", [Honest(x[1], 0) EXCEPT ![k].par = "A"], x[1], FALSE)
                : <<x, k>> \in {y \in Plain \X (2..MaxN) : y[2] <= y[1][1]}}
ScDoubleSwitch == {Sc("switch_twice", [Honest(x[1], 0) EXCEPT ![2].par = "B", ![3].par = p], x[1], FALSE)
                : <<x, p>> \in {y \in Plain \X {"A", "C"} : y[1][1] >= 3}}
ScParentLate == {Sc("parent_not_earlier", [Honest(x[1], 0) EXCEPT ![1].par = p], x[1], FALSE)
                : <<x, p>> \in Plain \X {"L", "S"}}
ScSwitchLate == {Sc("parent_not_earlier", [Honest(x[1], 0) EXCEPT ![k].par = "L"], x[1], FALSE)
                : <<x, k>> \in {y \in Plain \X (2..MaxN) : y[2] <= y[1][1]}}

AllScenarios == ScHonest \cup ScConflictContent \cup ScConflictFlag \cup ScBeyond \cup ScGarbage \cup ScUndec
                \cup ScNoParent \cup ScSelfSwitch \cup ScDoubleSwitch \cup ScParentLate \cup ScSwitchLate
ScenarioSet == {x \in AllScenarios : x.cls \in Classes}

---------------------------------------------------------------------------
VARIABLES sc, role, bs, rp, hist, act, out, sid
\* bs: dissemination spot (+ the slot's misbehaviour flag); rp: repair spot filed under the leader's block hash

vars == <<sc, role, bs, rp, hist, act, out, sid>>
View == <<sc, role, bs, rp, hist>>

Unset == Sc("unset", <<>>, 0, FALSE)
\* ghost: events announced so far (saturating), a Block announced after InvalidBlock, slices seen
\* nFirstR / nBlockR: announcements on behalf of the repair spot
EmptyHist == [nFirst |-> 0, nBlock |-> 0, nInvalid |-> 0, lateBlock |-> FALSE, seen |-> {}, nFirstR |-> 0, nBlockR |-> 0]

Id(x, r, b, p, h) == <<TLCFP(<<x, r, b, p, h>>), TLCFP(<<h, p, b, r, x, 7>>)>>

\* JSON views -------------------------------------------------------------
\* a commitment / root is printed as the number of the scenario's slice that carries it (0: none)
SliceNo(x, c) == IF \E k \in DOMAIN x.sl : Commit(x.sl[k]) = c
                 THEN CHOOSE k \in DOMAIN x.sl : Commit(x.sl[k]) = c ELSE 0
\* the hash of a block is printed as the (smallest) slice numbers whose roots it commits to, in order
RootNo(x, i, r) == LET S == {k \in DOMAIN x.sl : x.sl[k].idx = i /\ Root(x.sl[k]) = r}
                   IN IF S = {} THEN 0 ELSE CHOOSE k \in S : \A j \in S : k <= j
BlkJson(x, b) == [ok |-> b.ok, hash |-> [k \in DOMAIN b.hash |-> RootNo(x, k - 1, b.hash[k])],
                  par |-> b.par, ntx |-> b.ntx]
Min2(a, b) == IF a <= b THEN a ELSE b
Count(evs, e) == Cardinality({i \in DOMAIN evs : evs[i] = e})
FirstPos(evs, e) == IF \E i \in DOMAIN evs : evs[i] = e THEN CHOOSE i \in DOMAIN evs : evs[i] = e /\ \A j \in 1..(i - 1) : evs[j] # e ELSE 0

NextHist(h, evs, k) ==
  [nFirst |-> Min2(2, h.nFirst + Count(evs, "FirstShred")),
   nBlock |-> Min2(2, h.nBlock + Count(evs, "Block")),
   nInvalid |-> Min2(2, h.nInvalid + Count(evs, "InvalidBlock")),
   lateBlock |-> h.lateBlock \/ (Count(evs, "Block") > 0 /\
                    (h.nInvalid > 0 \/ (Count(evs, "InvalidBlock") > 0 /\ FirstPos(evs, "InvalidBlock") < FirstPos(evs, "Block")))),
   seen |-> h.seen \cup k, nFirstR |-> h.nFirstR, nBlockR |-> h.nBlockR]
NextHistR(h, evs) ==
  [h EXCEPT !.nFirstR = Min2(2, @ + Count(evs, "FirstShred")),
            !.nBlockR = Min2(2, @ + Count(evs, "Block")),
            !.nInvalid = Min2(2, @ + Count(evs, "InvalidBlock"))]

\* the block a correct leader signed (honest scenarios)
LeaderBlock == [ok |-> TRUE,
                hash |-> [k \in 1..sc.n |-> Root(sc.sl[k])],
                par |-> IF \E k \in 2..sc.n : sc.sl[k].par # NoPar
                        THEN sc.sl[CHOOSE k \in 2..sc.n : sc.sl[k].par # NoPar].par ELSE sc.sl[1].par,
                ntx |-> SumTx([i \in 0..(sc.n - 1) |-> Root(sc.sl[i + 1])], sc.n - 1)]

\* projection compared with the real store after every step
HeldView(s, i) == [n |-> Cardinality(s.held[i]),
                   groups |-> {b \in DOMAIN Blocks : (Blocks[b][1]..Blocks[b][2]) \subseteq s.held[i]}]
Obs == [bad |-> bs.bad,
        done |-> BlkJson(sc, bs.done),
        \* after completion (of EITHER spot, for a correct leader's block): every shred, slice root and proof
        \* of slices 0..last, the block and the last slice index are served for (slot, hash)
        serve |-> IF sc.honest THEN (bs.done.ok \/ rp.done.ok) ELSE bs.done.ok,
        \* what the getters show for the id (slot, hash of the leader's block) -- honest scenarios
        get |-> IF sc.honest
                THEN LET d == Resolve(bs, rp, LeaderBlock.hash) IN
                     [last |-> GetLast(d), blk |-> GetBlock(d).ok,
                      held |-> [k \in 1..(MaxIdx + 1) |-> HeldView(d, k - 1)]]
                ELSE [last |-> -1, blk |-> FALSE, held |-> <<>>],
        last |-> IF bs.bad THEN -2 ELSE bs.last,
        cache |-> IF bs.bad THEN <<>> ELSE [k \in 1..(MaxIdx + 1) |-> SliceNo(sc, bs.cache[k - 1])],
        held |-> IF bs.bad THEN <<>> ELSE [k \in 1..(MaxIdx + 1) |-> HeldView(bs, k - 1)],
        rec |-> IF bs.bad \/ bs.done.ok THEN {} ELSE bs.rec]

OutOf(x, o) == [rets |-> o.rets, evs |-> o.evs, blk |-> BlkJson(x, o.blk), why |-> o.why,
                \* a reconstructed block is handed to Pool::add_block, which must accept it
                pool |-> IF o.blk.ok THEN "ok" ELSE "-"]

Init ==
  /\ sc = Unset /\ role = "none" /\ bs = EmptyStore /\ rp = EmptyStore /\ hist = EmptyHist
  /\ act = [op |-> "init"] /\ out = [rets |-> <<>>]
  /\ sid = Id(sc, role, bs, rp, hist)

Setup ==
  /\ role = "none"
  /\ \E x \in ScenarioSet, ro \in {"follower", "leader"} :
       /\ (ro = "leader" => x.honest)
       /\ sc' = x /\ role' = ro /\ UNCHANGED <<bs, rp, hist>>
       /\ act' = [op |-> "setup", sc |-> x, role |-> ro, blocks |-> Blocks, slot |-> BSlot,
                    parslot |-> ParSlot, maxidx |-> MaxIdx, repair |-> RepairOn]
       /\ out' = [rets |-> <<>>, evs |-> <<>>, blk |-> BlkJson(x, NoB), why |-> "", pool |-> "-"]
       /\ sid' = Id(x, ro, bs, rp, hist)

DeliverStep ==
  /\ role = "follower"
  /\ \E k \in DOMAIN sc.sl, b \in DOMAIN Blocks, via \in Vias :
       LET o == Deliver(bs, sc.sl[k], Blocks[b][1], Blocks[b][2], via)
           h == NextHist(hist, o.evs, IF bs.bad THEN {} ELSE {k})
       IN /\ bs' = o.s /\ hist' = h /\ UNCHANGED <<sc, role, rp>>
          /\ act' = [op |-> "deliver", k |-> k, b |-> b, via |-> via]
          /\ out' = OutOf(sc, o)
          /\ sid' = Id(sc, role, o.s, rp, h)

\* repair of the leader's block: group b of its slice k is handed to add_shred_from_repair under the block's hash,
\* in any interleaving with dissemination, before and after either spot completed
RepairStep ==
  /\ RepairOn /\ role = "follower" /\ sc.honest
  /\ \E k \in 1..sc.n, b \in DOMAIN Blocks :
       LET o == Repair(bs, rp, sc.sl[k], Blocks[b][1], Blocks[b][2])
           h == NextHistR(hist, o.evs)
       IN /\ bs' = o.s /\ rp' = o.p /\ hist' = h /\ UNCHANGED <<sc, role>>
          /\ act' = [op |-> "repair", k |-> k, b |-> b]
          /\ out' = OutOf(sc, o)
          /\ sid' = Id(sc, role, o.s, o.p, h)

OwnNext == Cardinality({i \in SliceIdx : bs.cache[i] # NoC}) + 1
OwnStep ==
  /\ role = "leader" /\ OwnNext <= sc.n
  /\ OwnEnabled(bs, sc.sl[OwnNext])
  /\ LET o == Own(bs, sc.sl[OwnNext])
         h == NextHist(hist, o.evs, {OwnNext})
     IN /\ bs' = o.s /\ hist' = h /\ UNCHANGED <<sc, role, rp>>
        /\ act' = [op |-> "own", k |-> OwnNext]
        /\ out' = OutOf(sc, o)
        /\ sid' = Id(sc, role, o.s, rp, h)

Next == Setup \/ DeliverStep \/ OwnStep \/ RepairStep

EmitEdge == PrintT(<<"EDGE", ToJson([f |-> sid, a |-> act', e |-> out', t |-> sid'])>>)
EmitState == PrintT(<<"STATE", ToJson([id |-> sid, init |-> (TLCGet("level") = 1), obs |-> Obs])>>)

---------------------------------------------------------------------------
(* C13 *)
Enough(i) == Cardinality(bs.held[i]) >= DATA
Complete == /\ bs.last # -1
            /\ \A i \in 0..bs.last : bs.cache[i] # NoC /\ Enough(i) /\ ~SliceMalformed(i, CRoot(bs.cache[i]))
\* a Block is announced iff >= 32 shreds of every slice 0..last are held and the content is well formed
BlockIffComplete ==
  /\ bs.done.ok => (Complete /\ BlockWellFormed(Payloads(bs)))
  /\ (Complete /\ BlockWellFormed(Payloads(bs)) /\ ~bs.bad) => bs.done.ok
\* a correct leader's block is rebuilt exactly: hash over its slice roots, its parent (after the one
\* optimistic-handover switch, if any), its transactions; and the store never flags a correct leader
BlockIsLeaders == sc.honest => (~bs.bad /\ (bs.done.ok => bs.done = LeaderBlock))
HonestCompletes == (sc.honest /\ role = "follower" /\ \A k \in 1..sc.n : Enough(k - 1)) => bs.done.ok
FirstShredOnce == /\ hist.nFirst <= 1
                  /\ ((\E i \in SliceIdx : bs.held[i] # {}) => hist.nFirst = 1)
                  /\ (hist.nBlock > 0 => hist.nFirst = 1)
BlockOnce == hist.nBlock <= 1 /\ (hist.nBlock = 1 <=> bs.done.ok)
InvalidOnce == hist.nInvalid <= 1 /\ (hist.nInvalid = 1 <=> bs.bad)
NoBlockAfterInvalid == ~hist.lateBlock

\* two signed slices that cannot both come from a correct leader
Contradict(u, v) == \/ (u.idx = v.idx /\ Commit(u) # Commit(v))
                    \/ (u.last /\ v.idx > u.idx)
                    \/ (v.last /\ u.idx > v.idx)
MalformedFlagged_Equivocation ==      \* conflicting slices; contradictory last markers, in EITHER arrival order
  \A j, k \in hist.seen : Contradict(sc.sl[j], sc.sl[k]) => bs.bad
MalformedFlagged_Slice ==             \* undecodable payload, first slice without parent: once 32 shreds are held
  \A i \in SliceIdx : (bs.cache[i] # NoC /\ Enough(i) /\ SliceMalformed(i, CRoot(bs.cache[i]))) => bs.bad
MalformedFlagged_Block ==             \* undecodable transactions, parent switched twice / to itself, parent not earlier
  (Complete /\ ~BlockWellFormed(Payloads(bs))) => bs.bad
\* the same, stated on the scenario (what the leader signed) instead of the store's own bookkeeping
BlockMalformedClasses == {"undecodable_txs", "switch_to_self", "switch_twice", "parent_not_earlier"}
SliceMalformedClasses == {"garbage", "no_parent"}
MalformedNeverAnnounced == (sc.cls \in BlockMalformedClasses \cup SliceMalformedClasses) => ~bs.done.ok
MalformedFlagged_Scenario ==
  /\ (sc.cls \in BlockMalformedClasses /\ \A k \in 1..sc.n : Enough(k - 1)) => bs.bad
  /\ \A k \in 1..sc.n : ((sc.sl[k].body = "garbage" \/ (k = 1 /\ sc.sl[k].par = NoPar)) /\ Enough(k - 1)) => bs.bad
\* whatever is announced: decodable transactions, a parent in an earlier slot, at most one parent switch
AnnouncedIsSane == bs.done.ok =>
  /\ ParSlot[bs.done.par] < BSlot
  /\ \A i \in 0..bs.last : RBody(CRoot(bs.cache[i])) = "tx"
  /\ RPar(CRoot(bs.cache[0])) # NoPar
  /\ Cardinality({i \in 1..bs.last : RPar(CRoot(bs.cache[i])) # NoPar}) <= 1
  /\ \A i \in 1..bs.last : RPar(CRoot(bs.cache[i])) # RPar(CRoot(bs.cache[0]))
\* a flagged slot refuses everything from dissemination
RefusesAfterInvalid ==
  (act.op = "deliver" /\ hist.nInvalid = 1 /\ Count(out.evs, "InvalidBlock") = 0)
     => (out.evs = <<>> /\ \A i \in DOMAIN out.rets : out.rets[i] = "invalid")

\* after completion every shred, slice root and proof of the block is available: asked by block id, the store
\* answers from the dissemination spot if that completed the block, else from the repair spot; once EITHER spot
\* completed the block everything is served, whatever the other spot holds
ServesAll ==
  /\ bs.done.ok => ServesBlock(Resolve(bs, rp, bs.done.hash))
  /\ (sc.honest /\ (bs.done.ok \/ rp.done.ok)) =>
        LET d == Resolve(bs, rp, LeaderBlock.hash) IN ServesBlock(d) /\ GetBlock(d) = LeaderBlock /\ GetLast(d) = sc.n - 1
\* the repair spot: its own first shred and its own completion are announced exactly once each (the code
\* announces FirstShred and Block per spot: a block completed by dissemination AND by repair is announced twice)
RepairSpotOnce ==
  /\ hist.nFirstR <= 1 /\ hist.nBlockR <= 1
  /\ (hist.nBlockR = 1 <=> rp.done.ok)
  /\ ((\E i \in SliceIdx : rp.held[i] # {}) <=> hist.nFirstR = 1)
  /\ (rp.done.ok => rp.done = LeaderBlock)
  /\ ~rp.bad
RepairCompletes == (sc.honest /\ \A k \in 1..sc.n : Cardinality(rp.held[k - 1]) >= DATA) => rp.done.ok

\* the leader's own fast path stores the same block a follower reconstructs
RECURSIVE FastStore(_, _, _)
FastStore(x, k, s) == IF k > x.n THEN s ELSE FastStore(x, k + 1, Own(s, x.sl[k]).s)
ServedView(s) == [done |-> s.done, last |-> s.last,
                  slices |-> [i \in 0..s.last |-> <<s.cache[i], s.held[i]>>]]
FastPathEqualsFollower ==
  (sc.honest /\ role = "follower" /\ bs.done.ok) => ServedView(bs) = ServedView(FastStore(sc, 1, EmptyStore))
FastPathCompletes == (role = "leader" /\ OwnNext > sc.n) => (bs.done.ok /\ bs.done = LeaderBlock /\ ~bs.bad)

\* structural
Structure ==
  /\ (bs.last # -1 /\ ~bs.bad) => (bs.rec \subseteq 0..bs.last /\ CLast(bs.cache[bs.last])
                                    /\ \A j \in SliceIdx : j > bs.last => bs.cache[j] = NoC)
  /\ \A i \in SliceIdx : bs.held[i] # {} => bs.cache[i] # NoC

\* witnesses (must be violated: the interesting states are reachable)
W_HonestDone == ~(sc.honest /\ role = "follower" /\ bs.done.ok /\ sc.n = MaxN)
W_DoneThenBad == ~(bs.done.ok /\ bs.bad)
W_RepairThenDissem == ~(rp.done.ok /\ bs.done.ok)
W_DissemDoneRepairPartial == ~(bs.done.ok /\ ~rp.done.ok /\ \E i \in SliceIdx : rp.held[i] # {})
W_BadClass(c) == ~(sc.cls = c /\ bs.bad)
=============================================================================
