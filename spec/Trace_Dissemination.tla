-------------------------- MODULE Trace_Dissemination --------------------------
(***************************************************************************)
(* Validates a trace recorded from the real Rotor / Turbine / trivial      *)
(* disseminators (harness/src/dissem_driver.rs) against Dissemination.tla. *)
(*                                                                         *)
(* The global routing function gf (relay per shred / tree per shred) is    *)
(* NOT logged: each entry is inferred from the first recorded call that    *)
(* uses it (the leader's or a probe's `send` fixes the relay / the root,   *)
(* the first `forward` of a validator fixes its children).  Every later    *)
(* call of ANY instance of ANY validator - independently constructed       *)
(* copies, constructed earlier or later, cold or warm caches - must route  *)
(* exactly as the spec's rules (SendDests / ForwardDests) prescribe under  *)
(* that one function.  Calls of mode "net" drive the spec's run state      *)
(* through the spec's own actions LeaderSend / Deliver; at the end of each *)
(* run the delivery predicate of the spec must hold; at the end of each    *)
(* configuration every completely observed Turbine tree must be one of the *)
(* model's trees (IsTurbineTree).                                          *)
(*                                                                         *)
(* The next-state relation is deterministic (one successor per state).  A  *)
(* non-conforming event does not block: it is printed as a DIVERGE line    *)
(* and the rest of that configuration is skipped, so one trace yields the  *)
(* verdicts of all its configurations.                                     *)
(***************************************************************************)
EXTENDS Dissemination, Json, IOUtils, TLC, TLCExt

Events == ndJsonDeserialize(IOEnv.TRACE)

VARIABLES
  i,      \* index of the next event
  cfg,    \* current configuration event
  gf,     \* inferred global function: sh -> entry
  st,     \* run state (Dissemination!EmptyRun ...)
  skip,   \* TRUE: a divergence was reported for this configuration
  cnt     \* counters

vars == <<i, cfg, gf, st, skip, cnt>>
\* one state per event index: used as VIEW (fingerprint of i only)
ViewI == i

NoCfg == [op |-> "cfg", id |-> -1, kind |-> "none", n |-> 1, f |-> 1, stakes |-> <<1>>]
Zero == [cfgs |-> 0, runs |-> 0, net |-> 0, probes |-> 0, trees |-> 0, skipped |-> 0, divs |-> 0,
         inferred |-> 0, delivered |-> 0]

Init ==
  /\ i = 1
  /\ cfg = NoCfg
  /\ gf = <<>>
  /\ st = EmptyRun
  /\ skip = FALSE
  /\ cnt = Zero

Proto(k) == IF k = "rotor_fa1" THEN "rotor" ELSE k
SeqSet(s) == {s[q] : q \in 1..Len(s)}
Bump(c, fld) == [c EXCEPT ![fld] = @ + 1]

RECURSIVE SumSeq(_, _)
SumSeq(s, q) == IF q = 0 THEN 0 ELSE s[q] + SumSeq(s, q - 1)
\* FA1: the first Required(stakes) positions of every committee are assigned deterministically
\* (floor(stake * 64 / total) seats per validator); the rest comes from the fallback sampler
Required(stakes) ==
  LET total == SumSeq(stakes, Len(stakes))
      RECURSIVE R(_)
      R(q) == IF q = 0 THEN 0 ELSE ((stakes[q] * 64) \div total) + R(q - 1)
  IN R(Len(stakes))

\* class of a divergence, for the report
Class(c, ev) ==
  IF c.kind = "rotor_fa1" /\ "shred" \in DOMAIN ev
  THEN (IF ev.shred >= Required(c.stakes) THEN "fallback-index" ELSE "required-index")
  ELSE "-"

---------------------------------------------------------------------------
(* Inference of the unlogged global function.                             *)
\* Result: [ok, e] - e is the entry to route with after taking this call into account.
\* ok = FALSE: the call has a shape from which nothing can be inferred though it should.
InferSend(proto, sh, D) ==
  CASE proto = "rotor" ->
         IF sh \in DOMAIN gf THEN [ok |-> TRUE, e |-> gf[sh], new |-> FALSE]
         ELSE IF Cardinality(D) = 1 THEN [ok |-> TRUE, e |-> CHOOSE w \in D : TRUE, new |-> TRUE]
         ELSE [ok |-> FALSE, e |-> -1, new |-> FALSE]
    [] proto = "turbine" ->
         LET known == IF sh \in DOMAIN gf THEN gf[sh] ELSE [root |-> -1, kids |-> <<>>]
         IN IF known.root # -1 THEN [ok |-> TRUE, e |-> known, new |-> FALSE]
            ELSE IF Cardinality(D) = 1
                 THEN [ok |-> TRUE, e |-> [known EXCEPT !.root = CHOOSE w \in D : TRUE], new |-> TRUE]
            ELSE [ok |-> FALSE, e |-> known, new |-> FALSE]
    [] OTHER -> [ok |-> TRUE, e |-> 0, new |-> FALSE]

InferForward(proto, sh, v, D) ==
  CASE proto = "rotor" ->
         IF sh \in DOMAIN gf THEN [ok |-> TRUE, e |-> gf[sh], new |-> FALSE]
         ELSE IF D # {} THEN [ok |-> TRUE, e |-> v, new |-> TRUE]
         ELSE [ok |-> TRUE, e |-> -1, new |-> FALSE]     \* "not the relay": consistent with any other relay
    [] proto = "turbine" ->
         LET known == IF sh \in DOMAIN gf THEN gf[sh] ELSE [root |-> -1, kids |-> <<>>]
         IN IF v \in DOMAIN known.kids THEN [ok |-> TRUE, e |-> known, new |-> FALSE]
            ELSE [ok |-> TRUE,
                  e |-> [known EXCEPT !.kids = [x \in DOMAIN known.kids \cup {v} |->
                                                   IF x = v THEN D ELSE known.kids[x]]],
                  new |-> TRUE]
    [] OTHER -> [ok |-> TRUE, e |-> 0, new |-> FALSE]

\* routing of the call under entry e, by the rules of the specification
Expected(proto, n, L, ev, e) ==
  IF ev.call = "send" THEN SendDests(proto, n, e)
  ELSE IF proto = "rotor" /\ e = -1 THEN {}
  ELSE ForwardDests(proto, n, L, ev.node, e)

---------------------------------------------------------------------------
(* One event -> [s: new values of the variables, div: <<>> or a report]   *)
Cur == [cfg |-> cfg, gf |-> gf, st |-> st, skip |-> skip, cnt |-> cnt]
Ok(s) == [s |-> s, div |-> <<>>]
Div(s, reason, ev, detail) ==
  [s |-> [s EXCEPT !.skip = TRUE, !.cnt = Bump(@, "divs")],
   div |-> <<[idx |-> i, cfg |-> s.cfg.id, kind |-> s.cfg.kind, n |-> s.cfg.n, f |-> s.cfg.f,
              reason |-> reason, class |-> Class(s.cfg, ev), ev |-> ev, detail |-> detail]>>]

OnCfg(s, ev) ==
  Ok([cfg |-> ev, gf |-> <<>>, st |-> EmptyRun, skip |-> FALSE, cnt |-> Bump(s.cnt, "cfgs")])

OnBegin(s, ev) == Ok([s EXCEPT !.st = EmptyRun, !.cnt = Bump(@, "runs")])

OnCall(s, ev) ==
  LET proto == Proto(s.cfg.kind)
      n == s.cfg.n
      sh == <<ev.slot, ev.slice, ev.shred>>
      L == LeaderOf(ev.slot, n)
      D == SeqSet(ev.dests)
      v == ev.node
      inf == IF ev.call = "send" THEN InferSend(proto, sh, D) ELSE InferForward(proto, sh, v, D)
      exp == Expected(proto, n, L, ev, inf.e)
      gf2 == IF inf.new THEN [x \in DOMAIN s.gf \cup {sh} |-> IF x = sh THEN inf.e ELSE s.gf[x]] ELSE s.gf
      c1 == IF inf.new THEN Bump(s.cnt, "inferred") ELSE s.cnt
  IN
  IF v \notin Vals(n) THEN Div(s, "driver:node", ev, <<>>)
  ELSE IF "foreign" \in DOMAIN ev THEN Div(s, "other-shred-sent", ev, <<>>)
  ELSE IF ~(D \subseteq Vals(n)) THEN Div(s, "destination-not-a-validator", ev, <<>>)
  ELSE IF Len(ev.dests) # Cardinality(D) THEN Div(s, "duplicate-destination", ev, <<>>)
  ELSE IF ~inf.ok THEN Div(s, "agreement", ev, [expected |-> "exactly one destination"])
  ELSE IF D # exp THEN Div(s, "agreement", ev, [expected |-> exp, leader |-> L])
  ELSE IF ev.mode = "probe" THEN Ok([s EXCEPT !.gf = gf2, !.cnt = Bump(c1, "probes")])
  ELSE IF ev.call = "send" THEN
    IF v # L THEN Div(s, "driver:sender-is-not-leader", ev, [leader |-> L])
    ELSE IF sh \in Led(s.st) THEN Div(s, "driver:sent-twice", ev, <<>>)
    ELSE Ok([s EXCEPT !.gf = gf2, !.cnt = Bump(c1, "net"),
                      !.st = LeaderSend(s.st, n, L, sh, exp)])
  ELSE
    IF ~HasMsg(s.st, sh, ev.from, v) THEN Div(s, "driver:no-such-copy-in-flight", ev, <<>>)
    \* NeverTwice: no validator is ever handed a second copy of a shred in a fault-free run
    ELSE IF s.st[sh].rcv[v] >= 1 THEN Div(s, "delivery:second-copy", ev, [rcv |-> s.st[sh].rcv])
    ELSE Ok([s EXCEPT !.gf = gf2, !.cnt = Bump(c1, "net"),
                      !.st = Deliver(s.st, sh, ev.from, v, exp, IsRelayBroadcast(proto, v, inf.e))])

\* end of a run: nothing in flight, and the delivery property of the specification
OnEnd(s, ev) ==
  LET proto == Proto(s.cfg.kind)
      n == s.cfg.n
      bad == {sh \in Led(s.st) : ~Delivered(proto, s.st[sh], n, LeaderOf(sh[1], n))}
  IN IF ~Quiet(s.st) THEN Div(s, "driver:not-quiescent", ev, <<>>)
     ELSE IF Led(s.st) = {} THEN Div(s, "driver:empty-run", ev, <<>>)
     ELSE IF bad # {} THEN
       LET sh == CHOOSE x \in bad : TRUE
       IN Div(s, "delivery", ev, [sh |-> sh, leader |-> LeaderOf(sh[1], n), state |-> s.st[sh]])
     ELSE Ok([s EXCEPT !.st = EmptyRun,
                       !.cnt = [@ EXCEPT !.delivered = @ + Cardinality(Led(s.st))]])

\* end of a configuration: completely observed Turbine trees must be trees of the model
OnEndCfg(s, ev) ==
  IF Proto(s.cfg.kind) # "turbine" THEN Ok(s)
  ELSE
    LET n == s.cfg.n
        full == {sh \in DOMAIN s.gf : s.gf[sh].root # -1 /\ DOMAIN s.gf[sh].kids = Vals(n)}
        bad == {sh \in full : ~IsTurbineTree(s.gf[sh], n, s.cfg.f)}
    IN IF bad # {} THEN
         LET sh == CHOOSE x \in bad : TRUE
         IN Div(s, "tree-shape", ev, [sh |-> sh, tree |-> s.gf[sh]])
       ELSE Ok([s EXCEPT !.cnt = [@ EXCEPT !.trees = @ + Cardinality(full)]])

Apply(s, ev) ==
  CASE ev.op = "cfg" -> OnCfg(s, ev)
    [] ev.op # "cfg" /\ s.skip -> Ok([s EXCEPT !.cnt = Bump(@, "skipped")])
    [] ev.op = "begin" /\ ~s.skip -> OnBegin(s, ev)
    [] ev.op = "call" /\ ~s.skip -> OnCall(s, ev)
    [] ev.op = "end" /\ ~s.skip -> OnEnd(s, ev)
    [] ev.op = "endcfg" /\ ~s.skip -> OnEndCfg(s, ev)
    \* the history of an instance (e.g. "switched with with_sampler after routing under an outdated
    \* sampler"): no routing information - such an instance is just another instance that must agree
    [] ev.op = "note" /\ ~s.skip -> Ok(s)
    \* a panic or an aborted run: the specification has no such step
    [] OTHER -> Div(s, ev.op, ev, <<>>)

Next ==
  /\ i <= Len(Events)
  /\ LET r == Apply(Cur, Events[i])
     IN /\ i' = i + 1
        /\ cfg' = r.s.cfg
        /\ gf' = r.s.gf
        /\ st' = r.s.st
        /\ skip' = r.s.skip
        /\ cnt' = r.s.cnt
        /\ (r.div # <<>> => PrintT(<<"DIVERGE", ToJson(r.div[1])>>))
        /\ (i = Len(Events) => PrintT(<<"DONE", ToJson([events |-> Len(Events), cnt |-> r.s.cnt])>>))

=============================================================================
