---------------------------- MODULE AlpenglowAbs ----------------------------
(***************************************************************************)
(* The abstract Alpenglow voting protocol as implemented by Votor + Pool.  *)
(*                                                                         *)
(* State: the set `sent` of all votes ever broadcast (by anybody) and the  *)
(* set `blocks` of proposed blocks.  A correct node is reduced to its own  *)
(* votes; the pool's threshold conditions are evaluated directly on `sent`: *)
(* under asynchrony every subset of `sent` is a possible delivered set and  *)
(* every threshold condition is monotone in the delivered set, so "enabled  *)
(* for some delivered subset" = "enabled for sent".  Byzantine validators'  *)
(* votes are arbitrary; a pool counts one validator at most once per class  *)
(* (C04), which is why every stake figure below is the stake of a SET of    *)
(* validators.                                                              *)
(*                                                                         *)
(* The same guards are used (a) by TLC for exhaustive safety checking and  *)
(* (b) by the trace specification that validates executions of real nodes: *)
(* every vote a real node broadcasts must be an action of this module.     *)
(***************************************************************************)
EXTENDS Naturals, Sequences, FiniteSets, TLC

CONSTANTS N, StakeVec, Byz, W, MaxSlot

VARIABLES sent, blocks

Validators == 0..(N - 1)
Correct == Validators \ Byz
Stake(v) == StakeVec[v + 1]
RECURSIVE SumStake(_)
SumStake(S) == IF S = {} THEN 0
               ELSE LET v == CHOOSE x \in S : TRUE IN Stake(v) + SumStake(S \ {v})
Total == SumStake(Validators)
Met(num, den, s) == s * den >= Total * num
Weakest(s) == Met(1, 5, s)
Weak(s)    == Met(2, 5, s)
Quorum(s)  == Met(3, 5, s)
Strong(s)  == Met(4, 5, s)

NoH == "-"
GenesisB == [s |-> 0, h |-> "G"]
IsWindowStart(s) == s % W = 0
WindowOf(s) == {t \in 0..MaxSlot : t \div W = s \div W}

Vote(k, s, h, v) == [k |-> k, s |-> s, h |-> h, v |-> v]
Id(b) == [s |-> b.s, h |-> b.h]            \* block identifier (slot, hash)
ParentId(b) == b.par                       \* blocks carry their parent's identifier

\* who voted what
V(k, s, h) == {v \in Validators : Vote(k, s, h, v) \in sent}
NotarV(s, h) == V("notar", s, h)
NfV(s, h) == V("nf", s, h)
SkipV(s) == V("skip", s, NoH)
SfV(s) == V("sf", s, NoH)
FinalV(s) == V("final", s, NoH)
AnyNotarV(s) == {v \in Validators : \E x \in sent : x.k = "notar" /\ x.s = s /\ x.v = v}
HashesIn(s) == {x.h : x \in {y \in sent : y.s = s /\ y.k \in {"notar", "nf"}}}

\* certificates constructible from sent
NotarCert(s, h) == Quorum(SumStake(NotarV(s, h)))
NfCert(s, h) == Quorum(SumStake(NotarV(s, h) \cup NfV(s, h)))
SkipCert(s) == Quorum(SumStake(SkipV(s) \cup SfV(s)))
FFCert(s, h) == Strong(SumStake(NotarV(s, h)))
FinalCert(s) == Quorum(SumStake(FinalV(s)))

\* finalization
Finalized(s, h) == FFCert(s, h) \/ (FinalCert(s) /\ NotarCert(s, h))
AllHashes == UNION {HashesIn(t) : t \in 1..MaxSlot}
FinalizedIds == {i \in [s : 1..MaxSlot, h : AllHashes] : Finalized(i.s, i.h)}

BlockOf(i) == IF \E b \in blocks : Id(b) = i THEN {CHOOSE b \in blocks : Id(b) = i} ELSE {}
RECURSIVE AncestorsOf(_, _)
AncestorsOf(i, fuel) ==       \* identifiers of proper ancestors reachable through known parent links
  IF fuel = 0 \/ i = GenesisB \/ BlockOf(i) = {} THEN {}
  ELSE LET p == ParentId(CHOOSE b \in BlockOf(i) : TRUE) IN {p} \cup AncestorsOf(p, fuel - 1)
Ancestors(i) == AncestorsOf(i, MaxSlot + 1)

\* decided through a finalized descendant
ImplFinalizedIds == UNION {Ancestors(f) : f \in FinalizedIds}
ImplSkipped(t) ==
  \E c \in FinalizedIds \cup ImplFinalizedIds :
    BlockOf(c) # {} /\ LET p == ParentId(CHOOSE b \in BlockOf(c) : TRUE) IN p.s < t /\ t < c.s

\* parent-ready as the pool derives it (certificates, or decisions implied by finalization)
CertifiedId(i) == i = GenesisB \/ NotarCert(i.s, i.h) \/ NfCert(i.s, i.h)
                  \/ i \in FinalizedIds \/ i \in ImplFinalizedIds
SkippedSlot(t) == SkipCert(t) \/ ImplSkipped(t)
ParentReady(s, p) ==
  /\ IsWindowStart(s) /\ p.s < s /\ CertifiedId(p)
  /\ \A t \in (p.s + 1)..(s - 1) : SkippedSlot(t)

\* a node's own votes
Mine(n, k, s) == {x \in sent : x.v = n /\ x.k = k /\ x.s = s}
Voted(n, s) == Mine(n, "notar", s) # {} \/ Mine(n, "skip", s) # {}
VotedNotar(n, s, h) == Vote("notar", s, h, n) \in sent
Bad(n, s) == Mine(n, "skip", s) # {} \/ Mine(n, "nf", s) # {} \/ Mine(n, "sf", s) # {}
Retired(n, s) == Mine(n, "final", s) # {}

\* --- guards of the voting rules (votor.rs + the pool's safe-to-* conditions) -------------
CanNotar(n, b) ==
  /\ b \in blocks /\ b.s \in 1..MaxSlot
  /\ ~Voted(n, b.s)
  /\ IF IsWindowStart(b.s) THEN ParentReady(b.s, b.par)
     ELSE /\ b.par.s = b.s - 1
          /\ (b.par = GenesisB \/ VotedNotar(n, b.par.s, b.par.h))

CanFinal(n, s) ==
  /\ ~Retired(n, s) /\ ~Bad(n, s)
  /\ \E h \in HashesIn(s) : VotedNotar(n, s, h) /\ NotarCert(s, h)

CanSkip(n, s) == s \in 1..MaxSlot /\ ~Voted(n, s)

\* safe-to-notar for block id i (parent certified by a certificate: notar, nf or ff)
ParentCertified(b) == b.par = GenesisB \/ NotarCert(b.par.s, b.par.h) \/ NfCert(b.par.s, b.par.h)
S2N(n, b) ==
  LET ns == SumStake(NotarV(b.s, b.h))
      nsk == SumStake(NotarV(b.s, b.h) \cup SkipV(b.s))
  IN /\ b \in blocks
     /\ Voted(n, b.s) /\ ~VotedNotar(n, b.s, b.h)
     /\ (Weak(ns) \/ (Weakest(ns) /\ Quorum(nsk)))
     /\ ParentCertified(b)
CanNf(n, b) == S2N(n, b) /\ ~Retired(n, b.s) /\ Vote("nf", b.s, b.h, n) \notin sent

\* safe-to-skip: skip stake plus notar stake for all but the most-voted block >= 40%
\*   = min over blocks h of stake({skip voters} \cup {notar voters for h' # h})
S2S(n, s) ==
  /\ Mine(n, "notar", s) # {}
  /\ \A h \in HashesIn(s) \cup {"#none"} :
       Weak(SumStake(SkipV(s) \cup {v \in Validators :
                       \E x \in sent : x.k = "notar" /\ x.s = s /\ x.v = v /\ x.h # h}))
CanSf(n, s) == S2S(n, s) /\ ~Retired(n, s) /\ Vote("sf", s, NoH, n) \notin sent

\* --- actions ------------------------------------------------------------------------------
Cast(vs) == sent' = sent \cup vs /\ UNCHANGED blocks

SkipRest(n, s) == {Vote("skip", t, NoH, n) : t \in {u \in WindowOf(s) : u >= 1 /\ ~Voted(n, u)}}

Notar(n, b) == CanNotar(n, b) /\ Cast({Vote("notar", b.s, b.h, n)})
Final(n, s) == CanFinal(n, s) /\ Cast({Vote("final", s, NoH, n)})
\* try_skip_window: every unvoted slot of the window at once (timeout / invalid block)
SkipWindow(n, s) == CanSkip(n, s) /\ Cast(SkipRest(n, s))
\* SafeToNotar / SafeToSkip handlers: fallback vote, then try_skip_window
NfVote(n, b) == CanNf(n, b) /\ Cast({Vote("nf", b.s, b.h, n)} \cup SkipRest(n, b.s))
SfVote(n, s) == CanSf(n, s) /\ Cast({Vote("sf", s, NoH, n)} \cup SkipRest(n, s))

NextCorrect ==
  \E n \in Correct :
    \/ \E b \in blocks : Notar(n, b) \/ NfVote(n, b)
    \/ \E s \in 1..MaxSlot : Final(n, s) \/ SkipWindow(n, s) \/ SfVote(n, s)

---------------------------------------------------------------------------
(* Safety (C01) *)
Agreement ==
  \A f, g \in FinalizedIds : f.s = g.s => f.h = g.h
\* all finalized blocks lie on one chain (when the parent links are known)
SingleChain ==
  \A f, g \in FinalizedIds :
    (f.s < g.s /\ BlockOf(g) # {}) =>
       \/ f \in Ancestors(g)
       \/ \E a \in Ancestors(g) \cup {g} : BlockOf(a) = {} /\ a.s > f.s   \* chain not known down to f's slot
\* "finalized" here means directly finalized (fast-finalization, or finalization + notarization
\* certificate for that slot).  A slot whose block is finalized only through a descendant CAN
\* carry a skip certificate (TLC exhibits it: notar(1,A) by 60%, slot 2 finalized on top, then
\* safe-to-skip in slot 1) - that is the protocol as designed, not a safety violation.
NoFinalAndSkip ==
  \A f \in FinalizedIds : ~SkipCert(f.s)
\* supporting lemmas (reported with short traces when broken)
NotarUnique ==
  \A s \in 1..MaxSlot : \A h1, h2 \in HashesIn(s) : (NotarCert(s, h1) /\ NotarCert(s, h2)) => h1 = h2
FinalImpliesNoOtherNf ==
  \A f \in FinalizedIds : \A h \in HashesIn(f.s) : h # f.h => ~NfCert(f.s, h)
FastFinalImpliesNoSkip ==
  \A s \in 1..MaxSlot : \A h \in HashesIn(s) : FFCert(s, h) => ~SkipCert(s)
=============================================================================
