------------------------------ MODULE MC_Votor ------------------------------
(***************************************************************************)
(* Votor alone: the environment emits any pool / blockstore / timeout      *)
(* event from a finite universe, in any order.  Properties of C05 over the *)
(* ghost history of own votes; edge dump for replay into the real Votor.   *)
(***************************************************************************)
EXTENDS Votor, Json, TLCExt

CONSTANTS
  BlockU,     \* set of [s, h, par] : blocks the blockstore may announce (hash determines parent)
  ReadyU,     \* set of <<s, p>> : ParentReady events
  CertU,      \* set of [k, s, h] : CertCreated events
  S2NU,       \* set of blocks for SafeToNotar events
  EvSlots,    \* slots for FirstShred / InvalidBlock / SafeToSkip / timeouts
  MaxSteps,   \* bound on the number of state-changing events (0 = unbounded)
  Prefix      \* sequence of blocks from BlockU announced first, in this order (brings the node into a state
              \* with own notar votes in earlier slots; not counted in MaxSteps)

VARIABLES votor, act, out, my, seen, steps, sid, pre

vars == <<votor, act, out, my, seen, steps, sid, pre>>
View == <<votor, my, seen, steps, pre>>

\* my   : set of vote messages cast so far (ghost)
\* seen : ghost facts recorded when they happen:
\*        notarCert (set of <<s,h>> whose notar certificate Votor was shown),
\*        s2n / s2s (safe-to-* events shown), ready (ParentReady shown), badCast (rule broken at cast time)
EmptySeen == [notarCert |-> {}, s2n |-> {}, s2s |-> {}, ready |-> {}, badCast |-> FALSE]

VId(v, m, s, n) == <<TLCFP(<<v, m, s, n>>), TLCFP(<<n, s, m, v.hfc>>)>>

ParentOfBlock(s, h) ==
  IF \E b \in BlockU : b.s = s /\ b.h = h
  THEN (CHOOSE b \in BlockU : b.s = s /\ b.h = h).par ELSE <<0, "?">>

VotesIn(o) == {o.out[i] : i \in {j \in 1..Len(o.out) : o.out[j].t = "vote"}}

\* rules evaluated at cast time against the PRE-state
CastOK(v, myv, sn, o) ==
  \A m \in VotesIn(o) :
    /\ (m.k = "notar") =>
         LET par == ParentOfBlock(m.s, m.h) IN
         IF m.s = VFirstInWindow(m.s)
         THEN <<m.s, par>> \in sn.ready
         ELSE /\ par[1] = m.s - 1
              /\ \/ par = VGenesis        \* genesis counts as notarized by everybody
                 \/ MsgVote("notar", m.s - 1, par[2]) \in (myv \cup VotesIn(o))
    /\ (m.k = "final") =>
         \E h \in {x.h : x \in {y \in (myv \cup VotesIn(o)) : y.k = "notar" /\ y.s = m.s}} :
            <<m.s, h>> \in sn.notarCert
    /\ (m.k = "nf") => m.s \in {b[1] : b \in {x \in sn.s2n : x = <<m.s, m.h>>}}
    /\ (m.k = "sf") => m.s \in sn.s2s

ObsV(v) == [hfc |-> v.hfc,
            slots |-> [i \in 1..(VMaxSlot + 1) |-> v.slots[i - 1]]]

Step(a, o, sn) ==
  /\ votor' = o.v
  /\ act' = a
  /\ out' = [msgs |-> o.out, arm |-> o.arm]
  /\ my' = my \cup VotesIn(o)
  /\ seen' = [sn EXCEPT !.badCast = @ \/ ~CastOK(votor, my, sn, o)]
  /\ steps' = IF o.v = votor /\ o.out = <<>> THEN steps ELSE steps + 1
  /\ sid' = VId(o.v, my', seen', steps')
  /\ pre' = pre

Init ==
  /\ votor = InitVotor
  /\ act = [op |-> "init"]
  /\ out = [msgs |-> <<>>, arm |-> <<>>]
  /\ my = {}
  /\ seen = EmptySeen
  /\ steps = 0
  /\ sid = VId(votor, my, seen, steps)
  /\ pre = 0

OwnVoted(s) == Voted(votor, s)

PrefixNext ==
  LET b == Prefix[pre + 1]
      e == [t |-> "Block", s |-> b.s, h |-> b.h, par |-> b.par]
      o == OnBlockstore(votor, e)
  IN /\ votor' = o.v /\ act' = [op |-> "bs", e |-> e] /\ out' = [msgs |-> o.out, arm |-> o.arm]
     /\ my' = my \cup VotesIn(o)
     /\ seen' = [seen EXCEPT !.badCast = @ \/ ~CastOK(votor, my, seen, o)]
     /\ steps' = steps /\ pre' = pre + 1
     /\ sid' = VId(o.v, my', seen', pre' + 1000)

Next ==
  IF pre < Len(Prefix) THEN PrefixNext ELSE
  /\ (MaxSteps = 0 \/ steps < MaxSteps)
  /\ \/ \E x \in ReadyU :
          LET e == [t |-> "ParentReady", s |-> x[1], p |-> x[2]]
          IN Step([op |-> "pool", e |-> e], OnPool(votor, e),
                  IF IgnorePool(votor, e) THEN seen ELSE [seen EXCEPT !.ready = @ \cup {x}])
     \/ \E b \in S2NU :
          \* pool guarantee (C06): only after the node's own vote in that slot, not for the block it notarized
          /\ OwnVoted(b[1]) /\ votor.slots[b[1]].vnotar # b[2]
          /\ b \notin seen.s2n
          /\ LET e == [t |-> "SafeToNotar", b |-> b]
             IN Step([op |-> "pool", e |-> e], OnPool(votor, e), [seen EXCEPT !.s2n = @ \cup {b}])
     \/ \E s \in EvSlots :
          /\ votor.slots[s].vnotar # VNoneH /\ s \notin seen.s2s
          /\ LET e == [t |-> "SafeToSkip", s |-> s]
             IN Step([op |-> "pool", e |-> e], OnPool(votor, e), [seen EXCEPT !.s2s = @ \cup {s}])
     \/ \E c \in CertU :
          LET e == [t |-> "Cert", c |-> c]
          IN Step([op |-> "pool", e |-> e], OnPool(votor, e),
                  IF c.k = "notar" THEN [seen EXCEPT !.notarCert = @ \cup {<<c.s, c.h>>}] ELSE seen)
     \/ \E b \in BlockU :
          LET e == [t |-> "Block", s |-> b.s, h |-> b.h, par |-> b.par]
          IN Step([op |-> "bs", e |-> e], OnBlockstore(votor, e), seen)
     \/ \E s \in EvSlots, k \in {"FirstShred", "InvalidBlock"} :
          LET e == [t |-> k, s |-> s]
          IN Step([op |-> "bs", e |-> e], OnBlockstore(votor, e), seen)
     \/ \E s \in EvSlots, k \in {"timeout", "crashed"} :
          /\ (k = "crashed" => s = VFirstInWindow(s))
          /\ Step([op |-> "timeout", k |-> k, s |-> s], OnTimeout(votor, k, s), seen)
     \/ \* standstill bundle: whatever the pool hands over must be forwarded, in every state
        LET cs == <<[k |-> "skip", s |-> 1, h |-> VNoneH]>>
            vs == <<MsgVote("skip", 1, VNoneH), MsgVote("notar", 2, "A")>>
            e == [t |-> "Standstill", s |-> 1, certs |-> cs, votes |-> vs]
            o == OnPool(votor, e)
        IN /\ votor' = o.v /\ act' = [op |-> "pool", e |-> e]
           /\ out' = [msgs |-> o.out, arm |-> o.arm]
           /\ UNCHANGED <<my, seen, steps, sid, pre>>

---------------------------------------------------------------------------
EmitEdge == PrintT(<<"EDGE", ToJson([f |-> sid, a |-> act', e |-> out', t |-> sid'])>>)
EmitState == PrintT(<<"STATE", ToJson([id |-> sid, init |-> (TLCGet("level") = 1), obs |-> ObsV(votor)])>>)

---------------------------------------------------------------------------
(* C05 *)
Of(k, s) == {m \in my : m.k = k /\ m.s = s}
OneInitialVote == \A s \in VSlots : Cardinality(Of("notar", s) \cup Of("skip", s)) <= 1
RulesAtCastTime == ~seen.badCast
NoFinalInBadSlot ==
  \A s \in VSlots : Of("final", s) # {} => (Of("skip", s) = {} /\ Of("sf", s) = {} /\ Of("nf", s) = {})
FinalOnlyForOwnNotar ==
  \A s \in VSlots : Of("final", s) # {} =>
     \E m \in Of("notar", s) : <<s, m.h>> \in seen.notarCert
FallbackOnlyAfterVoted ==
  \A s \in VSlots : (Of("nf", s) # {} \/ Of("sf", s) # {}) => (Of("notar", s) # {} \/ Of("skip", s) # {})
VConflict(a, b) ==
  LET K == {a.k, b.k} IN
  \/ (a.k = "notar" /\ b.k = "notar" /\ a.h # b.h)
  \/ K = {"notar", "skip"}
  \/ (K = {"final", "skip"}) \/ (K = {"final", "sf"}) \/ (K = {"final", "nf"})
OwnVotesNeverSlashable == \A a, b \in my : (a # b /\ a.s = b.s) => ~VConflict(a, b)
\* never notarizes the block it casts notar-fallback for
NoNfForOwnNotar == \A m \in my : m.k = "nf" => MsgVote("notar", m.s, m.h) \notin my
\* the standstill bundle is always forwarded completely
StandstillForwarded ==
  (act.op = "pool" /\ act.e.t = "Standstill") => Len(out.msgs) = Len(act.e.certs) + Len(act.e.votes)

W_Final == \A s \in VSlots : Of("final", s) = {}
W_Nf == \A s \in VSlots : Of("nf", s) = {}
W_Sf == \A s \in VSlots : Of("sf", s) = {}
W_Pruned == votor.hfc < W
W_NotarSecondWindow == \A s \in VSlots : s >= W => Of("notar", s) = {}
=============================================================================
