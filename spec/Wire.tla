-------------------------------- MODULE Wire --------------------------------
(***************************************************************************)
(* Wire format of every protocol message (src/network.rs `deserialize`,    *)
(* `crate::serialize`; wincode derive: fixed-width little-endian integers, *)
(* u32 enum tags, u8 option / bool tags, u64 length prefixes).             *)
(*                                                                         *)
(* A message is described by a small record (variant + the parameters the  *)
(* size depends on).  `Layout(m)` is its encoding as an ORDERED LIST OF     *)
(* TYPED FIELDS  [f, ty, w, v, b, x]:                                      *)
(*    f  name           ty  kind of field        w  width in bytes          *)
(*    v  abstract value (tags, indices, counts, lengths; 0 for opaque)     *)
(*    b  bound: arity of a tag, exclusive bound of an index (0 = the wire   *)
(*       decoder does not check it), element width of a length prefix      *)
(*    x  (bitmask words only) 0 clean, 1 garbage bits above num_bits in    *)
(*       the last live word, 2 garbage in words beyond the live ones, 3 both*)
(* An abstract encoding is  E = [fs |-> field list, tail |-> extra bytes]  *)
(* (tail < 0: bytes missing at the end).                                   *)
(*                                                                         *)
(* `Accepts(E)` is the sequential decoder: every tag below its arity,      *)
(* every bounded index below its bound, bitmask guards (aggsig.rs          *)
(* read_bitvec), length prefixes consistent with the bytes present and     *)
(* below the preallocation cap, no byte left over.                         *)
(* `ReEnc(E)` is encode(decode(E)); `Val(E)` the decoded value as far as    *)
(* `PartialEq` can see it.  `Mutate(L, mal)` are the grammar-level         *)
(* malformed-encoding classes together with the byte edits that realise    *)
(* them on a concrete encoding (offsets come from the layout).             *)
(***************************************************************************)
EXTENDS Naturals, Integers, Sequences, FiniteSets, TLC

MTU == 1500                      \* network.rs MTU_BYTES (also the preallocation cap)
MaxSigners == 2048               \* aggsig.rs MAX_SIGNERS
WordBits == 64
MaxSlices == 1024                \* slice_index.rs MAX_SLICES_PER_BLOCK
TotalShreds == 64                \* shredder.rs TOTAL_SHREDS
DataShreds == 32                 \* shredder.rs DATA_SHREDS
MaxDataPerShred == 1024
MaxDataPerSlice == DataShreds * MaxDataPerShred - 1
KeyBytes == 16                   \* cipher.rs KEY_BYTES
MaxTxSize == 512                 \* lib.rs MAX_TRANSACTION_SIZE
SliceTreeHeight == 6             \* log2(TotalShreds): length of a shred's Merkle path
MaxBlockTreeHeight == 10         \* log2(MaxSlices): longest double-Merkle proof

CeilDiv(a, b) == (a + b - 1) \div b
Words(n) == CeilDiv(n, WordBits)           \* BitVec::as_raw_slice().len() for n bits
MaxWords == CeilDiv(MaxSigners, WordBits)  \* 32

BlsSigLen == 96      \* uncompressed G1 point
EdSigLen == 64
HashLen == 32

VoteKinds == <<"notar", "nf", "skip", "sf", "final">>      \* Vote enum order
CertKinds == <<"notar", "nf", "skip", "ff", "final">>      \* Cert enum order
ReqKinds == <<"last", "root", "shred">>                   \* RepairRequestType enum order
RespKinds == <<"last", "root", "shred", "nack">>          \* RepairResponse enum order
Shredders == {"regular", "coding", "aont", "pets"}

TagOf(seq, k) == (CHOOSE i \in 1..Len(seq) : seq[i] = k) - 1
HasHash(k) == k \in {"notar", "nf", "ff"}
TwoHalves(k) == k \in {"nf", "skip"}

-----------------------------------------------------------------------------
(* field constructors *)
Fld(f, ty, w, v, b) == <<[f |-> f, ty |-> ty, w |-> w, v |-> v, b |-> b, x |-> 0]>>
Opaque(f, w) == Fld(f, "opaque", w, 0, 0)
Tag(f, w, v, arity) == Fld(f, "tag", w, v, arity)
Idx(f, v, bound) == Fld(f, "idx", 8, v, bound)
Mask(p, n) == Fld(p \o ".num_bits", "nbits", 8, n, 0)
              \o Fld(p \o ".num_words", "count", 8, Words(n), 8)
              \o Fld(p \o ".words", "words", 8 * Words(n), 0, 0)
Vec(p, len, elem) == Fld(p \o ".len", "len", 8, len, elem)
                     \o Fld(p \o ".items", "bytes", len * elem, 0, 0)

BlsSig(f) == Fld(f, "blssig", BlsSigLen, 0, 0)          \* validated curve point: contents not modelled
Agg(p, n) == BlsSig(p \o ".sig") \o Mask(p, n)
OptAgg(p, present, n) ==
  Tag(p \o ".opt", 1, IF present THEN 1 ELSE 0, 2) \o (IF present THEN Agg(p, n) ELSE <<>>)

-----------------------------------------------------------------------------
(* shredders (shredder.rs, shredder/reed_solomon.rs) *)
KeyOverhead(sh) == IF sh \in {"aont", "pets"} THEN KeyBytes ELSE 0
DataOut(sh) == CASE sh = "regular" -> DataShreds
                 [] sh = "coding" -> 0
                 [] sh = "aont" -> DataShreds
                 [] sh = "pets" -> DataShreds - 1
\* serialized SlicePayload: Option<BlockId> parent, then Vec<u8> data
PayloadBytes(dlen, parent) == 1 + (IF parent THEN 8 + HashLen ELSE 0) + 8 + dlen
\* what the Reed-Solomon coder is given
CoderInput(sh, dlen, parent) == PayloadBytes(dlen, parent) + KeyOverhead(sh)
\* largest `data` a slice may carry for this shredder (Shredder::MAX_DATA_SIZE)
MaxDlen(sh, parent) == MaxDataPerSlice - KeyOverhead(sh) - PayloadBytes(0, parent)
\* bytes per shred: payload + bit padding up to the next multiple of 2*DataShreds, split in DataShreds
ShredBytes(sh, dlen, parent) ==
  LET p == CoderInput(sh, dlen, parent)
      padded == p + (2 * DataShreds - (p % (2 * DataShreds)))
  IN padded \div DataShreds

ShredFields(p, s) ==
  Tag(p \o "ptype", 4, IF s.j < DataOut(s.sh) THEN 0 ELSE 1, 2)
  \o Opaque(p \o "slot", 8)
  \o Idx(p \o "slice_index", s.si, MaxSlices)
  \o Tag(p \o "is_last", 1, IF s.last THEN 1 ELSE 0, 2)
  \o Idx(p \o "shred_index", s.j, TotalShreds)
  \o Vec(p \o "data", ShredBytes(s.sh, s.dlen, s.parent), 1)
  \o Opaque(p \o "slice_sig", EdSigLen)
  \o Vec(p \o "path", SliceTreeHeight, HashLen)

ReqTypeFields(rk, si, j) ==
  Tag("req.tag", 4, TagOf(ReqKinds, rk), 3)
  \o Opaque("req.slot", 8) \o Opaque("req.hash", HashLen)
  \o (IF rk \in {"root", "shred"} THEN Idx("req.slice", si, MaxSlices) ELSE <<>>)
  \o (IF rk = "shred" THEN Idx("req.shred", j, TotalShreds) ELSE <<>>)

-----------------------------------------------------------------------------
(* message descriptors -> layout *)
\* vote  : [t, k, sv]                      sv = signer index value
\* cert  : [t, k, n, a, b]                 n validators; a, b signer-subset shape of each half ("none" = absent)
\* shred : [t, sh, dlen, parent, si, last, j]
\* rreq  : [t, k, sv, si, j]
\* rresp : [t, k, rk, si, j, depth, s]     s = shred descriptor (k = "shred") else the dummy
\* tx    : [t, len]
Layout(m) ==
  CASE m.t = "vote" ->
         Tag("cm.tag", 4, 0, 2) \o Tag("vote.tag", 4, TagOf(VoteKinds, m.k), 5)
         \o Opaque("slot", 8)
         \o (IF m.k \in {"notar", "nf"} THEN Opaque("block_hash", HashLen) ELSE <<>>)
         \o BlsSig("sig")
         \o Idx("signer", m.sv, 0)
    [] m.t = "cert" ->
         Tag("cm.tag", 4, 1, 2) \o Tag("cert.tag", 4, TagOf(CertKinds, m.k), 5)
         \o Opaque("slot", 8)
         \o (IF HasHash(m.k) THEN Opaque("block_hash", HashLen) ELSE <<>>)
         \o (IF TwoHalves(m.k)
             THEN OptAgg("a", m.a # "none", m.n) \o OptAgg("b", m.b # "none", m.n)
             ELSE Agg("a", m.n))
         \o Opaque("stake", 8)
    [] m.t = "shred" -> ShredFields("", m)
    [] m.t = "rreq" -> Idx("sender", m.sv, 0) \o ReqTypeFields(m.k, m.si, m.j)
    [] m.t = "rresp" ->
         Tag("resp.tag", 4, TagOf(RespKinds, m.k), 4)
         \o ReqTypeFields(m.rk, m.si, m.j)
         \o (CASE m.k = "last" -> Idx("last_slice", m.si, MaxSlices) \o Opaque("root", HashLen)
                                   \o Vec("proof", m.depth, HashLen)
               [] m.k = "root" -> Opaque("root", HashLen) \o Vec("proof", m.depth, HashLen)
               [] m.k = "shred" -> ShredFields("shred.", m.s)
               [] m.k = "nack" -> <<>>)
    [] m.t = "tx" -> Vec("tx", m.len, 1)

RECURSIVE SumW(_, _)
SumW(fs, i) == IF i = 0 THEN 0 ELSE fs[i].w + SumW(fs, i - 1)
Offset(fs, i) == SumW(fs, i - 1)               \* byte offset of field i
ESize(E) == SumW(E.fs, Len(E.fs)) + E.tail
Enc(m) == [fs |-> Layout(m), tail |-> 0]
Size(m) == ESize(Enc(m))

\* messages a correct node can emit (well-formedness of the descriptor)
WellFormed(m) ==
  CASE m.t = "vote" -> TRUE
    [] m.t = "cert" -> /\ m.n \in 1..MaxSigners
                       /\ IF TwoHalves(m.k) THEN m.a # "none" \/ m.b # "none"
                          ELSE m.a # "none" /\ m.b = "none"
    [] m.t = "shred" -> m.dlen \in 0..MaxDlen(m.sh, m.parent) /\ m.si < MaxSlices /\ m.j < TotalShreds
    [] m.t = "rreq" -> m.si < MaxSlices /\ m.j < TotalShreds
    [] m.t = "rresp" -> /\ m.si < MaxSlices /\ m.j < TotalShreds /\ m.depth \in 0..MaxBlockTreeHeight
                        /\ (m.k # "nack" => m.rk = m.k)
                        /\ (m.k = "shred" => /\ m.s.dlen \in 0..MaxDlen(m.s.sh, m.s.parent)
                                             /\ m.s.si = m.si /\ m.s.j = m.j)
    [] m.t = "tx" -> m.len \in 0..MaxTxSize

-----------------------------------------------------------------------------
(* the decoder *)
FieldOK(fs, i) ==
  LET f == fs[i] IN
  CASE f.ty = "tag" -> f.v < f.b
    [] f.ty = "idx" -> f.b = 0 \/ f.v < f.b
    [] f.ty = "nbits" -> /\ fs[i + 1].v <= MaxWords                  \* "bitmask too long"
                         /\ f.v <= WordBits * fs[i + 1].v            \* "want to use too many bits"
    [] f.ty \in {"count", "len"} ->                                  \* Vec<T>: preallocation cap, then the items
                         /\ f.v <= MTU \div f.b
                         /\ fs[i + 1].w = f.v * f.b
    [] OTHER -> TRUE
Accepts(E) == E.tail = 0 /\ \A i \in 1..Len(E.fs) : FieldOK(E.fs, i)

\* encode(decode(E)) for an accepted E: the bitmask keeps only its live words
\* (BitVec::truncate + as_raw_slice); bits above num_bits in the last live word survive
ReEncField(fs, i) ==
  LET f == fs[i] IN
  CASE f.ty = "count" -> [f EXCEPT !.v = Words(fs[i - 1].v)]
    [] f.ty = "words" -> [f EXCEPT !.w = 8 * Words(fs[i - 2].v),
                                   !.x = IF f.x \in {1, 3} /\ (fs[i - 2].v % WordBits) # 0 THEN 1 ELSE 0]
    [] OTHER -> f
ReEnc(E) == [fs |-> [i \in 1..Len(E.fs) |-> ReEncField(E.fs, i)], tail |-> 0]

\* the decoded value as seen by PartialEq / Debug: tags, indices, bit lengths, vector lengths,
\* and a marker (v = 1) for altered contents of opaque fields, vector items and live bitmask bits
Val(E) == [i \in 1..Len(E.fs) |->
             IF E.fs[i].ty \in {"tag", "idx", "nbits", "len", "opaque", "bytes", "words"}
             THEN E.fs[i].v ELSE 0]
SameShape(E, F) == Len(E.fs) = Len(F.fs) /\ \A i \in 1..Len(E.fs) : E.fs[i].f = F.fs[i].f
ValEq(E, F) == SameShape(E, F) /\ Val(E) = Val(F)

NormalForm(E) ==
  Accepts(E) => LET R == ReEnc(E) IN Accepts(R) /\ ReEnc(R) = R /\ ValEq(R, E)
RoundTrip(m) == LET E == Enc(m) IN Accepts(E) /\ ReEnc(E) = E

-----------------------------------------------------------------------------
(* malformed-encoding classes *)
Op(op, off, n, val) == [op |-> op, off |-> off, n |-> n, val |-> val]
NoMal == [cls |-> "none", fi |-> 0]

StrictClasses == {"trailing1", "trailing8", "truncate1", "tag_oob", "tag_max", "idx_oob", "idx_max",
                  "idx_hi32", "idx_hi56",
                  "words_gt_max", "nbits_gt_alloc", "len_overflow"}

FieldIdx(fs, ty) == {i \in 1..Len(fs) : fs[i].ty = ty}

\* the classes applicable to a layout
Muts(m) ==
  LET fs == Layout(m) IN
  {[cls |-> c, fi |-> 0] : c \in {"trailing1", "trailing8", "truncate1"}}
  \cup {[cls |-> c, fi |-> i] : c \in {"tag_oob", "tag_max"}, i \in FieldIdx(fs, "tag")}
  \cup {[cls |-> c, fi |-> i] : c \in {"idx_oob", "idx_max", "idx_hi32", "idx_hi56"}, i \in {j \in FieldIdx(fs, "idx") : fs[j].b > 0}}
  \cup {[cls |-> "vidx_big", fi |-> i] : i \in {j \in FieldIdx(fs, "idx") : fs[j].b = 0}}
  \cup {[cls |-> c, fi |-> i] : c \in {"words_gt_max", "nbits_gt_alloc", "nbits_zero"}, i \in FieldIdx(fs, "nbits")}
  \cup {[cls |-> "garbage_live", fi |-> i] : i \in {j \in FieldIdx(fs, "nbits") : (fs[j].v % WordBits) # 0}}
  \cup {[cls |-> "extra_word", fi |-> i] : i \in {j \in FieldIdx(fs, "nbits") : fs[j + 1].v < MaxWords}}
  \cup {[cls |-> "words_to_max", fi |-> i] : i \in {j \in FieldIdx(fs, "nbits") : fs[j + 1].v < MaxWords}}
  \cup {[cls |-> "nbits_small", fi |-> i] : i \in {j \in FieldIdx(fs, "nbits") : fs[j + 1].v >= 2}}
  \cup {[cls |-> "len_overflow", fi |-> i] : i \in FieldIdx(fs, "len")}
  \cup {[cls |-> "flip_content", fi |-> i] :
          i \in {j \in 1..Len(fs) : fs[j].ty \in {"opaque", "bytes", "words"} /\ fs[j].w > 0}}
  \cup (IF m.t = "tx" /\ m.len = MaxTxSize
        THEN {[cls |-> "tx_oversize", fi |-> 1], [cls |-> "tx_fill_mtu", fi |-> 1]} ELSE {})
  \cup (IF m.t = "cert" /\ TwoHalves(m.k) /\ m.a # "none" /\ m.b = "none"
        THEN {[cls |-> "drop_half", fi |-> CHOOSE i \in 1..Len(fs) : fs[i].f = "a.opt"]} ELSE {})

SetF(fs, i, fld, val) == [fs EXCEPT ![i] = [fs[i] EXCEPT ![fld] = val]]
Big == 2147483647

\* [fs, tail, ops] : the abstract encoding after the defect, and the byte edits producing it
Mutate(fs, mal) ==
  LET i == mal.fi
      off == IF i > 0 THEN Offset(fs, i) ELSE 0
      R(fs2, tail, ops) == [fs |-> fs2, tail |-> tail, ops |-> ops]
  IN
  CASE mal.cls = "none" -> R(fs, 0, <<>>)
    [] mal.cls = "trailing1" -> R(fs, 1, <<Op("append", 0, 1, 0)>>)
    [] mal.cls = "trailing8" -> R(fs, 8, <<Op("append", 0, 8, 255)>>)
    [] mal.cls = "truncate1" -> R(fs, -1, <<Op("truncate", 0, 1, 0)>>)
    [] mal.cls = "tag_oob" -> R(SetF(fs, i, "v", fs[i].b), 0, <<Op("set", off, fs[i].w, fs[i].b)>>)
    [] mal.cls = "tag_max" -> R(SetF(fs, i, "v", 255), 0, <<Op("set", off, fs[i].w, 255)>>)
    [] mal.cls = "idx_oob" -> R(SetF(fs, i, "v", fs[i].b), 0, <<Op("set", off, 8, fs[i].b)>>)
    [] mal.cls = "idx_max" -> R(SetF(fs, i, "v", Big), 0, <<Op("fill", off, 8, 255)>>)
    \* a valid low word with a bit set above it (a range check done after truncation to 32 bits misses these)
    [] mal.cls = "idx_hi32" -> R(SetF(fs, i, "v", Big), 0, <<Op("set", off + 4, 1, 1)>>)
    [] mal.cls = "idx_hi56" -> R(SetF(fs, i, "v", Big), 0, <<Op("set", off + 7, 1, 64)>>)
    [] mal.cls = "vidx_big" -> R(SetF(fs, i, "v", Big), 0, <<Op("set", off, 8, Big)>>)
    [] mal.cls = "words_gt_max" ->
         LET w == fs[i + 1].v IN
         R(SetF(SetF(fs, i + 1, "v", MaxWords + 1), i + 2, "w", 8 * (MaxWords + 1)), 0,
           <<Op("set", Offset(fs, i + 1), 8, MaxWords + 1),
             Op("insert", Offset(fs, i + 2) + 8 * w, 8 * (MaxWords + 1 - w), 0)>>)
    [] mal.cls = "words_to_max" ->
         LET w == fs[i + 1].v IN
         R(SetF(SetF(SetF(fs, i + 1, "v", MaxWords), i + 2, "w", 8 * MaxWords), i + 2, "x", 2), 0,
           <<Op("set", Offset(fs, i + 1), 8, MaxWords),
             Op("insert", Offset(fs, i + 2) + 8 * w, 8 * (MaxWords - w), 255)>>)
    [] mal.cls = "extra_word" ->
         LET w == fs[i + 1].v IN
         R(SetF(SetF(SetF(fs, i + 1, "v", w + 1), i + 2, "w", 8 * (w + 1)), i + 2, "x", 2), 0,
           <<Op("set", Offset(fs, i + 1), 8, w + 1),
             Op("insert", Offset(fs, i + 2) + 8 * w, 8, 255)>>)
    [] mal.cls = "nbits_gt_alloc" ->
         R(SetF(fs, i, "v", WordBits * fs[i + 1].v + 1), 0, <<Op("set", off, 8, WordBits * fs[i + 1].v + 1)>>)
    [] mal.cls = "nbits_zero" -> R(SetF(fs, i, "v", 0), 0, <<Op("set", off, 8, 0)>>)
    [] mal.cls = "nbits_small" ->
         R(SetF(fs, i, "v", WordBits * (fs[i + 1].v - 1)), 0, <<Op("set", off, 8, WordBits * (fs[i + 1].v - 1))>>)
    [] mal.cls = "garbage_live" ->
         R(SetF(fs, i + 2, "x", 1), 0, <<Op("or", Offset(fs, i + 2) + fs[i + 2].w - 1, 1, 128)>>)
    [] mal.cls = "flip_content" ->        \* lowest bit of the field's first byte (validator 0's bit in a bitmask)
         R(SetF(fs, i, "v", 1), 0, <<Op("xor", off, 1, 1)>>)
    [] mal.cls = "len_overflow" -> R(SetF(fs, i, "v", Big), 0, <<Op("set", off, 8, Big)>>)
    [] mal.cls = "tx_oversize" ->         \* one byte more than MAX_TRANSACTION_SIZE
         R(SetF(SetF(fs, 1, "v", MaxTxSize + 1), 2, "w", MaxTxSize + 1), 0,
           <<Op("set", 0, 8, MaxTxSize + 1), Op("append", 0, 1, 7)>>)
    [] mal.cls = "tx_fill_mtu" ->         \* a transaction filling the whole datagram
         R(SetF(SetF(fs, 1, "v", MTU - 8), 2, "w", MTU - 8), 0,
           <<Op("set", 0, 8, MTU - 8), Op("append", 0, MTU - 8 - MaxTxSize, 7)>>)
    [] mal.cls = "drop_half" ->           \* both optional halves absent
         LET k == CHOOSE j \in 1..Len(fs) : fs[j].f = "b.opt"
             gone == SumW(fs, k - 1) - SumW(fs, i)
         IN R([j \in 1..(Len(fs) - (k - i - 1)) |->
                 IF j < i THEN fs[j] ELSE IF j = i THEN [fs[i] EXCEPT !.v = 0] ELSE fs[j + (k - i - 1)]], 0,
              <<Op("set", off, 1, 0), Op("remove", off + 1, gone, 0)>>)

Strict(mal) == mal.cls \in StrictClasses

\* what the spec expects of the decoder for (message, class)
Expect(m, mal) ==
  LET base == Enc(m)
      mu == Mutate(base.fs, mal)
      E == [fs |-> mu.fs, tail |-> mu.tail]
      acc == Accepts(E)
      R == ReEnc(E)
  IN [size |-> Size(m),
      msize |-> ESize(E),
      ops |-> mu.ops,
      verdict |-> IF acc THEN "accept" ELSE "reject",
      strict |-> (mal.cls = "none" \/ Strict(mal)),
      resize |-> IF acc THEN ESize(R) ELSE 0,
      same |-> acc /\ R = E,
      eq |-> acc /\ ValEq(E, base)]

=============================================================================
