------------------------------- MODULE Auth -------------------------------
(***************************************************************************)
(* C09  Only authentic votes and sufficiently backed certificates are      *)
(* admitted.                                                               *)
(*                                                                         *)
(* A signature ALGEBRA with ideal (unforgeable) signatures:                *)
(*   - an individual signature is the pair (signer, payload), written as   *)
(*     the record [by, k, s, h]; payload = (vote kind, slot, block hash);  *)
(*     `by` is a validator index of the epoch, or Foreign (a key that is   *)
(*     not in the epoch), or Garbled (bytes that are nobody's signature),  *)
(*     or Torsion (a signature with a curve point outside the signature    *)
(*     group added to it: a different byte string that is nobody's         *)
(*     signature although the pairing equation cannot tell);               *)
(*   - an aggregate is a BAG of individual signatures (`bag` = the set of  *)
(*     distinct members, `dup` = the members that are included twice) plus *)
(*     a signer bitmask (`len` bits, `mask` = positions set);              *)
(*   - an aggregate verifies for (mask, payload) iff the bag is exactly    *)
(*     { (i, payload) : i in mask }, each once, the mask is not empty      *)
(*     (FastAggregateVerify is undefined for zero keys) and the bitmask    *)
(*     has one bit per validator of the epoch.                             *)
(* This is BLS in the generic-group / random-oracle idealisation: sums of  *)
(* sk_j * H(m_j) are equal iff the bags are equal.                         *)
(*                                                                         *)
(* Implementation shape (src/consensus/validated_vote.rs, validated_cert.rs*)
(* cert.rs, vote.rs, crypto/aggsig.rs):                                    *)
(*   AdmitVote = ValidatedVote::try_new  (range check, then signature over *)
(*               VotePayload::<kind>(slot[, hash]))                        *)
(*   AdmitCert = ValidatedCert::try_new  (check_threshold over the union   *)
(*               of the bitmasks restricted to the epoch's validators,     *)
(*               each validator once; then every present half verified     *)
(*               for its own payload kind)                                 *)
(* and the honest constructors MakeVote / MakeCert (Vote::new_*,           *)
(* *Cert::new).  The declared `stake` field of a certificate is carried    *)
(* but never read by AdmitCert.                                            *)
(***************************************************************************)
EXTENDS Integers, Sequences, FiniteSets

CONSTANTS
  Stakes,   \* sequence: validator i (0-based) has stake Stakes[i+1]
  Slots,    \* slots of the universe
  Hashes    \* block hash names of the universe

N == Len(Stakes)
Vals == 0..(N - 1)

RECURSIVE SumStake(_)
SumStake(S) ==
  IF S = {} THEN 0
  ELSE LET x == CHOOSE y \in S : TRUE IN Stakes[x + 1] + SumStake(S \ {x})

Total == SumStake(Vals)
\* stake of the DISTINCT validators of the epoch in S (bits beyond the epoch carry no stake)
StakeOf(S) == SumStake(S \cap Vals)

\* Fraction::is_met : value / total >= num / den by cross-multiplication
Met(f, v) == v * f[2] >= Total * f[1]
Quorum == <<3, 5>>
Strong == <<4, 5>>

---------------------------------------------------------------------------
VoteKinds == {"notar", "nf", "skip", "sf", "final"}
CertKinds == {"notar", "nf", "skip", "ff", "final"}
NoHash == "-"
VoteHasHash(k) == k \in {"notar", "nf"}
CertHasHash(k) == k \in {"notar", "nf", "ff"}

Foreign == -1     \* a well-formed signature by a key outside the epoch
Garbled == -2     \* altered signature bytes
Torsion == -3     \* signature bytes altered by adding a low-order point outside the signature group:
                  \* as a bag member, "the aggregate plus that point"; as a vote's signature, "the
                  \* named signer's signature over this payload plus that point"

\* VotePayload (vote.rs l.26): the signed meaning of a vote
Payload(k, s, h) == [k |-> k, s |-> s, h |-> IF VoteHasHash(k) THEN h ELSE NoHash]
Payloads == {Payload(k, s, h) : k \in VoteKinds, s \in Slots, h \in Hashes}
Sig(i, p) == [by |-> i, k |-> p.k, s |-> p.s, h |-> p.h]

---------------------------------------------------------------------------
(* Votes: [k, s, h, v, sig]                                                *)
MakeVote(k, s, h, v) ==
  LET p == Payload(k, s, h)
  IN [k |-> k, s |-> s, h |-> p.h, v |-> v, sig |-> Sig(v, p)]

WellFormedVote(m) ==
  /\ m.k \in VoteKinds
  /\ VoteHasHash(m.k) <=> (m.h # NoHash)

AdmitVote(m) ==
  /\ m.v \in Vals                                  \* the named validator belongs to the epoch
  /\ m.sig = Sig(m.v, Payload(m.k, m.s, m.h))      \* its signature over exactly (kind, slot, hash)

\* what an honest signer can produce with exactly this vote's fields
HonestVote(m) == m.v \in Vals /\ m = MakeVote(m.k, m.s, m.h, m.v)

---------------------------------------------------------------------------
(* Certificates: [k, s, h, a, b, stake]; a, b are halves                   *)
(*   [p (present), len, mask, bag, dup].                                   *)
(* notar / ff / final have one mandatory half (a); nf = (notar half,       *)
(* notar-fallback half), skip = (skip half, skip-fallback half), both      *)
(* optional on the wire.                                                   *)
NoHalf == [p |-> FALSE, len |-> 0, mask |-> {}, bag |-> {}, dup |-> {}]
EmptyHalf == [p |-> TRUE, len |-> N, mask |-> {}, bag |-> {}, dup |-> {}]

TwoHalves(k) == k \in {"nf", "skip"}
HalfKinds(k) ==
  CASE k = "notar" -> <<"notar", "notar">>
    [] k = "ff"    -> <<"notar", "notar">>
    [] k = "final" -> <<"final", "final">>
    [] k = "nf"    -> <<"notar", "nf">>
    [] k = "skip"  -> <<"skip", "sf">>
Threshold(k) == IF k = "ff" THEN Strong ELSE Quorum

WellFormedHalf(hf) ==
  /\ hf.mask \subseteq 0..(hf.len - 1)
  /\ hf.dup \subseteq hf.bag
  /\ \A sg \in hf.bag : sg.by \in Vals \cup {Foreign, Garbled, Torsion}   \* signatures that can exist
  /\ ~hf.p => hf = NoHalf

WellFormedCert(c) ==
  /\ c.k \in CertKinds
  /\ CertHasHash(c.k) <=> (c.h # NoHash)
  /\ WellFormedHalf(c.a) /\ WellFormedHalf(c.b)
  /\ ~TwoHalves(c.k) => (c.a.p /\ ~c.b.p)

\* AggregateSignature::verify for the payload p
Verifies(hf, p) ==
  /\ hf.len = N                                    \* one bit per validator of the epoch
  /\ hf.mask # {}
  /\ hf.dup = {}
  /\ hf.bag = {Sig(i, p) : i \in hf.mask}          \* exactly the marked signers, exactly this payload

PresentMask(hf) == IF hf.p THEN hf.mask ELSE {}
CertSigners(c) == PresentMask(c.a) \cup PresentMask(c.b)

AdmitCert(c) ==
  LET hk == HalfKinds(c.k) IN
  /\ c.a.p => Verifies(c.a, Payload(hk[1], c.s, c.h))
  /\ c.b.p => Verifies(c.b, Payload(hk[2], c.s, c.h))
  /\ Met(Threshold(c.k), StakeOf(CertSigners(c)))  \* distinct stake; c.stake is not consulted

\* the honest constructors (NotarCert::new, NotarFallbackCert::new, ...)
MakeHalf(S, p) ==
  IF S = {} THEN NoHalf
  ELSE [p |-> TRUE, len |-> N, mask |-> S, bag |-> {Sig(i, p) : i \in S}, dup |-> {}]

MakeCert(k, s, h, A, B) ==
  LET hk == HalfKinds(k)
      hh == IF CertHasHash(k) THEN h ELSE NoHash
  IN [k |-> k, s |-> s, h |-> hh,
      a |-> MakeHalf(A, Payload(hk[1], s, hh)),
      b |-> IF TwoHalves(k) THEN MakeHalf(B, Payload(hk[2], s, hh)) ELSE NoHalf,
      stake |-> SumStake(A) + (IF TwoHalves(k) THEN SumStake(B) ELSE 0)]

Constructible(k, A, B) ==
  /\ A \subseteq Vals /\ B \subseteq Vals
  /\ IF TwoHalves(k) THEN A \cup B # {} ELSE A # {} /\ B = {}

Backed(k, A, B) == Met(Threshold(k), StakeOf(A \cup B))

StripStake(c) == [c EXCEPT !.stake = 0]

\* the certificate is exactly what the honest constructor produces from the votes of the
\* validators it marks, and those validators carry enough distinct stake
HonestCert(c) ==
  LET A == PresentMask(c.a)
      B == PresentMask(c.b)
  IN /\ Constructible(c.k, A, B)
     /\ StripStake(c) = StripStake(MakeCert(c.k, c.s, c.h, A, B))
     /\ Backed(c.k, A, B)

=============================================================================
