-------------------------- MODULE MC_AlpenglowAbs --------------------------
(* Exhaustive safety checking of the abstract protocol: a static block tree, all
   Byzantine votes present from the start (every guard is monotone in `sent`), correct
   nodes vote in every order the rules allow. *)
EXTENDS AlpenglowAbs

CONSTANTS BlockTree      \* set of [s, h, par] (par = [s, h])

ByzVotes ==
  LET ids == {Id(b) : b \in BlockTree} IN
  {Vote(k, i.s, i.h, v) : k \in {"notar", "nf"}, i \in ids, v \in Byz}
  \cup {Vote(k, s, NoH, v) : k \in {"skip", "sf", "final"}, s \in 1..MaxSlot, v \in Byz}

Init == sent = ByzVotes /\ blocks = BlockTree
Next == NextCorrect
vars == <<sent, blocks>>
Spec == Init /\ [][Next]_vars

\* reachability witnesses (must be violated)
W_Finalized == FinalizedIds = {}
W_SlowFinalized == \A i \in FinalizedIds : FFCert(i.s, i.h)
W_SkipCert == \A s \in 1..MaxSlot : ~SkipCert(s)
W_NfVote == \A x \in sent : x.v \in Byz \/ x.k # "nf"
W_SfVote == \A x \in sent : x.v \in Byz \/ x.k # "sf"
W_ImplFinalized == ImplFinalizedIds \subseteq {GenesisB}
=============================================================================
