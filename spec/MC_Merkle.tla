----------------------------- MODULE MC_Merkle -----------------------------
(***************************************************************************)
(* Case enumeration for C15: every tree size 1..MaxLeaves, three leaf      *)
(* patterns (distinct, duplicated data, trailing empty leaves), every leaf *)
(* index, and for each: claimed indices in and beyond the tree's width     *)
(* (incl. i + m*2^h aliases), changed leaf, changed root, every single     *)
(* proof-element corruption, shortened / lengthened proofs, proofs of      *)
(* length 31..34.  TLC checks that the intended verifier agrees with the   *)
(* declarative meaning on every case and prints the case with the verdict. *)
(***************************************************************************)
EXTENDS Merkle, Json, TLCExt

CONSTANTS MaxLeaves, FarIndex     \* FarIndex: a multiple of every small tree width (2^20)

VARIABLE c
vars == <<c>>

Digit(k) == CHOOSE s \in {"0", "1", "2", "3", "4", "5", "6", "7", "8", "9", "10", "11", "12", "13", "14", "15", "16", "17"} : s = ToString(k)
DataDistinct(n) == [k \in 1..n |-> "d" \o Digit(k)]
DataDups(n) == [k \in 1..n |-> "d" \o Digit(k % 3)]
DataTrail(n) == [k \in 1..n |-> IF k > n - ((n + 2) \div 3) /\ n >= 2 THEN EmptyData ELSE "d" \o Digit(k)]

Trees == UNION {{DataDistinct(n), DataDups(n), DataTrail(n)} : n \in 1..MaxLeaves}

\* proof elements may also be given as the empty subtree of a height (for long proofs)
ElemTerm(e) == IF "empty" \in DOMAIN e THEN Empty(e.empty) ELSE Term(e)
RECURSIVE DeriveFromE(_, _, _, _)
DeriveFromE(node, j, proof, k) ==
  IF k > Len(proof) THEN node
  ELSE LET b == IF k - 1 < 31 THEN Bit(j, k - 1) ELSE 0
           t == ElemTerm(proof[k])
       IN DeriveFromE(IF b = 0 THEN HPair(node, t) ELSE HPair(t, node), j, proof, k + 1)

Min2(a, b) == IF a <= b THEN a ELSE b

EmptyElem(h) == [empty |-> h]
JunkElem(n) == [junk |-> n]

Case(data, i, j, leaf, rootOf, rootMode, proof, last, mut) ==
  [data |-> data, i |-> i, j |-> j, leaf |-> leaf, rootOf |-> rootOf, rootMode |-> rootMode,
   proof |-> proof, last |-> last, mut |-> mut]

ReplaceAt(s, k, e) == [x \in 1..Len(s) |-> IF x = k THEN e ELSE s[x]]
ExtendTo(s, n) == s \o [x \in 1..(n - Len(s)) |-> EmptyElem(Len(s) + x - 1)]

CasesOf(data, i) ==
  LET n == Len(data)
      h == Height(n)
      P == Proof(data, i)
      d == data[i + 1]
      w == Pow2(h)
      js == (0..Min2(4 * w, 40)) \cup {i + m * w : m \in 1..3} \cup {i + FarIndex}
      otherIdx == {x \in 0..(n - 1) : x # i}
  IN
  \* the proof the tree creates, and claimed indices in / beyond the width
  {Case(data, i, j, d, data, "tree", P, l, IF j = i THEN "none" ELSE "index") : j \in js, l \in BOOLEAN}
  \* changed leaf
  \cup {Case(data, i, i, lf, data, "tree", P, l, "leaf") :
          lf \in ({"zz", EmptyData} \cup {data[x + 1] : x \in otherIdx}) \ {d}, l \in BOOLEAN}
  \* changed root: another tree
  \cup {Case(data, i, i, d, r, "tree", P, l, "root") :
          r \in ({[data EXCEPT ![1] = "zz"], Append(data, "zz")}
                 \cup (IF n > 1 THEN {SubSeq(data, 1, n - 1)} ELSE {})), l \in BOOLEAN}
  \* every single proof element corrupted
  \cup UNION {{Case(data, i, i, d, data, "tree", ReplaceAt(P, k, e), l, "elem") :
                 e \in ({JunkElem(k), EmptyElem(k - 1)}
                        \cup {Proof(data, x)[k] : x \in otherIdx}) \ {P[k]},
                 l \in BOOLEAN} : k \in 1..h}
  \* proof shortened / lengthened (claimed index as is, and reduced modulo the new width)
  \cup (IF h >= 1 THEN {Case(data, i, j, d, data, "tree", SubSeq(P, 1, h - 1), l, "short") :
                          j \in {i, i % Pow2(h - 1)}, l \in BOOLEAN} ELSE {})
  \cup {Case(data, i, i, d, data, "tree", Append(P, e), l, "long") :
          e \in {EmptyElem(h), JunkElem(99)}, l \in BOOLEAN}
  \* long proofs against the root they derive themselves: only the length limit can reject
  \cup {Case(data, i, i, d, data, "derive", ExtendTo(P, len), l, "len") : len \in {31, 32, 33, 34}, l \in BOOLEAN}
  \cup {Case(data, i, i, d, data, "derive", ExtendTo(P, h + 1), l, "len") : l \in BOOLEAN}
  \* a GENUINE proof of maximal length (root derived from its 32 elements) with one more element appended:
  \* the extra element must invalidate it (it must not be ignored)
  \cup {Case(data, i, i, d, data, "prefix32", Append(ExtendTo(P, 32), e), l, "long32") :
          e \in {EmptyElem(32), JunkElem(99)}, l \in BOOLEAN}

ValidCases == UNION {UNION {CasesOf(data, i) : i \in 0..(Len(data) - 1)} : data \in Trees}

RootTerm(x) == IF x.rootMode = "tree" THEN Root(x.rootOf)
               ELSE IF x.rootMode = "prefix32" THEN DeriveFromE(HLeaf(x.leaf), x.j, SubSeq(x.proof, 1, 32), 1)
               ELSE DeriveFromE(HLeaf(x.leaf), x.j, x.proof, 1)

\* the intended verifier on a case (proof elements may be EmptyElem)
Width(x) == Len(x.proof) >= 31 \/ x.j < Pow2(Len(x.proof))
CheckC(x) ==
  /\ Len(x.proof) <= MaxHeightCoded
  /\ Width(x)
  /\ DeriveFromE(HLeaf(x.leaf), x.j, x.proof, 1) = RootTerm(x)
CheckAsCodedC(x) ==
  /\ Len(x.proof) <= MaxHeightCoded
  /\ DeriveFromE(HLeaf(x.leaf), x.j, x.proof, 1) = RootTerm(x)
CheckLastC(x) ==
  /\ CheckC(x)
  /\ \A k \in 1..Len(x.proof) :
       (k - 1 < 31 /\ Bit(x.j, k - 1) = 0) => ElemTerm(x.proof[k]) = Empty(k - 1)
Expected(x) == IF x.last THEN CheckLastC(x) ELSE CheckC(x)

\* declarative meaning (for proofs of length <= 30)
DeclC(x) ==
  LET h == Len(x.proof)  root == RootTerm(x) IN
  /\ x.j < Pow2(h)
  /\ Descend(root, h, x.j) = HLeaf(x.leaf)
  /\ \A k \in 1..h : ElemTerm(x.proof[k]) = SiblingOnPath(root, h, x.j, k - 1)
DeclLastC(x) ==
  /\ DeclC(x)
  /\ LET ls == LeavesOf(RootTerm(x), Len(x.proof))
     IN \A p \in (x.j + 2)..Len(ls) : ls[p] = HLeaf(EmptyData)

Init == c \in ValidCases
Next == UNCHANGED c

---------------------------------------------------------------------------
\* C15 on the spec
VerifyIff == Len(c.proof) <= 30 => (CheckC(c) <=> DeclC(c))
LastIff == Len(c.proof) <= 30 => (CheckLastC(c) <=> DeclLastC(c))
CreatedProofVerifies == c.mut = "none" => CheckC(c)
LengthLimit == Len(c.proof) > MaxHeightCoded => ~CheckC(c)
\* no verification succeeds for a leaf/index/root/proof that was altered
AlteredRejected ==
  (c.mut \in {"index", "leaf", "root", "elem", "short", "long"} /\ CheckC(c)) =>
     \* ... unless the alteration did not change the statement: the claimed leaf IS the
     \* j-th leaf of the tree with that root and the proof IS its path
     DeclC(c)

EmitCase == PrintT(<<"CASE", ToJson([c |-> c, exp |-> Expected(c)])>>)

\* witness: the index aliasing the pinned code had is inside the enumerated space
W_Aliasing == CheckAsCodedC(c) = CheckC(c)
W_LastTrue == ~(c.last /\ Expected(c))
W_LastFalseButPlainTrue == ~(c.last /\ ~Expected(c) /\ CheckC(c))
=============================================================================
