------------------------------ MODULE MC_Shred ------------------------------
(***************************************************************************)
(* Model checking of the erasure-coding part of Shred.tla (C11) and the    *)
(* enumeration of cases that are replayed into the real shredders.         *)
(*                                                                         *)
(* A "state" is one case and the invariants are the property evaluated on  *)
(* that case.  Three families, selected by INIT/NEXT of the cfg:           *)
(*   InitArith/Next : every coded length L, accepted or not (integers)     *)
(*   InitBytes/NextBytes : symbolic payloads (length x last 3 bytes)       *)
(*   InitCases/NextCases : shred + deshred cases (variant x slice x held   *)
(*               shape x failure injection); the initial states cut the    *)
(*               case space into seeds, the cases are their successors;    *)
(*               each is printed as a CASE line with the outcome the       *)
(*               specification demands.                                    *)
(*   InitHist/NextHist : histories of calls on ONE shredder object         *)
(*               (leader / receiver / slices of other shard sizes); every  *)
(*               complete history is printed as a HIST line.               *)
(***************************************************************************)
EXTENDS Shred, Json, TLCExt

CONSTANTS
  ArithMax,     \* arith family: L ranges over 0..ArithMax
  ByteLens,     \* bytes family: payload lengths
  SweepAll,     \* set of <<variant, hasParent>> for which EVERY data length is a case
  SweepExtra,   \* additional coded lengths (seeded sample) for the other pairs
  ShapeGrid,    \* TRUE: every (d, c) held shape; FALSE: boundary shapes only
  ShapeN,       \* data lengths used by the shape and injection families
  HistLen,      \* history family: number of calls served by one shredder object
  HistSizes     \* history family: slice size classes, subset of {"small", "mid", "max"}

VARIABLE cs
vars == <<cs>>
Next == FALSE /\ UNCHANGED cs      \* no transitions: a state is a case

Min2(a, b) == IF a <= b THEN a ELSE b
Max2(a, b) == IF a >= b THEN a ELSE b

---------------------------------------------------------------------------
(* arith *)
InitArith == cs \in [fam : {"arith"}, L : 0..ArithMax]

ArithInv ==
  cs.fam = "arith" =>
    IF ECRefused(cs.L) THEN cs.L >= ECMaxPadded
    ELSE ECArithOK(cs.L) /\ ECUnpadOK(cs.L)
\* the limit is exactly "one byte of padding must fit"
ArithLimit == cs.fam = "arith" => (ECRefused(cs.L) <=> cs.L + 1 > ECMaxPadded)
\* witnesses (must be violated): an irregular last-shreds buffer, the largest shard, a refusal
W_ArithIrregular == ~(cs.fam = "arith" /\ ~ECRefused(cs.L) /\ ECLastBytes(cs.L) > ECBlock /\ ECLastBytes(cs.L) > ECShardSize(cs.L))
W_ArithMaxShard == ~(cs.fam = "arith" /\ ~ECRefused(cs.L) /\ ECShardSize(cs.L) = ECMaxShard)
W_ArithRefused == ~(cs.fam = "arith" /\ ECRefused(cs.L))

---------------------------------------------------------------------------
(* bytes *)
Tails == {<<>>} \cup [1..1 -> ECBytes] \cup [1..2 -> ECBytes] \cup [1..3 -> ECBytes]
InitBytes == \E L \in ByteLens : cs = [fam |-> "bseed", L |-> L]
NextBytes == /\ cs.fam = "bseed"
             /\ \E t \in Tails : Len(t) <= cs.L /\ cs' = [fam |-> "bytes", L |-> cs.L, tail |-> t]
BytesPayload(L, t) == TLCEval([i \in 1..L |-> IF i > L - Len(t) THEN t[i - (L - Len(t))] ELSE ECOther])
BytesInv == cs.fam = "bytes" => ECBytesOK(BytesPayload(cs.L, cs.tail))
\* un-padding refuses a buffer without marker and the empty buffer (deshred's error paths)
BytesRejects ==
  cs.fam = "bytes" =>
    /\ ~ECUnpad(ECRepeat(ECZero, Min2(cs.L, 300))).ok
    /\ ~ECUnpad(BytesPayload(cs.L, cs.tail) \o <<ECOther>> \o ECRepeat(ECZero, 3)).ok

---------------------------------------------------------------------------
(* cases *)
Slots   == <<0, 1, 5, 1000000007>>
Indices == <<0, 1, 7, 1023>>
Fills   == <<"rand", "zero", "mark", "tailzero", "ones">>
MkSlice(n, par, k) ==
  [slot |-> Slots[(k % 4) + 1], index |-> Indices[((k \div 4) % 4) + 1], last |-> ((k \div 2) % 2 = 0),
   parent |-> IF par THEN "p" ELSE "none", n |-> n, fill |-> Fills[(k % 5) + 1]]

NMax(v, par) == ECMaxSlice(v) - ECSerializedLen(par, 0)            \* largest accepted data length
NOfL(v, par, L) == L - ECOverhead(v) - ECSerializedLen(par, 0)     \* data length giving coded length L

ClassL ==
  {9, 10, 25, 26, 48, 49, 50, 57, 58, 62, 63, 191, 192, 193, 194, 255, 256, 257, 2047, 2048, 2049}
  \cup (64..131)                                  \* every residue, shard size 4 (and the step to 6)
  \cup (4096..4159)                               \* every residue, last-shreds buffer = one shard
  \cup ((ECMaxPayload - 66)..(ECMaxPayload + 3))  \* every residue in the last block, and just above
  \cup {ECMaxPayload + ECBlock, ECMaxPayload + ECBlock + 1, 2 * ECMaxPadded + 9}

SweepN(v, par) ==
  IF <<v, par>> \in SweepAll THEN 0..(NMax(v, par) + 2)
  ELSE {0, 1, 2} \cup {n \in {NOfL(v, par, L) : L \in ClassL \cup SweepExtra} : n >= 0}

Pick2(v, d, c) == <<[lo |-> 0, hi |-> ECNumData(v) - 1, k |-> d],
                    [lo |-> ECNumData(v), hi |-> ECTotal - 1, k |-> c]>>

\* shapes used by the length sweep (one per case, cycling with n)
SweepShapes(v) ==
  LET D == ECNumData(v)  C == ECNumCoding(v)  h == D \div 2 IN
  << <<Min2(D, ECData), ECData - Min2(D, ECData)>>,      \* exactly enough, data first
     <<0, ECData>>,                                      \* exactly enough, coding only
     <<D, C>>,                                           \* everything
     <<h, ECData - h>>,                                  \* exactly enough, mixed
     <<Min2(D, ECData - 1), ECData - 1 - Min2(D, ECData - 1)>>,   \* one short
     <<h, ECData + 1 - h>>,                              \* one more than enough
     <<0, ECData - 1>>,                                  \* one short, coding only
     <<D, C - 1>>,                                       \* all but one
     <<h, C>>,
     <<0, 0>>,                                           \* nothing
     <<0, 1>> >>

EdgeTotals == {0, 1, 2, ECData - 2, ECData - 1, ECData, ECData + 1, ECData + 2, ECTotal - 1, ECTotal}
ShapeSet(v) ==
  LET D == ECNumData(v)  C == ECNumCoding(v) IN
  IF ShapeGrid THEN {<<d, c>> : d \in 0..D, c \in 0..C}
  ELSE UNION {{<<d, t - d>> : d \in {x \in {0, 1, D \div 2, D - 1, D, t - C, t - C + 1, t - 1, t} :
                                            x >= 0 /\ x <= D /\ x <= t /\ t - x <= C}} : t \in EdgeTotals}

\* positions whose kind differs between producer pv and consumer v lie in [XLo, XHi)
XLo(v, pv) == Min2(ECNumData(v), ECNumData(pv))
XHi(v, pv) == Max2(ECNumData(v), ECNumData(pv))
Pick3(v, pv, a, m, b) == <<[lo |-> 0, hi |-> XLo(v, pv) - 1, k |-> a],
                           [lo |-> XLo(v, pv), hi |-> XHi(v, pv) - 1, k |-> m],
                           [lo |-> XHi(v, pv), hi |-> ECTotal - 1, k |-> b]>>
RangeSize(p) == p.hi - p.lo + 1
XShapes(v, pv) ==
  LET A == XLo(v, pv)  M == XHi(v, pv) - XLo(v, pv)  B == ECTotal - XHi(v, pv) IN
  {s \in {<<Min2(A, 10), 0, Min2(B, ECData)>>,          \* enough, kinds agree everywhere
          <<A, 0, B>>,                                  \* everything that agrees
          <<Min2(A, 3), 0, Min2(B, ECData - 3)>>,       \* exactly enough (if the ranges allow)
          <<Min2(A, 5), 0, Min2(B, 20)>>,               \* too few
          <<Min2(A, 5), Min2(M, 1), Min2(B, 40)>>,      \* enough, one shred of the wrong kind
          <<0, Min2(M, 1), 0>>,                         \* a single shred of the wrong kind
          <<A, M, B>>} : TRUE}                          \* the producer's complete output

CaseBase(fam, v, pv, sl, pick, inj, f, sl2) ==
  [fam |-> fam, v |-> v, pv |-> pv, slice |-> sl, pick |-> pick, inj |-> inj, foreign |-> f, slice2 |-> sl2]

(* The case space is cut into seeds (initial states); the cases of a seed  *)
(* are its successors, so that TLC's workers share the enumeration.        *)
Chunks == 16
InitCases ==
  \/ \E v \in ECVariants, par \in BOOLEAN, j \in 0..(Chunks - 1) :
       cs = [fam |-> "seed", of |-> "sweep", v |-> v, par |-> par, j |-> j]
  \/ \E v \in ECVariants, n \in ShapeN, j \in 0..(Chunks - 1) :
       cs = [fam |-> "seed", of |-> "shape", v |-> v, n |-> n, j |-> j]
  \/ \E v \in ECVariants, pv \in ECVariants \cup {"mixsize", "mixroot"} :
       /\ pv # v
       /\ cs = [fam |-> "seed", of |-> "inject", v |-> v, pv |-> pv]

NextSweep ==
  /\ cs.of = "sweep"
  /\ \E n \in {x \in SweepN(cs.v, cs.par) : x % Chunks = cs.j} :
       LET v == cs.v
           sh == SweepShapes(v)[(n % Len(SweepShapes(v))) + 1] IN
       cs' = CaseBase("sweep", v, v, MkSlice(n, cs.par, n), Pick2(v, sh[1], sh[2]), "none", 0, ECNoSlice)

NextShape ==
  /\ cs.of = "shape"
  /\ \E sh \in {x \in ShapeSet(cs.v) : (x[1] + x[2]) % Chunks = cs.j} :
       LET v == cs.v  n == cs.n  par == ((sh[1] + sh[2]) % 2 = 1) IN
       /\ n <= NMax(v, par)
       /\ cs' = CaseBase("shape", v, v, MkSlice(n, par, sh[1] + 3 * sh[2] + n),
                         Pick2(v, sh[1], sh[2]), "none", 0, ECNoSlice)

NextXVariant ==
  /\ cs.of = "inject" /\ cs.pv \in ECVariants
  /\ \E n \in ShapeN : \E sh \in XShapes(cs.v, cs.pv) :
       /\ n <= NMax(cs.pv, FALSE)
       /\ cs' = CaseBase("inject", cs.v, cs.pv, MkSlice(n, FALSE, n + sh[1]),
                         Pick3(cs.v, cs.pv, sh[1], sh[2], sh[3]), "xvariant", 0, ECNoSlice)

\* shreds of a second slice of the same leader mixed in: another shard size / the same shard size
\* <<held, of which foreign>>
MixShapes == {<<ECData, 1>>, <<ECData, ECData \div 2>>, <<ECData, ECData - 1>>, <<ECData + 8, ECData \div 2 + 4>>,
              <<ECTotal - 2, ECData - 1>>, <<ECData - 1, 1>>, <<5, 2>>}
\* Two codewords are taken to differ in every shard; with random content that needs a few content
\* bytes in every data shard (MixWellFormed), hence data lengths of a few thousand bytes here.
MixN == {2990, 20000}
NextMix ==
  /\ cs.of = "inject" /\ cs.pv \in {"mixsize", "mixroot"}
  /\ \E n \in MixN, m \in MixShapes :
       LET v == cs.v  kind == cs.pv  h == m[1]  f == m[2]
           d == Min2(ECNumData(v), h \div 2)
           sl == MkSlice(n, TRUE, n + h)
           sl2 == IF kind = "mixsize" THEN [sl EXCEPT !.n = n + ECBlock] ELSE [sl EXCEPT !.fill = "other"]
       IN /\ n + ECBlock <= NMax(v, TRUE)
          /\ (kind = "mixsize" => h >= ECData)    \* below the threshold two checks race; left open here
          /\ cs' = CaseBase("inject", v, v, sl, Pick2(v, d, h - d), kind, f, sl2)

NextCases == cs.fam = "seed" /\ (NextSweep \/ NextShape \/ NextXVariant \/ NextMix)

---------------------------------------------------------------------------
(* Representatives of a case: which concrete positions are held.  The      *)
(* harness draws them at random; the specification's verdict may depend    *)
(* on the shape only, which TLC checks on two extreme representatives      *)
(* (lowest / highest positions of every range, foreign shreds first/last). *)
IsCase == cs.fam \in {"sweep", "shape", "inject"}
HeldRep(pick, r) ==
  UNION {IF r = 0 THEN pick[j].lo..(pick[j].lo + pick[j].k - 1)
                  ELSE (pick[j].hi - pick[j].k + 1)..pick[j].hi : j \in 1..Len(pick)}
Lowest(H, f)  == {i \in H : Cardinality({j \in H : j < i}) < f}
Highest(H, f) == {i \in H : Cardinality({j \in H : j > i}) < f}
CW(c) == TLCEval([w \in {"A", "B"} |-> IF w = "A" THEN ECSource(c.pv, c.slice) ELSE ECSource(c.pv, c.slice2)])
ArrRep(c, r) ==
  LET H == HeldRep(c.pick, r)
      F == IF r = 0 THEN Lowest(H, c.foreign) ELSE Highest(H, c.foreign)
  IN TLCEval([i \in ECPositions |-> IF i \notin H THEN ECNoShred
                                    ELSE IF i \in F THEN ECShredOf("B", i) ELSE ECShredOf("A", i)])
HeldCount(c) == c.pick[1].k + c.pick[2].k + (IF Len(c.pick) > 2 THEN c.pick[3].k ELSE 0)

\* what the harness compares, derived from a result (and the result of decoding again)
Summary(c, arr, res, res2) ==
  LET miss == ECPositions \ ECHeld(arr) IN
  IF ~res.ok THEN [ok |-> FALSE, err |-> res.err, after |-> "unchanged"]
  ELSE [ok |-> TRUE, err |-> "-", slice |-> res.slice, after |-> "full",
        regen_data |-> Cardinality({i \in miss : i < ECNumData(c.v)}),
        regen_coding |-> Cardinality({i \in miss : i >= ECNumData(c.v)}),
        again |-> IF c.inj # "none" THEN [run |-> FALSE]
                  ELSE IF res2.ok THEN [run |-> TRUE, ok |-> TRUE, slice |-> res2.slice]
                  ELSE [run |-> TRUE, ok |-> FALSE]]
SummaryRep(c, r) ==
  LET cw == CW(c)
      arr == ArrRep(c, r)
      res == ECDeshred(c.v, cw, arr)
      res2 == IF res.ok THEN ECDeshred(c.v, cw, ECForget(arr, res)) ELSE res
  IN Summary(c, arr, res, res2)

IsMix(c) == c.inj \in {"mixsize", "mixroot"}
Shredded(c) == ECShred(c.pv, c.slice).ok /\ (IsMix(c) => ECShred(c.pv, c.slice2).ok)
Expect(c) ==
  [shred |-> ECShred(c.pv, c.slice), held |-> HeldCount(c), ndata |-> ECNumData(c.pv),
   det |-> ECDeterministic(c.pv),
   deshred |-> IF Shredded(c) THEN [run |-> TRUE] @@ SummaryRep(c, 0) ELSE [run |-> FALSE]]
   @@ (IF IsMix(c) THEN [shred2 |-> ECShred(c.pv, c.slice2)] ELSE [nomix |-> TRUE])
CaseIn(c) == IF IsMix(c) THEN c
             ELSE [fam |-> c.fam, v |-> c.v, pv |-> c.pv, slice |-> c.slice, pick |-> c.pick, inj |-> c.inj, foreign |-> 0]

EmitCase == IsCase => PrintT(<<"CASE", ToJson([in |-> CaseIn(cs), exp |-> Expect(cs)])>>)

---------------------------------------------------------------------------
(* invariants over the cases *)
CaseWellFormed ==
  IsCase => /\ \A j \in 1..Len(cs.pick) : cs.pick[j].k >= 0 /\ cs.pick[j].k <= cs.pick[j].hi - cs.pick[j].lo + 1
            /\ cs.foreign <= HeldCount(cs)
            /\ HeldCount(cs) = Cardinality(HeldRep(cs.pick, 0))
            /\ cs.slice.n >= 0

MixWellFormed ==
  (IsCase /\ cs.inj \in {"mixsize", "mixroot"}) =>
     \A w \in {"A", "B"} : LET L == CW(cs)[w].len IN
        ~ECRefused(L) /\ ECShardSize(L) - ECPadLen(L) >= 8      \* content bytes in the last data shard

C11_Limit == IsCase => EC_LimitExact(cs.pv, cs.slice)
C11_ShardArith == (IsCase /\ Shredded(cs)) =>
                     /\ ECArithOK(CW(cs)["A"].len)
                     /\ ECShred(cs.pv, cs.slice).shard = ECShardSize(CW(cs)["A"].len)
\* the C11 predicates of Shred.tla on ECDeshred, for both representatives; and the verdict the
\* harness is given (computed on representative 0) is the verdict of the other one too
ReceiverOK(c) ==
    \A r \in {0, 1} :
      LET v == c.v
          cw == CW(c)
          arr == ArrRep(c, r)
          res == ECDeshred(v, cw, arr)
          res2 == IF res.ok THEN ECDeshred(v, cw, ECForget(arr, res)) ELSE res
      IN /\ res.err # "Unspecified"
         /\ EC_Threshold(v, cw, "A", arr, res)
         /\ EC_FewNeverReconstruct(arr, res)
         /\ EC_Restores(cw, "A", arr, res)
         /\ EC_ErrorUntouched(arr, res)
         /\ EC_ShortIsNotBlamed(v, cw, "A", arr, res)
         /\ EC_Again(arr, res, res2)
         /\ (c.inj # "none" => ~res.ok)           \* injected faults never yield a slice
         /\ (r = 1 => Summary(c, arr, res, res2) = SummaryRep(c, 0))
C11_Receiver == (IsCase /\ Shredded(cs)) => ReceiverOK(cs)

---------------------------------------------------------------------------
(* histories: one shredder object (the "node") serves HistLen calls, as    *)
(* leader (shred) and as receiver (deshred of another leader's shreds,     *)
(* enough of them or one short), with slices of different shard-size       *)
(* classes.  A genuine state machine: the state is the object's log and    *)
(* the steps so far, each step an ordinary case plus the role the node     *)
(* plays in it; the other role is played by an object used for nothing     *)
(* else.  The demanded outcome of every step is that of a fresh object.    *)
HistOps == {"shred", "deshred", "short"}
HistN(v, k) == CASE k = "small" -> 100 [] k = "mid" -> 5000 [] k = "max" -> NMax(v, FALSE)
HistCase(v, op, k, pos) ==
  LET D == ECNumData(v)
      tot == IF op = "short" THEN ECData - 1 ELSE IF op = "shred" THEN ECData ELSE ECData + 3 * pos
      d == Min2(D, 9 + 5 * pos)
  IN CaseBase("hist", v, v, MkSlice(HistN(v, k), FALSE, HistN(v, k) + pos), Pick2(v, d, tot - d), "none", 0, ECNoSlice)
InitHist == \E v \in ECVariants : cs = [fam |-> "hist", v |-> v, log |-> ECFresh, steps |-> <<>>]
NextHist ==
  /\ cs.fam = "hist" /\ Len(cs.steps) < HistLen
  /\ \E op \in HistOps, k \in HistSizes :
       LET c == HistCase(cs.v, op, k, Len(cs.steps)) IN
       cs' = [cs EXCEPT !.log = ECLogged(@, <<op, k>>),
                        !.steps = Append(@, [node |-> IF op = "shred" THEN "leader" ELSE "receiver",
                                             c |-> c, exp |-> Expect(c)])]
C11_History ==
  (cs.fam = "hist" /\ Len(cs.steps) > 0) =>
     LET st == cs.steps[Len(cs.steps)]
         c == st.c
         before == SubSeq(cs.log, 1, Len(cs.log) - 1)        \* what the node had served before this call
     IN /\ Shredded(c) /\ ReceiverOK(c)
        /\ EC_InstanceIndependent(before, c.v, CW(c), c.slice, ArrRep(c, 0))
        /\ st.exp.shred = ECShredOn(before, c.v, c.slice)
        /\ st.exp.deshred = [run |-> TRUE] @@ SummaryRep(c, 0)
EmitHist ==
  (cs.fam = "hist" /\ Len(cs.steps) = HistLen) =>
     PrintT(<<"HIST", ToJson([v |-> cs.v,
                              steps |-> [i \in 1..Len(cs.steps) |->
                                           [node |-> cs.steps[i].node, in |-> CaseIn(cs.steps[i].c),
                                            exp |-> cs.steps[i].exp]]])>>)
\* witness (must be violated): leader, receiver of another shard size, leader again
W_HistPattern ==
  ~(cs.fam = "hist" /\ Len(cs.log) >= 3 /\
      \E i \in 1..(Len(cs.log) - 2) :
         /\ cs.log[i][1] = "shred" /\ cs.log[i + 1][1] = "deshred" /\ cs.log[i + 2][1] = "shred"
         /\ cs.log[i][2] = cs.log[i + 2][2] /\ cs.log[i][2] # cs.log[i + 1][2])

\* witnesses (must be violated)
W_CaseOk == ~(IsCase /\ Shredded(cs) /\ SummaryRep(cs, 0).ok)
W_CaseRefused == ~(IsCase /\ ~ECShred(cs.pv, cs.slice).ok)
W_CaseUndecodable == ~(IsCase /\ Shredded(cs) /\ SummaryRep(cs, 0).err = "Undecodable")
W_CaseLayout == ~(IsCase /\ Shredded(cs) /\ SummaryRep(cs, 0).err = "InvalidLayout")
=============================================================================
