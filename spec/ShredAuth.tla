----------------------------- MODULE ShredAuth -----------------------------
(***************************************************************************)
(* C12 - shred authentication: the commitment ALGEBRA of                   *)
(*   src/shredder.rs            Shred, ShredPayload, SliceCommitment       *)
(*   src/shredder/validated_shred.rs   ValidatedShred::try_new             *)
(*   src/consensus/blockstore/slot_block_data.rs   BlockData::add_shred    *)
(*   src/consensus/blockstore.rs  add_shred_from_dissemination, flagging   *)
(*   src/consensus.rs           handle_disseminator_shred (cache lookup)   *)
(* over IDEAL signatures (a signature is the pair <<signer, message>>,     *)
(* nobody can produce <<k, m>> unless k signed m) and the IDEAL hash of    *)
(* Merkle.tla (hashes are terms; equal hashes <=> equal terms).            *)
(*                                                                         *)
(* A shred on the wire is a record of DESCRIPTORS (so that every abstract  *)
(* piece has a concrete counterpart the replay driver can build):          *)
(*   tag      "data" | "coding" | "invalid"   (enum tag, first wire bytes) *)
(*   slot, slice, isLast                      (SliceHeader)                *)
(*   index                                    (ShredIndex, a Nat)          *)
(*   payload  [c, i]  = the bytes of shard i of slice content c            *)
(*            [junk]  = bytes that are nobody's shard                      *)
(*   proof    sequence of  [c, i, k] = k-th element of the Merkle path of  *)
(*            shard i in the tree of content c | [junk] | [empty |-> h]    *)
(*   sig      [by, over]  by \in {"L" (the slot's leader), "X" (any other  *)
(*            key), "nobody" (bytes that are no signature)}, over = the    *)
(*            slice [slot, slice, isLast, content] whose commitment was    *)
(*            signed                                                       *)
(* The Merkle tree of a slice covers the shard BYTES only; slot, slice     *)
(* index and last flag are bound by the signed commitment                  *)
(* slot || slice || is_last || root; the tag is bound by nothing.          *)
(***************************************************************************)
EXTENDS Merkle, Integers

CONSTANTS
  Total,        \* TOTAL_SHREDS (64; 4 in the exhaustively explored block-store model)
  Data,         \* DATA_SHREDS  (32; 2)
  MaxSlices,    \* MAX_SLICES_PER_BLOCK (1024): the decoder refuses slice indices >= MaxSlices
  Contents,     \* names of slice contents (payload byte strings of whole slices)
  AsCoded       \* FALSE: intended behaviour (the property holds);
                \* TRUE: the block store as coded in the pinned tree (finding F9), used only to
                \*       let TLC exhibit the defect at design level - never by the conformance oracle

H == Height(Total)
Positions == 0..(Total - 1)
KindAt(i) == IF i < Data THEN "data" ELSE "coding"      \* RegularShredder: data shreds first

---------------------------------------------------------------------------
(* Slice contents.  All shards of a content are pairwise different, except *)
(* for content "Z" (a slice of zero bytes): its inner data shards are      *)
(* byte-identical, so some index changes yield another GENUINE shred.      *)
ZSame == 1..(Data - 2)
ShardOf(c, i) == IF c = "Z" /\ i \in ZSame THEN "Z-same" ELSE c \o "-" \o ToString(i)
Shards(c) == [k \in 1..Total |-> ShardOf(c, k - 1)]

RootFn == [c \in Contents |-> Root(Shards(c))]
PathFn == [c \in Contents |-> [i \in Positions |->
             LET P == Proof(Shards(c), i) IN [k \in 1..H |-> Term(P[k])]]]

PayloadStr(p) == IF "junk" \in DOMAIN p THEN "junk-" \o ToString(p.junk) ELSE ShardOf(p.c, p.i)
ElemTerm(e) == IF "junk" \in DOMAIN e THEN Junk(e.junk)
               ELSE IF "empty" \in DOMAIN e THEN Empty(e.empty)
               ELSE PathFn[e.c][e.i][e.k]
PathD(c, i) == [k \in 1..H |-> [c |-> c, i |-> i, k |-> k]]
ProofTerms(w) == [k \in 1..Len(w.proof) |-> ElemTerm(w.proof[k])]

---------------------------------------------------------------------------
(* Slices, commitments, signatures *)
NoCommit == [none |-> TRUE]
NoSlice == [none |-> TRUE]
\* SliceCommitment::new(header, root)
Commit(sl) == [slot |-> sl.slot, slice |-> sl.slice, isLast |-> sl.isLast, root |-> RootFn[sl.content]]
Sig(k, sl) == [by |-> k, over |-> sl]
NoSig == [by |-> "nobody", over |-> NoSlice]
\* Signature::verify_bytes(msg, pk)
Verify(sig, msg, pk) == sig.by = pk /\ sig.by # "nobody" /\ Commit(sig.over) = msg

\* the shred the shredder of key k outputs for position i of slice sl
HonestShred(sl, i, k) ==
  [tag |-> KindAt(i), slot |-> sl.slot, slice |-> sl.slice, isLast |-> sl.isLast, index |-> i,
   payload |-> [c |-> sl.content, i |-> i], proof |-> PathD(sl.content, i), sig |-> Sig(k, sl)]

---------------------------------------------------------------------------
(* The decoder (wincode SchemaRead of Shred): enum tag, ShredIndex < TOTAL_SHREDS and          *)
(* SliceIndex < MAX_SLICES_PER_BLOCK are enforced; nothing else.  In particular a shred index  *)
(* index + k*64 does not exist after decoding, so Shred::slice_root() (derive_root, which has  *)
(* no width check of its own) is only ever applied to indices < 64 = 2^len(honest path).       *)
Decodable(w) == w.tag \in {"data", "coding"} /\ w.index < Total /\ w.slice < MaxSlices

\* MerkleTree::derive_hash_root over terms
RECURSIVE DeriveT(_, _, _, _)
DeriveT(node, j, terms, k) ==
  IF k > Len(terms) THEN node
  ELSE DeriveT(IF Bit(j, k - 1) = 0 THEN HPair(node, terms[k]) ELSE HPair(terms[k], node), j, terms, k + 1)
\* Shred::slice_root()
DerivedRoot(w) == DeriveT(HLeaf(PayloadStr(w.payload)), w.index, ProofTerms(w), 1)
\* SliceCommitment::new(&shred.payload().header, &shred.slice_root())
CommitmentOf(w) == [slot |-> w.slot, slice |-> w.slice, isLast |-> w.isLast, root |-> DerivedRoot(w)]

(* ValidatedShred::try_new(shred, cached_commitment, pk), implementation-shaped *)
TryNew(w, cached, pk) ==
  LET msg == CommitmentOf(w) IN
  IF cached # NoCommit /\ cached = msg THEN "Ok"                   \* shortcut: no signature check
  ELSE IF Verify(w.sig, msg, pk)
       THEN (IF cached = NoCommit THEN "Ok" ELSE "Equivocation")
       ELSE "InvalidSignature"

\* bytes off the wire -> verdict
Receive(w, cached, pk) == IF ~Decodable(w) THEN "Undecodable" ELSE TryNew(w, cached, pk)

---------------------------------------------------------------------------
(* Declarative meaning *)
\* the payload is the index-th leaf of the tree with that root and the proof is its path
Proven(w, root) ==
  LET h == Len(w.proof) IN
  /\ h <= 30
  /\ w.index < Pow2(h)
  /\ Descend(root, h, w.index) = HLeaf(PayloadStr(w.payload))
  /\ \A k \in 1..h : ElemTerm(w.proof[k]) = SiblingOnPath(root, h, w.index, k - 1)
\* commitment cm speaks about exactly this shred's header and proves its payload at its index
Matches(w, cm) == cm.slot = w.slot /\ cm.slice = w.slice /\ cm.isLast = w.isLast /\ Proven(w, cm.root)

(* ValidShred: the shred carries pk's signature over a commitment that matches it; the          *)
(* documented shortcut: a cached commitment that matches it replaces the signature check.       *)
SignedMatch(w, pk) == w.sig.by = pk /\ w.sig.by # "nobody" /\ Matches(w, Commit(w.sig.over))
ValidShred(w, cached, pk) ==
  IF cached # NoCommit /\ Matches(w, cached) THEN TRUE
  ELSE cached = NoCommit /\ SignedMatch(w, pk)
EquivocationProof(w, cached, pk) == cached # NoCommit /\ ~Matches(w, cached) /\ SignedMatch(w, pk)

\* "accepted as authentic for the leader": the leader signed exactly slot, slice, flag and a root
\* under which the payload is proven at the shred's index (signed: the slices the leader signed)
Authentic(w, signed) == \E sl \in signed : Matches(w, Commit(sl))
\* byte-identical (up to the unbound tag and signature bytes) to a shred the leader produced
Genuine(w, signed) ==
  \E sl \in signed : \E i \in Positions :
     LET g == HonestShred(sl, i, "L") IN
     /\ w.slot = g.slot /\ w.slice = g.slice /\ w.isLast = g.isLast /\ w.index = g.index
     /\ PayloadStr(w.payload) = PayloadStr(g.payload) /\ ProofTerms(w) = ProofTerms(g)

\* unforgeability: whatever carries the leader's signature was signed by the leader
SigWellFormed(w, signed) == w.sig.by = "L" => w.sig.over \in signed

---------------------------------------------------------------------------
(* The block store of ONE slot (SlotBlockData + BlockData.add_shred, dissemination path).      *)
(*   cache     commitment_cache: slice -> commitment | NoCommit                                 *)
(*   last      last_slice (-1: unknown)                                                         *)
(*   stored    shreds: set of <<slice, index, kindOk>>                                          *)
(*   done      slices (reconstructed slices); complete: `completed`                             *)
(*   misbehaved  leader_misbehaved                                                              *)
(*   acc       history: commitments of the shreds ever stored, per slice                        *)
(* All slice CONTENTS are well-formed here (decodable payload, parent in the first slice only): *)
(* malformed contents of a misbehaving leader belong to C13.                                    *)
BsInit(slices) ==
  [cache |-> [s \in slices |-> NoCommit], last |-> -1, stored |-> {}, done |-> {}, complete |-> FALSE,
   misbehaved |-> FALSE, acc |-> [s \in slices |-> {}]]

Out(b, ret, ev) == [bs |-> b, ret |-> ret, events |-> ev]
\* Err(Equivocation | InvalidShred) -> flag_leader_misbehavior -> InvalidBlock (once)
Flag(b, ret) == Out([b EXCEPT !.misbehaved = TRUE], ret, <<"InvalidBlock">>)
KindOk(w) == w.tag = KindAt(w.index)
StoredOf(b, s) == {p \in b.stored : p[1] = s}

\* try_reconstruct_slice + try_reconstruct_block
Reconstruct(b, s) ==
  IF b.complete \/ s \in b.done THEN Out(b, "Ok", <<>>)
  ELSE IF AsCoded /\ \E p \in StoredOf(b, s) : ~p[3]
       THEN Flag(b, "InvalidShred")        \* as coded: ValidatedShreds::try_new -> InvalidLayout
  ELSE IF Cardinality({p[2] : p \in StoredOf(b, s)}) < Data THEN Out(b, "Ok", <<>>)
  ELSE LET b4 == [b EXCEPT !.done = @ \cup {s},
                           !.stored = @ \cup {<<s, i, TRUE>> : i \in Positions \ {p[2] : p \in StoredOf(b, s)}}]
       IN IF b4.last # -1 /\ Cardinality(b4.done) = b4.last + 1
          THEN Out([b4 EXCEPT !.complete = TRUE, !.done = {}], "Ok", <<"Block">>)
          ELSE Out(b4, "Ok", <<>>)

(* add_shred_from_dissemination(validated shred w) *)
AddShred(bs, w) ==
  IF bs.misbehaved THEN Out(bs, "InvalidShred", <<>>)                 \* refused, already flagged
  ELSE IF ~AsCoded /\ ~KindOk(w) THEN Out(bs, "Dropped", <<>>)        \* INTENDED: neither stored nor held against the leader
  ELSE
  LET cm == CommitmentOf(w)
      cached == bs.cache[w.slice]
  IN
  IF cached # NoCommit /\ cached # cm THEN Flag(bs, "Equivocation")
  ELSE
  LET b1 == [bs EXCEPT !.cache[w.slice] = cm]
      mark == b1.last = -1 /\ w.isLast
      b2 == IF mark THEN [b1 EXCEPT !.last = w.slice,
                                     !.stored = {p \in @ : p[1] <= w.slice},
                                     !.done = {s \in @ : s <= w.slice}]
            ELSE b1
      consistent == \/ b1.last = -1
                    \/ (w.slice < b1.last /\ ~w.isLast)
                    \/ (w.slice = b1.last /\ w.isLast)
      \* a slice beyond the one now declared last was already accepted (either arrival order is reported)
      laterKnown == mark /\ \E s \in DOMAIN b1.cache : s > w.slice /\ b1.cache[s] # NoCommit
  IN
  IF laterKnown THEN Flag(b1, "Equivocation")
  ELSE IF ~consistent THEN Flag(b1, "Equivocation")
  ELSE IF \E p \in b2.stored : p[1] = w.slice /\ p[2] = w.index THEN Out(b2, "Duplicate", <<>>)
  ELSE
  LET first == b2.stored = {}
      b3 == [b2 EXCEPT !.stored = @ \cup {<<w.slice, w.index, KindOk(w)>>},
                       !.acc[w.slice] = @ \cup {cm}]
  IN IF first THEN Out(b3, "Ok", <<"FirstShred">>) ELSE Reconstruct(b3, w.slice)

(* One shred arriving at a node: decode, look the cached commitment up (useCache: the message  *)
(* loop does; FALSE models a caller that validated without the cache), validate, ingest.       *)
NodeStep(bs, w, useCache) ==
  IF ~Decodable(w) THEN [bs |-> bs, verdict |-> "Undecodable", ret |-> "-", events |-> <<>>]
  ELSE LET v == TryNew(w, IF useCache THEN bs.cache[w.slice] ELSE NoCommit, "L") IN
       IF v # "Ok" THEN [bs |-> bs, verdict |-> v, ret |-> "-", events |-> <<>>]
       ELSE LET o == AddShred(bs, w) IN [bs |-> o.bs, verdict |-> v, ret |-> o.ret, events |-> o.events]
=============================================================================
