------------------------------ MODULE MC_Auth ------------------------------
(***************************************************************************)
(* Case enumeration for C09: every honest message of a small epoch and     *)
(* every adversarial alteration of it (single mutations; pairs of          *)
(* mutations when Depth = 2; the full product of vote fields), each with   *)
(* the verdict of the declarative predicates AdmitVote / AdmitCert.        *)
(* TLC checks the invariants below on every case and prints every case as  *)
(* a CASE line; the harness replays the cases into                         *)
(* ValidatedVote::try_new / ValidatedCert::try_new with real BLS keys.     *)
(*                                                                         *)
(* One state = one case (see Init / Next below).                           *)
(***************************************************************************)
EXTENDS Auth, Json, TLC, TLCExt

CONSTANTS
  BaseSlot,     \* slot of the unaltered messages
  BaseHash,     \* hash of the unaltered messages
  OutIdx,       \* signer indices outside the epoch that are tried (>= N)
  Depth,        \* 1: single mutations of certificates; 2: also pairs
  Overlap,      \* TRUE: base certificates include signer sets present in both halves
  VoteProduct,  \* TRUE: enumerate the full product of vote fields (all multi-field alterations)
  SampleMod,    \* pairs of alterations (d = 2) are all CHECKED; they are PRINTED for replay when
  SampleRes     \* fingerprint % SampleMod = SampleRes (SampleMod = 1: all of them)

VARIABLE cs
vars == <<cs>>

M(label, cls, msg) == [label |-> label, cls |-> cls, msg |-> msg]

\* classes:
\*   same    the honest message itself                     -> must be admitted
\*   below   honest construction, signers short of the threshold -> must be rejected
\*   stake   only the declared stake figure differs        -> must be admitted
\*   break   the alteration changes the signed meaning     -> must be rejected
\*   resign  another honest construction (other signer set)-> verdict by the predicates
\*   retag   kind changed among notar / ff / nf            -> verdict by the predicates
\*   any     composition of alterations                    -> verdict by the predicates

---------------------------------------------------------------------------
(* votes *)
HashChoicesV(h, k2) ==
  IF VoteHasHash(k2) THEN (IF h # NoHash THEN {h} ELSE {BaseHash}) ELSE {NoHash}

VotePayloadOf(m) == Payload(m.k, m.s, m.h)

\* payloads that differ from p in one coordinate (kind, slot or hash)
NearPayloads(p) ==
  LET hh == IF p.h = NoHash THEN BaseHash ELSE p.h IN
  {Payload(k2, p.s, hh) : k2 \in VoteKinds \ {p.k}}
    \cup {[p EXCEPT !.s = s2] : s2 \in Slots \ {p.s}}
    \cup (IF p.h = NoHash THEN {} ELSE {[p EXCEPT !.h = h2] : h2 \in Hashes \ {p.h}})

VoteMuts(b) ==
  LET p == VotePayloadOf(b) IN
  {M("id", "same", b)}
    \cup UNION {{M("kind", "break", [b EXCEPT !.k = k2, !.h = h2]) : h2 \in HashChoicesV(b.h, k2)}
                 : k2 \in VoteKinds \ {b.k}}
    \cup {M("slot", "break", [b EXCEPT !.s = s2]) : s2 \in Slots \ {b.s}}
    \cup (IF b.h = NoHash THEN {}
          ELSE {M("hash", "break", [b EXCEPT !.h = h2]) : h2 \in Hashes \ {b.h}})
    \cup {M("signer", "break", [b EXCEPT !.v = v2]) : v2 \in (Vals \cup OutIdx) \ {b.v}}
    \cup {M("sigPayload", "break", [b EXCEPT !.sig = Sig(b.v, q)]) : q \in Payloads \ {p}}
    \cup {M("sigBy", "break", [b EXCEPT !.sig = Sig(j, p)]) : j \in (Vals \cup {Foreign}) \ {b.v}}
    \cup {M("sigBytes", "break", [b EXCEPT !.sig = Sig(Garbled, p)])}
    \cup {M("sigTorsion", "break", [b EXCEPT !.sig = Sig(Torsion, p)])}

VoteBases == {MakeVote(k, BaseSlot, BaseHash, v) : k \in VoteKinds, v \in Vals}

VoteBaseCases ==
  {[t |-> "vote", label |-> "id", cls |-> "same", d |-> 0, msg |-> b] : b \in VoteBases}

\* every combination of claimed (kind, slot, hash, signer) with every signature of the universe
VoteProductCases ==
  IF ~VoteProduct THEN {}
  ELSE LET claims == {Payload(k, s, h) : k \in VoteKinds, s \in Slots, h \in Hashes}
           sigs == {Sig(j, q) : j \in Vals \cup {Foreign}, q \in Payloads}
       IN {[t |-> "vote", label |-> "product", cls |-> "any", d |-> 2,
            msg |-> [k |-> c.k, s |-> c.s, h |-> c.h, v |-> v, sig |-> sg]]
            : c \in claims, v \in Vals \cup OutIdx, sg \in sigs}

---------------------------------------------------------------------------
(* certificates *)
HalfOf(c, X) == IF X = "a" THEN c.a ELSE c.b
OtherName(X) == IF X = "a" THEN "b" ELSE "a"
SetHalf(c, X, hf) == IF X = "a" THEN [c EXCEPT !.a = hf] ELSE [c EXCEPT !.b = hf]
HalfNames(k) == IF TwoHalves(k) THEN {"a", "b"} ELSE {"a"}
HalfPayload(c, X) == Payload(HalfKinds(c.k)[IF X = "a" THEN 1 ELSE 2], c.s, c.h)

LenChoices == {L \in {N - 1, N + 1, N + 64} : L >= 0}

\* a half without its signer i (honest re-aggregation); an emptied half disappears where the
\* wire format allows it
WithoutSigner(c, X, hf, p, i) ==
  LET S == (hf.mask \ {i}) \cap Vals IN
  IF S = {} /\ ~TwoHalves(c.k) THEN EmptyHalf ELSE MakeHalf(S, p)

HalfMuts(c, X) ==
  LET hf == HalfOf(c, X)
      p  == HalfPayload(c, X)
      oth == HalfOf(c, OtherName(X))
  IN
  IF ~hf.p
  THEN {M("addHalf", "resign", SetHalf(c, X, MakeHalf({i}, p))) : i \in Vals}
         \cup {M("emptyHalf", "break", SetHalf(c, X, EmptyHalf))}
  ELSE
    \* bitmask altered, aggregate untouched
    {M("maskAdd", "break", SetHalf(c, X, [hf EXCEPT !.mask = @ \cup {i}])) : i \in (0..(hf.len - 1)) \ hf.mask}
    \cup {M("maskDel", "break", SetHalf(c, X, [hf EXCEPT !.mask = @ \ {i}])) : i \in hf.mask}
    \* aggregate altered, bitmask untouched
    \cup {M("bagAdd", "break", SetHalf(c, X, [hf EXCEPT !.bag = @ \cup {Sig(i, p)}])) : i \in Vals \ hf.mask}
    \cup {M("bagDel", "break", SetHalf(c, X, [hf EXCEPT !.bag = @ \ {Sig(i, p)}, !.dup = @ \ {Sig(i, p)}])) : i \in hf.mask}
    \cup {M("bagDup", "break", SetHalf(c, X, [hf EXCEPT !.dup = @ \cup {sg}])) : sg \in hf.bag \ hf.dup}
    \cup {M("bagForeign", "break", SetHalf(c, X, [hf EXCEPT !.bag = @ \cup {Sig(Foreign, p)}]))}
    \cup {M("sigBytes", "break", SetHalf(c, X, [hf EXCEPT !.bag = @ \cup {Sig(Garbled, p)}]))}
    \* the aggregate replaced by itself plus a low-order point outside the signature group
    \cup {M("sigTorsion", "break", SetHalf(c, X, [hf EXCEPT !.bag = @ \cup {Sig(Torsion, p)}]))}
    \* one signer's signature replaced by the same signer's signature over another kind / slot / hash
    \cup UNION {{M("sigPayload", "break",
                   SetHalf(c, X, [hf EXCEPT !.bag = (@ \ {Sig(i, p)}) \cup {Sig(i, q)}, !.dup = @ \ {Sig(i, p)}]))
                   : q \in NearPayloads(p)} : i \in hf.mask \cap Vals}
    \* the whole aggregate taken from votes of another kind / slot / hash
    \cup {M("aggPayload", "break", SetHalf(c, X, [hf EXCEPT !.bag = {Sig(i, q) : i \in hf.mask \cap Vals}, !.dup = {}]))
            : q \in NearPayloads(p)}
    \* one signer's signature replaced by somebody else's (a validator not marked, or a foreign key)
    \cup UNION {{M("sigBy", "break",
                   SetHalf(c, X, [hf EXCEPT !.bag = (@ \ {Sig(i, p)}) \cup {Sig(j, p)}, !.dup = @ \ {Sig(i, p)}]))
                   : j \in (Vals \ hf.mask) \cup {Foreign}} : i \in hf.mask \cap Vals}
    \* bitmask length differs from the validator count
    \cup {M("len", "break", SetHalf(c, X, [hf EXCEPT !.len = L, !.mask = @ \cap (0..(L - 1))])) : L \in LenChoices}
    \cup {M("lenBit", "break", SetHalf(c, X, [hf EXCEPT !.len = N + 1, !.mask = @ \cup {N}]))}
    \* honest re-aggregations with another signer set (signer sets +-1 around the thresholds;
    \* a validator may end up in both halves)
    \cup {M("addSigner", "resign", SetHalf(c, X, MakeHalf((hf.mask \cap Vals) \cup {i}, p))) : i \in Vals \ hf.mask}
    \cup {M("delSigner", "resign", SetHalf(c, X, WithoutSigner(c, X, hf, p, i))) : i \in hf.mask}
    \cup UNION {{M("replSigner", "resign", SetHalf(c, X, MakeHalf(((hf.mask \ {i}) \cap Vals) \cup {j}, p)))
                   : j \in Vals \ hf.mask} : i \in hf.mask}
    \cup (IF TwoHalves(c.k) THEN {M("dropHalf", "resign", SetHalf(c, X, NoHalf))} ELSE {})
    \cup {M("emptyHalf", "break", SetHalf(c, X, EmptyHalf))}
    \* signer i with its signature moved into the other half without re-signing
    \cup (IF ~TwoHalves(c.k) THEN {}
          ELSE {M("moveSig", "break",
                  LET src == WithoutSigner(c, X, hf, p, i)
                      dst == IF oth.p
                             THEN [oth EXCEPT !.mask = (@ \cup {i}) \cap (0..(oth.len - 1)), !.bag = @ \cup {Sig(i, p)},
                                              !.dup = @ \cup (oth.bag \cap {Sig(i, p)})]
                             ELSE [p |-> TRUE, len |-> N, mask |-> {i}, bag |-> {Sig(i, p)}, dup |-> {}]
                  IN SetHalf(SetHalf(c, X, src), OtherName(X), dst)) : i \in hf.mask \cap Vals})

HashChoicesC(h, k2) ==
  IF CertHasHash(k2) THEN (IF h # NoHash THEN {h} ELSE {BaseHash}) ELSE {NoHash}

\* halves of a certificate re-tagged as kind k2: all ways of keeping the aggregates
RetagHalves(c, k2) ==
  LET present == {X \in {"a", "b"} : HalfOf(c, X).p} IN
  IF TwoHalves(c.k) = TwoHalves(k2) THEN {<<c.a, c.b>>}
  ELSE IF TwoHalves(k2) THEN {<<c.a, NoHalf>>, <<NoHalf, c.a>>}
  ELSE IF present = {} THEN {<<EmptyHalf, NoHalf>>}
  ELSE {<<HalfOf(c, X), NoHalf>> : X \in present}

RetagClass(k, k2) == IF {k, k2} \subseteq {"notar", "ff", "nf"} THEN "retag" ELSE "break"

\* HugeStake stands for u64::MAX on the wire
HugeStake == 2000000000
StakeChoices(c) ==
  {0, IF c.stake < HugeStake THEN c.stake + 1 ELSE 1, Total, Total + 7, HugeStake} \ {c.stake}

WholeMuts(c) ==
  UNION {UNION {{M("kind", RetagClass(c.k, k2), [c EXCEPT !.k = k2, !.h = h2, !.a = hv[1], !.b = hv[2]])
                   : hv \in RetagHalves(c, k2)} : h2 \in HashChoicesC(c.h, k2)}
           : k2 \in CertKinds \ {c.k}}
    \cup {M("slot", "break", [c EXCEPT !.s = s2]) : s2 \in Slots \ {c.s}}
    \cup (IF c.h = NoHash THEN {}
          ELSE {M("hash", "break", [c EXCEPT !.h = h2]) : h2 \in Hashes \ {c.h}})
    \cup {M("stake", "stake", [c EXCEPT !.stake = x]) : x \in StakeChoices(c)}
    \cup (IF TwoHalves(c.k) /\ (c.a.p \/ c.b.p)
          THEN {M("swapHalves", "break", [c EXCEPT !.a = c.b, !.b = c.a]),
                M("noHalves", "break", [c EXCEPT !.a = NoHalf, !.b = NoHalf]),
                M("emptyHalves", "break", [c EXCEPT !.a = EmptyHalf, !.b = EmptyHalf])}
          ELSE {})

CertMuts(c) == WholeMuts(c) \cup UNION {HalfMuts(c, X) : X \in HalfNames(c.k)}

\* honest constructions from every signer set: valid ones ("same") and under-backed ones ("below")
SignerSplits(k) ==
  {<<A, B>> \in (SUBSET Vals) \X (SUBSET Vals) :
     /\ Constructible(k, A, B)
     /\ (Overlap \/ A \cap B = {})}

HonestCases ==
  UNION {{[t |-> "cert", label |-> "honest",
           cls |-> IF Backed(k, ab[1], ab[2]) THEN "same" ELSE "below", d |-> 0,
           msg |-> MakeCert(k, BaseSlot, BaseHash, ab[1], ab[2])] : ab \in SignerSplits(k)}
          : k \in CertKinds}

---------------------------------------------------------------------------
(* One state = one case.  root -> honest messages (d = 0) -> single alterations (d = 1)       *)
(* -> pairs of alterations (d = 2, when Depth = 2; label and class are dropped so that equal  *)
(* results coincide).                                                                        *)
Root == [t |-> "root", label |-> "root", cls |-> "root", d |-> 0, msg |-> 0]

Init == cs = Root

Next ==
  \/ /\ cs.t = "root"
     /\ \/ cs' \in VoteBaseCases
        \/ cs' \in VoteProductCases
        \/ cs' \in HonestCases
  \/ /\ cs.t = "vote" /\ cs.label = "id"
     /\ \E x \in VoteMuts(cs.msg) :
          /\ x.label # "id"
          /\ cs' = [t |-> "vote", label |-> x.label, cls |-> x.cls, d |-> 1, msg |-> x.msg]
  \/ /\ cs.t = "cert" /\ cs.label = "honest" /\ cs.cls = "same"
     /\ \E x \in CertMuts(cs.msg) :
          cs' = [t |-> "cert", label |-> x.label, cls |-> x.cls, d |-> 1, msg |-> x.msg]
  \/ /\ Depth >= 2 /\ cs.t = "cert" /\ cs.d = 1
     /\ \E x \in CertMuts(cs.msg) :
          cs' = [t |-> "cert", label |-> "pair", cls |-> "any", d |-> 2, msg |-> x.msg]

Admit(c) == IF c.t = "vote" THEN AdmitVote(c.msg) ELSE AdmitCert(c.msg)

\* stake that a per-half (non-distinct) sum would reach: only reported, to let the check make sure
\* that the double-counting boundary is among the cases
HalfSum(c) == StakeOf(PresentMask(c.a)) + StakeOf(PresentMask(c.b))

Info(c) ==
  IF c.t = "vote" THEN [oor |-> c.msg.v \notin Vals, dc |-> FALSE, mid |-> FALSE]
  ELSE [oor |-> FALSE,
        \* a per-half sum meets the threshold although the distinct stake does not
        dc |-> /\ Met(Threshold(c.msg.k), HalfSum(c.msg))
               /\ ~Met(Threshold(c.msg.k), StakeOf(CertSigners(c.msg))),
        \* stake between the two thresholds
        mid |-> /\ Met(Quorum, StakeOf(CertSigners(c.msg)))
                /\ ~Met(Strong, StakeOf(CertSigners(c.msg)))]

Printed ==
  \/ cs.d < 2 \/ cs.t = "vote" \/ SampleMod = 1
  \/ (TLCFP(cs.msg) % SampleMod) = SampleRes

Emit ==
  (cs.t # "root" /\ Printed) =>
  PrintT(<<"CASE", ToJson([t |-> cs.t, label |-> cs.label, cls |-> cs.cls, msg |-> cs.msg,
                           admit |-> Admit(cs), info |-> Info(cs)])>>)

---------------------------------------------------------------------------
(* invariants: the property on the specification *)
WellFormed ==
  cs.t # "root" =>
    (IF cs.t = "vote" THEN WellFormedVote(cs.msg) ELSE WellFormedCert(cs.msg))

\* the honest message is admitted
ValidAccepted == cs.cls = "same" => Admit(cs)

\* honest construction by too little stake is rejected
BelowRejected == cs.cls = "below" => ~Admit(cs)

\* every alteration that changes the signed meaning is refused
MutationRejected == cs.cls = "break" => ~Admit(cs)

\* the declared stake never matters
DeclaredStakeIrrelevant ==
  /\ cs.cls = "stake" => Admit(cs)
  /\ cs.t = "cert" =>
       \A x \in StakeChoices(cs.msg) \cup {cs.msg.stake} :
          AdmitCert([cs.msg EXCEPT !.stake = x]) = AdmitCert(cs.msg)

\* verifier / constructor duality: admitted = exactly what honest signers can have produced
\* for exactly these fields, with enough distinct stake
AdmittedIffHonest ==
  cs.t # "root" =>
    (Admit(cs) <=> (IF cs.t = "vote" THEN HonestVote(cs.msg) ELSE HonestCert(cs.msg)))

\* a notarization certificate between 60% and 80% cannot be passed off as a fast-finalization
NoUpgradeBelowStrong ==
  (cs.t = "cert" /\ cs.msg.k = "ff" /\ ~Met(Strong, StakeOf(CertSigners(cs.msg)))) => ~Admit(cs)

\* a validator in both halves counts once
DistinctStakeOnly == (cs.t = "cert" /\ Info(cs).dc) => ~Admit(cs)

\* out-of-range signer is refused whatever the signature
OutOfRangeRejected == (cs.t = "vote" /\ cs.msg.v \notin Vals) => ~Admit(cs)
=============================================================================
