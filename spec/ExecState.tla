----------------------------- MODULE ExecState -----------------------------
(***************************************************************************)
(* Execution state of /repo/src/execution*:                                *)
(*                                                                         *)
(*  1. `State` (execution/state.rs): a copy-on-write trie over the chunks  *)
(*     of the address.  Modelled implementation-shaped (InsertRec /        *)
(*     RemoveRec with leaf splitting and collapse of single-leaf branches) *)
(*     next to the ORDINARY MAP it has to behave like (a function          *)
(*     Keys -> 0..NV, 0 = absent).  Keys are chunk sequences of a small    *)
(*     depth over few chunk values, so shared prefixes arise by            *)
(*     construction.                                                       *)
(*  2. `LtHash` (execution/commitment.rs): the lattice hash as an IDEAL    *)
(*     homomorphic multiset hash: a function Entries -> Int (lane-wise     *)
(*     wrapping add/sub of injective per-entry hashes).                    *)
(*  3. `DummyExecution` (execution.rs): per in-progress block a            *)
(*     transaction count and a rolling hash TERM: the sequence             *)
(*     <<seed, tx1, tx2, ...>> stands for H(...H(H(seed,tx1),tx2)...),     *)
(*     the seed being a block-hash name.  With an ideal (injective) H two  *)
(*     commitments are equal iff their terms are equal.                    *)
(***************************************************************************)
EXTENDS Integers, Sequences, FiniteSets, TLC

CONSTANTS
  KeySeq,   \* sequence of the model keys; each key is a sequence of Depth chunk values
  NV        \* values are 1..NV; 0 stands for "absent"

Keys == {KeySeq[i] : i \in 1..Len(KeySeq)}
Depth == Len(KeySeq[1])
Vals == 1..NV
Entries == Keys \X Vals

ASSUME /\ Len(KeySeq) >= 1
       /\ \A i \in 1..Len(KeySeq) : Len(KeySeq[i]) = Depth
       /\ \A i, j \in 1..Len(KeySeq) : i # j => KeySeq[i] # KeySeq[j]

Restrict(f, S) == [x \in S |-> f[x]]

RECURSIVE SortNat(_)
SortNat(S) == IF S = {} THEN <<>>
              ELSE LET m == CHOOSE x \in S : \A y \in S : x <= y IN <<m>> \o SortNat(S \ {m})

---------------------------------------------------------------------------
(* The ordinary ordered map (reference semantics)                          *)

LexLess(a, b) == \E i \in 1..Depth : a[i] < b[i] /\ \A j \in 1..(i - 1) : a[j] = b[j]

RECURSIVE SortKeys(_)
SortKeys(S) == IF S = {} THEN <<>>
               ELSE LET m == CHOOSE x \in S : \A y \in S \ {x} : LexLess(x, y)
                    IN <<m>> \o SortKeys(S \ {m})

EmptyMap == [k \in Keys |-> 0]
MapDom(m) == {k \in Keys : m[k] # 0}
MapLen(m) == Cardinality(MapDom(m))
MapEntries(m) == LET ks == SortKeys(MapDom(m))
                 IN [i \in 1..Len(ks) |-> [k |-> ks[i], v |-> m[ks[i]]]]

---------------------------------------------------------------------------
(* The trie (state.rs).  Nodes have one record shape:                      *)
(*   leaf   [t |-> "L", k |-> key, v |-> value, ch |-> <<>>]               *)
(*   branch [t |-> "B", k |-> <<>>, v |-> 0, ch |-> [occupied chunk -> node]] *)

Leaf(k, v) == [t |-> "L", k |-> k, v |-> v, ch |-> <<>>]
Branch(ch) == [t |-> "B", k |-> <<>>, v |-> 0, ch |-> ch]
EmptyRoot == Branch(<<>>)
ChunkAt(k, d) == k[d + 1]                     \* chunk_at(key, depth)
NumCh(n) == Cardinality(DOMAIN n.ch)
OnlyCh(n) == n.ch[CHOOSE c \in DOMAIN n.ch : TRUE]

\* State::get
RECURSIVE GetRec(_, _, _)
GetRec(n, k, d) ==
  IF n.t = "L" THEN (IF n.k = k THEN n.v ELSE 0)
  ELSE LET c == ChunkAt(k, d)
       IN IF c \in DOMAIN n.ch THEN GetRec(n.ch[c], k, d + 1) ELSE 0
Get(root, k) == GetRec(root, k, 0)

\* split_leaves: chain of single-child branches down to the first differing chunk
RECURSIVE SplitLeaves(_, _, _)
SplitLeaves(d, l1, l2) ==
  LET c1 == ChunkAt(l1.k, d)
      c2 == ChunkAt(l2.k, d)
  IN IF c1 = c2 THEN Branch((c1 :> SplitLeaves(d + 1, l1, l2)))
     ELSE Branch((c1 :> l1) @@ (c2 :> l2))

RECURSIVE SplitDepth(_, _, _)
SplitDepth(d, k1, k2) == IF ChunkAt(k1, d) = ChunkAt(k2, d) THEN 1 + SplitDepth(d + 1, k1, k2) ELSE 1

\* insert_rec: n is a branch at depth d.  Result [n, old, kind]
RECURSIVE InsertRec(_, _, _, _)
InsertRec(n, d, k, v) ==
  LET c == ChunkAt(k, d) IN
  IF c \notin DOMAIN n.ch
  THEN [n |-> Branch((c :> Leaf(k, v)) @@ n.ch), old |-> 0, kind |-> "new"]
  ELSE LET child == n.ch[c] IN
       IF child.t = "B"
       THEN LET r == InsertRec(child, d + 1, k, v)
            IN [n |-> Branch([n.ch EXCEPT ![c] = r.n]), old |-> r.old, kind |-> r.kind]
       ELSE IF child.k = k
            THEN [n |-> Branch([n.ch EXCEPT ![c] = Leaf(k, v)]), old |-> child.v, kind |-> "replace"]
            ELSE [n |-> Branch([n.ch EXCEPT ![c] = SplitLeaves(d + 1, child, Leaf(k, v))]),
                  old |-> 0,
                  kind |-> IF SplitDepth(d + 1, child.k, k) = 1 THEN "split" ELSE "splitchain"]

\* remove_rec: n is a branch at depth d.  Result [n, old, col] (col = number of collapses)
RECURSIVE RemoveRec(_, _, _)
RemoveRec(n, d, k) ==
  LET c == ChunkAt(k, d) IN
  IF c \notin DOMAIN n.ch THEN [n |-> n, old |-> 0, col |-> 0]
  ELSE LET child == n.ch[c] IN
       IF child.t = "L"
       THEN IF child.k = k
            THEN [n |-> Branch(Restrict(n.ch, DOMAIN n.ch \ {c})), old |-> child.v, col |-> 0]
            ELSE [n |-> n, old |-> 0, col |-> 0]
       ELSE LET r == RemoveRec(child, d + 1, k) IN
            IF r.old = 0 THEN [n |-> n, old |-> 0, col |-> 0]
            ELSE LET collapse == NumCh(r.n) = 1 /\ OnlyCh(r.n).t = "L"
                     nc == IF collapse THEN OnlyCh(r.n) ELSE r.n
                 IN [n |-> Branch([n.ch EXCEPT ![c] = nc]), old |-> r.old,
                     col |-> r.col + (IF collapse THEN 1 ELSE 0)]

\* Iter: children visited in increasing chunk order
RECURSIVE IterRec(_), IterCh(_, _)
IterCh(n, cs) == IF cs = <<>> THEN <<>> ELSE IterRec(n.ch[Head(cs)]) \o IterCh(n, Tail(cs))
IterRec(n) == IF n.t = "L" THEN <<[k |-> n.k, v |-> n.v]>> ELSE IterCh(n, SortNat(DOMAIN n.ch))

\* The canonical trie of a map: depends on the contents only
RECURSIVE CanonNode(_, _, _)
CanonNode(m, S, d) ==
  Branch([c \in {ChunkAt(k, d) : k \in S} |->
            LET Sc == {k \in S : ChunkAt(k, d) = c}
            IN IF Cardinality(Sc) = 1
               THEN LET k == CHOOSE x \in Sc : TRUE IN Leaf(k, m[k])
               ELSE CanonNode(m, Sc, d + 1)])
Canon(m) == CanonNode(m, MapDom(m), 0)

\* documented structure invariant: every branch except the root has >= 2 children or a single
\* child that is itself a branch
RECURSIVE StructOK(_, _)
StructOK(n, isRoot) ==
  IF n.t = "L" THEN TRUE
  ELSE /\ (isRoot \/ NumCh(n) >= 2 \/ (NumCh(n) = 1 /\ OnlyCh(n).t = "B"))
       /\ \A c \in DOMAIN n.ch : StructOK(n.ch[c], FALSE)

---------------------------------------------------------------------------
(* The lattice hash as an ideal multiset hash                              *)

LtIdentity == [e \in Entries |-> 0]
LtAdd(h, k, v) == [h EXCEPT ![<<k, v>>] = @ + 1]      \* add_entry
LtSub(h, k, v) == [h EXCEPT ![<<k, v>>] = @ - 1]      \* remove_entry
LtObserve(h, k, old, new) ==                          \* observe
  LET h1 == IF old # 0 THEN LtSub(h, k, old) ELSE h
  IN IF new # 0 THEN LtAdd(h1, k, new) ELSE h1
LtOf(m) == [e \in Entries |-> IF m[e[1]] = e[2] THEN 1 ELSE 0]   \* recomputed from contents
RECURSIVE LtOfSeq(_)
LtOfSeq(es) == IF es = <<>> THEN LtIdentity ELSE LtAdd(LtOfSeq(Tail(es)), Head(es).k, Head(es).v)

---------------------------------------------------------------------------
(* One fork: a State, the LtHash maintained next to it as in the module    *)
(* documentation (observe(key, old, new) with the values the write         *)
(* returned), and the ghost reference map.                                 *)

EmptyFork == [root |-> EmptyRoot, len |-> 0, lt |-> LtIdentity, map |-> EmptyMap]

\* State::insert + LtHash::observe
FInsert(s, k, v) ==
  LET r == InsertRec(s.root, 0, k, v)
  IN [s |-> [root |-> r.n, len |-> IF r.old = 0 THEN s.len + 1 ELSE s.len,
             lt |-> LtObserve(s.lt, k, r.old, v), map |-> [s.map EXCEPT ![k] = v]],
      ret |-> r.old, ref |-> s.map[k], kind |-> r.kind]

\* State::remove (lookup fast path first) + LtHash::observe
FRemove(s, k) ==
  IF Get(s.root, k) = 0
  THEN [s |-> [s EXCEPT !.map[k] = 0], ret |-> 0, ref |-> s.map[k],
        kind |-> IF ChunkAt(k, 0) \in DOMAIN s.root.ch THEN "miss-other" ELSE "miss-empty"]
  ELSE LET r == RemoveRec(s.root, 0, k)
       IN [s |-> [root |-> r.n, len |-> s.len - 1, lt |-> LtObserve(s.lt, k, r.old, 0),
                  map |-> [s.map EXCEPT ![k] = 0]],
           ret |-> r.old, ref |-> s.map[k],
           kind |-> IF r.col = 0 THEN "hit" ELSE IF r.col = 1 THEN "hit-collapse" ELSE "hit-cascade"]

StateEq(a, b) == a.root = b.root /\ a.len = b.len       \* derived PartialEq of State

\* the properties of one fork / a family of forks
ForkGetOK(s) == \A k \in Keys : Get(s.root, k) = s.map[k]
ForkLenOK(s) == s.len = MapLen(s.map)
ForkIterOK(s) == IterRec(s.root) = MapEntries(s.map)
ForkCanonOK(s) == s.root = Canon(s.map) /\ StructOK(s.root, TRUE)
ForkLtOK(s) == s.lt = LtOf(s.map) /\ s.lt = LtOfSeq(IterRec(s.root))

---------------------------------------------------------------------------
(* The placeholder engine (DummyExecution)                                 *)
(* ids:   [m |-> "P", s |-> slot, h |-> "-"]   InProgressBlock::Pending    *)
(*        [m |-> "K", s |-> slot, h |-> hash]  InProgressBlock::Known      *)
(* engine state: function  tracked ids -> [cnt, term]                      *)

PId(s) == [m |-> "P", s |-> s, h |-> "-"]
KId(s, h) == [m |-> "K", s |-> s, h |-> h]
NoEntry == [cnt |-> -1, term |-> <<>>]
NoPar == [s |-> 0, h |-> "-"]                 \* begin_block(.., None)
GenesisName == "G"
EmptyEngine == <<>>

\* lookup used by begin_block (for the parent) and end_block: Known id first, then by slot
ELookup(e, s, h) ==
  IF KId(s, h) \in DOMAIN e THEN e[KId(s, h)]
  ELSE IF PId(s) \in DOMAIN e THEN e[PId(s)] ELSE NoEntry

ESeed(e, par) ==
  IF par = NoPar THEN <<GenesisName>>
  ELSE LET x == ELookup(e, par.s, par.h) IN IF x # NoEntry THEN x.term ELSE <<par.h>>

EBegin(e, id, par) ==
  LET ent == [cnt |-> 0, term |-> ESeed(e, par)]
  IN [x \in DOMAIN e \cup {id} |-> IF x = id THEN ent ELSE e[x]]

EExec(e, id, txs) ==
  IF id \in DOMAIN e
  THEN [e EXCEPT ![id] = [cnt |-> @.cnt + Len(txs), term |-> @.term \o txs]]
  ELSE e

EEnd(e, s, h) == ELookup(e, s, h)             \* the BlockExecuted event, NoEntry = no event

EFinalize(e, s) == Restrict(e, {x \in DOMAIN e : x.s >= s})

RECURSIVE Flatten(_)
Flatten(ss) == IF ss = <<>> THEN <<>> ELSE Head(ss) \o Flatten(Tail(ss))
=============================================================================
