--------------------------- MODULE MC_Dissemination ---------------------------
(***************************************************************************)
(* Model checking of the dissemination protocols with ONE global routing   *)
(* function shared by all nodes: TLC picks, in the initial state, the      *)
(* protocol, the validator count, the fanout and EVERY possible global     *)
(* function (every relay assignment / every tree per shred), then explores *)
(* every interleaving of leader sends and deliveries.                      *)
(* Stakes do not appear: they only bias WHICH function is chosen, and the  *)
(* model quantifies over all of them.  The leader is validator 0 (the      *)
(* function space is closed under renaming of the other validators).       *)
(*                                                                         *)
(* Deviant # -1 : that one validator routes with a second, independently   *)
(* chosen function - used only to show that the delivery invariants are    *)
(* not vacuous (they must then be violated): agreement is necessary.       *)
(***************************************************************************)
EXTENDS Dissemination, TLC

CONSTANTS
  Kinds,      \* subset of {"rotor", "turbine", "trivial"}
  MinN, MaxN, \* validator counts
  MaxF,       \* Turbine fanouts 1..MaxF
  NShreds,    \* function n -> number of shreds disseminated concurrently
  Deviant,    \* -1, or the validator that uses its own function
  RecN        \* largest validator count for which the tree recogniser is cross-checked

VARIABLES kind, n, f, gf, alt, st

vars == <<kind, n, f, gf, alt, st>>

L == 0
ShredIds(k) == {<<1, 0, i>> : i \in 0..(NShreds[k] - 1)}

Entries(k, nn, ff) ==
  CASE k = "rotor"   -> Vals(nn)
    [] k = "turbine" -> {TreeOf(o, ff) : o \in Perms(Vals(nn))}
    [] k = "trivial" -> {0}

Init ==
  /\ kind \in Kinds
  /\ n \in MinN..MaxN
  /\ f \in (IF kind = "turbine" THEN 1..MaxF ELSE {1})
  /\ gf \in [ShredIds(n) -> Entries(kind, n, f)]
  /\ alt \in (IF Deviant = -1 THEN {gf} ELSE [ShredIds(n) -> Entries(kind, n, f)])
  /\ st = EmptyRun

\* the function validator v routes with
FnOf(v) == IF v = Deviant THEN alt ELSE gf

Send(sh) ==
  /\ sh \notin Led(st)
  /\ st' = LeaderSend(st, n, L, sh, SendDests(kind, n, FnOf(L)[sh]))
  /\ UNCHANGED <<kind, n, f, gf, alt>>

Receive(m) ==
  LET from == m[1]  to == m[2]  sh == m[3]
  IN /\ st' = Deliver(st, sh, from, to, ForwardDests(kind, n, L, to, FnOf(to)[sh]),
                      IsRelayBroadcast(kind, to, FnOf(to)[sh]))
     /\ UNCHANGED <<kind, n, f, gf, alt>>

Next ==
  \/ \E sh \in ShredIds(n) : Send(sh)
  \/ \E m \in InFlight(st) : Receive(m)

Terminal == Led(st) = ShredIds(n) /\ Quiet(st)

---------------------------------------------------------------------------
(* C16 (delivery): checked in every reachable state *)
EveryoneReceivesInv == Terminal => \A sh \in Led(st) : EveryoneReceives(st[sh], n, L)
ExactlyOnceTurbine == (Terminal /\ kind = "turbine") => \A sh \in Led(st) : ExactlyOnce(st[sh], n, L)
OneRelayBroadcastRotor ==
  (Terminal /\ kind = "rotor") =>
     \A sh \in Led(st) :
       /\ OneRelayBroadcast(st[sh])
       /\ st[sh].bc = <<gf[sh]>>
       /\ ExactlyOnce(st[sh], n, L)
TrivialOnce == (Terminal /\ kind = "trivial") => \A sh \in Led(st) : ExactlyOnce(st[sh], n, L)
DeliveredInv == Terminal => \A sh \in Led(st) : Delivered(kind, st[sh], n, L)
NeverTwiceInv == \A sh \in Led(st) : NeverTwice(st[sh], n)
\* copies only travel between validators; nobody sends to itself except the leader (own relay / root)
WellAddressed ==
  \A m \in InFlight(st) : m[1] \in Vals(n) /\ m[2] \in Vals(n) /\ (m[1] = m[2] => m[1] = L)
\* the number of copies received per shred is what the protocols promise
MessageBudget ==
  Terminal =>
    \A sh \in Led(st) :
      LET got == Cardinality({v \in Vals(n) : st[sh].rcv[v] = 1})
      IN CASE kind = "turbine" -> got = n
           [] kind = "trivial" -> got = n
           [] kind = "rotor"   -> got = (IF gf[sh] = L THEN n ELSE n - 1)
\* The recogniser used by the trace specification (IsTurbineTree) accepts exactly the trees of
\* the model: among ALL graphs "a root plus one parent per other validator" (this includes every
\* spanning tree of any shape, and graphs with cycles), it holds precisely for TreeOf(ord, f).
\* Constant-level, evaluated once.
ParentGraphs(nn) ==
  UNION {{[root |-> r, kids |-> [v \in Vals(nn) |-> {c \in Vals(nn) \ {r} : par[c] = v}]]
            : par \in [Vals(nn) \ {r} -> Vals(nn)]} : r \in Vals(nn)}
RecogniserOK(nn) ==
  \A ff \in 1..MaxF :
    LET E == Entries("turbine", nn, ff)
    IN /\ \A t \in E : IsTurbineTree(t, nn, ff)
       /\ \A t \in ParentGraphs(nn) : IsTurbineTree(t, nn, ff) <=> t \in E
ASSUME TreeRecogniser == \A nn \in MinN..RecN : RecogniserOK(nn)

\* vacuity witnesses (must be violated = reachable)
W_Terminal == ~Terminal
W_RelayIsLeader == ~(Terminal /\ kind = "rotor" /\ \E sh \in Led(st) : gf[sh] = L)
W_RelayNotLeader == ~(Terminal /\ kind = "rotor" /\ n >= 3 /\ \E sh \in Led(st) : gf[sh] # L)
W_LeaderInnerNode ==
  ~(Terminal /\ kind = "turbine" /\ \E sh \in Led(st) : gf[sh].root # L /\ gf[sh].kids[L] # {})
W_DeepTree ==
  ~(Terminal /\ kind = "turbine" /\
      \E sh \in Led(st) : \E a, b \in Vals(n) :
         a \in gf[sh].kids[gf[sh].root] /\ b \in gf[sh].kids[a])
=============================================================================
