--------------------------- MODULE MC_Dissemination ---------------------------
(***************************************************************************)
(* Model checking of the dissemination protocols with ONE global routing   *)
(* function shared by all nodes: TLC picks, in the initial state, the      *)
(* protocol, the validator count, the fanout and EVERY possible global     *)
(* function (every relay assignment / every permutation per shred), then   *)
(* explores every interleaving of leader sends and deliveries.             *)
(* Stakes do not appear: they only bias WHICH function is chosen, and the  *)
(* model quantifies over all of them.  The leader is validator 0 (the      *)
(* function space is closed under renaming of the other validators).       *)
(*                                                                         *)
(* Deviant # -1 : that one validator routes with a second, independently   *)
(* chosen function - used only to show that the delivery invariants are    *)
(* not vacuous (they must then be violated).                               *)
(***************************************************************************)
EXTENDS Dissemination, TLC

CONSTANTS
  Kinds,      \* subset of {"rotor", "turbine", "trivial"}
  MinN, MaxN, \* validator counts
  MaxF,       \* Turbine fanouts 1..MaxF
  NShreds,    \* function n -> number of shreds disseminated concurrently
  Deviant     \* -1, or the validator that uses its own function

VARIABLES kind, n, f, gf, alt, st

vars == <<kind, n, f, gf, alt, st>>

L == 0
ShredIds(k) == {<<1, 0, i>> : i \in 0..(NShreds[k] - 1)}

Entries(k, nn, ff) ==
  CASE k = "rotor"   -> Vals(nn)
    [] k = "turbine" -> {TreeOf(o, ff) : o \in Perms(Vals(nn))}
    [] k = "trivial" -> {0}

Init ==
  /\ kind \in Kinds
  /\ n \in MinN..MaxN
  /\ f \in (IF kind = "turbine" THEN 1..MaxF ELSE {1})
  /\ gf \in [ShredIds(n) -> Entries(kind, n, f)]
  /\ alt \in (IF Deviant = -1 THEN {gf} ELSE [ShredIds(n) -> Entries(kind, n, f)])
  /\ st = EmptyRun

\* the function validator v routes with
View(v) == IF v = Deviant THEN alt ELSE gf

Send(sh) ==
  /\ sh \notin st.led
  /\ st' = LeaderSend(st, L, sh, SendDests(kind, n, View(L)[sh]))
  /\ UNCHANGED <<kind, n, f, gf, alt>>

Receive(m) ==
  /\ st' = Deliver(st, m, ForwardDests(kind, n, L, m[2], View(m[2])[m[3]]),
                   IsRelayBroadcast(kind, m[2], View(m[2])[m[3]]))
  /\ UNCHANGED <<kind, n, f, gf, alt>>

Next ==
  \/ \E sh \in ShredIds(n) : Send(sh)
  \/ \E m \in InFlight(st) : Receive(m)

Terminal == st.led = ShredIds(n) /\ Quiet(st)

---------------------------------------------------------------------------
(* C16 (delivery): checked in every reachable state *)
EveryoneReceivesInv == Terminal => EveryoneReceives(st, n, L)
ExactlyOnceTurbine == (Terminal /\ kind = "turbine") => ExactlyOnce(st, n, L)
OneRelayBroadcastRotor ==
  (Terminal /\ kind = "rotor") =>
     /\ OneRelayBroadcast(st)
     /\ \A sh \in st.led : Broadcasts(st, sh) = <<gf[sh]>>
     /\ ExactlyOnce(st, n, L)
TrivialOnce == (Terminal /\ kind = "trivial") => ExactlyOnce(st, n, L)
NeverTwiceInv == NeverTwice(st)
OnlyLeaderShredsInv == OnlyLeaderShreds(st)
\* messages only between validators; nobody sends to itself except the leader (own relay / root)
WellAddressed ==
  \A m \in InFlight(st) : m[1] \in Vals(n) /\ m[2] \in Vals(n) /\ (m[1] = m[2] => m[1] = L)
\* the number of network messages per shred is what the protocols promise
MessageBudget ==
  Terminal =>
    \A sh \in st.led :
      LET got == Cardinality({v \in Vals(n) : Got(st, v, sh) = 1})
      IN CASE kind = "turbine" -> got = n
           [] kind = "trivial" -> got = n
           [] kind = "rotor"   -> got = (IF gf[sh] = L THEN n ELSE n - 1)

\* vacuity witnesses (must be violated = reachable)
W_Terminal == ~Terminal
W_RelayIsLeader == ~(Terminal /\ kind = "rotor" /\ \E sh \in st.led : gf[sh] = L)
W_RelayNotLeader == ~(Terminal /\ kind = "rotor" /\ n >= 3 /\ \E sh \in st.led : gf[sh] # L)
W_LeaderInnerNode ==
  ~(Terminal /\ kind = "turbine" /\ \E sh \in st.led : gf[sh].root # L /\ gf[sh].kids[L] # {})
W_DeepTree ==
  ~(Terminal /\ kind = "turbine" /\
      \E sh \in st.led : \E a, b \in Vals(n) :
         a # gf[sh].root /\ a \in gf[sh].kids[gf[sh].root] /\ b \in gf[sh].kids[a])
=============================================================================
