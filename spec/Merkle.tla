------------------------------- MODULE Merkle -------------------------------
(***************************************************************************)
(* Merkle trees of src/crypto/merkle.rs over an IDEAL (injective) hash:    *)
(* hashes are terms  <<"L", data>>  and  <<"N", left, right>>.             *)
(* The empty subtree of height 0 is the hash of the EMPTY leaf             *)
(* (EMPTY_ROOTS[0] = hash_leaf([])), so trailing empty leaves are          *)
(* indistinguishable from padding - the property speaks of "non-empty"     *)
(* leaves for that reason.                                                 *)
(***************************************************************************)
EXTENDS Naturals, Sequences, FiniteSets, TLC

MaxHeightCoded == 32      \* MAX_MERKLE_TREE_HEIGHT

RECURSIVE Pow2(_)
Pow2(h) == IF h = 0 THEN 1 ELSE 2 * Pow2(h - 1)

EmptyData == ""
\* Normal forms: the empty subtree of height h is the atom <<"E", h>>;
\*   hash_leaf([]) = E(0)   and   hash_pair(E(h), E(h)) = E(h+1)
\* (that is how EMPTY_ROOTS is defined), so equal hashes <=> equal terms.
Empty(h) == <<"E", h>>
HLeaf(d) == IF d = EmptyData THEN Empty(0) ELSE <<"L", d>>
HPair(l, r) == IF l[1] = "E" /\ r = l THEN Empty(l[2] + 1) ELSE <<"N", l, r>>
Junk(n) == <<"J", n>>      \* a hash that is nobody's leaf or inner node

IsInner(t) == t[1] = "N" \/ (t[1] = "E" /\ t[2] > 0)
LeftOf(t) == IF t[1] = "N" THEN t[2] ELSE Empty(t[2] - 1)
RightOf(t) == IF t[1] = "N" THEN t[3] ELSE Empty(t[2] - 1)

RECURSIVE HeightFor(_, _)
HeightFor(n, h) == IF Pow2(h) >= n THEN h ELSE HeightFor(n, h + 1)
Height(n) == HeightFor(n, 0)

Pad(leaves, h) == leaves \o [i \in 1..(Pow2(h) - Len(leaves)) |-> EmptyData]

\* root of the perfect tree of height h over a sequence of 2^h leaf data
RECURSIVE Perfect(_, _)
Perfect(ls, h) ==
  IF h = 0 THEN HLeaf(ls[1])
  ELSE LET half == Pow2(h - 1)
       IN HPair(Perfect(SubSeq(ls, 1, half), h - 1), Perfect(SubSeq(ls, half + 1, 2 * half), h - 1))

\* MerkleTree::new + get_root (declaratively: the perfect tree over the padded leaves)
Root(leaves) == Perfect(Pad(leaves, Height(Len(leaves))), Height(Len(leaves)))

\* A proof element is described by the subtree it is the root of:
\*   [h |-> k, leaves |-> seq of 2^k data]   or   [junk |-> n]
Term(e) == IF "junk" \in DOMAIN e THEN Junk(e.junk) ELSE Perfect(e.leaves, e.h)

\* MerkleTree::create_proof(index): siblings bottom-up (index 0-based)
Proof(leaves, i) ==
  LET h == Height(Len(leaves))
      pl == Pad(leaves, h)
  IN [k \in 1..h |->
        LET w == Pow2(k - 1)
            blk == (i \div w)                          \* index of i's node at level k-1
            sib == IF blk % 2 = 0 THEN blk + 1 ELSE blk - 1
        IN [h |-> k - 1, leaves |-> SubSeq(pl, sib * w + 1, (sib + 1) * w)]]

Bit(j, k) == (j \div Pow2(k)) % 2      \* bit k of j (k < 31)

\* derive_hash_root
RECURSIVE DeriveFrom(_, _, _, _)
DeriveFrom(node, j, proof, k) ==
  IF k > Len(proof) THEN node
  ELSE LET b == IF k - 1 < 31 THEN Bit(j, k - 1) ELSE 0
           t == Term(proof[k])
       IN DeriveFrom(IF b = 0 THEN HPair(node, t) ELSE HPair(t, node), j, proof, k + 1)
Derive(d, j, proof) == DeriveFrom(HLeaf(d), j, proof, 1)

InWidth(j, proof) == Len(proof) >= 31 \/ j < Pow2(Len(proof))

\* check_proof as INTENDED: additionally the index must lie inside the tree the proof spans
Check(d, j, root, proof) ==
  /\ Len(proof) <= MaxHeightCoded
  /\ InWidth(j, proof)
  /\ Derive(d, j, proof) = root
\* the pinned code before the repair: no width check (index aliasing  j + m * 2^len)
CheckAsCodedBeforeFix(d, j, root, proof) ==
  /\ Len(proof) <= MaxHeightCoded
  /\ Derive(d, j, proof) = root

\* check_proof_last: every right sibling on the path must be the empty subtree
CheckLast(d, j, root, proof) ==
  /\ Check(d, j, root, proof)
  /\ \A k \in 1..Len(proof) :
       (k - 1 < 31 /\ Bit(j, k - 1) = 0) => Term(proof[k]) = Empty(k - 1)

---------------------------------------------------------------------------
(* Declarative meaning: descend the root TERM along the index bits *)

RECURSIVE Descend(_, _, _)
\* subtree term reached from t (height h) going towards leaf j; <<"X">> if t is not an inner node
Descend(t, h, j) ==
  IF h = 0 THEN t
  ELSE IF ~IsInner(t) THEN <<"X">>
  ELSE IF j < Pow2(h - 1) THEN Descend(LeftOf(t), h - 1, j)
       ELSE Descend(RightOf(t), h - 1, j - Pow2(h - 1))

\* sibling term at level lvl (0 = leaf level) on the path to leaf j in tree t of height h
RECURSIVE SiblingOnPath(_, _, _, _)
SiblingOnPath(t, h, j, lvl) ==
  IF ~IsInner(t) THEN <<"X">>
  ELSE LET half == Pow2(h - 1)
           left == j < half
       IN IF h - 1 = lvl THEN (IF left THEN RightOf(t) ELSE LeftOf(t))
          ELSE IF left THEN SiblingOnPath(LeftOf(t), h - 1, j, lvl)
               ELSE SiblingOnPath(RightOf(t), h - 1, j - half, lvl)

\* "leaf d is the j-th leaf of the tree with that root, and the proof is its authentication path"
DeclVerify(d, j, root, proof) ==
  LET h == Len(proof) IN
  /\ h <= 30                      \* (the enumerated proofs of length 31..34 never verify: see MC)
  /\ j < Pow2(h)
  /\ Descend(root, h, j) = HLeaf(d)
  /\ \A k \in 1..h : Term(proof[k]) = SiblingOnPath(root, h, j, k - 1)

\* all leaves right of j in the perfect tree of height h are empty
RECURSIVE LeavesOf(_, _)
LeavesOf(t, h) == IF h = 0 THEN <<t>>
                  ELSE IF ~IsInner(t) THEN <<<<"X">>>>
                  ELSE LeavesOf(LeftOf(t), h - 1) \o LeavesOf(RightOf(t), h - 1)
DeclVerifyLast(d, j, root, proof) ==
  /\ DeclVerify(d, j, root, proof)
  /\ LET ls == LeavesOf(root, Len(proof))
     IN \A p \in (j + 2)..Len(ls) : ls[p] = HLeaf(EmptyData)
=============================================================================
