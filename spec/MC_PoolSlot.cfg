CONSTANTS
  N = 3
  StakeVec = <<2, 2, 1>>
  Own = 0
  W = 4
  FarFuture = 36000
  MaxSlot = 7
  Scenarios <- ScnSlot
INIT Init
NEXT Next
VIEW View
CHECK_DEADLOCK FALSE
INVARIANTS
  CertAsSoonAs CertOnlyWhen CertSignersJustified AtMostOnce
  AdmissionTable CountedOnce
  S2NAsSoonAs S2SAsSoonAs S2NOnlyIf S2SOnlyIf
