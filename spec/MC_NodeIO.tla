----------------------------- MODULE MC_NodeIO -----------------------------
(* A node receives any sequence of hostile inputs interleaved with normal traffic; the
   `panicked` flag per task must stay false and the node must keep serving. *)
EXTENDS NodeIO, Json, TLCExt

VARIABLES panicked, served, last

vars == <<panicked, served, last>>

Tasks == {"message_loop", "votor", "block_producer", "repair", "repair_responder"}
TaskOf(i) ==
  CASE i.iface \in {"all2all", "shreds"} -> "message_loop"
    [] i.iface = "txs" -> "block_producer"
    [] i.iface = "repair_resp" -> "repair"
    [] i.iface = "repair_req" -> "repair_responder"

Init == panicked = {} /\ served = 0 /\ last = [iface |-> "none"]

Hostile(i) ==
  /\ panicked' = IF Requirement(i) THEN panicked ELSE panicked \cup {TaskOf(i)}
  /\ last' = i
  /\ UNCHANGED served
\* normal traffic keeps being served by every task that has not panicked
Normal ==
  /\ panicked = {}
  /\ served' = (served + 1) % 3
  /\ last' = [iface |-> "normal"]
  /\ UNCHANGED panicked

Next == (\E i \in Inputs : Hostile(i)) \/ Normal

NoPanic == panicked = {}
StillServing == ENABLED Normal
\* the pinned code before the repairs panicked on two classes (kept as a witness that the model
\* can express the defects: this invariant must be VIOLATED)
W_BeforeFixPanics == (last.iface \notin {"none", "normal"}) => RequirementBeforeFix(last)

EmitCase ==
  (last.iface \notin {"none", "normal"}) =>
     PrintT(<<"CASE", ToJson([input |-> last, outcome |-> Outcome(last), panic |-> ~Requirement(last)])>>)
=============================================================================
