------------------------------ MODULE MC_Node ------------------------------
(***************************************************************************)
(* One validator as wired in consensus.rs: Pool + Votor + the FIFO event   *)
(* channel from the pool to Votor + the FIFO channel from the blockstore   *)
(* to Votor + the loop-back of the node's own votes through the            *)
(* all-to-all network (TrivialAll2All also sends to the sender itself, so  *)
(* an own vote reaches the own pool after an arbitrary delay).             *)
(*                                                                         *)
(* The environment delivers other validators' votes, certificates, blocks  *)
(* (several per slot, children before parents), first-shred notices and    *)
(* timeouts in every order.  Here the rules of C05 are checked WITHOUT     *)
(* assumptions about the pool: the pool's guarantees towards Votor are     *)
(* whatever Pool.tla provides.                                             *)
(***************************************************************************)
EXTENDS Naturals, Sequences, FiniteSets, TLC, Json, TLCExt

CONSTANTS N, StakeVec, Own, W, FarFuture, MaxSlot,
          VoteU,      \* votes other validators may send
          CertU,      \* certificates that may be received
          BlockU,     \* set of [s, h, par] with par = <<ps, ph>>
          EvSlots,    \* slots for timeouts / first-shred notices
          MaxSteps,
          Urgent      \* TRUE: Votor drains its channels before the environment acts again (reduction)

P == INSTANCE Pool
V == INSTANCE Votor WITH VMaxSlot <- MaxSlot

VARIABLES pool, votor, chan, bchan, loop, my, steps, act, out, sid

vars == <<pool, votor, chan, bchan, loop, my, steps, act, out, sid>>
View == <<pool, votor, chan, bchan, loop, my, steps>>

NId(p, v, c, b, l, m, n) == <<TLCFP(<<p, v, c, b, l, m, n>>), TLCFP(<<n, m, l, b, c, v.hfc, p.votes, p.certs>>)>>

\* pool event -> the event Votor sees (a tie between several ready parents is resolved arbitrarily)
ToVotor(e) ==
  CASE e.t = "ParentReady" -> {[t |-> "ParentReady", s |-> e.s, p |-> b] : b \in e.bs}
    [] e.t = "SafeToNotar" -> {[t |-> "SafeToNotar", b |-> e.b]}
    [] e.t = "SafeToSkip"  -> {[t |-> "SafeToSkip", s |-> e.s]}
    [] e.t = "Cert"        -> {[t |-> "Cert", c |-> e.c]}
RECURSIVE ToVotorSeqs(_)
ToVotorSeqs(evs) ==      \* set of possible translated sequences
  IF evs = <<>> THEN {<<>>}
  ELSE {<<x>> \o rest : x \in ToVotor(Head(evs)), rest \in ToVotorSeqs(Tail(evs))}

OwnVotesOf(o) ==
  {P!MkVote(o.out[i].k, o.out[i].s, o.out[i].h, Own) :
     i \in {j \in 1..Len(o.out) : o.out[j].t = "vote"}}

PoolOut(r) == [ret |-> r.ret, ev |-> r.ev, rep |-> r.rep, woken |-> r.woken, panic |-> r.panic]
NoPoolOut == [ret |-> "", ev |-> <<>>, rep |-> <<>>, woken |-> {}, panic |-> ""]
NoVotorOut == [msgs |-> <<>>, arm |-> <<>>]

Commit(a, p2, v2, c2, b2, l2, m2, po, vo) ==
  /\ pool' = p2 /\ votor' = v2 /\ chan' = c2 /\ bchan' = b2 /\ loop' = l2 /\ my' = m2
  /\ steps' = steps + 1
  /\ act' = a
  /\ out' = [pool |-> po, votor |-> vo]
  /\ sid' = NId(p2, v2, c2, b2, l2, m2, steps')

Init ==
  /\ pool = P!EmptyPool /\ votor = V!InitVotor /\ chan = <<>> /\ bchan = <<>> /\ loop = {} /\ my = {}
  /\ steps = 0 /\ act = [op |-> "init"] /\ out = [pool |-> NoPoolOut, votor |-> NoVotorOut]
  /\ sid = NId(pool, votor, chan, bchan, loop, my, steps)

PoolStep(a, r) ==
  \E tr \in ToVotorSeqs(r.ev) :
    Commit(a, r.p, votor, chan \o tr, bchan, loop, my, PoolOut(r), NoVotorOut)

VotorStep(a, o, c2, b2) ==
  LET mine == OwnVotesOf(o) IN
  Commit(a, pool, o.v, c2, b2, loop \cup mine, my \cup mine, NoPoolOut, [msgs |-> o.out, arm |-> o.arm])

Quiet == ~Urgent \/ (chan = <<>> /\ bchan = <<>>)

Next ==
  /\ pool.panic = ""
  /\ (MaxSteps = 0 \/ steps < MaxSteps)
  /\ \/ /\ Quiet
        /\ \E vt \in VoteU : vt \notin pool.votes /\ PoolStep([op |-> "pvote", vt |-> vt], P!AddVote(pool, vt))
     \/ /\ Quiet
        /\ \E c \in CertU : PoolStep([op |-> "pcert", c |-> c], P!AddCert(pool, c))
     \* a block completes: the blockstore notifies Votor and the block is registered in the pool
     \/ /\ Quiet
        /\ \E b \in BlockU :
          LET r == P!AddBlock(pool, <<b.s, b.h>>, b.par)
              ev == [t |-> "Block", s |-> b.s, h |-> b.h, par |-> b.par]
          IN \E tr \in ToVotorSeqs(r.ev) :
               Commit([op |-> "block", b |-> <<b.s, b.h>>, par |-> b.par], r.p, votor, chan \o tr,
                      Append(bchan, ev), loop, my, PoolOut(r), NoVotorOut)
     \/ /\ Quiet
        /\ \E s \in EvSlots :
          Commit([op |-> "shred", s |-> s], pool, votor, chan, Append(bchan, [t |-> "FirstShred", s |-> s]),
                 loop, my, NoPoolOut, NoVotorOut)
     \* the node's own vote comes back from the network
     \/ /\ Quiet
        /\ \E vt \in loop :
          LET r == P!AddVote(pool, vt) IN
          \E tr \in ToVotorSeqs(r.ev) :
            Commit([op |-> "own", vt |-> vt], r.p, votor, chan \o tr, bchan, loop \ {vt}, my,
                   PoolOut(r), NoVotorOut)
     \* Votor's select!: the head of either channel, or a timeout
     \/ /\ chan # <<>>
        /\ VotorStep([op |-> "vpool", e |-> Head(chan)], V!OnPool(votor, Head(chan)), Tail(chan), bchan)
     \/ /\ bchan # <<>>
        /\ VotorStep([op |-> "vbs", e |-> Head(bchan)], V!OnBlockstore(votor, Head(bchan)), chan, Tail(bchan))
     \/ \E s \in EvSlots, k \in {"timeout", "crashed"} :
          /\ Quiet
          /\ (k = "crashed" => s = V!VFirstInWindow(s))
          /\ VotorStep([op |-> "timeout", k |-> k, s |-> s], V!OnTimeout(votor, k, s), chan, bchan)

---------------------------------------------------------------------------
EmitEdge == PrintT(<<"EDGE", ToJson([f |-> sid, a |-> act', e |-> out', t |-> sid'])>>)
FstSeq(p) == [i \in 1..(MaxSlot + 1) |-> p.fst[i - 1]]
PObs(p) == [hi |-> p.highest, fup |-> p.fup, ret |-> p.retained, fst |-> FstSeq(p), certs |-> p.certs,
            ready |-> {p.prready[i] : i \in 1..Len(p.prready)}, wpar |-> {x[2] : x \in p.bpar},
            panic |-> p.panic]
VObs(v) == [hfc |-> v.hfc, slots |-> [i \in 1..(MaxSlot + 1) |-> v.slots[i - 1]]]
EmitState == PrintT(<<"STATE", ToJson([id |-> sid, init |-> (TLCGet("level") = 1),
                                       obs |-> [pool |-> PObs(pool), votor |-> VObs(votor)]])>>)

---------------------------------------------------------------------------
(* C05 on the composition *)
Of(k, s) == {m \in my : m.k = k /\ m.s = s}
Slots == 0..MaxSlot
OneInitialVote == \A s \in Slots : Cardinality(Of("notar", s) \cup Of("skip", s)) <= 1
NoFinalInBadSlot ==
  \A s \in Slots : Of("final", s) # {} => (Of("skip", s) = {} /\ Of("sf", s) = {} /\ Of("nf", s) = {})
FinalOnlyForOwnNotar ==
  \A s \in Slots : Of("final", s) # {} => \E m \in Of("notar", s) : TRUE
\* no assumption here: the pool raises safe-to-* only after the own vote has come back to it
FallbackOnlyAfterVoted ==
  \A s \in Slots : (Of("nf", s) # {} \/ Of("sf", s) # {}) => (Of("notar", s) # {} \/ Of("skip", s) # {})
NoNfForOwnNotar == \A m \in my : m.k = "nf" => P!MkVote("notar", m.s, m.h, Own) \notin my
\* the node's own votes are never refused or reported by its own pool (C04, honest combinations)
OwnNeverRefused ==
  (act.op = "own") => out.pool.ret \in {"Ok", "SlotOutOfBounds"}
\* own votes, in whatever order they come back, never form a slashable pair
VConflict(a, b) ==
  LET K == {a.k, b.k} IN
  \/ (a.k = "notar" /\ b.k = "notar" /\ a.h # b.h)
  \/ K = {"notar", "skip"}
  \/ (K = {"final", "skip"}) \/ (K = {"final", "sf"}) \/ (K = {"final", "nf"})
OwnVotesNeverSlashable == \A a, b \in my : (a # b /\ a.s = b.s) => ~VConflict(a, b)
NoPanic == pool.panic = ""

W_Final == \A s \in Slots : Of("final", s) = {}
W_Nf == \A s \in Slots : Of("nf", s) = {}
W_Sf == \A s \in Slots : Of("sf", s) = {}
=============================================================================
