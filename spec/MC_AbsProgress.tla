--------------------------- MODULE MC_AbsProgress ---------------------------
(***************************************************************************)
(* C02 at design level: the abstract protocol (AlpenglowAbs) with leaders  *)
(* that propose, an ASYNCHRONOUS phase (any interleaving, timeouts at any  *)
(* time) followed by a TIMELY phase in which timeouts fire only when no    *)
(* message-driven step is possible.  The horizon is finite and the state   *)
(* only grows, so the state graph is a DAG and "eventually Goal" is        *)
(* decided without fairness: every terminal state must satisfy Goal        *)
(* (checked through TLC's deadlock detection: the only stuttering allowed  *)
(* is in Goal states).                                                     *)
(***************************************************************************)
EXTENDS AlpenglowAbs

CONSTANTS Crashed,        \* correct-but-crashed validators (silent)
          NoisyByz,       \* TRUE: every Byzantine vote is present from the start; FALSE: silent
          AsyncSteps      \* bound on steps of the asynchronous phase

VARIABLES phase, stable, steps    \* stable: first slot of the first window that starts after stabilisation

pvars == <<sent, blocks, phase, stable, steps>>

Live == Correct \ Crashed
Leader(s) == (s \div W) % N
HashOf(s) == "B"          \* one block per slot from a correct leader

ByzVotesAll ==
  {Vote(k, s, h, v) : k \in {"notar", "nf"}, s \in 1..MaxSlot, h \in {"B", "X"}, v \in Byz}
  \cup {Vote(k, s, NoH, v) : k \in {"skip", "sf", "final"}, s \in 1..MaxSlot, v \in Byz}

Init ==
  /\ sent = IF NoisyByz THEN ByzVotesAll ELSE {}
  /\ blocks = {}
  /\ phase = "async" /\ stable = 0 /\ steps = 0

ProposedIn(s) == {b \in blocks : b.s = s}
SomeReadyParent(s) ==
  {GenesisB} \cup {Id(b) : b \in blocks}

\* a live correct leader proposes one block per slot: on a ready parent for the window's first
\* slot (slot 1 extends genesis), on its own previous block otherwise
Propose(s) ==
  /\ s \in 1..MaxSlot /\ Leader(s) \in Live /\ ProposedIn(s) = {}
  /\ IF s = 1 THEN blocks' = blocks \cup {[s |-> 1, h |-> HashOf(1), par |-> GenesisB]}
     ELSE IF IsWindowStart(s)
     THEN \E p \in SomeReadyParent(s) :
            /\ ParentReady(s, p)
            /\ blocks' = blocks \cup {[s |-> s, h |-> HashOf(s), par |-> p]}
     ELSE /\ ProposedIn(s - 1) # {}
          /\ blocks' = blocks \cup {[s |-> s, h |-> HashOf(s),
                                     par |-> Id(CHOOSE b \in ProposedIn(s - 1) : TRUE)]}
  /\ UNCHANGED sent

\* timers of a window are armed by ParentReady for its first slot (window 0: from the start)
WindowArmed(s) ==
  \/ s \div W = 0
  \/ \E p \in SomeReadyParent((s \div W) * W) : ParentReady((s \div W) * W, p)

MessageStep(n) ==
  \/ \E b \in blocks : Notar(n, b) \/ NfVote(n, b)
  \/ \E s \in 1..MaxSlot : Final(n, s) \/ SfVote(n, s)
MessageDriven == (\E s \in 1..MaxSlot : Propose(s)) \/ (\E n \in Live : MessageStep(n))

Timeout(n, s) == WindowArmed(s) /\ SkipWindow(n, s)

Async ==
  /\ phase = "async" /\ steps < AsyncSteps
  /\ \/ \E s \in 1..MaxSlot : Propose(s)
     \/ \E n \in Live : MessageStep(n) \/ (\E s \in 1..MaxSlot : Timeout(n, s))
  /\ steps' = steps + 1 /\ UNCHANGED <<phase, stable>>

\* stabilisation: from now on every message is delivered before any timer fires.
\* Windows whose slots are all untouched count as "starting after stabilisation".
Untouched(s) == ProposedIn(s) = {} /\ \A x \in sent : x.v \in Byz \/ x.s # s
Stabilise ==
  /\ phase = "async"
  /\ phase' = "sync"
  /\ stable' = LET ws == {w \in 0..(MaxSlot \div W) :
                           \A s \in 1..MaxSlot : (s \div W >= w) => Untouched(s)}
               IN IF ws = {} THEN MaxSlot + 1
                  ELSE (CHOOSE w \in ws : \A v \in ws : w <= v) * W
  /\ UNCHANGED <<sent, blocks, steps>>

Sync ==
  /\ phase = "sync"
  /\ \/ MessageDriven
     \/ /\ ~ENABLED MessageDriven
        /\ \E n \in Live : \E s \in 1..MaxSlot : Timeout(n, s)
  /\ UNCHANGED <<phase, stable, steps>>

FastPath == Strong(SumStake(Live))
JudgedSlots == {s \in 1..MaxSlot : s >= stable}
Goal ==
  /\ phase = "sync"
  /\ \A s \in JudgedSlots :
       IF Leader(s) \in Live
       THEN /\ ProposedIn(s) # {}
            /\ \A b \in ProposedIn(s) : Finalized(b.s, b.h) /\ (FastPath => FFCert(b.s, b.h))
            /\ ~SkipCert(s)
       ELSE SkipCert(s)

Done == Goal /\ UNCHANGED pvars
Next == Async \/ Stabilise \/ Sync \/ Done

\* reachability witnesses
W_Judged == ~(phase = "sync" /\ stable <= MaxSlot /\ stable > 0)
W_GoalReached == ~Goal
W_SkippedWindow == ~(Goal /\ \E s \in JudgedSlots : SkipCert(s))
=============================================================================
