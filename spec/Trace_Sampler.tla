---------------------------- MODULE Trace_Sampler ----------------------------
(***************************************************************************)
(* Trace validation of recorded draws (code -> spec).                      *)
(*                                                                         *)
(* The harness records one NDJSON event per (strategy, validator set, k):  *)
(*   [id, strategy, n, k, small, stakes, zeros, npos, num, den, cpanic,    *)
(*    draws : << [seed, runs : << [ok, c], [ok, c], [ok, c] >>] ... >>]    *)
(* runs = first instance, second independently constructed instance, first *)
(* instance again - all for the same seed.  `small` events carry the stake *)
(* vector (stake * k < 2^31, TLC integers); others only the projection     *)
(* (n, zero-weight ids, number of positive stakes).                        *)
(*                                                                         *)
(* Every event is judged against the predicates of Sampler.tla; the        *)
(* verdict (set of failed predicates per draw) is printed, one line per    *)
(* event.  A panic is an event the specification has no behaviour for      *)
(* unless Sampler!MustConstruct / MustReturn allow the refusal.            *)
(***************************************************************************)
EXTENDS Sampler, Json, IOUtils, TLC, TLCExt

Events == ndJsonDeserialize(IOEnv.TRACE)

VARIABLE i

ToSet(s) == {s[j] : j \in DOMAIN s}

\* the harness' projection agrees with the stake vector (checked when the vector is present)
ProjectionOK(e) ==
  /\ e.strategy \in AllStrategies \cup ShuffleStrategies
  /\ e.small =>
       /\ Len(e.stakes) = e.n
       /\ ToSet(e.zeros) = ZeroIds(e.stakes)
       /\ e.npos = Cardinality(Positive(e.stakes))
  /\ (~e.small) => (e.npos + Cardinality(ToSet(e.zeros)) = e.n)

\* predicates failed by one returned committee
FailedCommittee(e, c) ==
     (IF Sized(c, e.k) THEN {} ELSE {"Sized"})
  \cup (IF InRange(c, e.n) THEN {} ELSE {"InRange"})
  \cup (IF e.strategy \in StakeProportional /\ ~NoZero(c, ToSet(e.zeros)) THEN {"NoZero"} ELSE {})
  \cup (IF e.strategy \in FaitAccompli /\ e.small /\ ~FaSeatsBoundary(c, e.stakes, e.k)
        THEN {"FaSeatsBoundary"} ELSE {})
  \cup (IF e.strategy \in FaitAccompli /\ e.small /\ ~FaSeatsInterior(c, e.stakes, e.k)
        THEN {"FaSeatsInterior"} ELSE {})
  \cup (IF e.strategy \in FaitAccompli1 /\ e.small /\ ~FaExactWhenNoResidual(c, e.stakes, e.k)
        THEN {"FaExactWhenNoResidual"} ELSE {})
  \cup (IF e.strategy \in PartitionFallback /\ e.small /\ InRange(c, e.n) /\ ~FaPartitionCap(c, e.stakes, e.k)
        THEN {"FaPartitionCap"} ELSE {})
  \cup (IF e.strategy \in Decaying /\ ~DecayCap(c, e.num, e.den) THEN {"DecayCap"} ELSE {})

FailedDraw(e, d) ==
  LET returned == {d.runs[r].c : r \in {x \in DOMAIN d.runs : d.runs[x].ok}}
      refused == \E r \in DOMAIN d.runs : ~d.runs[r].ok
  IN   (IF refused /\ MustReturn(e.strategy, ToSet(e.zeros), e.npos, e.k, e.num, e.den)
        THEN {"Returns"} ELSE {})
  \cup (IF Determinism(returned) THEN {} ELSE {"Determinism"})
  \cup UNION {FailedCommittee(e, c) : c \in returned}

\* weighted shuffle events: every draw carries
\*   full, again : full shuffles of two independently built instances, same seed
\*   part, cont  : third instance: m validators, then the rest with the SAME random source
\*   part2, rest2: fourth instance: m validators, then the rest with ANOTHER random source
FailedShuffle(e, d) ==
  LET z == ToSet(e.zeros)
      runs == <<d.full, d.again, d.part, d.cont, d.part2, d.rest2>>
      ok == \A r \in DOMAIN runs : runs[r].ok
  IN IF ~ok THEN {"Returns"}      \* nothing is excluded: every stake vector can be shuffled
     ELSE (IF ShufflePermutation(d.full.c, e.n) THEN {} ELSE {"ShufflePermutation"})
     \cup (IF ShuffleZerosLast(d.full.c, z, e.npos) THEN {} ELSE {"ShuffleZerosLast"})
     \cup (IF Determinism({d.full.c, d.again.c}) THEN {} ELSE {"Determinism"})
     \cup (IF ShufflePrefix(d.part.c, d.full.c, d.m) /\ ShufflePrefix(d.part2.c, d.full.c, d.m)
           THEN {} ELSE {"ShufflePrefix"})
     \cup (IF ShuffleContinues(d.part.c, d.cont.c, d.full.c) THEN {} ELSE {"ShuffleContinues"})
     \cup (IF ShuffleRemoves(d.part2.c, d.rest2.c, e.n) THEN {} ELSE {"ShuffleRemoves"})
     \cup (IF ShuffleRestZerosLast(d.part2.c, d.rest2.c, z, e.npos) THEN {} ELSE {"ShuffleZerosLast"})

Failed(e) ==
  IF ~ProjectionOK(e) THEN {[d |-> 0, p |-> "BadEvent"]}
  ELSE IF e.strategy \in ShuffleStrategies
       THEN (IF e.cpanic THEN {[d |-> 0, p |-> "Constructible"]}
             ELSE UNION {{[d |-> j, p |-> p] : p \in FailedShuffle(e, e.draws[j])} : j \in DOMAIN e.draws})
  ELSE IF e.cpanic
       THEN (IF MustConstruct(e.strategy, ToSet(e.zeros)) THEN {[d |-> 0, p |-> "Constructible"]} ELSE {})
       ELSE UNION {{[d |-> j, p |-> p] : p \in FailedDraw(e, e.draws[j])} : j \in DOMAIN e.draws}

Judge(e) == PrintT(<<"VERDICT", ToJson([id |-> e.id, failed |-> Failed(e)])>>)

Init == i = 1
Next == /\ i <= Len(Events)
        /\ Judge(Events[i])
        /\ i' = i + 1

\* the whole trace was judged (vacuity guard, evaluated at the end)
AllJudged == PrintT(<<"JUDGED", Len(Events), TLCGet("distinct")>>)
=============================================================================
