----------------------------- MODULE Trace_Node -----------------------------
(***************************************************************************)
(* Code -> spec, component level: validates what ONE real node did in a    *)
(* recorded execution of N real Alpenglow nodes (harness `sim`) against    *)
(* the detailed specifications Pool.tla and Votor.tla, composed as         *)
(* consensus.rs wires them (MC_Node.tla): every call of the node's pool    *)
(* (add_vote / add_cert / add_block / recover_from_standstill, recorded    *)
(* under the pool's write lock together with everything the call emitted)  *)
(* must be the transition of Pool.tla from the pool state reached so far,  *)
(* and every event Votor handled (recorded when the handler starts,        *)
(* together with everything it then broadcast) must be the transition of   *)
(* Votor.tla - with the FIFO channel between the two checked on the way.   *)
(*                                                                         *)
(* Nothing is inferred: the trace determines every step, TLC only has to   *)
(* evaluate the specification's operators along it.  A mismatch is         *)
(* reported with the specification's expectation next to the recorded      *)
(* step.                                                                   *)
(***************************************************************************)
EXTENDS Naturals, Sequences, FiniteSets, TLC, Json, IOUtils, TLCExt

CONSTANTS N, StakeVec, Own, W, FarFuture, MaxSlot

P == INSTANCE Pool
V == INSTANCE Votor WITH VMaxSlot <- MaxSlot

Rec == ndJsonDeserialize(IOEnv.TRACE)

VARIABLES pool, votor, chan, l, bad,
          my      \* every vote the node has put on the wire so far: [k, s, h]
tnvars == <<pool, votor, chan, l, bad, my>>

Init ==
  /\ pool = P!EmptyPool /\ votor = V!InitVotor /\ chan = <<>> /\ l = 1 /\ bad = FALSE /\ my = {}

St == Rec[l]
Range(f) == {f[i] : i \in DOMAIN f}
Count(f, x) == Cardinality({i \in DOMAIN f : f[i] = x})
SameBag(f, g) == Len(f) = Len(g) /\ \A x \in Range(f) \cup Range(g) : Count(f, x) = Count(g, x)

---------------------------------------------------------------------------
(* pool side *)
\* events as logged: [t, s, p] / [t, b] / [t, s] / [t, c]
LoggedNoPR(evs) == SelectSeq(evs, LAMBDA e : e.t # "ParentReady")
LoggedPR(evs) == SelectSeq(evs, LAMBDA e : e.t = "ParentReady")
\* the specification's events without signer sets
SpecNorm(e) ==
  CASE e.t = "SafeToNotar" -> [t |-> "SafeToNotar", b |-> e.b]
    [] e.t = "SafeToSkip"  -> [t |-> "SafeToSkip", s |-> e.s]
    [] e.t = "Cert"        -> [t |-> "Cert", c |-> e.c]
    [] OTHER               -> e
SpecNoPR(evs) == LET x == SelectSeq(evs, LAMBDA e : e.t # "ParentReady")
                 IN [i \in 1..Len(x) |-> SpecNorm(x[i])]
SpecPR(evs) == SelectSeq(evs, LAMBDA e : e.t = "ParentReady")
\* ParentReady: one logged event per specified event; the logged parent is one of the admissible ones
PRMatch(spec, logged) ==
  /\ Len(spec) = Len(logged)
  /\ \A s \in {spec[i].s : i \in DOMAIN spec} \cup {logged[i].s : i \in DOMAIN logged} :
        Cardinality({i \in DOMAIN spec : spec[i].s = s}) = Cardinality({i \in DOMAIN logged : logged[i].s = s})
  /\ \A i \in DOMAIN logged : \E j \in DOMAIN spec : spec[j].s = logged[i].s /\ logged[i].p \in spec[j].bs
EventsMatch(r) ==
  /\ SameBag(SpecNoPR(r.ev), LoggedNoPR(St.ev))
  /\ PRMatch(SpecPR(r.ev), LoggedPR(St.ev))

\* finalization reports of the call against the finality state after it
FinSound(p2) ==
  /\ \A i \in DOMAIN St.fin :
        LET f == St.fin[i] IN
        \/ f.s < p2.fup
        \/ p2.fst[f.s] = <<IF f.implicit THEN "ifin" ELSE "fin", f.h>>
        \/ (f.implicit /\ p2.fst[f.s] = <<"fin", f.h>>)      \* (never downgraded: reported before)
  /\ \A i \in DOMAIN St.iskip : St.iskip[i] < p2.fup \/ p2.fst[St.iskip[i]][1] = "iskip"
FinComplete(p1, p2) ==
  \A s \in 1..MaxSlot :
     \* (a slot that was already decided only changes its status, e.g. implicitly finalized -> finalized when
     \*  its own fast-finalization certificate arrives later: nothing new is reported)
     (p2.fst[s] # p1.fst[s] /\ p2.fst[s][1] \in {"fin", "ifin", "iskip"} /\ s >= p2.fup
        /\ p1.fst[s][1] \notin {"fin", "ifin", "iskip"}) =>
        IF p2.fst[s][1] = "iskip" THEN \E i \in DOMAIN St.iskip : St.iskip[i] = s
        ELSE \E i \in DOMAIN St.fin : St.fin[i].s = s /\ St.fin[i].h = p2.fst[s][2]
HighestMatches(p1, p2) ==
  LET direct == {St.fin[i].s : i \in {j \in DOMAIN St.fin : ~St.fin[j].implicit}}
      top == IF direct = {} THEN 0 ELSE CHOOSE s \in direct : \A t \in direct : t <= s
  \* (a direct finalization of an OLDER slot - the gap below an already finalized slot closes late - leaves it)
  IN p2.highest = (IF top > p1.highest THEN top ELSE p1.highest)

PoolResult(r, accepted) ==
  /\ r.panic = ""
  /\ (r.ret = "Ok") = accepted
  /\ EventsMatch(r)
  /\ FinSound(r.p) /\ FinComplete(pool, r.p) /\ HighestMatches(pool, r.p)

Diag(what, r) == PrintT(<<"MISMATCH", ToJson([index |-> l, step |-> St, what |-> what,
                                               spec |-> [ret |-> r.ret, ev |-> r.ev, panic |-> r.panic,
                                                         highest |-> r.p.highest, fup |-> r.p.fup]])>>)

PoolCommit(r, accepted) ==
  IF PoolResult(r, accepted)
  THEN /\ pool' = r.p
       \* the channel carries the events in the order the code sent them
       /\ chan' = chan \o St.ev
       /\ l' = l + 1 /\ UNCHANGED <<votor, bad, my>>
  ELSE /\ Diag("pool", r) /\ bad' = TRUE /\ UNCHANGED <<pool, votor, chan, l, my>>

TPVote == St.op = "pvote" /\ PoolCommit(P!AddVote(pool, St.vt), St.counted)
TPCert == St.op = "pcert" /\ PoolCommit(P!AddCert(pool, St.c), St.accepted)
TPBlock == St.op = "pblock" /\ PoolCommit(P!AddBlock(pool, St.b, St.par), TRUE)

\* recover_from_standstill: the bundle is a function of the pool state; it goes to Votor like any event
BundleMatches ==
  LET b == P!StandstillBundle(pool) IN
  /\ b.slot = St.ev.s
  /\ Range(St.ev.certs) = b.certs /\ Len(St.ev.certs) = Cardinality(b.certs)
  /\ Range(St.ev.votes) = b.votes /\ Len(St.ev.votes) = Cardinality(b.votes)
TPStandstill ==
  /\ St.op = "pstandstill"
  /\ IF BundleMatches
     THEN chan' = Append(chan, St.ev) /\ l' = l + 1 /\ UNCHANGED <<pool, votor, bad, my>>
     ELSE /\ PrintT(<<"MISMATCH", ToJson([index |-> l, step |-> St, what |-> "standstill",
                                           spec |-> P!StandstillBundle(pool)])>>)
          /\ bad' = TRUE /\ UNCHANGED <<pool, votor, chan, l, my>>

---------------------------------------------------------------------------
(* Votor side *)
VEv(e) ==
  IF e.t = "Standstill"
  THEN [t |-> "Standstill", s |-> e.s, certs |-> e.certs,
        votes |-> [i \in 1..Len(e.votes) |-> V!MsgVote(e.votes[i].k, e.votes[i].s, e.votes[i].h)]]
  ELSE e
\* what the node put on the wire during the step: votes signed with its own index, certificates
LoggedMsgs == [i \in 1..Len(St.msgs) |->
                 IF St.msgs[i].t = "vote" THEN V!MsgVote(St.msgs[i].k, St.msgs[i].s, St.msgs[i].h)
                 ELSE V!MsgCert(St.msgs[i].c)]
OwnSigner == \A i \in DOMAIN St.msgs : St.msgs[i].t = "vote" => St.msgs[i].v = Own

VotorCommit(o, c2, extra) ==
  IF SameBag(o.out, LoggedMsgs) /\ OwnSigner /\ extra
  THEN /\ votor' = o.v /\ chan' = c2 /\ l' = l + 1 /\ UNCHANGED <<pool, bad>>
       /\ my' = my \cup {[k |-> St.msgs[i].k, s |-> St.msgs[i].s, h |-> St.msgs[i].h] :
                             i \in {j \in DOMAIN St.msgs : St.msgs[j].t = "vote"}}
  ELSE /\ PrintT(<<"MISMATCH", ToJson([index |-> l, step |-> St, what |-> "votor",
                                        spec |-> [out |-> o.out, head |-> IF chan = <<>> THEN <<>> ELSE <<Head(chan)>>]])>>)
       /\ bad' = TRUE /\ UNCHANGED <<pool, votor, chan, l, my>>

\* the event Votor handles is the head of the FIFO channel from its pool
TVPool ==
  /\ St.op = "vpool"
  /\ VotorCommit(V!OnPool(votor, VEv(St.ev)), IF chan = <<>> THEN chan ELSE Tail(chan),
                 chan # <<>> /\ Head(chan) = St.ev)
TVBs == St.op = "vbs" /\ VotorCommit(V!OnBlockstore(votor, St.ev), chan, TRUE)
TVTimeout ==
  /\ St.op = "vtimeout"
  /\ VotorCommit(V!OnTimeout(votor, IF St.crashed THEN "crashed" ELSE "timeout", St.s), chan, TRUE)

Next ==
  /\ ~bad /\ l <= Len(Rec)
  /\ (TPVote \/ TPCert \/ TPBlock \/ TPStandstill \/ TVPool \/ TVBs \/ TVTimeout)

---------------------------------------------------------------------------
NoMismatch == ~bad

(* C05 on the observed execution: the votes the node broadcast, whatever universe the execution reached *)
Of(k, s) == {m \in my : m.k = k /\ m.s = s}
VotedSlots == {m.s : m \in my}
OneInitialVote == \A s \in VotedSlots : Cardinality(Of("notar", s) \cup Of("skip", s)) <= 1
NoFinalInBadSlot ==
  \A s \in VotedSlots : Of("final", s) # {} => (Of("skip", s) = {} /\ Of("sf", s) = {} /\ Of("nf", s) = {})
FinalOnlyForOwnNotar == \A s \in VotedSlots : Of("final", s) # {} => Of("notar", s) # {}
FallbackOnlyAfterVoted ==
  \A s \in VotedSlots : (Of("nf", s) # {} \/ Of("sf", s) # {}) => (Of("notar", s) # {} \/ Of("skip", s) # {})
NoNfForOwnNotar == \A m \in my : m.k = "nf" => [k |-> "notar", s |-> m.s, h |-> m.h] \notin my
\* ... and the node's own pool never refused one of them as slashable
OwnNeverSlashable ==
  (l > 1 /\ ~bad /\ Rec[l - 1].op = "pvote" /\ Rec[l - 1].vt.v = Own) =>
     (Rec[l - 1].counted \/ Rec[l - 1].vt \in pool.votes \/ P!OutOfBounds(pool, Rec[l - 1].vt.s)
      \/ \E x \in pool.votes : x.v = Own /\ x.s = Rec[l - 1].vt.s)

TraceAccepted ==
  LET d == TLCGet("stats").diameter IN
  IF d - 1 = Len(Rec) THEN TRUE
  ELSE /\ PrintT(<<"REJECTED", ToJson([index |-> d, event |-> IF d <= Len(Rec) THEN Rec[d] ELSE Rec[Len(Rec)]])>>)
       /\ FALSE
=============================================================================
