------------------------------ MODULE MC_Pool ------------------------------
(***************************************************************************)
(* Model-checking harness for Pool.tla: one pool, an environment that      *)
(* delivers votes / certificates / block registrations from a finite       *)
(* universe (chosen per configuration) in every order, the listed          *)
(* properties as invariants, and the edge dump used for spec->code replay. *)
(***************************************************************************)
EXTENDS Pool, Json, TLCExt

CONSTANTS
  Scenarios,  \* sequence of [votes, certs, blocks, waits] universes (Init picks one)
  SimDepth    \* 0: exhaustive mode; > 0: simulation mode, behaviours of this length are printed

VARIABLES pool, scnI, act, out, hist, sid, tr

scn == Scenarios[scnI]

---------------------------------------------------------------------------
(* Environment universes *)

AllVotes(S, H) ==
  {MkVote(k, s, h, v) : k \in {"notar", "nf"}, s \in S, h \in H, v \in Validators}
  \cup {MkVote(k, s, NoneH, v) : k \in {"skip", "sf", "final"}, s \in S, v \in Validators}

\* single slot 5 (window 4..7), two competing blocks A, B, both children of (4,P)
ScnSlot ==
  <<[votes  |-> AllVotes({5}, {"A", "B"}),
    certs  |-> {MkCert("notar", 4, "P"), MkCert("nf", 5, "A"), MkCert("final", 5, NoneH)},
    blocks |-> {<< <<5, "A">>, <<4, "P">> >>, << <<5, "B">>, <<4, "P">> >>},
    waits  |-> {}]>>

vars == <<pool, scnI, act, out, hist, sid, tr>>
View == <<pool, scnI, hist>>

\* 64-bit state identifier for the edge dump (sid is a function of the view)
Id(p, s, h) == <<TLCFP(<<p, s, h>>), TLCFP(<<h, s, p.votes, p.certs, p.fst, p.prready, p.known, p.pcert>>)>>

\* ghost history (kept small): what the environment has delivered so far
\*   hist.ann : ParentReady pairs announced so far
\*   hist.created : certificate ids created (by votes) so far
\*   hist.s2n / hist.s2s : safe-to-notar / safe-to-skip signals so far (multisets as sequences)
\*   hist.fin : finalization reports
EmptyHist == [ann |-> {}, created |-> {}, s2n |-> {}, s2s |-> {}, dup |-> FALSE]

FstSeq(p) == [i \in 1..(MaxSlot + 1) |-> p.fst[i - 1]]

Obs(p) == [hi |-> p.highest, fup |-> p.fup, ret |-> p.retained, fst |-> FstSeq(p),
           certs |-> p.certs,
           ready |-> {p.prready[i] : i \in 1..Len(p.prready)},
           \* parents some registered block may still be waiting on (the code keeps a subset:
           \* it forgets a parent once its children were notified)
           wpar |-> {x[2] : x \in p.bpar},
           panic |-> p.panic]

EvSet(o) == {o.ev[i] : i \in 1..Len(o.ev)}

NextHist(h, o) ==
  LET evs == EvSet(o)
      newAnn == UNION {{<<e.s, b>> : b \in e.bs} : e \in {x \in evs : x.t = "ParentReady" /\ Cardinality(x.bs) = 1}}
      newCr  == {e.c : e \in {x \in evs : x.t = "Cert" /\ x.created}}
      newN   == {e.b : e \in {x \in evs : x.t = "SafeToNotar"}}
      newS   == {e.s : e \in {x \in evs : x.t = "SafeToSkip"}}
      \* at-most-once violations inside this call or against history
      nEv(P(_)) == Cardinality({i \in 1..Len(o.ev) : P(o.ev[i])})
      dupNow == \/ \E b \in newN : nEv(LAMBDA x : x.t = "SafeToNotar" /\ x.b = b) > 1
                \/ \E s \in newS : nEv(LAMBDA x : x.t = "SafeToSkip" /\ x.s = s) > 1
                \/ \E c \in newCr : nEv(LAMBDA x : x.t = "Cert" /\ x.created /\ x.c = c) > 1
                \/ \E a \in newAnn : nEv(LAMBDA x : x.t = "ParentReady" /\ x.s = a[1] /\ x.bs = {a[2]}) > 1
                \/ newN \cap h.s2n # {} \/ newS \cap h.s2s # {}
                \/ newCr \cap h.created # {} \/ newAnn \cap h.ann # {}
  IN [ann |-> h.ann \cup newAnn, created |-> h.created \cup newCr,
      s2n |-> h.s2n \cup newN, s2s |-> h.s2s \cup newS, dup |-> h.dup \/ dupNow]

Step(a, o) ==
  /\ pool' = o.p
  /\ act' = a
  /\ out' = [ret |-> o.ret, ev |-> o.ev, rep |-> o.rep, woken |-> o.woken, panic |-> o.panic]
  /\ hist' = NextHist(hist, o)
  /\ sid' = IF SimDepth = 0 THEN Id(o.p, scnI, hist') ELSE sid
  /\ tr' = IF SimDepth = 0 THEN tr ELSE Append(tr, [a |-> a, e |-> out', obs |-> Obs(o.p)])
  /\ UNCHANGED scnI

Init ==
  /\ pool = EmptyPool
  /\ scnI \in 1..Len(Scenarios)
  /\ act = [op |-> "init"]
  /\ out = [ret |-> "", ev |-> <<>>, rep |-> <<>>, woken |-> {}, panic |-> ""]
  /\ hist = EmptyHist
  /\ sid = Id(pool, scnI, hist)
  /\ tr = <<>>

\* what a fresh pool reaches when it receives only the bundle's certificates
RECURSIVE FoldCerts(_, _)
FoldCerts(p, C) ==
  IF C = {} THEN p
  ELSE LET c == CHOOSE x \in C : \A y \in C : x.s <= y.s
       IN FoldCerts(AddCert(p, c).p, C \ {c})

NextWindow(s) == FirstInWindow(s) + W
CatchUp(p) ==
  LET q == FoldCerts(EmptyPool, StandstillBundle(p).certs)
  IN [hi |-> q.highest, ready |-> ReadyOf(q, NextWindow(p.highest)), panic |-> q.panic]

BundleOut(p) ==
  LET b == StandstillBundle(p)
  IN [ret |-> "Ok", ev |-> <<[t |-> "Standstill", s |-> b.slot, certs |-> b.certs, votes |-> b.votes,
                             fresh |-> CatchUp(p)]>>,
      rep |-> <<>>, woken |-> {}, panic |-> ""]

Next ==
  /\ pool.panic = ""
  /\ \/ \E vt \in scn.votes : Step([op |-> "vote", vt |-> vt], AddVote(pool, vt))
     \/ \E c \in scn.certs : Step([op |-> "cert", c |-> c], AddCert(pool, c))
     \/ \E x \in scn.blocks : Step([op |-> "block", b |-> x[1], par |-> x[2]], AddBlock(pool, x[1], x[2]))
     \/ \E s \in scn.waits : /\ s \notin pool.prwait
                             /\ s >= pool.prroot
                             /\ Step([op |-> "wait", s |-> s], WaitParentReady(pool, s))
     \/ /\ act' = [op |-> "standstill"] /\ out' = BundleOut(pool)
        /\ tr' = IF SimDepth = 0 THEN tr
                  ELSE Append(tr, [a |-> act', e |-> out', obs |-> Obs(pool)])
        /\ UNCHANGED <<pool, scnI, hist, sid>>

Spec == Init /\ [][Next]_vars

---------------------------------------------------------------------------
(* Edge / state dump for replay *)

EmitEdge ==
  PrintT(<<"EDGE", ToJson([f |-> sid, a |-> act', e |-> out', t |-> sid'])>>)

\* simulation mode (-simulate): TLC evaluates invariants on every candidate successor, so the
\* behaviour is carried in `tr` and printed once, when it reaches SimDepth through the
\* (always enabled) standstill step
EmitSim ==
  (TLCGet("level") = SimDepth /\ act.op = "standstill") => PrintT(<<"REPLAY", ToJson(tr)>>)

EmitState ==
  PrintT(<<"STATE", ToJson([id |-> sid, init |-> (TLCGet("level") = 1),
                            obs |-> Obs(pool)])>>)

---------------------------------------------------------------------------
(* Properties (state invariants over pool + ghost history)                 *)

\* What a pool can hold when < 20% of the stake is Byzantine: a finalized slot has no skip
\* certificate and no certificate for another block.  Vote-level universes can leave this envelope
\* (any signer may cast any vote); the properties are stated for the states inside it.
ConsistentP(p) ==
  \A s \in Slots :
    (HasCertK(p, "ff", s) \/ HasCertK(p, "final", s)) =>
      /\ ~HasCertK(p, "skip", s)
      /\ \A c1, c2 \in {c \in p.certs : c.s = s /\ c.k \in {"notar", "nf", "ff"}} : c1.h = c2.h

OK(p) == p.panic = "" /\ ConsistentP(p)

SlotsOf(p) == {x.s : x \in p.votes} \cup {c.s : c \in p.certs}
HashesOf(p, s) == {x.h : x \in {y \in p.votes : y.s = s /\ y.k \in {"notar", "nf"}}}

\* --- C03 ---------------------------------------------------------------
\* A certificate of each type is held IFF it was received or the accepted votes reach
\* the threshold.  "received" is not tracked separately: every held certificate that was
\* not created must be in the environment's certificate universe.
ThresholdMet(p, k, s, h) ==
  CASE k = "notar" -> Quorum(NotarStake(p, s, h))
    [] k = "nf"    -> Quorum(NotarStake(p, s, h) + NfStake(p, s, h))
    [] k = "skip"  -> Quorum(SkipStake(p, s) + SfStake(p, s))
    [] k = "ff"    -> Strong(NotarStake(p, s, h))
    [] k = "final" -> Quorum(FinalStake(p, s))

\* as soon as: threshold met (for a retained slot) => certificate of that kind held
\* (for notar / ff: some certificate of that kind for the slot, since they are unique per slot)
CertAsSoonAs ==
  OK(pool) =>
  \A s \in pool.retained :
    /\ \A h \in HashesOf(pool, s) :
         /\ ThresholdMet(pool, "notar", s, h) => HasCertK(pool, "notar", s)
         /\ ThresholdMet(pool, "ff", s, h) => HasCertK(pool, "ff", s)
         /\ ThresholdMet(pool, "nf", s, h) => HasCert(pool, "nf", s, h)
    /\ ThresholdMet(pool, "skip", s, NoneH) => HasCertK(pool, "skip", s)
    /\ ThresholdMet(pool, "final", s, NoneH) => HasCertK(pool, "final", s)

\* only when: a held certificate was received (is in the universe) or is backed by votes.
\* (Votes are only ever added within a retained slot, so the threshold still holds.)
CertOnlyWhen ==
  OK(pool) =>
  \A c \in pool.certs : c \in scn.certs \/ ThresholdMet(pool, c.k, c.s, c.h)

\* created certificates: signers are exactly the accepted matching voters, and they suffice
CertSignersJustified ==
  \A i \in 1..Len(out.ev) :
    LET e == out.ev[i] IN
    (e.t = "Cert" /\ e.created) =>
      LET c == e.c IN
      /\ e.sa \cap e.sb = {}
      /\ CASE c.k = "notar" -> e.sa = Voters(pool, "notar", c.s, c.h) /\ e.sb = {} /\ Quorum(SumStake(e.sa))
           [] c.k = "ff"    -> e.sa = Voters(pool, "notar", c.s, c.h) /\ e.sb = {} /\ Strong(SumStake(e.sa))
           [] c.k = "nf"    -> /\ e.sa = Voters(pool, "notar", c.s, c.h)
                               /\ e.sb = Voters(pool, "nf", c.s, c.h)
                               /\ Quorum(SumStake(e.sa \cup e.sb))
           [] c.k = "skip"  -> /\ e.sa = Voters(pool, "skip", c.s, NoneH)
                               /\ e.sb = Voters(pool, "sf", c.s, NoneH)
                               /\ Quorum(SumStake(e.sa \cup e.sb))
           [] c.k = "final" -> e.sa = Voters(pool, "final", c.s, NoneH) /\ e.sb = {} /\ Quorum(SumStake(e.sa))

\* at most once (certificates, safe-to-* signals, parent-ready announcements)
AtMostOnce == ~hist.dup

\* --- C04 ---------------------------------------------------------------
\* declarative conflict relation between two votes of one validator in one slot
Conflict(a, b) ==
  LET K == {a.k, b.k} IN
  \/ (a.k = "notar" /\ b.k = "notar" /\ a.h # b.h)
  \/ K = {"notar", "skip"}
  \/ (K = {"final", "skip"}) \/ (K = {"final", "sf"}) \/ (K = {"final", "nf"})
\* equivalent / repeated votes (counted at most once per class)
Equivalent(a, b) ==
  \/ a = b
  \/ (a.k = "notar" /\ b.k = "notar" /\ a.h = b.h)
  \/ ({a.k, b.k} = {"skip", "sf"})
  \/ ({a.k, b.k} = {"notar", "nf"} /\ a.h = b.h)

OfferedVerdict(p, vt) ==
  LET mine == {x \in p.votes : x.s = vt.s /\ x.v = vt.v} IN
  IF OutOfBounds(p, vt.s) THEN "SlotOutOfBounds"
  ELSE IF \E x \in mine : Conflict(x, vt) THEN "Slashable"
  ELSE IF \E x \in mine : Equivalent(x, vt) THEN "Duplicate"
  ELSE "Ok"

\* the operational verdict equals the declarative table, for every vote that could be offered now
AdmissionTable ==
  OK(pool) =>
  \A vt \in scn.votes :
    LET r == AddVote(pool, vt).ret
        d == OfferedVerdict(pool, vt)
    IN CASE d = "Slashable" -> r \in {"SkipAndNotarize", "NotarDifferentHash", "SkipAndFinalize",
                                      "NotarFallbackAndFinalize"}
         [] OTHER -> r = d

\* accepted votes of one validator in one slot are pairwise compatible and non-equivalent
\* (=> each validator's stake is counted at most once per class)
CountedOnce ==
  \A x, y \in pool.votes :
    (x # y /\ x.s = y.s /\ x.v = y.v) => (~Conflict(x, y) /\ ~Equivalent(x, y))

\* --- C06 ---------------------------------------------------------------
OwnVoted(p, s) == \E x \in p.votes : x.s = s /\ x.v = Own /\ x.k \in {"notar", "skip"}
S2NCond(p, b) ==
  LET s == b[1]  h == b[2]  ns == NotarStake(p, s, h) IN
  /\ OwnVoted(p, s) /\ ~Has(p, "notar", s, h, Own)
  /\ (Weak(ns) \/ (Weakest(ns) /\ Quorum(ns + SkipStake(p, s))))
  /\ b \in p.known /\ b \in p.pcert
S2SCond(p, s) ==
  /\ HasK(p, "notar", s, Own)
  /\ Weak(NotarOrSkip(p, s) - TopNotar(p, s))

\* parent certified, declaratively: the registered parent has a notar / nf / ff certificate held
ParentCertDecl(p, b) ==
  \E x \in p.bpar : x[1] = b /\ x[2][1] \in p.retained /\ NfOrStronger(p, x[2])

\* as soon as: conditions hold (declarative parent condition) => already signalled
S2NAsSoonAs ==
  OK(pool) =>
  \A s \in pool.retained : \A h \in HashesOf(pool, s) :
    LET b == <<s, h>> IN
    (S2NCond([pool EXCEPT !.pcert = IF ParentCertDecl(pool, b) THEN @ \cup {b} ELSE @ \ {b}], b))
       => b \in pool.sentN
S2SAsSoonAs ==
  OK(pool) => \A s \in pool.retained : S2SCond(pool, s) => s \in pool.sentS
\* only if: signalled => conditions hold now (all conditions are monotone within a retained slot)
S2NOnlyIf ==
  OK(pool) => \A b \in pool.sentN : S2NCond(pool, b) /\ ParentCertDecl(pool, b)
S2SOnlyIf ==
  OK(pool) => \A s \in pool.sentS : S2SCond(pool, s)

\* --- C07 ---------------------------------------------------------------
\* declarative parent-ready relation over what the pool holds / has decided
CertifiedBlock(p, b) ==
  \/ b = Genesis /\ p.prroot = 0
  \/ b \in p.prnf
SkippedSlot(p, t) == t \in p.prskip
ReadyDecl(p, s, b) ==
  /\ IsWindowStart(s) /\ b[1] < s /\ s >= p.prroot
  /\ CertifiedBlock(p, b)
  /\ \A t \in (b[1] + 1)..(s - 1) : SkippedSlot(p, t)

\* prnf / prskip agree with the held certificates and the finality tracker's decisions
PRInputsJustified ==
  OK(pool) =>
  \* (add_block lets the finality tracker prune itself before the pool prunes: slots below
  \*  the watermark are decided and their status is gone)
  /\ \A b \in pool.prnf : b[1] >= pool.fup =>
        \/ b = Genesis
        \/ NfOrStronger(pool, b)
        \/ (pool.fst[b[1]][1] \in {"fin", "ifin"} /\ pool.fst[b[1]][2] = b[2])
  /\ \A t \in pool.prskip : t >= pool.fup =>
        HasCertK(pool, "skip", t) \/ pool.fst[t][1] = "iskip"
PRInputsComplete ==
  OK(pool) =>
  /\ \A c \in pool.certs : (c.k \in {"notar", "nf"} /\ c.s >= pool.prroot) => <<c.s, c.h>> \in pool.prnf
  /\ \A c \in pool.certs : (c.k = "skip" /\ c.s >= pool.prroot) => c.s \in pool.prskip

ReadySound ==
  OK(pool) =>
  \A i \in 1..Len(pool.prready) :
    LET x == pool.prready[i] IN
    \* the chain back to the parent may reach below the root (already pruned): only the
    \* retained part can be re-checked
    /\ IsWindowStart(x[1]) /\ x[2][1] < x[1]
    /\ (x[2][1] >= pool.prroot => ReadyDecl(pool, x[1], x[2]))
ReadyComplete ==
  OK(pool) =>
  \A b \in pool.prnf : \A s \in (b[1] + 1)..(MaxSlot + 1) :
    ReadyDecl(pool, s, b) => b \in ReadyOf(pool, s)
\* the query agrees with the announcements: every ready pair was announced, except pairs
\* produced by a finalization step (which announces only the highest window)
\* -- checked on the ghost history: announced pairs are always in the query while retained
AnnouncedInQuery ==
  OK(pool) =>
  \A a \in hist.ann : a[1] >= pool.prroot => a[2] \in ReadyOf(pool, a[1])

\* --- C08 ---------------------------------------------------------------
FinalizedIff ==
  OK(pool) =>
  \A s \in Slots : s >= pool.fup =>
    /\ (pool.fst[s][1] = "fin") =>
          \/ HasCert(pool, "ff", s, pool.fst[s][2])
          \/ (HasCertK(pool, "final", s) /\ HasCert(pool, "notar", s, pool.fst[s][2]))
          \/ s = pool.fup     \* certificates of the watermark slot itself may have been pruned
    /\ \A h \in {c.h : c \in {x \in pool.certs : x.s = s /\ x.k \in {"ff", "notar"}}} :
          (HasCert(pool, "ff", s, h) \/ (HasCertK(pool, "final", s) /\ HasCert(pool, "notar", s, h)))
             => (pool.fst[s][1] \in {"fin", "ifin"} /\ pool.fst[s][2] = h)
HighestIsFinalized ==
  OK(pool) => /\ pool.highest >= pool.fup
              /\ (pool.highest > 0 => pool.fst[pool.highest][1] \in {"fin", "ifin"})
WatermarkDecided ==
  OK(pool) =>
  /\ \A s \in Slots : s < pool.fup => pool.fst[s] = FNone
  /\ (pool.fup > 0 => Decided(pool.fst[pool.fup]))
  /\ (pool.fup + 1 \in Slots => ~Decided(pool.fst[pool.fup + 1]))
\* ancestors: a finalized block with a registered parent has that parent finalized and the gap skipped
AncestorsFinalized ==
  OK(pool) =>
  \A x \in pool.fpar :
    LET c == x[1]  par == x[2] IN
    (c[1] >= pool.fup /\ pool.fst[c[1]][1] \in {"fin", "ifin"} /\ pool.fst[c[1]][2] = c[2]
       /\ par[1] >= pool.fup)
    => /\ pool.fst[par[1]][1] \in {"fin", "ifin"} /\ pool.fst[par[1]][2] = par[2]
       /\ \A t \in (par[1] + 1)..(c[1] - 1) : pool.fst[t][1] = "iskip"
\* nothing retained below the watermark after a pool prune ... (transiently add_block may re-create)
RetainedBounded ==
  OK(pool) => \A c \in pool.certs : c.s \in pool.retained

\* --- C18 ---------------------------------------------------------------
\* the bundle proves the highest finalized slot and carries every later certificate and own vote
BundleProvesFinalized ==
  OK(pool) =>
  LET b == StandstillBundle(pool)  s == pool.highest IN
  /\ b.slot = s + 1
  /\ (s > 0 => \/ \E c \in b.certs : c.k = "ff" /\ c.s = s
               \/ (\E c \in b.certs : c.k = "final" /\ c.s = s) /\ (\E c \in b.certs : c.k = "notar" /\ c.s = s))
  /\ \A c \in pool.certs : c.s > s => c \in b.certs
  /\ \A x \in pool.votes : (x.v = Own /\ x.s > s) => x \in b.votes

\* a fresh pool that receives only the bundle reaches the same highest finalized slot and the
\* same ready parents for the window after it
FreshPoolCatchesUp ==
  OK(pool) =>
  LET c == CatchUp(pool)
  IN /\ c.panic = "" /\ c.hi = pool.highest
     /\ c.ready = ReadyOf(pool, NextWindow(pool.highest))

NoPanic == pool.panic = ""

Consistent == ConsistentP(pool)

---------------------------------------------------------------------------
(* Reachability witnesses (must be VIOLATED: the interesting states exist) *)
W_CertCreated == hist.created = {}
W_S2N == hist.s2n = {}
W_S2S == hist.s2s = {}
W_Ann == hist.ann = {}
W_Finalized == pool.highest = 0
W_Pruned == pool.fup = 0
=============================================================================
