---------------------------- MODULE MC_ShredAuth ----------------------------
(***************************************************************************)
(* Model checking / case generation for C12 (spec: ShredAuth.tla).         *)
(* Three uses of the one module (one TLC run each, see vlib/props/c12.py): *)
(*  cases  (Total=64): every mutation of every field of a base shred, and  *)
(*         cross-slot / cross-slice / cross-index replays, each with every *)
(*         commitment the receiver can have cached for the shred's (slot,  *)
(*         slice); TLC checks the C12 predicates on every case and prints  *)
(*         it with the verdict  (CASE lines -> ValidatedShred::try_new).   *)
(*  store  (Total=4): the block store of one slot explored exhaustively    *)
(*         over every arrival order of honest shreds, relay mutants and    *)
(*         (Byzantine leader) conflicting signed slices.                   *)
(*  seqs   (Total=64): shred sequences through the same NodeStep operator, *)
(*         printed with the outcome of every step  (SEQ lines ->           *)
(*         BlockstoreImpl::add_shred_from_dissemination + events).         *)
(***************************************************************************)
EXTENDS ShredAuth, Json, TLCExt

CONSTANTS
  BaseIdx,          \* cases: positions of the base shred
  ZeroIdx,          \* cases: positions of the base shred in the zero-content scenario
  AllTargets,       \* cases: TRUE = every other index is a target of the index mutations
  MCScn,            \* store: "correct" | "byz"
  SeqNs,            \* seqs: how many honest shreds precede the special shred
  SeqFs,            \* seqs: positions of the relay-made shred
  SeqOrders         \* seqs: which index orders

VARIABLE st
vars == <<st>>

\* the byte-equality pattern of the shards the concretisation must reproduce
ASSUME PrintT(<<"META", ToJson([total |-> Total, data |-> Data, h |-> H,
                               shards |-> [c \in Contents |-> Shards(c)]])>>)

S(slot, slice, last, c) == [slot |-> slot, slice |-> slice, isLast |-> last, content |-> c]
Flip(i, k) == IF Bit(i, k) = 1 THEN i - Pow2(k) ELSE i + Pow2(k)
OtherC(c) == IF c = "A" THEN "B" ELSE "A"
OtherKind(t) == IF t = "data" THEN "coding" ELSE "data"
CacheCommit(sl) == IF sl = NoSlice THEN NoCommit ELSE Commit(sl)
Header(w, sl) == [w EXCEPT !.slot = sl.slot, !.slice = sl.slice, !.isLast = sl.isLast]

---------------------------------------------------------------------------
(* 1. cases *)
Base == S(5, 1, FALSE, "A")
HonestSigned == {Base, S(6, 1, FALSE, "A"), S(5, 2, FALSE, "A"), S(5, 3, TRUE, "B")}
Scenarios ==
  { [name |-> "correct", base |-> Base, signed |-> HonestSigned],
    \* a Byzantine leader also signed another content and another last flag for (5, 1)
    [name |-> "byz", base |-> Base, signed |-> HonestSigned \cup {S(5, 1, FALSE, "B"), S(5, 1, TRUE, "A")}],
    [name |-> "zero", base |-> S(5, 1, FALSE, "Z"), signed |-> {S(5, 1, FALSE, "Z")}] }

IndexTargets(i) ==
  (IF AllTargets THEN Positions
   ELSE {Flip(i, 0), Flip(i, 1), Flip(i, H - 1), (i + 1) % Total, 0, Total - 1}) \ {i}
FarIndices(i) == {Total, i + Total, i + 2 * Total, i + Total * 1048576}

M(name, w) == [m |-> name, w |-> w]
ReplaceAt(s, k, e) == [x \in 1..Len(s) |-> IF x = k THEN e ELSE s[x]]

Mutants(scn, i) ==
  LET sl == scn.base
      c == sl.content
      b == HonestShred(sl, i, "L")
      P == b.proof
      near == {Flip(i, 0), Flip(i, H - 1)}
  IN
  {M("none", b)}
  \* header fields
  \cup {M("slot", [b EXCEPT !.slot = s]) : s \in {6, 7}}
  \cup {M("slice", [b EXCEPT !.slice = s]) : s \in {0, 2, MaxSlices, sl.slice + MaxSlices,
                                                                 \* aliases of a commitment that keeps fewer bits of the index
                                                                 sl.slice + 256, sl.slice + 512, sl.slice + 768}}
  \cup {M("islast", [b EXCEPT !.isLast = ~@])}
  \* shred index: in range, beyond the range (index + k*Total aliases)
  \cup {M("index", [b EXCEPT !.index = j]) : j \in IndexTargets(i)}
  \cup {M("index+tag", [b EXCEPT !.index = j, !.tag = KindAt(j)]) : j \in {x \in IndexTargets(i) : KindAt(x) # KindAt(i)}}
  \cup {M("index-far", [b EXCEPT !.index = j]) : j \in FarIndices(i)}
  \cup {M("index+payload", [b EXCEPT !.index = j, !.payload = [c |-> c, i |-> j]]) : j \in near}
  \cup {M("index+proof", [b EXCEPT !.index = j, !.proof = PathD(c, j)]) : j \in near}
  \cup {M("other-shred", HonestShred(sl, j, "L")) : j \in near}
  \cup {M("other-shred+tag", [HonestShred(sl, j, "L") EXCEPT !.tag = OtherKind(@)]) : j \in near}
  \* payload bytes
  \cup {M("payload", [b EXCEPT !.payload = p]) : p \in {[c |-> c, i |-> Flip(i, 0)], [c |-> OtherC(c), i |-> i], [junk |-> 1]}}
  \* every proof element
  \cup UNION {{M("proof-elem", [b EXCEPT !.proof = ReplaceAt(P, k, e)]) :
                 e \in {[junk |-> k], [empty |-> k - 1], [c |-> OtherC(c), i |-> i, k |-> k],
                        [c |-> c, i |-> Flip(i, k - 1), k |-> k]}
                       \cup (IF k < H THEN {[c |-> c, i |-> Flip(i, k), k |-> k]} ELSE {})} : k \in 1..H}
  \* proof length
  \cup {M("proof-short", [b EXCEPT !.proof = SubSeq(P, 1, H - 1)]),
        M("proof-short+index", [b EXCEPT !.proof = SubSeq(P, 1, H - 1), !.index = i % Pow2(H - 1)]),
        M("proof-long", [b EXCEPT !.proof = Append(P, [junk |-> 99])]),
        M("proof-long", [b EXCEPT !.proof = Append(P, [empty |-> H])]),
        M("proof-empty", [b EXCEPT !.proof = <<>>])}
  \* signature bytes / by another key / over another commitment the leader signed
  \cup {M("sig-bytes", [b EXCEPT !.sig = NoSig]), M("sig-key", [b EXCEPT !.sig = Sig("X", sl)])}
  \cup {M("sig-over", [b EXCEPT !.sig = Sig("L", o)]) : o \in scn.signed \ {sl}}
  \cup {M("sig-key+over", [b EXCEPT !.sig = Sig("X", o)]) : o \in {S(5, 1, FALSE, "B")}}
  \* data/coding tag
  \cup {M("tag", [b EXCEPT !.tag = OtherKind(@)]), M("tag-invalid", [b EXCEPT !.tag = "invalid"])}
  \cup {M("tag+sig-bytes", [b EXCEPT !.tag = OtherKind(@), !.sig = NoSig]),
        M("tag+sig-key", [b EXCEPT !.tag = OtherKind(@), !.sig = Sig("X", sl)])}
  \* replays under another slice the leader signed: header only, header + that signature, the whole shred
  \cup {M("replay-header", Header(b, o)) : o \in scn.signed \ {sl}}
  \cup {M("replay-header+sig", [Header(b, o) EXCEPT !.sig = Sig("L", o)]) : o \in scn.signed \ {sl}}
  \cup {M("replay-shred", HonestShred(o, i, "L")) : o \in scn.signed \ {sl}}
  \* another key's own slice dressed with the leader's header
  \cup {M("foreign-slice", HonestShred(S(sl.slot, sl.slice, sl.isLast, OtherC(c)), i, "X"))}

CachesFor(scn, w) ==
  {NoSlice} \cup (IF Decodable(w) THEN {o \in scn.signed : o.slot = w.slot /\ o.slice = w.slice} ELSE {})

CasesOf(scn, i) ==
  UNION {{[scn |-> scn.name, i |-> i, m |-> x.m, w |-> x.w, cache |-> cch] : cch \in CachesFor(scn, x.w)}
         : x \in Mutants(scn, i)}

SignedOf(name) == (CHOOSE scn \in Scenarios : scn.name = name).signed
Verdict(x) == Receive(x.w, CacheCommit(x.cache), "L")
\* the slice whose commitment an accepted shred reports (ValidatedShred::commitment)
AcceptedSlice(x) ==
  IF Verdict(x) = "Ok" /\ \E o \in SignedOf(x.scn) : Commit(o) = CommitmentOf(x.w)
  THEN CHOOSE o \in SignedOf(x.scn) : Commit(o) = CommitmentOf(x.w) ELSE NoSlice
\* Shred::verify_path_only against the root of the slice the carried signature speaks about
PathOk(x) == Decodable(x.w) /\ x.w.sig.over # NoSlice /\ Proven(x.w, RootFn[x.w.sig.over.content])
CacheRel(x) == IF x.cache = NoSlice THEN "none"
               ELSE IF Decodable(x.w) /\ Commit(x.cache) = CommitmentOf(x.w) THEN "identical" ELSE "different"
Expected(x) == [verdict |-> Verdict(x), commit |-> AcceptedSlice(x), pathOk |-> PathOk(x)]

\* Initial states are SEEDS (scenario, base position); the cases are their successors, so that TLC's
\* workers enumerate and check them in parallel.
ScnOf(name) == CHOOSE scn \in Scenarios : scn.name = name
CaseSeeds == UNION {{[scn |-> scn.name, i |-> i, m |-> "seed"] : i \in (IF scn.name = "zero" THEN ZeroIdx ELSE BaseIdx)}
                    : scn \in Scenarios}
InitCases == st \in CaseSeeds
NextCases == st.m = "seed" /\ st' \in CasesOf(ScnOf(st.scn), st.i)
IsCase == st.m # "seed"

\* --- C12 on every case
CaseWellFormed == IsCase => SigWellFormed(st.w, SignedOf(st.scn)) /\ (st.cache # NoSlice => st.cache \in SignedOf(st.scn))
BaseAccepted ==
  IsCase /\ st.m \in {"none", "replay-shred", "other-shred"} =>
    Verdict(st) = (IF st.cache = NoSlice \/ Commit(st.cache) = CommitmentOf(st.w) THEN "Ok" ELSE "Equivocation")
\* implementation-shaped try_new = declarative ValidShred / EquivocationProof
Conformance ==
  IsCase /\ Decodable(st.w) =>
    /\ (Verdict(st) = "Ok") = ValidShred(st.w, CacheCommit(st.cache), "L")
    /\ (Verdict(st) = "Equivocation") = EquivocationProof(st.w, CacheCommit(st.cache), "L")
AcceptedImpliesSigned == (IsCase /\ Verdict(st) = "Ok") => (Authentic(st.w, SignedOf(st.scn)) /\ AcceptedSlice(st) # NoSlice)
\* whatever is accepted is, up to the unbound tag and signature bytes, a shred the leader produced
AlteredRejected == (IsCase /\ Verdict(st) = "Ok") => Genuine(st.w, SignedOf(st.scn))
CacheOnlyShortcutsIdentical ==
  IsCase /\ st.cache # NoSlice =>
    /\ Verdict(st) = "Ok" => CommitmentOf(st.w) = Commit(st.cache)
    /\ (Decodable(st.w) /\ CommitmentOf(st.w) # Commit(st.cache)) =>
          Verdict(st) = (IF Receive(st.w, NoCommit, "L") = "Ok" THEN "Equivocation" ELSE Receive(st.w, NoCommit, "L"))
TwoCommitmentsReported ==
  (IsCase /\ Decodable(st.w) /\ st.cache # NoSlice /\ Verify(st.w.sig, CommitmentOf(st.w), "L")
     /\ CommitmentOf(st.w) # Commit(st.cache)) => Verdict(st) = "Equivocation"
CorrectLeaderNeverAccused == (IsCase /\ st.scn # "byz") => Verdict(st) # "Equivocation"

WOut(w) ==
  [tag |-> w.tag, slot |-> w.slot, slice |-> w.slice, isLast |-> w.isLast, index |-> w.index,
   payload |-> w.payload, sig |-> w.sig,
   proof |-> IF "c" \in DOMAIN w.payload /\ w.proof = PathD(w.payload.c, w.payload.i)
             THEN [path |-> w.payload] ELSE [elems |-> w.proof]]
EmitCase == IsCase => PrintT(<<"CASE", ToJson([scn |-> st.scn, i |-> st.i, m |-> st.m, w |-> WOut(st.w),
                                     cache |-> st.cache, cacheRel |-> CacheRel(st), exp |-> Expected(st)])>>)

\* (vacuity: vlib/props/c12.py requires the interesting verdict classes among the replayed cases)

---------------------------------------------------------------------------
(* 2. the block store of one slot, every arrival order (Total = 4, Data = 2) *)
B0 == S(5, 0, FALSE, "A")   B1 == S(5, 1, TRUE, "C")
B0x == S(5, 0, FALSE, "B")  B0l == S(5, 0, TRUE, "A")   B1x == S(5, 1, TRUE, "D")
SignedMC == IF MCScn = "correct" THEN {B0, B1} ELSE {B0, B1, B0x, B0l, B1x}
SliceIds == {0, 1}

RelayMutants(g) ==
  {[g EXCEPT !.tag = OtherKind(@)], [g EXCEPT !.sig = NoSig], [g EXCEPT !.sig = Sig("X", g.sig.over)],
   [g EXCEPT !.tag = OtherKind(@), !.sig = NoSig], [g EXCEPT !.payload = [junk |-> 1]],
   [g EXCEPT !.isLast = ~@], [g EXCEPT !.index = Flip(@, 0)], [g EXCEPT !.slice = 1 - @],
   [g EXCEPT !.index = @ + Total]}
HonestMC == {HonestShred(sl, i, "L") : sl \in SignedMC, i \in Positions}
\* (Byzantine-leader model: relay mutants of the two conflicting first slices only, to keep Total = 8 tractable)
MutBase == IF MCScn = "correct" THEN HonestMC ELSE {g \in HonestMC : g.sig.over \in {B0, B0x}}
Universe == HonestMC \cup UNION {RelayMutants(g) : g \in MutBase}

InitStore == st = BsInit(SliceIds)
NextStore == \E w \in Universe, uc \in BOOLEAN : st' = NodeStep(st, w, uc).bs

MC_NeverFlagged == MCScn = "correct" => ~st.misbehaved
MC_CacheOnlySigned ==
  \A s \in SliceIds : st.cache[s] # NoCommit => \E sl \in SignedMC : sl.slice = s /\ Commit(sl) = st.cache[s]
MC_NeverBothAccepted == \A s \in SliceIds : Cardinality(st.acc[s]) <= 1 /\ st.acc[s] \subseteq {st.cache[s]}
StepOK(w, uc) ==
  LET r == NodeStep(st, w, uc)
      cached == st.cache[w.slice]
      cm == CommitmentOf(w)
  IN
  /\ ~Decodable(w) => r.verdict = "Undecodable" /\ r.bs = st
  /\ Decodable(w) =>
     \* accepted only if authentic
     /\ r.verdict = "Ok" => Authentic(w, SignedMC)
     \* the cache only shortcuts an identical commitment
     /\ (uc /\ r.verdict = "Ok" /\ cached # NoCommit) => cm = cached
     \* a second validly signed commitment for the slice is reported, at one level or the other
     /\ (~st.misbehaved /\ KindOk(w) /\ Verify(w.sig, cm, "L") /\ cached # NoCommit /\ cached # cm) =>
          \/ r.verdict = "Equivocation"
          \/ (r.ret = "Equivocation" /\ r.bs.misbehaved /\ r.events = <<"InvalidBlock">>)
     \* InvalidBlock exactly when the flag is raised
     /\ (r.bs.misbehaved /\ ~st.misbehaved) = (\E k \in 1..Len(r.events) : r.events[k] = "InvalidBlock")
     \* a correct leader is never accused, whatever relays do
     /\ MCScn = "correct" => r.verdict # "Equivocation" /\ r.ret \notin {"Equivocation", "InvalidShred"}
MC_Step == \A w \in Universe, uc \in BOOLEAN : StepOK(w, uc)

W_MC_Block == ~st.complete
W_MC_Flagged == ~st.misbehaved
W_MC_BlockThenFlagged == ~(st.complete /\ st.misbehaved)

---------------------------------------------------------------------------
(* 3. sequences for replay (Total = 64, Data = 32) *)
Perm(o) == [k \in 1..Total |->
              CASE o = "asc" -> k - 1
                [] o = "desc" -> Total - k
                [] OTHER -> (k * 37 + 5) % Total]
Without(seq, f) == SelectSeq(seq, LAMBDA x : x # f)
Hon(sl, idxs) == [k \in 1..Len(idxs) |-> [w |-> HonestShred(sl, idxs[k], "L"), uc |-> TRUE, role |-> "honest"]]
One(w, uc) == <<[w |-> w, uc |-> uc, role |-> "special"]>>

MutantOf(m, sl, f) ==
  LET g == HonestShred(sl, f, "L") IN
  CASE m = "tag" -> [g EXCEPT !.tag = OtherKind(@)]
    [] m = "sig-bytes" -> [g EXCEPT !.sig = NoSig]
    [] m = "sig-key" -> [g EXCEPT !.sig = Sig("X", sl)]
    [] m = "tag+sig-bytes" -> [g EXCEPT !.tag = OtherKind(@), !.sig = NoSig]
    [] m = "payload" -> [g EXCEPT !.payload = [junk |-> 1]]
    [] m = "islast" -> [g EXCEPT !.isLast = ~@]
    [] m = "index" -> [g EXCEPT !.index = Flip(@, 0)]

\* a correct leader's two-slice block; one relay-made shred for position f among the honest ones
T0 == S(5, 0, FALSE, "A")   T1 == S(5, 1, TRUE, "C")
SeqCorrect(m, f, n, o, ucm) ==
  LET idx == Without(Perm(o), f)
      x == One(MutantOf(m, T0, f), ucm)
  IN [name |-> "relay:" \o m, scn |-> "correct", m |-> m, f |-> f, n |-> n, order |-> o,
      steps |-> Hon(T0, SubSeq(idx, 1, n)) \o x \o Hon(T0, SubSeq(idx, n + 1, Data + 1)) \o x
                \o Hon(T1, SubSeq(Perm(o), 1, Data)) \o x \o Hon(T1, SubSeq(Perm(o), Data + 1, Data + 1))]

\* a Byzantine leader: n shreds of slice x, then a shred of the conflicting slice y
SeqByz(x, y, n, o, uc) ==
  LET p == Perm(o) IN
  [name |-> "equivocation", scn |-> "byz", m |-> "conflict", f |-> 0, n |-> n, order |-> o,
   steps |-> Hon(x, SubSeq(p, 1, n)) \o One(HonestShred(y, p[n + 1], "L"), uc)
             \o One(HonestShred(x, p[n + 2], "L"), TRUE) \o One(HonestShred(y, p[n + 3], "L"), uc)]
\* ... conflicting second slice after the first is complete
SeqByz2(o, uc) ==
  LET p == Perm(o) IN
  [name |-> "equivocation-2nd-slice", scn |-> "byz", m |-> "conflict", f |-> 0, n |-> Data, order |-> o,
   steps |-> Hon(S(5, 0, FALSE, "A"), SubSeq(p, 1, Data)) \o Hon(S(5, 1, TRUE, "C"), SubSeq(p, 1, 3))
             \o One(HonestShred(S(5, 1, TRUE, "D"), p[4], "L"), uc)
             \o One(HonestShred(S(5, 1, TRUE, "C"), p[5], "L"), TRUE)]

\* ... a last marker below a slice of which n shreds were already accepted (partially received or reconstructed)
SeqByz3(n, o, uc) ==
  LET p == Perm(o) IN
  [name |-> "last-below-accepted", scn |-> "byz", m |-> "conflict", f |-> 0, n |-> n, order |-> o,
   steps |-> Hon(S(5, 1, FALSE, "C"), SubSeq(p, 1, n)) \o One(HonestShred(S(5, 0, TRUE, "A"), p[n + 1], "L"), uc)
             \o One(HonestShred(S(5, 1, FALSE, "C"), p[n + 2], "L"), TRUE)]

ConflictPairs == {<<S(5, 0, FALSE, "A"), S(5, 0, FALSE, "B")>>, <<S(5, 0, FALSE, "B"), S(5, 0, FALSE, "A")>>,
                  <<S(5, 0, FALSE, "A"), S(5, 0, TRUE, "A")>>, <<S(5, 0, TRUE, "A"), S(5, 0, FALSE, "A")>>}
RelayKinds == {"tag", "sig-bytes", "sig-key", "tag+sig-bytes", "payload", "islast", "index"}

Seqs ==
  {SeqCorrect(m, f, n, o, TRUE) : m \in RelayKinds, f \in SeqFs, n \in SeqNs, o \in SeqOrders}
  \cup {SeqCorrect("tag", f, n, o, FALSE) : f \in SeqFs, n \in SeqNs, o \in SeqOrders}
  \cup {SeqByz(pr[1], pr[2], n, o, uc) : pr \in ConflictPairs, n \in (SeqNs \cup {Data, Data + 1}) \ {0}, o \in SeqOrders, uc \in BOOLEAN}
  \cup {SeqByz2(o, uc) : o \in SeqOrders, uc \in BOOLEAN}
  \cup {SeqByz3(n, o, uc) : n \in (SeqNs \cup {Data, Data + 1}) \ {0}, o \in SeqOrders, uc \in BOOLEAN}

RECURSIVE RunFrom(_, _, _)
RunFrom(bs, steps, k) ==
  IF k > Len(steps) THEN <<>>
  ELSE LET r == NodeStep(bs, steps[k].w, steps[k].uc)
       IN <<[verdict |-> r.verdict, ret |-> r.ret, events |-> r.events, flagged |-> r.bs.misbehaved,
             complete |-> r.bs.complete]>> \o RunFrom(r.bs, steps, k + 1)
Run(sq) == RunFrom(BsInit(SliceIds), sq.steps, 1)

\* seeds (order, n) -> the sequences with that order and n (parallel evaluation, as for the cases)
SeqSeeds == {[seed |-> TRUE, order |-> sq.order, n |-> sq.n] : sq \in Seqs}
InitSeqs == st \in SeqSeeds
NextSeqs == "seed" \in DOMAIN st /\ st' \in {sq \in Seqs : sq.order = st.order /\ sq.n = st.n}
IsSeq == "seed" \notin DOMAIN st

CountEv(run, e) == Cardinality({<<k, j>> \in (1..Len(run)) \X (1..4) : j <= Len(run[k].events) /\ run[k].events[j] = e})
\* no sequence of shreds around a correct leader's slices gets the leader flagged, and the block still completes
Seq_CorrectNeverFlagged ==
  IsSeq /\ st.scn = "correct" =>
    LET run == Run(st) IN
    /\ \A k \in 1..Len(run) : ~run[k].flagged /\ run[k].verdict # "Equivocation" /\ run[k].ret \notin {"Equivocation", "InvalidShred"}
    /\ CountEv(run, "InvalidBlock") = 0 /\ CountEv(run, "Block") = 1 /\ CountEv(run, "FirstShred") = 1
\* two conflicting signed slices: reported in either order, at one level or the other; flagged at most once
Seq_ConflictReported ==
  IsSeq /\ st.scn = "byz" =>
    LET run == Run(st) IN
    /\ \E k \in 1..Len(run) : run[k].verdict = "Equivocation" \/ run[k].ret = "Equivocation"
    /\ CountEv(run, "InvalidBlock") <= 1
    /\ \A k \in 1..Len(run) : (~st.steps[k].uc /\ run[k].verdict = "Ok" /\ st.steps[k].w.sig.over # st.steps[1].w.sig.over)
                                => run[k].flagged

EmitSeq ==
  IsSeq =>
  LET run == Run(st) IN
  PrintT(<<"SEQ", ToJson([name |-> st.name, scn |-> st.scn, m |-> st.m, f |-> st.f, n |-> st.n, order |-> st.order,
                          steps |-> [k \in 1..Len(st.steps) |->
                                       [w |-> WOut(st.steps[k].w), uc |-> st.steps[k].uc, role |-> st.steps[k].role,
                                        exp |-> run[k]]]])>>)

=============================================================================
