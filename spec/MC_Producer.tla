---------------------------- MODULE MC_Producer ----------------------------
(***************************************************************************)
(* Production of one block under every interleaving of the environment:     *)
(*   Start(v)   wait_for_first_slot returned Ready (v = "ready") or          *)
(*              ParentReadyNotSeen (v = "notready")                          *)
(*   Tx(len)    a client transaction arrives (sizes from TxSizes, oversized  *)
(*              ones from OverSizes)                                         *)
(*   Burst      BurstN transactions of BurstLen bytes arrive back to back at *)
(*              the start of a slice (a shorthand: 62 maximal transactions   *)
(*              fit into a slice, the boundary is reached by a burst plus a  *)
(*              few single transactions)                                     *)
(*   Tick       one tick of time passes (slice / block timers expire)        *)
(*   PR(b)      the ParentReady oneshot fires with b: the block the leader   *)
(*              builds on ("A") or another one                               *)
(* Bounds: at most MaxSingles single transactions and one burst per slice;   *)
(* slices with index < MaxSlices carry state.                                *)
(* EDGE / STATE dump for the replay into the real BlockProducer.             *)
(***************************************************************************)
EXTENDS Producer, Json, TLC, TLCExt

CONSTANTS
  Variants,     \* subset of {"ready", "notready"}
  Parents,      \* blocks ParentReady may name; "A" is the block of the previous slot the leader builds on
  TxSizes,      \* payload sizes of single transactions (<= MaxTx)
  OverSizes,    \* payload sizes of oversized transactions (> MaxTx)
  BurstN,       \* transactions per burst (0: no bursts)
  BurstLen,     \* their payload size
  MaxSingles,   \* single transactions per slice
  MaxSlices     \* slices 0..MaxSlices-1 carry state

VARIABLES p, act, out, nS, bu, sid

vars == <<p, act, out, nS, bu, sid>>

Opt == "A"

\* history is kept in the state but only its property-relevant projection distinguishes states:
\* the exact size / transaction count of an already shipped slice never influences the future
ProjSlice(s) == [idx |-> s.idx, last |-> s.last, par |-> s.par, over |-> s.size > MaxData]
ProjP(q) == [q EXCEPT !.shipped = [i \in 1..Len(q.shipped) |-> ProjSlice(q.shipped[i])],
                      !.accepted = TxBalance(q), !.accBytes = ByteBalance(q), !.dropped = 0]
View == <<ProjP(p), nS, bu>>
SId(q, n, b) == <<TLCFP(<<ProjP(q), n, b>>), TLCFP(<<b, n, ProjP(q), 7>>)>>

Init ==
  /\ p = InitProducer
  /\ act = [op |-> "init"]
  /\ out = NoOut
  /\ nS = 0
  /\ bu = FALSE
  /\ sid = SId(p, nS, bu)

Step(a, r, n, b) ==
  LET fresh == r.p.idx # p.idx \/ r.p.phase # p.phase      \* a new slice: budgets start again
      n1 == IF fresh THEN 0 ELSE n
      b1 == IF fresh THEN FALSE ELSE b
  IN /\ p' = r.p
     /\ act' = a
     /\ out' = r.out
     /\ nS' = n1
     /\ bu' = b1
     /\ sid' = SId(r.p, n1, b1)

RECURSIVE BurstStep(_, _)
BurstStep(q, k) == IF k = 0 THEN q ELSE BurstStep(OnTx(q, BurstLen).p, k - 1)

\* context of the step for the replay report: variant, reservation in force for the slice being filled
Ctx(a) == a @@ [v |-> p.variant, rsv |-> p.rsv, i |-> p.idx]

Next ==
 /\ p.idx < MaxSlices          \* a state whose slice index reached MaxSlices is not explored further
 /\
  \/ /\ p.phase = "idle"
     /\ \E v \in Variants : Step([op |-> "start", v |-> v, b |-> Opt], OnStart(p, v, Opt), 0, FALSE)
  \/ /\ p.phase = "collect" /\ nS < MaxSingles
     /\ \E len \in TxSizes \cup OverSizes :
          LET r == OnTx(p, len) IN Step(Ctx([op |-> "tx", len |-> len, acc |-> r.out.acc]), r, nS + 1, bu)
  \/ /\ p.phase = "collect" /\ BurstN > 0 /\ ~bu /\ nS = 0 /\ p.cnt = 0
     /\ p.buf + BurstN * TxCost(BurstLen) + MaxTx + TxOverhead <= Space(p.par, p.rsv)   \* the burst does not fill the slice
     /\ Step(Ctx([op |-> "burst", len |-> BurstLen, n |-> BurstN, acc |-> BurstN]),
             R(BurstStep(p, BurstN), [NoOut EXCEPT !.acc = BurstN]), nS, TRUE)
  \/ /\ p.phase \in {"collect", "await"}
     /\ Step(Ctx([op |-> "tick"]), OnTick(p), nS, bu)
  \/ /\ p.phase \in {"collect", "await"} /\ p.variant = "notready" /\ p.pr = Unseen
     /\ \E b \in Parents : Step(Ctx([op |-> "pr", b |-> b]), OnParentReady(p, b), nS, bu)

---------------------------------------------------------------------------
EmitEdge == PrintT(<<"EDGE", ToJson([f |-> sid, a |-> act', e |-> out', t |-> sid'])>>)
Obs(q) == [phase |-> q.phase, n |-> Len(q.shipped),
           sl |-> [i \in 1..Len(q.shipped) |-> [idx |-> q.shipped[i].idx, last |-> q.shipped[i].last, par |-> q.shipped[i].par]],
           eff |-> q.eff]
EmitState == PrintT(<<"STATE", ToJson([id |-> sid, init |-> (TLCGet("level") = 1), obs |-> Obs(p)])>>)

---------------------------------------------------------------------------
(* the intended behaviour *)
InvNoOverflow == NoOverflow(p)
InvNoPanic == NoPanic(p)
InvIndices == IndicesInOrder(p)
InvOneLast == OneLastSlice(p)
InvFirstParent == FirstSliceHasParent(p)
InvOneSwitch == AtMostOneSwitch(p)
InvEffectiveParentIsReady == EffectiveParentIsReady(p)
InvTxConserved == TxConserved(p)
InvRoomForOne == RoomForOne(p)
InvNeverStuck == NeverStuck(p)
\* the step outputs agree with the state (what the replay compares is what the invariants speak about)
InvOutConsistent ==
  /\ Len(out.ship) <= 1
  /\ Len(out.ship) = 1 => \E i \in 1..Len(p.shipped) : i >= Len(p.shipped) - 1 /\ p.shipped[i] = out.ship[1]
  /\ out.done <=> (p.phase = "done" /\ act.op # "init" /\ Len(out.ship) = 1)
  /\ out.done => out.eff = p.eff
  /\ (out.panic # "") => p.phase = "panic"

(* vacuity witnesses: each must be VIOLATED, i.e. the situation is reachable *)
W_DoneReady == ~(p.phase = "done" /\ p.variant = "ready" /\ Len(p.shipped) >= 2)
W_DoneSame == ~(p.phase = "done" /\ p.variant = "notready" /\ p.pr = Opt /\ Len(p.shipped) >= 2)
W_SwitchLater == ~(p.phase = "done" /\ Switches(p) # {})
W_SwitchFirst == ~(p.phase = "done" /\ p.variant = "notready" /\ p.pr # Opt /\ Switches(p) = {})
W_ExactlyFull == ~(\E i \in 1..Len(p.shipped) : p.shipped[i].size = MaxData)
W_SwitchExactlyFull == ~(\E i \in Switches(p) : p.shipped[i].size = MaxData)
W_Room39 == ~(\E i \in 2..Len(p.shipped) : p.shipped[i].par = NoParent /\ MaxData - p.shipped[i].size \in 1..39)
W_Dropped == ~(p.dropped > 0 /\ p.phase = "done")
W_Await == p.phase # "await"
W_Overflow == NoOverflow(p) /\ NoPanic(p)
=============================================================================
