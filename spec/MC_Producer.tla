---------------------------- MODULE MC_Producer ----------------------------
(***************************************************************************)
(* Production of one leader window under every interleaving of the          *)
(* environment:                                                             *)
(*   Start(c)   the loop reaches the window in situation c (see             *)
(*              Producer!OnStart): Ready / ParentReadyNotSeen / Skip         *)
(*   Tx(len)    a client transaction arrives (sizes from TxSizes, oversized  *)
(*              ones from OverSizes)                                         *)
(*   Burst      BurstN transactions of BurstLen bytes arrive back to back at *)
(*              the start of a slice (a shorthand: 62 maximal transactions   *)
(*              fit into a slice, the boundary is reached by a burst plus a  *)
(*              few single transactions)                                     *)
(*   Tick       one tick of time passes (slice / block timers expire)        *)
(*   PR(b)      the ParentReady oneshot fires with b: the block the leader   *)
(*              builds on ("A") or another one                               *)
(*   Finalize   a further finalization reaches the pool (only where the      *)
(*              transcription of the code says it matters)                   *)
(* Every step that hands out a slice is taken once per LossMode: the         *)
(* Disseminator fails for no / every second / every shred of that slice;     *)
(* the successor state is the same.                                          *)
(* Bounds: the first block of window w1 gets MaxSingles single transactions  *)
(* and one burst per slice; every other block LaterSingles transactions of   *)
(* LaterSizes per slice; slices with index < MaxSlices carry state.          *)
(* EDGE / STATE dump for the replay into the real BlockProducer.             *)
(***************************************************************************)
EXTENDS Producer, Json, TLC, TLCExt

CONSTANTS
  Starts,       \* situations in which the loop reaches the window (codes of Producer!OnStart)
  Parents,      \* blocks ParentReady may name; "A" is the block of the previous slot the leader builds on
  TxSizes,      \* payload sizes of single transactions (<= MaxTx)
  OverSizes,    \* payload sizes of oversized transactions (> MaxTx)
  BurstN,       \* transactions per burst (0: no bursts)
  BurstLen,     \* their payload size
  MaxSingles,   \* single transactions per slice
  LaterSizes,   \* sizes of the transactions while the other blocks are produced
  LaterSingles, \* ... and how many per slice
  LossModes,    \* subset of {"none", "odd", "all"}
  MaxSlices     \* slices 0..MaxSlices-1 carry state

VARIABLES p, act, out, nS, bu, sid

vars == <<p, act, out, nS, bu, sid>>

\* history is kept in the state but only its property-relevant projection distinguishes states:
\* the exact size / transaction count of an already shipped slice never influences the future
ProjSlice(s) == [idx |-> s.idx, last |-> s.last, par |-> s.par, over |-> s.size > MaxData]
ProjP(q) == [q EXCEPT !.shipped = [i \in 1..Len(q.shipped) |-> ProjSlice(q.shipped[i])],
                      !.accepted = TxBalance(q), !.accBytes = ByteBalance(q), !.dropped = 0]
View == <<ProjP(p), nS, bu>>
SId(q, n, b) == <<TLCFP(<<ProjP(q), n, b>>), TLCFP(<<b, n, ProjP(q), 7>>)>>

Init ==
  /\ p = InitProducer
  /\ act = [op |-> "init"]
  /\ out = NoOut
  /\ nS = 0
  /\ bu = FALSE
  /\ sid = SId(p, nS, bu)

\* one step; if it hands out a slice, the Disseminator's behaviour `l` for that slice is part of the step
Step(a, r, n, b) ==
  LET fresh == r.p.idx # p.idx \/ r.p.phase # p.phase \/ r.p.k # p.k \/ r.p.win # p.win   \* a new slice: budgets start again
      n1 == IF fresh THEN 0 ELSE n
      b1 == IF fresh THEN FALSE ELSE b
  IN \E l \in (IF r.out.ship = <<>> THEN {"none"} ELSE LossModes) :
     /\ p' = r.p
     /\ act' = a @@ [loss |-> l]
     /\ out' = [r.out EXCEPT !.ship = [i \in 1..Len(r.out.ship) |-> r.out.ship[i] @@ [sent |-> Sent(l)]]]
     /\ nS' = n1
     /\ bu' = b1
     /\ sid' = SId(r.p, n1, b1)

RECURSIVE BurstStep(_, _)
BurstStep(q, k) == IF k = 0 THEN q ELSE BurstStep(OnTx(q, BurstLen).p, k - 1)

\* context of the step for the replay report: variant, reservation in force for the slice being filled
Ctx(a) == a @@ [v |-> p.variant, rsv |-> p.rsv, i |-> p.idx, w |-> p.win, k |-> p.k, c |-> p.cond]

Detailed == p.win = "w1" /\ p.k = 0        \* the block whose byte boundaries are explored

Next ==
 /\ p.idx < MaxSlices          \* a state whose slice index reached MaxSlices is not explored further
 /\
  \/ /\ p.phase = "idle"
     /\ \E c \in Starts : Step([op |-> "start", c |-> c, v |-> StartVariant(c)], OnStart(p, c), 0, FALSE)
  \/ /\ p.phase = "collect" /\ nS < (IF Detailed THEN MaxSingles ELSE LaterSingles)
     /\ \E len \in (IF Detailed THEN TxSizes \cup OverSizes ELSE LaterSizes) :
          LET r == OnTx(p, len) IN Step(Ctx([op |-> "tx", len |-> len, acc |-> r.out.acc]), r, nS + 1, bu)
  \/ /\ p.phase = "collect" /\ Detailed /\ BurstN > 0 /\ ~bu /\ nS = 0 /\ p.cnt = 0
     /\ p.buf + BurstN * TxCost(BurstLen) + MaxTx + TxOverhead <= Space(p.par, p.rsv)   \* the burst does not fill the slice
     /\ Step(Ctx([op |-> "burst", len |-> BurstLen, n |-> BurstN, acc |-> BurstN]),
             R(BurstStep(p, BurstN), [NoOut EXCEPT !.acc = BurstN]), nS, TRUE)
  \/ /\ p.phase \in {"collect", "await"}
     /\ Step(Ctx([op |-> "tick"]), OnTick(p), nS, bu)
  \/ /\ p.phase \in {"collect", "await"} /\ p.variant = "notready" /\ p.pr = Unseen /\ ~p.pruned
     /\ \E b \in Parents : Step(Ctx([op |-> "pr", b |-> b]), OnParentReady(p, b), nS, bu)
  \/ /\ ~CanComplete(p) /\ p.pr = Unseen
     /\ Step(Ctx([op |-> "finalize"]), OnFinalize(p), nS, bu)

---------------------------------------------------------------------------
EmitEdge == PrintT(<<"EDGE", ToJson([f |-> sid, a |-> act', e |-> out', t |-> sid'])>>)
Obs(q) == [phase |-> q.phase, w |-> q.win, k |-> q.k, n |-> Len(q.shipped),
           sl |-> [i \in 1..Len(q.shipped) |-> [idx |-> q.shipped[i].idx, last |-> q.shipped[i].last, par |-> q.shipped[i].par]],
           blocks |-> q.blocks, skipped |-> q.skipped]
EmitState == PrintT(<<"STATE", ToJson([id |-> sid, init |-> (TLCGet("level") = 1), obs |-> Obs(p)])>>)

---------------------------------------------------------------------------
(* the intended behaviour *)
InvNoOverflow == NoOverflow(p)
InvNoPanic == NoPanic(p)
InvIndices == IndicesInOrder(p)
InvOneLast == OneLastSlice(p)
InvFirstParent == FirstSliceHasParent(p)
InvOneSwitch == AtMostOneSwitch(p)
InvEffectiveParentIsReady == EffectiveParentIsReady(p)
InvTxConserved == TxConserved(p)
InvRoomForOne == RoomForOne(p)
InvNeverStuck == NeverStuck(p)
InvCanComplete == CanComplete(p)
InvBlocksOK == NoBlockViolation(p)
InvWindowChain == WindowChain(p)
InvWindowShape == WindowShape(p)
InvWholeWindows == WholeWindows(p)
\* the step outputs agree with the state (what the replay compares is what the invariants speak about)
InvOutConsistent ==
  /\ Len(out.ship) <= 1
  /\ out.done => (Len(out.ship) = 1 /\ out.ship[1].last /\ p.blocks # <<>>
                  /\ p.blocks[Len(p.blocks)] = [w |-> out.w, k |-> out.k, par |-> out.eff])
  /\ (out.panic # "") => p.phase = "panic"
  /\ out.skip => (p.skipped # <<>> /\ p.blocks = <<>>)

(* vacuity witnesses: each must be VIOLATED, i.e. the situation is reachable *)
W_Await == p.phase # "await"
W_Done == p.phase # "done"
W_Stuck == CanComplete(p)
=============================================================================
