------------------------------- MODULE Pool -------------------------------
(***************************************************************************)
(* One validator's vote/certificate pool (src/consensus/pool.rs,           *)
(* pool/slot_state.rs, pool/finality_tracker.rs,                           *)
(* pool/parent_ready_tracker.rs) as a record-valued state with pure        *)
(* operators.  One operator per public call:                                *)
(*   AddVote(p, vote)  AddCert(p, cert)  AddBlock(p, b, parent)             *)
(*   Standstill(p)     WaitParentReady(p, s)                                *)
(* each returning  [p, ret, ev, rep, panic]  (new state, return value,      *)
(* events sent to Votor, repair requests, panic flag).                      *)
(*                                                                         *)
(* The spec describes the INTENDED behaviour (the listed properties hold   *)
(* in it); it follows the code step by step wherever the code is right.    *)
(***************************************************************************)
EXTENDS Naturals, Sequences, FiniteSets, TLC

CONSTANTS
  N,          \* number of validators; validators are 0..N-1 (ValidatorIndex)
  StakeVec,   \* sequence of N stakes; Stake(v) = StakeVec[v+1]
  Own,        \* own validator index
  W,          \* SLOTS_PER_WINDOW (4 in the code)
  FarFuture,  \* 2 * SLOTS_PER_EPOCH (36000 in the code)
  MaxSlot     \* model bound: slots 0..MaxSlot carry per-slot status

NoneH == "-"
GenesisHash == "G"
Genesis == <<0, GenesisHash>>

Validators == 0..(N-1)
Slots == 0..MaxSlot
Stake(v) == StakeVec[v+1]

RECURSIVE SumStake(_)
SumStake(S) == IF S = {} THEN 0
               ELSE LET v == CHOOSE x \in S : TRUE IN Stake(v) + SumStake(S \ {v})
Total == SumStake(Validators)

\* Fraction::is_met : value * den >= total * num
Met(num, den, s) == s * den >= Total * num
Weakest(s) == Met(1, 5, s)
Weak(s)    == Met(2, 5, s)
Quorum(s)  == Met(3, 5, s)
Strong(s)  == Met(4, 5, s)

FirstInWindow(s) == (s \div W) * W
IsWindowStart(s) == s % W = 0

Max2(a, b) == IF a >= b THEN a ELSE b

---------------------------------------------------------------------------
(* Votes, certificates, events *)

VoteKinds == {"notar", "nf", "skip", "sf", "final"}
CertKinds == {"notar", "nf", "skip", "ff", "final"}

MkVote(k, s, h, v) == [k |-> k, s |-> s, h |-> h, v |-> v]
MkCert(k, s, h) == [k |-> k, s |-> s, h |-> h]

\* exactly one ParentReady(s, b) with b \in bs  (bs is a singleton except for ties inside
\* one finalization step, where the code keeps "the last maximal" pair by insertion order)
EvParentReady(s, bs) == [t |-> "ParentReady", s |-> s, bs |-> bs]
EvSafeToNotar(b)    == [t |-> "SafeToNotar", b |-> b]
EvSafeToSkip(s)     == [t |-> "SafeToSkip", s |-> s]
\* sa / sb : signer sets of the two aggregate halves for a CREATED certificate;
\* for a received certificate that is re-broadcast, created = FALSE.
EvCert(c, created, sa, sb) ==
  [t |-> "Cert", c |-> c, created |-> created, sa |-> sa, sb |-> sb]

---------------------------------------------------------------------------
(* Pool state *)

FNone == <<"none", NoneH>>

EmptyPool == [
  votes    |-> {},                 \* accepted votes (retained slots only)
  certs    |-> {},                 \* certificates held (retained slots only)
  known    |-> {},                 \* blocks whose parent is registered (SlotState.parents has key)
  pcert    |-> {},                 \* blocks whose parent is certified (ParentStatus::Certified)
  pending  |-> {},                 \* pending_safe_to_notar
  sentN    |-> {},                 \* sent_safe_to_notar
  sentS    |-> {},                 \* slots with sent_safe_to_skip
  bpar     |-> {},                 \* <<child, parent>> registered through add_block (children waiting)
  retained |-> {},                 \* slots with a SlotState entry
  fst      |-> [s \in Slots |-> IF s = 0 THEN <<"notar", GenesisHash>> ELSE FNone],
  fpar     |-> {},                 \* finality tracker: <<child, parent>>
  highest  |-> 0,
  fup      |-> 0,                  \* first unpruned slot (watermark)
  prskip   |-> {},                 \* parent-ready tracker: skip-certified slots
  prnf     |-> {Genesis},          \* parent-ready tracker: notarized(-fallback) blocks
  prready  |-> <<>>,               \* sequence of <<slot, block>> in insertion order
  prwait   |-> {},                 \* slots with a registered waiter
  prroot   |-> 0,
  panic    |-> "" ]

\* accumulator threaded through nested calls
Acc(p, ev, rep, woken) == [p |-> p, ev |-> ev, rep |-> rep, woken |-> woken]
Acc0(p) == Acc(p, <<>>, <<>>, <<>>)
Panic(p, why) == IF p.panic = "" THEN [p EXCEPT !.panic = why] ELSE p

---------------------------------------------------------------------------
(* Vote bookkeeping (SlotVotes / SlotVotedStake: stakes are DERIVED here;   *)
(* conformance shows the code's running counters equal these sums)          *)

Has(p, k, s, h, v) == MkVote(k, s, h, v) \in p.votes
HasK(p, k, s, v) == \E x \in p.votes : x.k = k /\ x.s = s /\ x.v = v
Voters(p, k, s, h) == {v \in Validators : Has(p, k, s, h, v)}
NotarStake(p, s, h) == SumStake(Voters(p, "notar", s, h))
NfStake(p, s, h)    == SumStake(Voters(p, "nf", s, h))
SkipStake(p, s)     == SumStake(Voters(p, "skip", s, NoneH))
SfStake(p, s)       == SumStake(Voters(p, "sf", s, NoneH))
FinalStake(p, s)    == SumStake(Voters(p, "final", s, NoneH))
NotarHashes(p, s)   == {x.h : x \in {y \in p.votes : y.k = "notar" /\ y.s = s}}
NotarOrSkip(p, s)   == SumStake({v \in Validators : HasK(p, "notar", s, v) \/ HasK(p, "skip", s, v)})
RECURSIVE MaxOver(_, _, _)
MaxOver(p, s, H) == IF H = {} THEN 0
                    ELSE LET h == CHOOSE x \in H : TRUE
                         IN Max2(NotarStake(p, s, h), MaxOver(p, s, H \ {h}))
TopNotar(p, s) == MaxOver(p, s, NotarHashes(p, s))

HasCert(p, k, s, h) == MkCert(k, s, h) \in p.certs
HasCertK(p, k, s) == \E c \in p.certs : c.k = k /\ c.s = s
\* is_notar_fallback_or_stronger
NfOrStronger(p, b) == \/ HasCert(p, "notar", b[1], b[2])
                      \/ HasCert(p, "ff", b[1], b[2])
                      \/ HasCert(p, "nf", b[1], b[2])

\* check_slashable_offence
Slashable(p, vt) ==
  LET s == vt.s  v == vt.v IN
  CASE vt.k = "notar" ->
         IF HasK(p, "skip", s, v) THEN "SkipAndNotarize"
         ELSE IF \E x \in p.votes : x.k = "notar" /\ x.s = s /\ x.v = v /\ x.h # vt.h
              THEN "NotarDifferentHash" ELSE "none"
    [] vt.k = "nf" ->
         IF HasK(p, "final", s, v) THEN "NotarFallbackAndFinalize" ELSE "none"
    [] vt.k = "skip" ->
         IF HasK(p, "final", s, v) THEN "SkipAndFinalize"
         ELSE IF HasK(p, "notar", s, v) THEN "SkipAndNotarize" ELSE "none"
    [] vt.k = "sf" ->
         IF HasK(p, "final", s, v) THEN "SkipAndFinalize" ELSE "none"
    [] vt.k = "final" ->
         IF HasK(p, "skip", s, v) \/ HasK(p, "sf", s, v) THEN "SkipAndFinalize"
         ELSE IF HasK(p, "nf", s, v) THEN "NotarFallbackAndFinalize" ELSE "none"

\* should_ignore_vote (all reasons surface as Duplicate)
Ignore(p, vt) ==
  LET s == vt.s  v == vt.v IN
  CASE vt.k = "notar" -> HasK(p, "notar", s, v) \/ Has(p, "nf", s, vt.h, v)
    [] vt.k = "nf"    -> Has(p, "nf", s, vt.h, v) \/ Has(p, "notar", s, vt.h, v)
    [] vt.k = "skip"  -> HasK(p, "skip", s, v) \/ HasK(p, "sf", s, v)
    [] vt.k = "sf"    -> HasK(p, "sf", s, v) \/ HasK(p, "skip", s, v)
    [] vt.k = "final" -> HasK(p, "final", s, v)

---------------------------------------------------------------------------
(* safe-to-notar / safe-to-skip (slot_state.rs check_safe_to_notar)          *)

\* returns [p, st] with st \in {"safe", "missing", "await"}
CheckS2N(p, s, h) ==
  LET b  == <<s, h>>
      ns == NotarStake(p, s, h)
      ss == SkipStake(p, s)
      ownSkip == HasK(p, "skip", s, Own)
      ownNotarOther == \E x \in p.votes : x.k = "notar" /\ x.s = s /\ x.v = Own /\ x.h # h
      ownNotarSame  == Has(p, "notar", s, h, Own)
  IN
  IF ~Weakest(ns) THEN [p |-> p, st |-> "await"]
  ELSE IF ~Weak(ns) /\ ~Quorum(ns + ss)
       THEN [p |-> [p EXCEPT !.pending = @ \cup {b}], st |-> "await"]
  ELSE IF b \notin p.known THEN [p |-> p, st |-> "missing"]
  ELSE IF b \notin p.pcert THEN [p |-> p, st |-> "await"]
  ELSE IF ownSkip \/ ownNotarOther
       THEN [p |-> [p EXCEPT !.pending = @ \ {b}, !.sentN = @ \cup {b}], st |-> "safe"]
  ELSE IF ownNotarSame THEN [p |-> p, st |-> "await"]
  ELSE [p |-> [p EXCEPT !.pending = @ \cup {b}], st |-> "await"]

\* run the check for block <<s,h>> unless already sent; accumulate event / repair
TryS2N(a, s, h) ==
  IF <<s, h>> \in a.p.sentN THEN a
  ELSE LET r == CheckS2N(a.p, s, h) IN
       CASE r.st = "safe"    -> Acc(r.p, Append(a.ev, EvSafeToNotar(<<s, h>>)), a.rep, a.woken)
         [] r.st = "missing" -> Acc(r.p, a.ev, Append(a.rep, <<s, h>>), a.woken)
         [] OTHER            -> Acc(r.p, a.ev, a.rep, a.woken)

RECURSIVE TryS2NAll(_, _, _)
TryS2NAll(a, s, H) ==
  IF H = {} THEN a
  ELSE LET h == CHOOSE x \in H : TRUE IN TryS2NAll(TryS2N(a, s, h), s, H \ {h})

PendingHashes(p, s) == {b[2] : b \in {x \in p.pending : x[1] = s}}

TryS2S(a, s) ==
  LET p == a.p IN
  IF /\ s \notin p.sentS
     /\ Weak(NotarOrSkip(p, s) - TopNotar(p, s))
     /\ HasK(p, "notar", s, Own)
  THEN Acc([p EXCEPT !.sentS = @ \cup {s}], Append(a.ev, EvSafeToSkip(s)), a.rep, a.woken)
  ELSE a

---------------------------------------------------------------------------
(* Finality tracker (finality_tracker.rs)                                   *)
(* ft-relevant fields of p: fst, fpar, highest, fup, panic                   *)

EmptyFE == [fin |-> <<>>, ifin |-> <<>>, iskip |-> <<>>]   \* fin: <<>> or <<block>>

Decided(st) == st[1] \in {"fin", "ifin", "iskip"}

RECURSIVE AdvanceFup(_, _)
AdvanceFup(fst, fup) ==
  IF fup + 1 \in Slots /\ Decided(fst[fup + 1]) THEN AdvanceFup(fst, fup + 1) ELSE fup

FTPrune(p) ==
  LET root == AdvanceFup(p.fst, p.fup) IN
  [p EXCEPT !.fup = root,
            !.fst = [s \in Slots |-> IF s < root THEN FNone ELSE p.fst[s]],
            !.fpar = {x \in p.fpar : x[1][1] >= root}]

ParentOf(p, b) == IF \E x \in p.fpar : x[1] = b
                  THEN <<(CHOOSE x \in p.fpar : x[1] = b)[2]>> ELSE <<>>

\* skip loop of handle_implicitly_finalized: slots cur..src-1 ascending.
\* returns [p, fe, stop]; stop = TRUE means the whole call returns early.
RECURSIVE SkipLoop(_, _, _, _)
SkipLoop(p, cur, src, fe) ==
  IF cur >= src THEN [p |-> p, fe |-> fe, stop |-> FALSE]
  ELSE LET old == p.fst[cur]
           p1  == [p EXCEPT !.fst[cur] = <<"iskip", NoneH>>]
       IN CASE old[1] = "iskip" -> [p |-> p1, fe |-> fe, stop |-> TRUE]
            [] old[1] \in {"fpn", "fin", "ifin"} ->
                 [p |-> Panic(p1, "consensus safety violation"), fe |-> fe, stop |-> TRUE]
            [] OTHER -> SkipLoop(p1, cur + 1, src,
                                 [fe EXCEPT !.iskip = Append(@, cur)])

RECURSIVE ImplFin(_, _, _, _)
ImplFin(p, src, blk, fe) ==
  IF blk[1] < p.fup THEN [p |-> p, fe |-> fe]
  ELSE LET r == SkipLoop(p, blk[1] + 1, src, fe) IN
       IF r.stop THEN [p |-> r.p, fe |-> r.fe]
       ELSE LET p1  == r.p
                s   == blk[1]
                h   == blk[2]
                old == p1.fst[s]
                p2  == [p1 EXCEPT !.fst[s] = <<"ifin", h>>]
                fe2 == [r.fe EXCEPT !.ifin = Append(@, blk)]
                par == ParentOf(p2, blk)
                cont == IF par = <<>> THEN [p |-> p2, fe |-> fe2]
                        ELSE ImplFin(p2, s, par[1], fe2)
            IN CASE old[1] \in {"fin", "ifin"} ->
                      IF old[2] # h
                      THEN [p |-> Panic(p2, "consensus safety violation"), fe |-> r.fe]
                      ELSE [p |-> p1, fe |-> r.fe]        \* re-insert old, no event
                 [] old[1] = "notar" ->
                      IF old[2] # h
                      THEN [p |-> Panic(p2, "consensus safety violation"), fe |-> r.fe]
                      ELSE cont
                 [] old[1] = "iskip" ->
                      [p |-> Panic(p2, "consensus safety violation"), fe |-> r.fe]
                 [] OTHER -> cont

\* handle_finalized_block
FinalizedBlock(p, blk) ==
  LET p1  == [p EXCEPT !.highest = Max2(@, blk[1])]
      fe  == [EmptyFE EXCEPT !.fin = <<blk>>]
      par == ParentOf(p1, blk)
      r   == IF par = <<>> THEN [p |-> p1, fe |-> fe] ELSE ImplFin(p1, blk[1], par[1], fe)
  IN [p |-> FTPrune(r.p), fe |-> r.fe]

BelowWatermark(p) == [p |-> Panic(p, "debug_assert slot >= first_unpruned"), fe |-> EmptyFE]

FTMarkFastFinalized(p, blk) ==
  LET s == blk[1]  h == blk[2] IN
  IF s < p.fup THEN BelowWatermark(p)
  ELSE LET old == p.fst[s]
           p1  == [p EXCEPT !.fst[s] = <<"fin", h>>]
       IN CASE old[1] \in {"fin", "ifin"} ->
                 IF old[2] # h THEN [p |-> Panic(p1, "consensus safety violation"), fe |-> EmptyFE]
                 ELSE [p |-> p1, fe |-> EmptyFE]          \* as coded: ifin is upgraded to fin, no event
            [] old[1] = "notar" /\ old[2] # h ->
                 [p |-> Panic(p1, "consensus safety violation"), fe |-> EmptyFE]
            [] old[1] = "iskip" ->
                 [p |-> Panic(p1, "consensus safety violation"), fe |-> EmptyFE]
            [] OTHER -> FinalizedBlock(p1, blk)

FTMarkNotarized(p, blk) ==
  LET s == blk[1]  h == blk[2] IN
  IF s < p.fup THEN BelowWatermark(p)
  ELSE LET old == p.fst[s]
           p1  == [p EXCEPT !.fst[s] = <<"notar", h>>]
       IN CASE old[1] = "none" -> [p |-> p1, fe |-> EmptyFE]
            [] old[1] = "notar" ->
                 IF old[2] # h THEN [p |-> Panic(p1, "consensus safety violation"), fe |-> EmptyFE]
                 ELSE [p |-> p1, fe |-> EmptyFE]
            [] old[1] \in {"fin", "ifin"} ->
                 IF old[2] # h THEN [p |-> Panic(p1, "consensus safety violation"), fe |-> EmptyFE]
                 ELSE [p |-> p, fe |-> EmptyFE]           \* INTENDED: keep the stronger status
            \* INTENDED (F11): the slot is decided (skipped); a late notarization certificate for a block
            \* that is not on the finalized chain does not change that
            [] old[1] = "iskip" -> [p |-> p, fe |-> EmptyFE]
            [] old[1] = "fpn" ->
                 FinalizedBlock([p EXCEPT !.fst[s] = <<"fin", h>>], blk)

FTMarkFinalized(p, s) ==
  IF s < p.fup THEN BelowWatermark(p)
  ELSE LET old == p.fst[s]
           p1  == [p EXCEPT !.fst[s] = <<"fpn", NoneH>>]
       IN CASE old[1] = "none" -> [p |-> p1, fe |-> EmptyFE]
            [] old[1] = "fpn" -> [p |-> p1, fe |-> EmptyFE]
            [] old[1] \in {"fin", "ifin"} -> [p |-> p, fe |-> EmptyFE]  \* INTENDED: keep status
            [] old[1] = "notar" ->
                 FinalizedBlock([p EXCEPT !.fst[s] = <<"fin", old[2]>>], <<s, old[2]>>)
            [] old[1] = "iskip" ->
                 [p |-> Panic(p1, "consensus safety violation"), fe |-> EmptyFE]

FTAddParent(p, blk, par) ==
  IF blk[1] < p.fup THEN [p |-> p, fe |-> EmptyFE]
  ELSE IF ParentOf(p, blk) # <<>>
       THEN IF ParentOf(p, blk)[1] # par
            THEN [p |-> Panic(p, "add_parent: conflicting parent"), fe |-> EmptyFE]
            ELSE [p |-> p, fe |-> EmptyFE]
  ELSE LET p1 == [p EXCEPT !.fpar = @ \cup {<<blk, par>>}]
           st == p1.fst[blk[1]]
       IN IF st[1] \in {"fin", "ifin"} /\ st[2] = blk[2]
          THEN LET r == ImplFin(p1, blk[1], par, EmptyFE)
               IN [p |-> FTPrune(r.p), fe |-> r.fe]
          ELSE [p |-> p1, fe |-> EmptyFE]

---------------------------------------------------------------------------
(* Parent-ready tracker (parent_ready_tracker.rs)                           *)

ReadyOf(p, s) == {x[2] : x \in {y \in {p.prready[i] : i \in 1..Len(p.prready)} : y[1] = s}}

\* add_to_ready: first parent wakes a registered waiter; duplicate insert asserts
AddToReady(a, s, b) ==
  LET p == a.p IN
  IF b \in ReadyOf(p, s)
  THEN Acc(Panic(p, "add_to_ready: duplicate parent"), a.ev, a.rep, a.woken)
  ELSE LET wake == ReadyOf(p, s) = {} /\ s \in p.prwait
           p1 == [p EXCEPT !.prready = Append(@, <<s, b>>),
                           !.prwait = IF wake THEN @ \ {s} ELSE @]
       IN Acc(p1, a.ev, a.rep, IF wake THEN Append(a.woken, <<s, b>>) ELSE a.woken)

RECURSIVE AddAllToReady(_, _, _)
AddAllToReady(a, s, parents) ==   \* parents: sequence of blocks; returns [a, new]
  IF parents = <<>> THEN a
  ELSE AddAllToReady(AddToReady(a, s, Head(parents)), s, Tail(parents))

\* forward walk shared by mark_notar_fallback / mark_skipped:
\* for t = from, from+1, ...: at window starts add all parents; stop at first non-skipped.
\* returns [a, new] where new is the sequence of <<slot, parent>> newly ready
RECURSIVE FwdWalk(_, _, _, _)
FwdWalk(a, t, parents, new) ==
  LET a1 == IF IsWindowStart(t) THEN AddAllToReady(a, t, parents) ELSE a
      new1 == IF IsWindowStart(t)
              THEN new \o [i \in 1..Len(parents) |-> <<t, parents[i]>>] ELSE new
  IN IF t \in a1.p.prskip THEN FwdWalk(a1, t + 1, parents, new1)
     ELSE [a |-> a1, new |-> new1]

PRMarkNf(a, b) ==
  LET p == a.p IN
  IF b[1] < p.prroot \/ b \in p.prnf THEN [a |-> a, new |-> <<>>]
  ELSE FwdWalk(Acc([p EXCEPT !.prnf = @ \cup {b}], a.ev, a.rep, a.woken), b[1] + 1, <<b>>, <<>>)

SetToSeq(S) == LET RECURSIVE F(_)
                   F(T) == IF T = {} THEN <<>>
                           ELSE LET x == CHOOSE y \in T : TRUE IN <<x>> \o F(T \ {x})
               IN F(S)

ReadySeqOf(p, s) == SelectSeq(p.prready, LAMBDA x : x[1] = s)

\* backward collection of potential parents for mark_skipped(m):
\* slots m, m-1, ..., max(window start, root)
RECURSIVE BackCollect(_, _, _, _)
BackCollect(p, cur, m, acc) ==
  IF cur < FirstInWindow(m) \/ cur < p.prroot THEN acc
  ELSE LET nfs == IF cur # m THEN SetToSeq({b \in p.prnf : b[1] = cur}) ELSE <<>>
           acc1 == acc \o nfs
       IN IF cur \notin p.prskip THEN acc1
          ELSE LET rs == ReadySeqOf(p, cur)
                   acc2 == acc1 \o [i \in 1..Len(rs) |-> rs[i][2]]
               IN IF cur = 0 THEN acc2 ELSE BackCollect(p, cur - 1, m, acc2)

PRMarkSkip(a, m) ==
  LET p == a.p IN
  IF m < p.prroot \/ m \in p.prskip THEN [a |-> a, new |-> <<>>]
  ELSE LET p1 == [p EXCEPT !.prskip = @ \cup {m}]
           parents == BackCollect(p1, m, m, <<>>)
       IN FwdWalk(Acc(p1, a.ev, a.rep, a.woken), m + 1, parents, <<>>)

RECURSIVE PRNfAll(_, _, _)
PRNfAll(a, blocks, new) ==
  IF blocks = <<>> THEN [a |-> a, new |-> new]
  ELSE LET r == PRMarkNf(a, Head(blocks)) IN PRNfAll(r.a, Tail(blocks), new \o r.new)

RECURSIVE PRSkipAll(_, _, _)
PRSkipAll(a, slots, new) ==
  IF slots = <<>> THEN [a |-> a, new |-> new]
  ELSE LET r == PRMarkSkip(a, Head(slots)) IN PRSkipAll(r.a, Tail(slots), new \o r.new)

\* ParentReadyTracker::handle_finalization: keeps only ONE pair of the highest slot
\* (max_by_key: the last maximal one); returns <<>> or << <<slot, candidate set>> >>
PRHandleFin(a, fe) ==
  LET r1 == PRNfAll(a, fe.fin \o fe.ifin, <<>>)
      r2 == PRSkipAll(r1.a, fe.iskip, r1.new)
      new == r2.new
      top == CHOOSE i \in 1..Len(new) : \A j \in 1..Len(new) : new[j][1] <= new[i][1]
  IN [a |-> r2.a,
      new |-> IF new = <<>> THEN <<>>
              ELSE << <<new[top][1],
                        {new[j][2] : j \in {k \in 1..Len(new) : new[k][1] = new[top][1]}}>> >>]

\* one ParentReady event per <<slot, block>> of `new`
EmitReady(a, new) ==
  Acc(a.p, a.ev \o [i \in 1..Len(new) |-> EvParentReady(new[i][1], {new[i][2]})], a.rep, a.woken)
\* one ParentReady event per <<slot, candidate set>>
EmitReadyAny(a, new) ==
  Acc(a.p, a.ev \o [i \in 1..Len(new) |-> EvParentReady(new[i][1], new[i][2])], a.rep, a.woken)

---------------------------------------------------------------------------
(* PoolImpl                                                                 *)

\* PoolImpl::prune
PoolPrune(p) ==
  LET r == p.fup
      keepB(S) == {b \in S : b[1] >= r}
  IN [p EXCEPT !.retained = {s \in @ : s >= r},
               !.votes = {x \in @ : x.s >= r},
               !.certs = {c \in @ : c.s >= r},
               !.known = keepB(@), !.pcert = keepB(@), !.pending = keepB(@),
               !.sentN = keepB(@), !.sentS = {s \in @ : s >= r},
               \* certificates for pruned slots are refused, so children waiting on such parents are dropped
               !.bpar = {x \in @ : x[2][1] >= r},
               !.prroot = r,
               !.prskip = {s \in @ : s >= r},
               !.prnf = keepB(@),
               !.prready = SelectSeq(@, LAMBDA x : x[1] >= r),
               !.prwait = {s \in @ : s >= r}]

\* PoolImpl::handle_finalization
HandleFin(a, fe) ==
  LET r == PRHandleFin(a, fe)
      a1 == EmitReadyAny(r.a, r.new)
  IN Acc(PoolPrune(a1.p), a1.ev, a1.rep, a1.woken)

\* notify_parent_certified for one child
NotifyCertified(a, child) ==
  LET p1 == [a.p EXCEPT !.pcert = @ \cup {child}]
  IN TryS2N(Acc(p1, a.ev, a.rep, a.woken), child[1], child[2])

RECURSIVE NotifyAll(_, _)
NotifyAll(a, C) ==
  IF C = {} THEN a
  ELSE LET c == CHOOSE x \in C : TRUE IN NotifyAll(NotifyCertified(a, c), C \ {c})

\* children registered (add_block) for parent b whose SlotState still knows them
WaitingChildren(p, b) == {x[1] : x \in {y \in p.bpar : y[2] = b /\ y[1] \in p.known}}

\* add_valid_cert; evc is the CertCreated event to emit
AddValidCert(a, c, evc) ==
  \* INTENDED (F17): a certificate created by the same vote may just have decided and pruned the slot (the
  \* notarization completing a pending finalization, then the fast-finalization certificate of the same vote):
  \* nothing is left to update, the certificate is only handed to Votor
  IF c.s < a.p.fup THEN Acc(a.p, Append(a.ev, evc), a.rep, a.woken) ELSE
  LET p0 == [a.p EXCEPT !.retained = @ \cup {c.s}, !.certs = @ \cup {c}]
      a0 == Acc(p0, a.ev, a.rep, a.woken)
      b  == <<c.s, c.h>>
      done(x) == Acc(x.p, Append(x.ev, evc), x.rep, x.woken)
  IN
  CASE c.k \in {"notar", "nf"} ->
         LET a1 == IF c.k = "notar"
                   THEN LET r == FTMarkNotarized(a0.p, b)
                        IN HandleFin(Acc(r.p, a0.ev, a0.rep, a0.woken), r.fe)
                   ELSE a0
             a2 == NotifyAll(a1, WaitingChildren(a1.p, b))
             r3 == PRMarkNf(a2, b)
             a3 == EmitReady(r3.a, r3.new)
             a4 == Acc(a3.p, a3.ev, Append(a3.rep, b), a3.woken)
         IN done(a4)
    [] c.k = "skip" ->
         LET r == PRMarkSkip(a0, c.s) IN done(EmitReady(r.a, r.new))
    [] c.k = "ff" ->
         LET r  == FTMarkFastFinalized(a0.p, b)
             a1 == HandleFin(Acc(r.p, a0.ev, a0.rep, a0.woken), r.fe)
             \* INTENDED (C06): a fast-finalization certificate certifies the parent too
             a2 == NotifyAll(a1, WaitingChildren(a1.p, b))
         IN done(a2)
    [] c.k = "final" ->
         LET r == FTMarkFinalized(a0.p, c.s)
         IN done(HandleFin(Acc(r.p, a0.ev, a0.rep, a0.woken), r.fe))

RECURSIVE AddValidCerts(_, _)
AddValidCerts(a, cs) ==   \* cs: sequence of [c, sa, sb]
  IF cs = <<>> THEN a
  ELSE LET x == Head(cs)
       IN AddValidCerts(AddValidCert(a, x.c, EvCert(x.c, TRUE, x.sa, x.sb)), Tail(cs))

\* woken: for each waiter woken in this call, the slot and the admissible parents
\* (the first one inserted; insertion order inside one call is not a contract)
WokenSet(a) ==
  {<<w[1], {x[2] : x \in {y \in {a.woken[i] : i \in 1..Len(a.woken)} : y[1] = w[1]}}
            \cup ReadyOf(a.p, w[1])>> : w \in {a.woken[i] : i \in 1..Len(a.woken)}}
Out(a, ret) == [p |-> a.p, ret |-> ret, ev |-> a.ev, rep |-> a.rep, woken |-> WokenSet(a),
                panic |-> a.p.panic]

OutOfBounds(p, s) == s < p.fup \/ s >= p.highest + FarFuture

\* SlotState::add_vote after the vote is stored: returns [a, certs]
SlotCount(a0, vt) ==
  LET s == vt.s  h == vt.h IN
  CASE vt.k = "notar" ->
         LET a1 == TryS2N(a0, s, h)
             a2 == TryS2S(a1, s)
             p  == a2.p
             ns == NotarStake(p, s, h)
             nfc == IF Quorum(NfStake(p, s, h) + ns) /\ ~HasCert(p, "nf", s, h)
                    THEN <<[c |-> MkCert("nf", s, h), sa |-> Voters(p, "notar", s, h),
                            sb |-> Voters(p, "nf", s, h)]>> ELSE <<>>
             nc  == IF Quorum(ns) /\ ~HasCertK(p, "notar", s)
                    THEN <<[c |-> MkCert("notar", s, h), sa |-> Voters(p, "notar", s, h),
                            sb |-> {}]>> ELSE <<>>
             ffc == IF Strong(ns) /\ ~HasCertK(p, "ff", s)
                    THEN <<[c |-> MkCert("ff", s, h), sa |-> Voters(p, "notar", s, h),
                            sb |-> {}]>> ELSE <<>>
         IN [a |-> a2, certs |-> nfc \o nc \o ffc]
    [] vt.k = "nf" ->
         LET p == a0.p
             nfc == IF Quorum(NfStake(p, s, h) + NotarStake(p, s, h)) /\ ~HasCert(p, "nf", s, h)
                    THEN <<[c |-> MkCert("nf", s, h), sa |-> Voters(p, "notar", s, h),
                            sb |-> Voters(p, "nf", s, h)]>> ELSE <<>>
         IN [a |-> a0, certs |-> nfc]
    [] vt.k \in {"skip", "sf"} ->
         LET a1 == TryS2NAll(a0, s, PendingHashes(a0.p, s))
             p  == a1.p
             sc == IF Quorum(SkipStake(p, s) + SfStake(p, s)) /\ ~HasCertK(p, "skip", s)
                   THEN <<[c |-> MkCert("skip", s, NoneH), sa |-> Voters(p, "skip", s, NoneH),
                           sb |-> Voters(p, "sf", s, NoneH)]>> ELSE <<>>
             a2 == TryS2S(a1, s)
         IN [a |-> a2, certs |-> sc]
    [] vt.k = "final" ->
         LET p == a0.p
             fc == IF Quorum(FinalStake(p, s)) /\ ~HasCertK(p, "final", s)
                   THEN <<[c |-> MkCert("final", s, NoneH), sa |-> Voters(p, "final", s, NoneH),
                           sb |-> {}]>> ELSE <<>>
         IN [a |-> a0, certs |-> fc]

\* Pool::add_vote
AddVote(p, vt) ==
  IF OutOfBounds(p, vt.s) THEN Out(Acc0(p), "SlotOutOfBounds")
  ELSE LET p0 == [p EXCEPT !.retained = @ \cup {vt.s}] IN
       IF Slashable(p0, vt) # "none" THEN Out(Acc0(p0), Slashable(p0, vt))
       ELSE IF Ignore(p0, vt) THEN Out(Acc0(p0), "Duplicate")
       ELSE LET p1 == [p0 EXCEPT !.votes = @ \cup {vt}]
                r  == SlotCount(Acc0(p1), vt)
                \* own vote may complete pending safe-to-notar conditions
                a2 == IF vt.v = Own THEN TryS2NAll(r.a, vt.s, PendingHashes(r.a.p, vt.s))
                      ELSE r.a
                \* certificates are added first (their events precede the slot's own events)
                a3 == AddValidCerts(Acc(a2.p, <<>>, <<>>, <<>>), r.certs)
            IN Out(Acc(a3.p, a3.ev \o a2.ev, a3.rep \o a2.rep, a3.woken), "Ok")

\* Pool::add_cert
AddCert(p, c) ==
  IF OutOfBounds(p, c.s) THEN Out(Acc0(p), "SlotOutOfBounds")
  ELSE LET p0 == [p EXCEPT !.retained = @ \cup {c.s}]
           dup == IF c.k = "nf" THEN HasCert(p0, "nf", c.s, c.h) ELSE HasCertK(p0, c.k, c.s)
       IN IF dup THEN Out(Acc0(p0), "Duplicate")
          ELSE Out(AddValidCert(Acc0(p0), c, EvCert(c, FALSE, {}, {})), "Ok")

\* Pool::add_block
AddBlock(p, b, par) ==
  IF ~(b[1] > par[1]) THEN Out(Acc0(Panic(p, "add_block: parent slot not earlier")), "Ok")
  ELSE LET r  == FTAddParent(p, b, par)
           r1 == PRHandleFin(Acc0(r.p), r.fe)
           a1 == EmitReadyAny(r1.a, r1.new)
           p2 == [a1.p EXCEPT !.retained = @ \cup {b[1]}, !.known = @ \cup {b},
                              !.bpar = @ \cup {<<b, par>>}]
           a2 == Acc(p2, a1.ev, a1.rep, a1.woken)
       IN IF par[1] \in p2.retained /\ NfOrStronger(p2, par)
          THEN Out(NotifyCertified(a2, b), "Ok")
          ELSE Out(a2, "Ok")

\* certificates proving the highest finalized slot (get_final_certs)
FinalCertsOf(p, s) ==
  IF HasCertK(p, "ff", s) THEN {c \in p.certs : c.k = "ff" /\ c.s = s}
  ELSE IF HasCertK(p, "final", s) /\ HasCertK(p, "notar", s)
       THEN {c \in p.certs : c.s = s /\ c.k \in {"final", "notar"}}
  ELSE {}

\* Pool::recover_from_standstill.  INTENDED: safe in every state (also at genesis).
StandstillBundle(p) ==
  [slot  |-> p.highest + 1,
   certs |-> FinalCertsOf(p, p.highest) \cup {c \in p.certs : c.s > p.highest},
   votes |-> {x \in p.votes : x.v = Own /\ x.s > p.highest}]

\* Pool::wait_for_parent_ready : ret is <<"ready", candidates>> (the code returns the
\* minimal ready block; the harness checks membership and slot-minimality) or <<"wait">>
WaitParentReady(p, s) ==
  IF ReadyOf(p, s) # {} THEN Out(Acc0(p), <<"ready", ReadyOf(p, s)>>)
  ELSE IF s \in p.prwait THEN Out(Acc0(Panic(p, "wait_for_parent_ready: second waiter")), <<"wait">>)
  ELSE Out(Acc0([p EXCEPT !.prwait = @ \cup {s}]), <<"wait">>)

---------------------------------------------------------------------------
(* Queries *)
FinalizedSlot(p) == p.highest
ParentsReady(p, s) == ReadyOf(p, s)
=============================================================================
