----------------------------- MODULE Trace_Abs -----------------------------
(***************************************************************************)
(* Code -> spec: validates one recorded execution of N real Alpenglow      *)
(* nodes (harness `sim`) against AlpenglowAbs.tla.                         *)
(*                                                                         *)
(* Every vote a correct node broadcast must be an action of the abstract   *)
(* protocol whose guard holds in the abstract state built from everything  *)
(* sent before it; every certificate a correct node holds must be          *)
(* constructible from the votes sent; every finalization a pool reports    *)
(* must be justified; the safety invariants are evaluated after every      *)
(* event, on the abstract state and on the observed finalizations.         *)
(***************************************************************************)
EXTENDS AlpenglowAbs, Json, IOUtils, TLCExt

Rec == ndJsonDeserialize(IOEnv.TRACE)

VARIABLES l, fin, skipped, ts      \* ts: the slot touched by the last consumed event

tvars == <<sent, blocks, l, fin, skipped, ts>>

TraceInit ==
  /\ sent = {} /\ blocks = {} /\ l = 1 /\ fin = {} /\ skipped = {} /\ ts = 0

Ev == Rec[l]
IsEvent(e) == l <= Len(Rec) /\ Rec[l].e = e
Advance == l' = l + 1

BlockById(s, h) == CHOOSE b \in blocks : b.s = s /\ b.h = h
KnownBlock(s, h) == \E b \in blocks : b.s = s /\ b.h = h

\* a block becomes known (pool registration at some node)
TBlock ==
  /\ IsEvent("Block")
  /\ blocks' = blocks \cup {[s |-> Ev.s, h |-> Ev.h, par |-> [s |-> Ev.ps, h |-> Ev.ph]]}
  /\ ts' = Ev.s
  /\ UNCHANGED <<sent, fin, skipped>> /\ Advance

VoteOf(e) == Vote(e.vote.k, e.vote.s, e.vote.h, e.vote.v)

\* the guard of the abstract action that casts this vote
GuardOK(n, vt) ==
  CASE vt.k = "notar" -> KnownBlock(vt.s, vt.h) /\ CanNotar(n, BlockById(vt.s, vt.h))
    [] vt.k = "final" -> CanFinal(n, vt.s)
    [] vt.k = "skip"  -> CanSkip(n, vt.s)
    [] vt.k = "nf"    -> KnownBlock(vt.s, vt.h) /\ CanNf(n, BlockById(vt.s, vt.h))
    [] vt.k = "sf"    -> CanSf(n, vt.s)

TVote ==
  /\ IsEvent("Vote")
  /\ LET vt == VoteOf(Ev) IN
     /\ \/ Ev.from \in Byz                              \* Byzantine validators send anything
        \/ /\ vt.v = Ev.from                            \* a vote is signed with the sender's index
           /\ (vt \in sent \/ GuardOK(Ev.from, vt))     \* (re-broadcast: standstill recovery)
     \* votes naming a validator that does not exist or signed with the wrong key are not votes
     /\ sent' = IF Ev.from \in Byz /\ vt.v # Ev.from THEN sent ELSE sent \cup {vt}
     /\ ts' = vt.s
  /\ UNCHANGED <<blocks, fin, skipped>> /\ Advance

\* a certificate sent by a Byzantine validator may contain its own votes it never broadcast
ImpliedVotes(c, signers) ==
  LET ks == CASE c.k = "notar" -> {"notar"} [] c.k = "ff" -> {"notar"}
              [] c.k = "nf" -> {"notar", "nf"} [] c.k = "skip" -> {"skip", "sf"}
              [] c.k = "final" -> {"final"}
  IN {Vote(k, c.s, c.h, v) : k \in ks, v \in {x \in Byz : x \in signers}}
TCertSent ==
  /\ IsEvent("CertSent")
  /\ sent' = IF Ev.from \in Byz
             THEN sent \cup ImpliedVotes(Ev.c, {Ev.signers[i] : i \in 1..Len(Ev.signers)})
             ELSE sent
  /\ ts' = Ev.c.s
  /\ UNCHANGED <<blocks, fin, skipped>> /\ Advance

CertBacked(k, s, h) ==
  CASE k = "notar" -> NotarCert(s, h)
    [] k = "nf"    -> NfCert(s, h)
    [] k = "skip"  -> SkipCert(s)
    [] k = "ff"    -> FFCert(s, h)
    [] k = "final" -> FinalCert(s)
TCertHeld ==
  /\ IsEvent("CertHeld")
  /\ CertBacked(Ev.k, Ev.s, Ev.h)
  /\ ts' = Ev.s
  /\ UNCHANGED <<sent, blocks, fin, skipped>> /\ Advance

\* a pool reports a block finalized: directly (justified by certificates constructible from
\* `sent`) or implicitly (its child was already reported finalized by the same pool)
ChildFinalizedAt(node, i) ==
  \E g \in fin : g.node = node /\ KnownBlock(g.s, g.h) /\ BlockById(g.s, g.h).par = i
TFinalized ==
  /\ IsEvent("Finalized")
  /\ LET i == [s |-> Ev.s, h |-> Ev.h] IN
     IF Ev.implicit THEN ChildFinalizedAt(Ev.node, i)
     ELSE Finalized(Ev.s, Ev.h)
  /\ fin' = fin \cup {[node |-> Ev.node, s |-> Ev.s, h |-> Ev.h, implicit |-> Ev.implicit]}
  /\ ts' = Ev.s
  /\ UNCHANGED <<sent, blocks, skipped>> /\ Advance

\* a pool reports a slot implicitly skipped: it lies between a finalized block and its parent
TImplSkipped ==
  /\ IsEvent("ImplSkipped")
  /\ \E g \in fin : /\ g.node = Ev.node /\ KnownBlock(g.s, g.h)
                     /\ BlockById(g.s, g.h).par.s < Ev.s /\ Ev.s < g.s
  /\ skipped' = skipped \cup {[node |-> Ev.node, s |-> Ev.s]}
  /\ ts' = Ev.s
  /\ UNCHANGED <<sent, blocks, fin>> /\ Advance

\* informational events of the harness's Byzantine players
TInfo ==
  /\ (IsEvent("ByzBlocks") \/ IsEvent("Hostile"))
  /\ ts' = IF Ev.s <= MaxSlot THEN Ev.s ELSE 0
  /\ UNCHANGED <<sent, blocks, fin, skipped>> /\ Advance

TraceNext == TInfo \/ TBlock \/ TVote \/ TCertSent \/ TCertHeld \/ TFinalized \/ TImplSkipped

---------------------------------------------------------------------------
(* C01, evaluated after every event for the slot the event touched (all other slots are
   unchanged, so the global invariants of AlpenglowAbs follow by induction over the trace) *)
LocalAgreement ==
  \A h1, h2 \in HashesIn(ts) : (Finalized(ts, h1) /\ Finalized(ts, h2)) => h1 = h2
LocalNoFinalAndSkip ==
  \A h \in HashesIn(ts) : Finalized(ts, h) => ~SkipCert(ts)
LocalNotarUnique ==
  \A h1, h2 \in HashesIn(ts) : (NotarCert(ts, h1) /\ NotarCert(ts, h2)) => h1 = h2

(* C01 on the observed finalization reports of all pools *)
ObservedAgreement ==
  \A f, g \in {x \in fin : x.s = ts} : f.h = g.h
ObservedNoFinalAndSkip ==
  \A f \in {x \in fin : x.s = ts} : ~f.implicit => (~SkipCert(ts) /\ \A k \in skipped : k.s # ts)
\* every reported block at slot ts is on one chain with the reported blocks of the nearest
\* lower and the nearest higher reported slot (the relation is transitive along the trace)
RECURSIVE DescendsFrom(_, _, _)
DescendsFrom(hid, lid, fuel) ==     \* TRUE / FALSE, or "unknown" when the chain is not known that far
  IF hid = lid THEN "yes"
  ELSE IF hid.s <= lid.s \/ fuel = 0 THEN "no"
  ELSE IF BlockOf(hid) = {} THEN "unknown"
  ELSE DescendsFrom(ParentId(CHOOSE b \in BlockOf(hid) : TRUE), lid, fuel - 1)
OnChain(lo, hi) ==     \* lo.s < hi.s
  DescendsFrom([s |-> hi.s, h |-> hi.h], [s |-> lo.s, h |-> lo.h], hi.s - lo.s + 1) # "no"
ObservedChain ==
  LET here == {x \in fin : x.s = ts /\ x.s > 0}
      lowS == {x.s : x \in {y \in fin : y.s < ts /\ y.s > 0}}
      highS == {x.s : x \in {y \in fin : y.s > ts}}
      lo == IF lowS = {} THEN {} ELSE {x \in fin : x.s = CHOOSE m \in lowS : \A k \in lowS : k <= m}
      hi == IF highS = {} THEN {} ELSE {x \in fin : x.s = CHOOSE m \in highS : \A k \in highS : k >= m}
  IN \A f \in here : (\A g \in lo : OnChain(g, f)) /\ (\A g \in hi : OnChain(f, g))

\* acceptance: every event consumed
TraceAccepted ==
  LET d == TLCGet("stats").diameter IN
  IF d - 1 = Len(Rec) THEN TRUE
  ELSE /\ PrintT(<<"REJECTED", ToJson([index |-> d, event |-> Rec[d]])>>)
       /\ FALSE
=============================================================================
