---------------------------- MODULE MC_ExecState ----------------------------
(***************************************************************************)
(* Two models over ExecState.tla (selected by INIT/NEXT in the cfg):       *)
(*                                                                         *)
(*  SInit/SNext : NF forks of (State, LtHash); the environment inserts,    *)
(*                removes and forks (Fork(f,g): g := clone of f, the old   *)
(*                g is dropped) in any order.                              *)
(*  EInit/ENext : the placeholder engine fed a block universe BlockU in    *)
(*                any arrival order: begin (via dissemination = Pending    *)
(*                id, or repair = Known id; re-execution allowed), one     *)
(*                slice at a time, end_block probes, finalize (prunes).    *)
(*                                                                         *)
(* C20 as invariants; every transition (EDGE) and state (STATE) is dumped  *)
(* for replay into the real State / LtHash / DummyExecution; with          *)
(* SimDepth > 0 (tlc -simulate) whole behaviours are dumped (REPLAY).      *)
(***************************************************************************)
EXTENDS ExecState, Json, TLCExt

CONSTANTS
  NF,        \* number of forks (state model)
  BlockU,    \* engine model: set of blocks [s, h, par |-> [s, h] | NoPar, sl |-> <<slice, ...>>,
             \*   ms |-> subset of {"P","K"}: paths on which the block may arrive]
  SimDepth   \* 0 = BFS with edge dump; > 0 = simulation, behaviours of that depth are printed

VARIABLES st, act, out, sid, tr

vars == <<st, act, out, sid, tr>>
View == st

Id(x) == IF SimDepth = 0 THEN <<TLCFP(<<x, 1>>), TLCFP(<<2, x>>)>> ELSE <<0, 0>>

---------------------------------------------------------------------------
(* State model                                                             *)

Forks == 1..NF

SObs(fk) ==
  [forks |-> [f \in Forks |->
                [get |-> [i \in 1..Len(KeySeq) |-> [k |-> KeySeq[i], v |-> Get(fk[f].root, KeySeq[i])]],
                 len |-> fk[f].len,
                 iter |-> IterRec(fk[f].root),
                 \* the incrementally maintained commitment equals the one recomputed from the
                 \* iterated contents; the state equals a state freshly built from its contents
                 ltok |-> fk[f].lt = LtOfSeq(IterRec(fk[f].root)),
                 canon |-> fk[f].root = Canon([k \in Keys |-> Get(fk[f].root, k)])]],
   eq |-> [f \in Forks |-> [g \in Forks |-> StateEq(fk[f], fk[g])]],
   ceq |-> [f \in Forks |-> [g \in Forks |-> fk[f].lt = fk[g].lt]]]

SStep(a, fk, o) ==
  /\ st' = fk
  /\ act' = a
  /\ out' = o
  /\ sid' = Id(fk)
  /\ tr' = IF SimDepth = 0 THEN tr ELSE Append(tr, [a |-> a, e |-> o, obs |-> SObs(fk)])

SInit ==
  /\ st = [f \in Forks |-> EmptyFork]
  /\ act = [op |-> "init", tgt |-> 0]
  /\ out = [ret |-> 0, ref |-> 0]
  /\ sid = Id(st)
  /\ tr = <<>>

\* simulation: after SimDepth steps the only enabled step is the flush step `nop`, on which the
\* behaviour carried in `tr` is printed (EmitSim); nothing is enabled after it
Live == SimDepth = 0 \/ Len(tr) < SimDepth
Nop == /\ SimDepth > 0 /\ Len(tr) = SimDepth /\ act.op # "nop"
       /\ act' = [op |-> "nop", tgt |-> 0]
       /\ UNCHANGED <<st, out, sid, tr>>

SNext ==
  \/ \E f \in Forks, k \in Keys, v \in Vals :
       LET r == FInsert(st[f], k, v)
       IN Live /\ SStep([op |-> "ins", f |-> f, k |-> k, v |-> v, kind |-> r.kind, tgt |-> f],
                [st EXCEPT ![f] = r.s], [ret |-> r.ret, ref |-> r.ref])
  \/ \E f \in Forks, k \in Keys :
       LET r == FRemove(st[f], k)
       IN Live /\ SStep([op |-> "rem", f |-> f, k |-> k, kind |-> r.kind, tgt |-> f],
                [st EXCEPT ![f] = r.s], [ret |-> r.ret, ref |-> r.ref])
  \/ \E f, g \in Forks :
       /\ f # g /\ Live
       /\ SStep([op |-> "fork", f |-> f, g |-> g, tgt |-> g,
                 kind |-> IF st[f].map = st[g].map THEN "same" ELSE
                          IF st[g].map = EmptyMap THEN "fresh" ELSE "overwrite"],
                [st EXCEPT ![g] = st[f]], [ret |-> 0, ref |-> 0])
  \/ Nop

(* C20, state part *)
MapGet == \A f \in Forks : ForkGetOK(st[f])
MapLength == \A f \in Forks : ForkLenOK(st[f])
MapIter == \A f \in Forks : ForkIterOK(st[f])
ShapeCanonical == \A f \in Forks : ForkCanonOK(st[f])
EqIffSameContents == \A f, g \in Forks : StateEq(st[f], st[g]) <=> (st[f].map = st[g].map)
LtHashMatches == \A f \in Forks : ForkLtOK(st[f])
CommitIffSameContents == \A f, g \in Forks : (st[f].lt = st[g].lt) <=> (st[f].map = st[g].map)
RetIsOldValue == out.ret = out.ref
\* a step writes one fork; every other fork is untouched (contents, answers and commitment)
ForkIsolation == [][\A g \in Forks : g # act'.tgt => st'[g] = st[g]]_vars
\* a fork is a snapshot: right after Fork(f,g) the two agree on everything
ForkIsSnapshot == act.op = "fork" => (st[act.g].map = st[act.f].map /\ StateEq(st[act.g], st[act.f]))

---------------------------------------------------------------------------
(* Engine model: st = [eng, gh]; gh is the ghost                           *)
(*   gh[id] = [blk, done (slices executed), seed, from, clean]             *)

InU(s, h) == \E b \in BlockU : b.s = s /\ b.h = h
BlockOf(s, h) == CHOOSE b \in BlockU : b.s = s /\ b.h = h
AllTx(b) == Flatten(b.sl)
TxUpTo(b, n) == Flatten(SubSeq(b.sl, 1, n))

\* the commitment of a block all of whose ancestors (as far as they exist in BlockU) were executed
RECURSIVE IdealTerm(_)
IdealTerm(b) ==
  IF b.par = NoPar THEN <<GenesisName>> \o AllTx(b)
  ELSE IF InU(b.par.s, b.par.h) THEN IdealTerm(BlockOf(b.par.s, b.par.h)) \o AllTx(b)
  ELSE <<b.par.h>> \o AllTx(b)

ProbeSet == {[s |-> b.s, h |-> b.h] : b \in BlockU} \cup {[s |-> b.s, h |-> "?"] : b \in BlockU}
EObs(e) == {[s |-> p.s, h |-> p.h, cnt |-> ELookup(e, p.s, p.h).cnt, term |-> ELookup(e, p.s, p.h).term]
            : p \in ProbeSet}

EStep(a, e, g, o) ==
  /\ st' = [eng |-> e, gh |-> g]
  /\ act' = a
  /\ out' = o
  /\ sid' = Id(st')
  /\ tr' = IF SimDepth = 0 THEN tr ELSE Append(tr, [a |-> a, e |-> o, obs |-> EObs(e)])

EInit ==
  /\ st = [eng |-> EmptyEngine, gh |-> <<>>]
  /\ act = [op |-> "init"]
  /\ out = [ev |-> NoEntry]
  /\ sid = Id(st)
  /\ tr = <<>>

IdOf(b, m) == IF m = "P" THEN PId(b.s) ELSE KId(b.s, b.h)

\* id under which the engine finds the parent, or NoPar-like marker
ParentId(e, par) ==
  IF KId(par.s, par.h) \in DOMAIN e THEN KId(par.s, par.h)
  ELSE IF PId(par.s) \in DOMAIN e THEN PId(par.s) ELSE PId(-1)

ECalls ==
  LET e == st.eng
      g == st.gh
  IN
  \/ \E b \in BlockU, m \in {"P", "K"} :
       LET id == IdOf(b, m)
           par == b.par
           pid == ParentId(e, par)
           from == IF par = NoPar THEN "none" ELSE IF pid.s >= 0 THEN "entry" ELSE "hash"
           clean == IF from = "none" THEN TRUE
                    ELSE IF from = "hash" THEN ~InU(par.s, par.h)
                    ELSE g[pid].clean /\ g[pid].done = Len(g[pid].blk.sl)
           gid == [blk |-> b, done |-> 0, seed |-> ESeed(e, par), from |-> from, clean |-> clean]
       IN /\ m \in b.ms
          \* the by-slot lookup assumes one in-progress block per slot on the dissemination path
          \* (execution.rs, InProgressBlock): a parent found by slot must be that parent
          /\ ((from = "entry" /\ pid.m = "P") => g[pid].blk.h = par.h)
          /\ EStep([op |-> "begin", id |-> id, par |-> par,
                    kind |-> from \o (IF from = "entry" /\ pid.m = "P" THEN "-byslot" ELSE "")
                                  \o (IF id \in DOMAIN e THEN "-again" ELSE "")],
                   EBegin(e, id, par),
                   [x \in DOMAIN e \cup {id} |-> IF x = id THEN gid ELSE g[x]],
                   [ev |-> NoEntry])
  \/ \E id \in DOMAIN e :
       /\ g[id].done < Len(g[id].blk.sl)
       /\ LET txs == g[id].blk.sl[g[id].done + 1]
          IN EStep([op |-> "exec", id |-> id, txs |-> txs, kind |-> IF txs = <<>> THEN "empty" ELSE "txs"],
                   EExec(e, id, txs), [g EXCEPT ![id].done = @ + 1], [ev |-> NoEntry])
  \/ \E b \in BlockU, m \in {"P", "K"} :        \* transactions for a block never begun are ignored
       /\ m \in b.ms
       /\ IdOf(b, m) \notin DOMAIN e
       /\ Len(b.sl) > 0
       /\ EStep([op |-> "exec", id |-> IdOf(b, m), txs |-> b.sl[1], kind |-> "untracked"],
                EExec(e, IdOf(b, m), b.sl[1]), g, [ev |-> NoEntry])
  \/ \E b \in BlockU :
       LET r == EEnd(e, b.s, b.h)
       IN EStep([op |-> "end", s |-> b.s, h |-> b.h, kind |-> IF r = NoEntry THEN "noevent" ELSE "event"],
                e, g, [ev |-> r])
  \/ \E b \in BlockU :
       LET e2 == EFinalize(e, b.s)
       IN EStep([op |-> "fin", s |-> b.s, h |-> b.h,
                 kind |-> IF DOMAIN e2 = DOMAIN e THEN "keep" ELSE "prune"],
                e2, Restrict(g, DOMAIN e2), [ev |-> NoEntry])

ENext == Nop \/ (Live /\ ECalls)

(* C20, engine part *)
EngDomains == DOMAIN st.gh = DOMAIN st.eng
\* the reported commitment is the seed folded over the transactions executed so far, in order
EngFold == \A id \in DOMAIN st.eng :
             LET g == st.gh[id]
             IN /\ st.eng[id].term = g.seed \o TxUpTo(g.blk, g.done)
                /\ st.eng[id].cnt = Len(TxUpTo(g.blk, g.done))
\* seed: genesis without parent, the parent BLOCK HASH when the parent is not tracked
EngSeed == \A id \in DOMAIN st.eng :
             LET g == st.gh[id]
             IN /\ (g.from = "none") => g.seed = <<GenesisName>>
                /\ (g.from = "hash") => g.seed = <<g.blk.par.h>>
\* determinism: whatever the arrival order, the path (Pending / Known), the interleaving with
\* other blocks and the number of re-executions, a completely executed block whose parent was
\* completely executed when it began reports the same commitment
EngDeterministic == \A id \in DOMAIN st.eng :
                      LET g == st.gh[id]
                      IN (g.clean /\ g.done = Len(g.blk.sl)) => st.eng[id].term = IdealTerm(g.blk)
EngPruned == act.op = "fin" => \A id \in DOMAIN st.eng : id.s >= act.s

---------------------------------------------------------------------------
(* Dumps *)
EmitEdge == PrintT(<<"EDGE", ToJson([f |-> sid, a |-> act', e |-> out', t |-> sid'])>>)
SEmitState == PrintT(<<"STATE", ToJson([id |-> sid, init |-> (TLCGet("level") = 1), obs |-> SObs(st)])>>)
EEmitState == PrintT(<<"STATE", ToJson([id |-> sid, init |-> (TLCGet("level") = 1), obs |-> EObs(st.eng)])>>)
EmitSim == (act.op = "nop") => PrintT(<<"REPLAY", ToJson(tr)>>)
=============================================================================
