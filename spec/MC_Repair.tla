----------------------------- MODULE MC_Repair -----------------------------
(***************************************************************************)
(* C14.  Two models over Repair.tla:                                       *)
(*                                                                         *)
(* (1) INIT Init / NEXT Next : the requester repairing block B against     *)
(*     - a good responder holding B (answers any outstanding request),     *)
(*     - a hostile responder that answers ANY request (outstanding or not, *)
(*       about B or about a block never asked for) with: the correct data  *)
(*       (= replay / duplicate / late answer), a NACK, another response    *)
(*       variant, wrong indices, an aliased index, a wrong root, a         *)
(*       corrupted proof, a correct answer about ANOTHER block of the same *)
(*       slot, shreds of another group / slice / slot / block, shreds      *)
(*       signed by somebody else, shreds with altered payload, shreds of   *)
(*       the Byzantine leader's twin slice with the flipped last-flag,     *)
(*     - timers (all pending timeouts expire),                             *)
(*     - a second repair_block(B) call (MaxAgain),                         *)
(*     - every content of the slot's dissemination spot in Dissems (first  *)
(*       step `populate`): nothing, a shred of every slice of the other    *)
(*       block O of the equivocating leader, a shred of every slice of B.  *)
(*       No later step reads it: the requester's behaviour and             *)
(*       GoodPeerEventuallyCompletes are the same for all of them.         *)
(*     With Budgets = TRUE hostile responses and timer rounds are counted  *)
(*     (MaxHostile, MaxTimeouts): the model is a finite DAG and TLC's      *)
(*     deadlock check decides GoodPeerEventuallyCompletes: `Done` is the   *)
(*     only step of a state in which B is stored and nothing is            *)
(*     outstanding, so a terminal state in which B is NOT stored is        *)
(*     reported as a deadlock.                                             *)
(*     With Budgets = FALSE the counters are off, hostile steps that       *)
(*     change nothing are self loops, and the transition graph is dumped   *)
(*     for the replay.                                                     *)
(*                                                                         *)
(* (2) INIT InitR / NEXT NextR : responder cases  (holding x request x     *)
(*     sender) with the answer the specification demands.                  *)
(*                                                                         *)
(* (3) INIT InitS / NEXT NextR : scenarios for the real repair_loop task:  *)
(*     a hostile peer answers the requests named in its script (up to      *)
(*     ScenLen entries) the first time it sees them, before the good       *)
(*     peer's answer arrives; the specification is run to quiescence and   *)
(*     its final state is the expectation.                                 *)
(***************************************************************************)
EXTENDS Repair, Json, TLCExt

CONSTANTS Budgets, MaxHostile, MaxTimeouts, MaxAgain, ScenLen,
          Dissems     \* contents of the slot's dissemination spot to start from (subset of DissemKinds)

VARIABLES st, started, again, hb, tb, act, exp, sid, c,
          dissem      \* what the dissemination spot of the slot holds ("unset" before the first step)

vars == <<st, started, again, hb, tb, act, exp, sid, c, dissem>>
View == <<st, started, again, hb, tb, dissem>>

Sid(s, b, a, h, t, d) == <<TLCFP(<<s, b, a, h, t, d>>), TLCFP(<<d, t, h, a, b, s, "x">>)>>

---------------------------------------------------------------------------
(* Hostile responses.  Each is <<kind, response>>; kinds are labels only,  *)
(* the replay concretises the response record.                             *)
B == BlockOf("B")
O == BlockOf("O")
FlagOf(i) == i = NS - 1
GoodShg(s, g) == Shg("B", s, g, FlagOf(s), "leader", FALSE)

HostileLsr(r) ==
  {<<"valid", Answer("full", r)>>, <<"nack", NackRp(r)>>,
   <<"variant", Rp("sr", r, 0, B[NS], Pf("B", NS - 1, FALSE), NoSh)>>,
   <<"variant", Rp("sh", r, 0, "-", NoPf, GoodShg(0, 0))>>,
   <<"alias", Rp("lsr", r, NS - 1 + Pow2(Height(NS)), B[NS], Pf("B", NS - 1, FALSE), NoSh)>>,
   <<"beyond", Rp("lsr", r, NS, B[NS], Pf("B", NS - 1, FALSE), NoSh)>>,
   <<"root", Rp("lsr", r, NS - 1, O[NS], Pf("B", NS - 1, FALSE), NoSh)>>,
   <<"proof", Rp("lsr", r, NS - 1, B[NS], Pf("B", NS - 1, TRUE), NoSh)>>,
   <<"other", Rp("lsr", r, NS - 1, O[NS], Pf("O", NS - 1, FALSE), NoSh)>>}
  \cup {<<"index", Rp("lsr", r, j, B[j + 1], Pf("B", j, FALSE), NoSh)>> : j \in SliceIdx \ {NS - 1}}

HostileSr(r) ==
  {<<"valid", Answer("full", r)>>, <<"nack", NackRp(r)>>,
   \* the payload of a correct LastSliceRoot / Shred answer under a SliceRoot request
   <<"variant", Rp("lsr", r, r.s, B[r.s + 1], Pf("B", r.s, FALSE), NoSh)>>,
   <<"variant", Rp("sh", r, 0, "-", NoPf, GoodShg(r.s, 0))>>,
   <<"root", Rp("sr", r, 0, O[r.s + 1], Pf("B", r.s, FALSE), NoSh)>>,
   <<"proof", Rp("sr", r, 0, B[r.s + 1], Pf("B", r.s, TRUE), NoSh)>>,
   <<"other", Rp("sr", r, 0, O[r.s + 1], Pf("O", r.s, FALSE), NoSh)>>}
  \cup {<<"index", Rp("sr", r, 0, B[j + 1], Pf("B", j, FALSE), NoSh)>> : j \in SliceIdx \ {r.s}}

HostileSh(r) ==
  LET sh(x) == Rp("sh", r, 0, "-", NoPf, x) IN
  {<<"valid", Answer("full", r)>>, <<"nack", NackRp(r)>>,
   <<"variant", Rp("sr", r, 0, B[r.s + 1], Pf("B", r.s, FALSE), NoSh)>>,
   <<"variant", Rp("lsr", r, NS - 1, B[NS], Pf("B", NS - 1, FALSE), NoSh)>>,
   <<"slot", sh(Shg("Z", 0, r.g, TRUE, "leader", FALSE))>>,
   <<"root", sh(Shg("O", r.s, r.g, FlagOf(r.s), "leader", FALSE))>>,
   <<"sig", sh(Shg("B", r.s, r.g, FlagOf(r.s), "other", FALSE))>>,
   <<"payload", sh(Shg("B", r.s, r.g, FlagOf(r.s), "leader", TRUE))>>,
   \* an authentic shred with the data/coding kind flipped on the wire (r.g ranges over data and
   \* coding groups: both directions)
   <<"tag", sh(Flip(GoodShg(r.s, r.g)))>>,
   \* the Byzantine leader also signed this slice with the other last-flag
   <<"twin", sh(Shg("B", r.s, r.g, ~FlagOf(r.s), "leader", FALSE))>>}
  \cup {<<"index", sh(GoodShg(r.s, g))>> : g \in Groups \ {r.g}}
  \cup {<<"index", sh(GoodShg(j, r.g))>> : j \in SliceIdx \ {r.s}}

ReqB == {Lsr("B")} \cup {Sr("B", s) : s \in SliceIdx} \cup {Sh("B", s, g) : s \in SliceIdx, g \in Groups}

\* requests nobody ever sends: about block O, or beyond the last slice of B
Unsolicited ==
  {<<"nack", NackRp(Lsr("O"))>>,
   <<"other", Rp("lsr", Lsr("O"), NS - 1, O[NS], Pf("O", NS - 1, FALSE), NoSh)>>,
   <<"other", Rp("sr", Sr("O", 0), 0, O[1], Pf("O", 0, FALSE), NoSh)>>,
   <<"other", Rp("sh", Sh("O", 0, 0), 0, "-", NoPf, Shg("O", 0, 0, FlagOf(0), "leader", FALSE))>>,
   <<"nack", NackRp(Sr("B", NS))>>,
   <<"nack", NackRp(Sh("B", NS, 0))>>}

Hostile ==
  UNION {CASE r.t = "lsr" -> HostileLsr(r) [] r.t = "sr" -> HostileSr(r) [] r.t = "sh" -> HostileSh(r) : r \in ReqB}
  \cup Unsolicited

---------------------------------------------------------------------------
NoAns == [v |-> "-", ok |-> FALSE]
\* inv: InvalidBlock events sent to Votor in this step
Exp(res, ans) == [wire |-> res.wire, ev |-> res.ev, ans |-> ans, panic |-> res.st.panic,
                  inv |-> IF res.st.flagged /\ ~st.flagged THEN 1 ELSE 0]

Step(a, res, ans, started2, again2, hb2, tb2) ==
  /\ st' = res.st
  /\ started' = started2 /\ again' = again2 /\ hb' = hb2 /\ tb' = tb2
  /\ act' = a
  /\ exp' = Exp(res, ans)
  /\ sid' = Sid(res.st, started2, again2, hb2, tb2, dissem)
  /\ UNCHANGED <<c, dissem>>

Init ==
  /\ st = InitReq /\ started = FALSE /\ again = 0 /\ hb = 0 /\ tb = 0
  /\ act = [op |-> "init"]
  /\ exp = Exp(Res(InitReq, {}, <<>>), NoAns)
  /\ dissem = "unset"
  /\ sid = Sid(st, started, again, hb, tb, dissem)
  /\ c = 0

MissKinds == {"valid", "nack", "other", "root", "twin"}
Goal == st.bs.done = "B"
Count(x) == IF Budgets THEN x + 1 ELSE x

\* first step: the dissemination spot of the slot is whatever Rotor left there; the requester's
\* steps below never read or write `dissem` -- its behaviour does not depend on it
Populate ==
  /\ dissem = "unset"
  /\ \E d \in Dissems :
       /\ dissem' = d
       /\ act' = [op |-> "populate", dissem |-> d]
       /\ exp' = Exp(Res(st, {}, <<>>), NoAns)
       /\ sid' = Sid(st, started, again, hb, tb, d)
       /\ UNCHANGED <<st, started, again, hb, tb, c>>

Work ==
  /\ dissem # "unset"
  /\ ~st.panic                                   \* a panic kills the repair task
  /\ \/ /\ ~started
        /\ Step([op |-> "start"], StartRepair(st, "B"), NoAns, TRUE, again, hb, tb)
     \/ /\ started /\ again < MaxAgain
        /\ Step([op |-> "start"], StartRepair(st, "B"), NoAns, TRUE, again + 1, hb, tb)
     \/ \E r \in st.out :
          \* the good responder holds B: the real handler answers the request as it is on the wire
          LET rp == Answer("full", r)
          IN Step([op |-> "good", req |-> r], Handle(st, rp),
                  [v |-> rp.v, idx |-> rp.idx, root |-> rp.root, pf |-> rp.pf, sh |-> rp.sh, ok |-> Verifies(rp)],
                  started, again, hb, tb)
     \/ \E h \in Hostile :
          /\ (~Budgets \/ hb < MaxHostile)
          \* responses to requests that are not outstanding all take the same path (no matching
          \* request): a representative subset of the kinds is enough for those
          /\ (h[2].req \in st.out \/ h[1] \in MissKinds)
          /\ Step([op |-> "hostile", kind |-> h[1], rp |-> h[2], hit |-> (h[2].req \in st.out)],
                  Handle(st, h[2]), NoAns, started, again, Count(hb), tb)
     \/ /\ started /\ (~Budgets \/ (tb < MaxTimeouts /\ st.out # {}))
        /\ Step([op |-> "timeout"], TimeoutAll(st), NoAns, started, again, hb, Count(tb))
     \/ /\ Goal /\ st.out = {}
        /\ act' = [op |-> "done"] /\ UNCHANGED <<st, started, again, hb, tb, exp, sid, c, dissem>>

Next == Populate \/ Work

---------------------------------------------------------------------------
IsDone == act'.op = "done" /\ st' = st
EmitEdge == IsDone \/ PrintT(<<"EDGE", ToJson([f |-> sid, a |-> act', e |-> exp', t |-> sid'])>>)
Obs(s) ==
  [out |-> s.out,
   roots |-> [i \in 1..NS |-> s.roots[i - 1]],
   sh |-> [i \in 1..NS |-> s.bs.sh[i - 1]],
   marker |-> s.bs.marker,
   done |-> s.bs.done,
   flagged |-> s.flagged,            \* leader_misbehaved of the slot (gates dissemination shreds)
   \* the dissemination spot's commitment cache is what Rotor left there: repair never writes to it
   dcache |-> [i \in 1..NS |-> DissemCache(dissem, i - 1) # <<>>],
   other |-> FALSE]                  \* nothing is proven or filed under an identifier never asked for
EmitState == PrintT(<<"STATE", ToJson([id |-> sid, init |-> (TLCGet("level") = 1), obs |-> Obs(st)])>>)

---------------------------------------------------------------------------
(* C14 on the model *)
Inv_StoredOnlyIfHashMatches == StoredOnlyIfHashMatches(st)
Inv_ProvenRootsAreTrue == ProvenRootsAreTrue(st)
Inv_NoPanic == NoPanic(st)
Inv_NeverFlagged == CorrectLeaderNeverFlaggedByRepair(st)
Inv_Progressable == Progressable(st, started)
\* stored shreds and proven roots never change once set (NoCorruption), as an action property
NoCorruption ==
  [][/\ \A i \in SliceIdx : st.roots[i] # "-" => st'.roots[i] = st.roots[i]
     /\ \A i \in SliceIdx : st.bs.cm[i] # NoCm => st'.bs.cm[i] = st.bs.cm[i]
     /\ \A i \in SliceIdx : st.bs.sh[i] \subseteq st'.bs.sh[i]
     /\ st.bs.done # "-" => st'.bs.done = st.bs.done
     /\ st.last # -1 => st'.last = st.last]_vars
\* (action properties: `act` and `exp` are not part of the VIEW, so they are checked on transitions)
\* a response that does not match an outstanding request changes nothing and sends nothing
UnsolicitedIgnored ==
  [][(act'.op = "hostile" /\ ~act'.hit) => (st' = st /\ exp'.wire = {} /\ exp'.ev = <<>>)]_vars
\* the good responder's answers verify against the block hash, are never NACKs for a held block,
\* and are accepted: the answered request is no longer outstanding unless it was asked again
GoodAnswersVerify ==
  [][act'.op = "good" => (exp'.ans.ok /\ exp'.ans.v = act'.req.t
                          /\ (act'.req \in st'.out => act'.req \in exp'.wire))]_vars
\* an invalid response to an outstanding request leaves the requester exactly as it was
InvalidChangesNothing ==
  [][(act'.op = "hostile" /\ act'.hit /\ act'.kind \notin {"valid", "nack"})
       => (st' = st /\ exp'.wire = {} /\ exp'.ev = <<>>)]_vars

\* repair never touches the slot's dissemination spot
DissemNeverWritten == [][dissem # "unset" => dissem' = dissem]_vars
\* handing the dissemination spot's commitment cache to the shred validation would break the
\* property: with a shred of O there, the correct shreds of B are refused; with a shred of B there,
\* a shred nobody signed is accepted (see Repair!WithDissemCache)
CacheWouldRefuseGood ==
  \A i \in SliceIdx : ~WithDissemCache(GoodShg(i, 0), DissemCache("other", i))
CacheWouldAcceptUnsigned ==
  \A i \in SliceIdx : WithDissemCache(Shg("B", i, 0, FlagOf(i), "other", FALSE), DissemCache("same", i))
ASSUME CacheWouldRefuseGood /\ CacheWouldAcceptUnsigned

\* reachability witnesses (each must be violated)
W_Stored == ~Goal
W_StoredAfterHostileHit == ~(Goal /\ hb > 0)
W_TwinHit == [][~(act'.op = "hostile" /\ act'.kind = "twin" /\ act'.hit)]_vars
W_AllOutstandingAnswered == ~(Goal /\ st.out = {})

---------------------------------------------------------------------------
(* (2) responder cases *)
\* none; the complete block; only slice 0 / only the last slice of it (filed under hash(B), incomplete)
Holdings == IF NS >= 2 THEN {"none", "full", "part0", "partlast"} ELSE {"none", "full"}
ReqU == {Lsr(b) : b \in {"B", "O"}}
        \cup {Sr(b, s) : b \in {"B", "O"}, s \in 0..NS}
        \cup {Sh(b, s, g) : b \in {"B", "O"}, s \in 0..NS, g \in Groups}
RCases == {[hold |-> h, req |-> r, sender |-> s] : h \in Holdings, r \in ReqU, s \in {"peer", "stranger"}}
RAnswer(x) == IF x.sender = "stranger" THEN [v |-> "none"] ELSE Answer(x.hold, x.req)

InitR ==
  /\ c \in RCases
  /\ st = InitReq /\ started = FALSE /\ again = 0 /\ hb = 0 /\ tb = 0
  /\ act = [op |-> "rcase"] /\ exp = 0 /\ sid = <<0, 0>> /\ dissem = "unset"
NextR == UNCHANGED vars

\* every positive answer verifies against the block hash
AnswersVerify == LET a == RAnswer(c) IN a.v \in {"lsr", "sr", "sh"} => Verifies(a)
\* a node that does not hold the block (or is asked beyond it) says so
NackWhenUnknown ==
  (c.sender = "peer" /\ (c.hold = "none" \/ c.req.blk # "B" \/ c.req.s >= NS)) => RAnswer(c).v = "nack"
\* a node holding the complete block serves every request about it
FullServesAll ==
  (c.sender = "peer" /\ c.hold = "full" /\ c.req.blk = "B" /\ c.req.s < NS) => RAnswer(c).v = c.req.t
EmitRCase == PrintT(<<"RCASE", ToJson([c |-> c, exp |-> RAnswer(c)])>>)

---------------------------------------------------------------------------
(* (3) scenarios: the requester run to quiescence against a scripted hostile peer *)
HostileB == {h \in Hostile : h[2].req \in ReqB}
Scripts == {<<>>} \cup {<<h>> : h \in HostileB}
           \cup (IF ScenLen >= 2 THEN {<<h1, h2>> : h1 \in HostileB, h2 \in HostileB} ELSE {})

FirstFor(script, r) ==
  LET ks == {k \in 1..Len(script) : script[k][2].req = r}
  IN IF ks = {} THEN 0 ELSE CHOOSE k \in ks : \A j \in ks : k <= j
Without(script, k) == [j \in 1..(Len(script) - 1) |-> IF j < k THEN script[j] ELSE script[j + 1]]

RECURSIVE Drain(_, _, _)
Drain(s, script, fuel) ==
  IF s.out = {} \/ s.panic \/ fuel = 0 THEN s
  ELSE LET r == CHOOSE x \in s.out : TRUE
           k == FirstFor(script, r)
       IN IF k # 0 THEN Drain(Handle(s, script[k][2]).st, Without(script, k), fuel - 1)
          ELSE Drain(Handle(s, Answer("full", r)).st, script, fuel - 1)
Final(script) == Drain(StartRepair(InitReq, "B").st, script, 400)

InitS ==
  /\ c \in Scripts
  /\ dissem \in Dissems
  /\ st = InitReq /\ started = FALSE /\ again = 0 /\ hb = 0 /\ tb = 0
  /\ act = [op |-> "scen"] /\ exp = 0 /\ sid = <<0, 0>>

\* whatever the hostile peer scripted, the block is stored and announced exactly once, under hash(B)
ScenarioCompletes ==
  LET f == Final(c) IN f.bs.done = "B" /\ f.ann = <<"B">> /\ ~f.panic /\ f.out = {} /\ ~f.flagged
EmitScen ==
  LET f == Final(c)
  IN PrintT(<<"SCEN", ToJson([dissem |-> dissem, script |-> [k \in 1..Len(c) |-> [kind |-> c[k][1], rp |-> c[k][2]]],
                               exp |-> [done |-> f.bs.done, ann |-> f.ann, panic |-> f.panic,
                                        \* no InvalidBlock; the slot still takes dissemination shreds
                                        inv |-> IF f.flagged THEN 1 ELSE 0, accepts |-> ~f.flagged]])>>)
=============================================================================
