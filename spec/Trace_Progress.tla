--------------------------- MODULE Trace_Progress ---------------------------
(***************************************************************************)
(* C02 on recorded executions: the trace is validated as in Trace_Abs and, *)
(* once it is fully consumed, the progress goal is evaluated on the final  *)
(* state: after stabilisation every correct live node keeps finalizing,    *)
(* windows of crashed / silent leaders are skip-certified, every slot of a *)
(* window led by a correct live leader that started after stabilisation is *)
(* finalized (not skipped) at every correct live node - by a               *)
(* fast-finalization certificate when >= 80% of the stake is correct and   *)
(* responsive.                                                             *)
(***************************************************************************)
EXTENDS Trace_Abs

CONSTANTS
  Crashed,      \* crashed validators
  SilentByz,    \* Byzantine validators that stay silent (their windows must be skipped)
  StableFrom,   \* virtual ms from which all delays are within the bound (GST + backlog)
  EndT,         \* virtual ms at which the run ended
  Margin,       \* ms a window needs to complete (timeouts + block time)
  RequireFast,  \* TRUE: demand fast-finalization certificates when >= 80% of the stake is responsive
  Starved       \* slots of which dissemination delivered fewer than 32 shreds of some slice to some live node
                \* (Rotor samples one relay per shred by stake; relays that are crashed or Byzantine forward
                \* nothing, so with f faulty stake a slice is under-delivered with probability
                \* P[Bin(64, f) > 32]: small, not zero - the block then needs repair and its window may time out;
                \* the protocol's progress guarantee is conditional on Rotor's delivery)

VARIABLES now, tfirst, ffheld

pvars == <<sent, blocks, l, fin, skipped, ts, now, tfirst, ffheld>>

Live == Correct \ Crashed

PInit == TraceInit /\ now = 0 /\ tfirst = [s \in 0..MaxSlot |-> 0] /\ ffheld = {}

Aux ==
  /\ now' = IF "t" \in DOMAIN Ev THEN Ev.t ELSE now
  /\ tfirst' = IF /\ Ev.e = "Vote" /\ Ev.from \in Correct /\ Ev.vote.k \in {"notar", "skip"}
                  /\ Ev.vote.s \in 0..MaxSlot /\ tfirst[Ev.vote.s] = 0
               THEN [tfirst EXCEPT ![Ev.vote.s] = Ev.t] ELSE tfirst
  /\ ffheld' = IF Ev.e = "CertHeld" /\ Ev.k = "ff" THEN ffheld \cup {<<Ev.node, Ev.s>>} ELSE ffheld

PNext == TraceNext /\ Aux

Leader(s) == (s \div W) % N
WindowSlotsOf(w) == {s \in 1..MaxSlot : s \div W = w}
Started(s) == tfirst[s] > 0
\* windows that began after stabilisation and had time to complete before the run ended
JudgedWindows ==
  {w \in 0..(MaxSlot \div W) :
     /\ WindowSlotsOf(w) # {}
     /\ \A s \in WindowSlotsOf(w) : Started(s) /\ tfirst[s] >= StableFrom /\ tfirst[s] + Margin <= EndT}

FinalizedAt(n, s) == \E x \in fin : x.node = n /\ x.s = s
HighestAt(n) == IF \E x \in fin : x.node = n
                THEN CHOOSE m \in {x.s : x \in {y \in fin : y.node = n}} :
                       \A y \in fin : y.node = n => y.s <= m
                ELSE 0

FastPathExpected == RequireFast /\ Strong(SumStake(Live))

WellDelivered(w) == WindowSlotsOf(w) \cap Starved = {}
Goal ==
  /\ \A w \in JudgedWindows :
       IF Leader(w * W) \in Live /\ WellDelivered(w)
       THEN \A s \in WindowSlotsOf(w) :
              /\ \A n \in Live : FinalizedAt(n, s)
              /\ ~SkipCert(s)
       ELSE IF Leader(w * W) \in Live
       \* an under-delivered block may time out: its window must still be DECIDED (finalized or skipped), not block
       THEN \A s \in WindowSlotsOf(w) : (\A n \in Live : FinalizedAt(n, s)) \/ SkipCert(s)
       ELSE (Leader(w * W) \in Crashed \cup SilentByz) =>
              \A s \in WindowSlotsOf(w) : SkipCert(s)
  \* the fast path works: with >= 80% of the stake responsive, most slots are finalized by a fast-finalization
  \* certificate.  (Not each one: the slow path runs concurrently, and a slot that 60% of the stake finalizes in two
  \* quick rounds is pruned before a straggler's notar vote arrives, so its fast-finalization certificate is never
  \* formed at that node - with a validator above 60% that is the normal case, see RequireFast.)
  /\ FastPathExpected =>
       LET pairs == {<<n, s>> \in Live \X (1..MaxSlot) :
                       \E w \in JudgedWindows : s \in WindowSlotsOf(w) /\ Leader(w * W) \in Live /\ WellDelivered(w)}
       IN 2 * Cardinality(pairs \cap ffheld) >= Cardinality(pairs)
  \* every live node's highest finalized slot keeps up with the judged windows
  /\ \A n \in Live : \A w \in JudgedWindows :
       (Leader(w * W) \in Live /\ WellDelivered(w)) => HighestAt(n) >= w * W

FaultyJudged == {w \in JudgedWindows : Leader(w * W) \notin Live}
GoalAtEnd ==
  (l = Len(Rec) + 1) =>
     /\ PrintT(<<"JUDGED", ToJson([windows |-> JudgedWindows, faulty |-> FaultyJudged,
                                   fast |-> FastPathExpected,
                                   underdelivered |-> {w \in JudgedWindows : ~WellDelivered(w)}])>>)
     /\ Goal
\* vacuity guard: some window must actually be judged (checked by the driver through a witness run)
W_NoJudgedWindow == (l = Len(Rec) + 1) => JudgedWindows = {}
W_NoFaultyLeaderJudged ==
  (l = Len(Rec) + 1) => \A w \in JudgedWindows : Leader(w * W) \in Live
=============================================================================
