//! Case-style replay: TLC enumerates abstract cases (one `<<"CASE", "{json}">>` line each,
//! with the spec's expected verdict/outputs inside); a driver concretises and runs each case
//! against the implementation and reports divergences in the same shape as `graph::ReplayReport`.

use std::collections::HashMap;
use std::io::{BufRead, BufReader};

use serde_json::{Value, json};

/// Reads all `<<"TAG", "{json}">>` lines of a TLC output file.
pub fn load_tagged(path: &str, tag: &str) -> anyhow::Result<Vec<Value>> {
    let f = std::fs::File::open(path)?;
    let rdr = BufReader::with_capacity(1 << 20, f);
    let prefix = format!("<<\"{tag}\", \"");
    let mut out = Vec::new();
    for line in rdr.lines() {
        let line = line?;
        let Some(rest) = line.strip_prefix(&prefix) else {
            continue;
        };
        let Some(rest) = rest.strip_suffix("\">>") else {
            anyhow::bail!("malformed {tag} line");
        };
        let mut s = String::with_capacity(rest.len());
        let mut chars = rest.chars();
        while let Some(c) = chars.next() {
            if c == '\\' {
                match chars.next() {
                    Some('"') => s.push('"'),
                    Some('\\') => s.push('\\'),
                    Some('n') => s.push('\n'),
                    Some('t') => s.push('\t'),
                    Some(o) => {
                        s.push('\\');
                        s.push(o);
                    }
                    None => s.push('\\'),
                }
            } else {
                s.push(c);
            }
        }
        out.push(serde_json::from_str(&s)?);
    }
    Ok(out)
}

#[derive(Default)]
pub struct CaseReport {
    pub model: String,
    pub cases: u64,
    pub distinct: std::collections::HashSet<String>,
    pub div_count: u64,
    pub fingerprints: HashMap<String, u64>,
    pub divergences: Vec<Value>,
    pub samples: Vec<Value>,
    pub hist: HashMap<String, u64>,
}

impl CaseReport {
    pub fn new(model: &str) -> Self {
        Self {
            model: model.to_string(),
            ..Default::default()
        }
    }

    /// Records one executed case. `label` groups cases for the histogram,
    /// `key` identifies distinct cases.
    pub fn case(&mut self, label: &str, key: String, sample: &Value) {
        self.cases += 1;
        self.distinct.insert(key);
        *self.hist.entry(label.to_string()).or_default() += 1;
        if self.samples.len() < 3 {
            self.samples.push(sample.clone());
        }
    }

    /// Records a divergence between the spec's expectation and the implementation.
    pub fn diverge(&mut self, fingerprint: &str, fields: &[&str], case: &Value, expected: Value, observed: Value) {
        self.div_count += 1;
        *self.fingerprints.entry(fingerprint.to_string()).or_default() += 1;
        if self.divergences.len() < 40 {
            self.divergences.push(json!({
                "fingerprint": fingerprint, "fields": fields, "step": 0,
                "walk": [case], "expected": expected, "observed": observed,
            }));
        }
    }

    pub fn to_json(&self) -> Value {
        json!({
            "model": self.model,
            "nodes": self.distinct.len(), "edges": self.cases, "init": 0,
            "covered": self.cases, "steps": self.cases, "walks": self.cases,
            "complete": self.div_count == 0,
            "div_count": self.div_count,
            "fingerprints": self.fingerprints,
            "act_hist": self.hist,
            "divergences": self.divergences,
            "samples": self.samples,
        })
    }
}
