//! Conformance harness: binds the TLA+ specifications in /verif/spec to the
//! implementation in /repo (path dependency, rebuilt from the working tree).

mod auth_driver;
#[allow(dead_code)]
mod cases;
mod graph;
mod merkle_driver;
mod pool_driver;
mod sampler_driver;
mod votor_driver;
mod world;

use serde_json::{Value, json};

fn arg_after(args: &[String], name: &str) -> Option<String> {
    args.iter()
        .position(|a| a == name)
        .and_then(|i| args.get(i + 1).cloned())
}

fn main() -> anyhow::Result<()> {
    // panics of the code under test are data; keep stderr quiet
    std::panic::set_hook(Box::new(|_| {}));
    let args: Vec<String> = std::env::args().collect();
    let cmd = args.get(1).map(String::as_str).unwrap_or("");
    let seed: u64 = arg_after(&args, "--seed")
        .and_then(|s| s.parse().ok())
        .unwrap_or(1);
    let out: Value = match cmd {
        "replay-auth" => auth_driver::run(&args, seed)?,
        "replay-pool" => {
            let path = arg_after(&args, "--tlc-out").expect("--tlc-out");
            let stakes: Vec<u64> = arg_after(&args, "--stakes")
                .expect("--stakes")
                .split(',')
                .map(|x| x.parse().unwrap())
                .collect();
            let own: usize = arg_after(&args, "--own").and_then(|s| s.parse().ok()).unwrap_or(0);
            let max_slot: u64 = arg_after(&args, "--max-slot").and_then(|s| s.parse().ok()).unwrap_or(7);
            let sample = arg_after(&args, "--sample").and_then(|s| s.parse().ok());
            let budget_s = arg_after(&args, "--budget").and_then(|s| s.parse().ok()).unwrap_or(0);
            let max_div = arg_after(&args, "--max-div").and_then(|s| s.parse().ok()).unwrap_or(200);
            let mut d = pool_driver::PoolDriver::new(&stakes, own, max_slot, seed);
            if args.iter().any(|a| a == "--sim") {
                graph::replay_sim(&path, &mut d, max_div)?.to_json("pool")
            } else {
                let g = graph::Graph::load(&path)?;
                let opts = graph::ReplayOpts { sample, seed, max_div, budget_s };
                let rep = graph::replay(&g, &mut d, &opts);
                rep.to_json("pool")
            }
        }
        "replay-votor" => {
            let path = arg_after(&args, "--tlc-out").expect("--tlc-out");
            let own: usize = arg_after(&args, "--own").and_then(|s| s.parse().ok()).unwrap_or(0);
            let max_slot: u64 = arg_after(&args, "--max-slot").and_then(|s| s.parse().ok()).unwrap_or(7);
            let sample = arg_after(&args, "--sample").and_then(|s| s.parse().ok());
            let budget_s = arg_after(&args, "--budget").and_then(|s| s.parse().ok()).unwrap_or(0);
            let max_div = arg_after(&args, "--max-div").and_then(|s| s.parse().ok()).unwrap_or(200);
            let mut d = votor_driver::VotorDriver::new(&[1, 1, 1], own, max_slot, seed);
            let g = graph::Graph::load(&path)?;
            let opts = graph::ReplayOpts { sample, seed, max_div, budget_s };
            graph::replay(&g, &mut d, &opts).to_json("votor")
        }
        "replay-merkle" => {
            let path = arg_after(&args, "--tlc-out").expect("--tlc-out");
            merkle_driver::run(&path)?
        }
        "replay-sampler" => sampler_driver::run(&args, seed)?,
        _ => json!({"error": format!("unknown command {cmd}")}),
    };
    println!("{}", serde_json::to_string(&out)?);
    Ok(())
}
