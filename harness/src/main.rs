//! Conformance harness: binds the TLA+ specifications in /verif/spec to the
//! implementation in /repo (path dependency, rebuilt from the working tree).

mod auth_driver;
mod blockstore_driver;
#[allow(dead_code)]
mod cases;
mod dissem_driver;
mod execstate_driver;
mod graph;
mod merkle_driver;
mod node_driver;
mod pool_driver;
mod producer_driver;
mod repair_driver;
mod sim;
mod sampler_driver;
mod shred_driver;
mod shredauth_driver;
mod votor_driver;
mod wire_driver;
mod world;

use serde_json::{Value, json};

fn arg_after(args: &[String], name: &str) -> Option<String> {
    args.iter()
        .position(|a| a == name)
        .and_then(|i| args.get(i + 1).cloned())
}

fn main() -> anyhow::Result<()> {
    // panics of the code under test are data; keep stderr quiet
    std::panic::set_hook(Box::new(|_| {}));
    let args: Vec<String> = std::env::args().collect();
    let cmd = args.get(1).map(String::as_str).unwrap_or("");
    let seed: u64 = arg_after(&args, "--seed")
        .and_then(|s| s.parse().ok())
        .unwrap_or(1);
    let out: Value = match cmd {
        "replay-auth" => auth_driver::run(&args, seed)?,
        "replay-execstate" => execstate_driver::run(&args, seed)?,
        "replay-pool" => {
            let path = arg_after(&args, "--tlc-out").expect("--tlc-out");
            let stakes: Vec<u64> = arg_after(&args, "--stakes")
                .expect("--stakes")
                .split(',')
                .map(|x| x.parse().unwrap())
                .collect();
            // the protocol only looks at stake RATIOS: the same behaviours must be produced when every
            // stake is multiplied by the same factor (up to the top of the u64 range)
            let scale: u64 = arg_after(&args, "--stake-scale").and_then(|s| s.parse().ok()).unwrap_or(1);
            let stakes: Vec<u64> = stakes.iter().map(|s| s.checked_mul(scale).expect("scaled stake fits u64")).collect();
            stakes.iter().try_fold(0u64, |a, s| a.checked_add(*s)).expect("total stake fits u64");
            let own: usize = arg_after(&args, "--own").and_then(|s| s.parse().ok()).unwrap_or(0);
            let max_slot: u64 = arg_after(&args, "--max-slot").and_then(|s| s.parse().ok()).unwrap_or(7);
            let sample = arg_after(&args, "--sample").and_then(|s| s.parse().ok());
            let budget_s = arg_after(&args, "--budget").and_then(|s| s.parse().ok()).unwrap_or(0);
            let max_div = arg_after(&args, "--max-div").and_then(|s| s.parse().ok()).unwrap_or(200);
            let mut d = pool_driver::PoolDriver::new(&stakes, own, max_slot, seed);
            if args.iter().any(|a| a == "--sim") {
                graph::replay_sim(&path, &mut d, max_div)?.to_json("pool")
            } else {
                let g = graph::Graph::load(&path)?;
                let opts = graph::ReplayOpts { sample, seed, max_div, budget_s };
                let rep = graph::replay(&g, &mut d, &opts);
                rep.to_json("pool")
            }
        }
        "replay-node" => {
            let path = arg_after(&args, "--tlc-out").expect("--tlc-out");
            let stakes: Vec<u64> = arg_after(&args, "--stakes").expect("--stakes").split(',').map(|x| x.parse().unwrap()).collect();
            let own: usize = arg_after(&args, "--own").and_then(|s| s.parse().ok()).unwrap_or(0);
            let max_slot: u64 = arg_after(&args, "--max-slot").and_then(|s| s.parse().ok()).unwrap_or(7);
            let sample = arg_after(&args, "--sample").and_then(|s| s.parse().ok());
            let budget_s = arg_after(&args, "--budget").and_then(|s| s.parse().ok()).unwrap_or(0);
            let max_div = arg_after(&args, "--max-div").and_then(|s| s.parse().ok()).unwrap_or(200);
            let mut d = node_driver::NodeDriver::new(&stakes, own, max_slot, seed);
            let g = graph::Graph::load(&path)?;
            let opts = graph::ReplayOpts { sample, seed, max_div, budget_s };
            graph::replay(&g, &mut d, &opts).to_json("node")
        }
        "replay-votor-timers" => {
            let path = arg_after(&args, "--tlc-out").expect("--tlc-out");
            votor_driver::replay_timers(&path, &[2, 2, 1], seed)?
        }
        "replay-votor" => {
            let path = arg_after(&args, "--tlc-out").expect("--tlc-out");
            let own: usize = arg_after(&args, "--own").and_then(|s| s.parse().ok()).unwrap_or(0);
            let max_slot: u64 = arg_after(&args, "--max-slot").and_then(|s| s.parse().ok()).unwrap_or(7);
            let sample = arg_after(&args, "--sample").and_then(|s| s.parse().ok());
            let budget_s = arg_after(&args, "--budget").and_then(|s| s.parse().ok()).unwrap_or(0);
            let max_div = arg_after(&args, "--max-div").and_then(|s| s.parse().ok()).unwrap_or(200);
            let stakes: Vec<u64> = arg_after(&args, "--stakes")
                .map(|s| s.split(',').map(|x| x.parse().unwrap()).collect())
                .unwrap_or_else(|| vec![1, 1, 1]);
            let mut d = votor_driver::VotorDriver::new(&stakes, own, max_slot, seed);
            let g = graph::Graph::load(&path)?;
            let opts = graph::ReplayOpts { sample, seed, max_div, budget_s };
            graph::replay(&g, &mut d, &opts).to_json("votor")
        }
        "replay-merkle" => {
            let path = arg_after(&args, "--tlc-out").expect("--tlc-out");
            merkle_driver::run(&path)?
        }
        "replay-sampler" => sampler_driver::run(&args, seed)?,
        "replay-shred" => shred_driver::run(&args, seed)?,
        "replay-shredauth" => shredauth_driver::run(&args, seed)?,
        "replay-repair" => repair_driver::run(&args, seed)?,
        "replay-producer" => producer_driver::run(&args, seed)?,
        "replay-blockstore" => blockstore_driver::run(&args, seed)?,
        "replay-wire" => wire_driver::replay(
            &arg_after(&args, "--tlc-out").expect("--tlc-out"),
            seed,
            arg_after(&args, "--threads").and_then(|s| s.parse().ok()).unwrap_or(4),
        )?,
        "sim" => {
            // one simulated run -> NDJSON trace file + summary
            let list = |name: &str| -> Vec<usize> {
                arg_after(&args, name)
                    .map(|s| s.split(',').filter(|x| !x.is_empty()).map(|x| x.parse().unwrap()).collect())
                    .unwrap_or_default()
            };
            let num = |name: &str, d: u64| -> u64 {
                arg_after(&args, name).and_then(|s| s.parse().ok()).unwrap_or(d)
            };
            let cfg = sim::SimConfig {
                stakes: arg_after(&args, "--stakes").expect("--stakes").split(',')
                    .map(|x| x.parse::<u64>().unwrap().checked_mul(num("--stake-scale", 1)).expect("scaled stake fits u64")).collect(),
                byz: list("--byz"),
                byz_mode: arg_after(&args, "--byz-mode").unwrap_or_else(|| "silent".into()),
                crashed: list("--crashed"),
                crash_at_ms: num("--crash-at", 0),
                standstill_ms: num("--standstill", 0),
                lag: arg_after(&args, "--lag").map(|s| {
                    let v: Vec<u64> = s.split(',').map(|x| x.parse().unwrap()).collect();
                    (v[0] as usize, v[1], v[2])
                }),
                seed,
                gst_ms: num("--gst", 0),
                chaos_ms: num("--chaos", 2000),
                drop_pm: num("--drop", 0) as u32,
                dup_pm: num("--dup", 0) as u32,
                delta_ms: num("--delta", 100),
                run_ms: num("--run", 20000),
            };
            let out_path = arg_after(&args, "--out").expect("--out");
            let (events, summary) = sim::run(&cfg)?;
            let mut text = String::new();
            for e in &events {
                text.push_str(&e.to_string());
                text.push('\n');
            }
            std::fs::write(&out_path, text)?;
            summary
        }
        "replay-dissem" => dissem_driver::run(
            &arg_after(&args, "--out").expect("--out"),
            &arg_after(&args, "--tier").unwrap_or_else(|| "quick".to_string()),
            seed,
        )?,
        _ => json!({"error": format!("unknown command {cmd}")}),
    };
    println!("{}", serde_json::to_string(&out)?);
    Ok(())
}
