//! Replay driver for `Votor` (spec: Votor.tla / MC_Votor.tla): single-steps the real
//! handlers through the verification hooks and records every broadcast.

use std::panic::AssertUnwindSafe;
use std::sync::{Arc, Mutex};

use alpenglow::All2All;
use alpenglow::consensus::{
    BlockInfo, BlockstoreEvent, ConsensusMessage, PoolEvent, Votor,
};
use alpenglow::types::Slot;
use futures::FutureExt;
use serde_json::{Value, json};
use tokio::sync::mpsc;

use crate::graph::{Driver, canon};
use crate::world::World;

#[derive(Default)]
pub struct RecAll2All {
    pub sent: Mutex<Vec<ConsensusMessage>>,
}

impl All2All for RecAll2All {
    async fn broadcast(&self, msg: &ConsensusMessage) -> std::io::Result<()> {
        self.sent.lock().unwrap().push(msg.clone());
        Ok(())
    }

    async fn receive(&self) -> std::io::Result<ConsensusMessage> {
        std::future::pending().await
    }
}

pub struct VotorDriver {
    pub world: World,
    own: usize,
    max_slot: u64,
    rt: tokio::runtime::Runtime,
    resets: u64,
    votor: Option<Votor<RecAll2All>>,
    a2a: Arc<RecAll2All>,
    _chans: Option<(mpsc::Sender<PoolEvent>, mpsc::Sender<BlockstoreEvent>)>,
}

fn new_rt() -> tokio::runtime::Runtime {
    tokio::runtime::Builder::new_current_thread()
        .enable_all()
        .start_paused(true)
        .build()
        .expect("runtime")
}

impl VotorDriver {
    pub fn new(stakes: &[u64], own: usize, max_slot: u64, seed: u64) -> Self {
        Self {
            world: World::new(stakes, seed),
            own,
            max_slot,
            rt: new_rt(),
            resets: 0,
            votor: None,
            a2a: Arc::new(RecAll2All::default()),
            _chans: None,
        }
    }

    pub fn msg_json(&self, m: &ConsensusMessage) -> Value {
        match m {
            ConsensusMessage::Vote(v) => {
                let j = self.world.vote_json(v);
                json!({"t": "vote", "k": j["k"], "s": j["s"], "h": j["h"], "signer": j["v"]})
            }
            ConsensusMessage::Cert(c) => json!({"t": "cert", "c": self.world.cert_id_json(c)}),
        }
    }

    pub fn pool_event(&mut self, e: &Value) -> PoolEvent {
        match e["t"].as_str().unwrap() {
            "ParentReady" => PoolEvent::ParentReady {
                slot: Slot::new(e["s"].as_u64().unwrap()),
                parent: self.world.block(&e["p"]),
            },
            "SafeToNotar" => PoolEvent::SafeToNotar(self.world.block(&e["b"])),
            "SafeToSkip" => PoolEvent::SafeToSkip(Slot::new(e["s"].as_u64().unwrap())),
            "Cert" => PoolEvent::CertCreated(self.world.cert(&e["c"]).into_cert()),
            "Standstill" => {
                let certs = e["certs"]
                    .as_array()
                    .unwrap()
                    .iter()
                    .map(|c| self.world.cert(c).into_cert())
                    .collect();
                let own = self.own;
                let votes = e["votes"]
                    .as_array()
                    .unwrap()
                    .iter()
                    .map(|v| {
                        self.world.raw_vote(
                            v["k"].as_str().unwrap(),
                            v["s"].as_u64().unwrap(),
                            v["h"].as_str().unwrap(),
                            own,
                        )
                    })
                    .collect();
                PoolEvent::Standstill(Slot::new(e["s"].as_u64().unwrap()), certs, votes)
            }
            o => panic!("unknown pool event {o}"),
        }
    }

    pub fn bs_event(&mut self, e: &Value) -> BlockstoreEvent {
        let slot = Slot::new(e["s"].as_u64().unwrap());
        match e["t"].as_str().unwrap() {
            "FirstShred" => BlockstoreEvent::FirstShred(slot),
            "InvalidBlock" => BlockstoreEvent::InvalidBlock(slot),
            "Block" => {
                let h = self.world.hash(e["h"].as_str().unwrap());
                let par = self.world.block(&e["par"]);
                BlockstoreEvent::Block {
                    slot,
                    block_info: BlockInfo::verif_new(h, par),
                }
            }
            o => panic!("unknown blockstore event {o}"),
        }
    }
}

impl Driver for VotorDriver {
    fn reset(&mut self) {
        self.resets += 1;
        self.votor = None;
        if self.resets % 2000 == 0 {
            // drop the timer tasks spawned by set_timeouts
            let old = std::mem::replace(&mut self.rt, new_rt());
            old.shutdown_background();
        }
        let (ptx, prx) = mpsc::channel(16);
        let (btx, brx) = mpsc::channel(16);
        self.a2a = Arc::new(RecAll2All::default());
        let _g = self.rt.enter();
        self.votor = Some(Votor::new(
            alpenglow::ValidatorIndex::new(self.own as u64),
            self.world.voting_sks[self.own].clone(),
            prx,
            brx,
            self.a2a.clone(),
        ));
        self._chans = Some((ptx, btx));
        if let Some(v) = self.votor.as_ref() {
            let _ = v.verif_take_armed();
        }
    }

    fn step(&mut self, act: &Value) -> Value {
        let op = act["op"].as_str().unwrap_or("");
        let mut votor = self.votor.take().expect("votor");
        let res = match op {
            "pool" => {
                let ev = self.pool_event(&act["e"]);
                self.rt
                    .block_on(AssertUnwindSafe(votor.verif_pool_event(ev)).catch_unwind())
            }
            "bs" => {
                let ev = self.bs_event(&act["e"]);
                self.rt
                    .block_on(AssertUnwindSafe(votor.verif_blockstore_event(ev)).catch_unwind())
            }
            "timeout" => {
                let s = Slot::new(act["s"].as_u64().unwrap());
                let crashed = act["k"] == "crashed";
                self.rt
                    .block_on(AssertUnwindSafe(votor.verif_timeout(s, crashed)).catch_unwind())
            }
            _ => Ok(()),
        };
        self.votor = Some(votor);
        let msgs: Vec<Value> = {
            let mut sent = self.a2a.sent.lock().unwrap();
            let v: Vec<ConsensusMessage> = sent.drain(..).collect();
            v.iter().map(|m| self.msg_json(m)).collect()
        };
        let armed: Vec<u64> = self
            .votor
            .as_ref()
            .map(|v| v.verif_take_armed().iter().map(|s| s.inner()).collect())
            .unwrap_or_default();
        let panic = match res {
            Ok(()) => String::new(),
            Err(e) => {
                if let Some(s) = e.downcast_ref::<&str>() {
                    (*s).to_string()
                } else if let Some(s) = e.downcast_ref::<String>() {
                    s.clone()
                } else {
                    "panic".into()
                }
            }
        };
        json!({"msgs": msgs, "arm": armed, "panic": panic})
    }

    fn obs(&mut self) -> Value {
        let votor = self.votor.as_ref().expect("votor");
        let default = json!({"voted": false, "vnotar": "-", "bad": false, "notarized": "-",
                             "pready": [], "shred": false, "pending": [], "retired": false});
        let mut slots: Vec<Value> = (0..=self.max_slot).map(|_| default.clone()).collect();
        for s in votor.verif_slots() {
            let i = s.slot.inner();
            if i > self.max_slot {
                continue;
            }
            let hn = |h: &Option<alpenglow::crypto::merkle::BlockHash>| {
                h.as_ref().map_or_else(|| "-".to_string(), |h| self.world.hash_name(h))
            };
            let pending: Vec<Value> = s
                .pending_block
                .iter()
                .map(|(h, par)| json!({"h": self.world.hash_name(h), "par": self.world.block_json(par)}))
                .collect();
            slots[i as usize] = json!({
                "voted": s.voted, "vnotar": hn(&s.voted_notar), "bad": s.bad_window,
                "notarized": hn(&s.block_notarized),
                "pready": s.parents_ready.iter().map(|b| self.world.block_json(b)).collect::<Vec<_>>(),
                "shred": s.received_shred, "pending": pending, "retired": s.retired});
        }
        json!({"hfc": votor.verif_highest_final_cert_slot().inner(), "slots": slots})
    }

    fn diff_out(&mut self, _act: &Value, exp: &Value, got: &Value) -> Vec<String> {
        let mut d = Vec::new();
        if !got["panic"].as_str().unwrap_or("").is_empty() {
            d.push("panic".into());
            return d;
        }
        // every vote must carry the node's own index
        let own = self.own as u64;
        let mut gm = Vec::new();
        for m in got["msgs"].as_array().unwrap() {
            let mut m = m.clone();
            if m["t"] == "vote" {
                if m["signer"].as_u64() != Some(own) {
                    d.push("msgs.signer".into());
                }
                m.as_object_mut().unwrap().remove("signer");
            }
            gm.push(m);
        }
        // timers: the windows for which timeouts were (re-)armed in this step
        if exp.get("arm").is_some() && canon(&exp["arm"]) != canon(&got["arm"]) {
            d.push("arm".into());
        }
        if canon(&exp["msgs"]) != canon(&Value::Array(gm)) {
            let kinds: Vec<String> = exp["msgs"]
                .as_array()
                .unwrap()
                .iter()
                .chain(got["msgs"].as_array().unwrap().iter())
                .map(|m| m["k"].as_str().unwrap_or("cert").to_string())
                .collect::<std::collections::BTreeSet<_>>()
                .into_iter()
                .collect();
            d.push(format!("msgs[{}]", kinds.join("+")));
        }
        d
    }

    fn diff_obs(&self, exp: &Value, got: &Value) -> Vec<String> {
        let mut d = Vec::new();
        if exp["hfc"] != got["hfc"] {
            d.push("hfc".into());
        }
        let es = exp["slots"].as_array().unwrap();
        let gs = got["slots"].as_array().unwrap();
        for (i, (e, g)) in es.iter().zip(gs.iter()).enumerate() {
            for k in ["voted", "vnotar", "bad", "notarized", "shred", "retired"] {
                if e[k] != g[k] {
                    d.push(format!("slot.{k}"));
                    let _ = i;
                }
            }
            if canon(&e["pready"]) != canon(&g["pready"]) {
                d.push("slot.pready".into());
            }
            if canon(&e["pending"]) != canon(&g["pending"]) {
                d.push("slot.pending".into());
            }
        }
        d.sort();
        d.dedup();
        d
    }

    fn act_label(&self, act: &Value) -> String {
        match act["op"].as_str().unwrap_or("?") {
            "timeout" => format!("timeout:{}", act["k"].as_str().unwrap_or("?")),
            o => format!("{o}:{}", act["e"]["t"].as_str().unwrap_or("?")),
        }
    }
}

/// Arms the real Votor for the window of every case (a ParentReady event for its first slot), advances the
/// paused clock in 1 ms steps and compares the instants at which the real timeouts fire with the schedule
/// of spec/VotorTimers.tla.
pub fn replay_timers(path: &str, stakes: &[u64], seed: u64) -> anyhow::Result<Value> {
    let cases = crate::cases::load_tagged(path, "CASE")?;
    let mut rep = crate::cases::CaseReport::default();
    for case in &cases {
        let s = case["s"].as_u64().unwrap();
        let want: Vec<(u64, u64, bool)> = case["schedule"]
            .as_array()
            .unwrap()
            .iter()
            .map(|e| (e["at"].as_u64().unwrap(), e["s"].as_u64().unwrap(), e["k"] == "crashed"))
            .collect();
        rep.case(&format!("window:{}", s / 4), case.to_string(), case);
        let mut d = VotorDriver::new(stakes, 0, s + 7, seed);
        d.reset();
        let horizon = want.iter().map(|w| w.0).max().unwrap_or(0) + 1000;
        let ev = PoolEvent::ParentReady { slot: Slot::new(s), parent: d.world.block(&json!([0, "G"])) };
        let mut votor = d.votor.take().expect("votor");
        let got: Vec<(u64, u64, bool)> = d.rt.block_on(async {
            // the timers armed by Votor::new for window 0 belong to another window: let them pass first
            // (a spawned timer task computes its deadlines when it is first polled: let it start, then pass time)
            for _ in 0..8 {
                tokio::task::yield_now().await;
            }
            for _ in 0..40 {
                tokio::time::advance(std::time::Duration::from_millis(250)).await;
                for _ in 0..4 {
                    tokio::task::yield_now().await;
                }
            }
            let _ = votor.verif_fired_timeouts();
            let _ = votor.verif_take_armed();
            let t0 = tokio::time::Instant::now();
            votor.verif_pool_event(ev).await;
            for _ in 0..8 {
                tokio::task::yield_now().await;
            }
            let mut got = Vec::new();
            for _ in 0..horizon {
                tokio::time::advance(std::time::Duration::from_millis(1)).await;
                for _ in 0..4 {
                    tokio::task::yield_now().await;
                }
                let now = t0.elapsed().as_millis() as u64;
                for (slot, crashed) in votor.verif_fired_timeouts() {
                    got.push((now, slot.inner(), crashed));
                }
            }
            got
        });
        if got != want {
            let fp = if got.len() != want.len() { "timers:count" } else { "timers:instants" };
            rep.diverge(fp, &[fp], case, json!({"schedule": want}), json!({"fired": got}));
        }
    }
    Ok(rep.to_json())
}
