//! Replay driver for MC_Node.tla: a real `PoolImpl` and a real `Votor` wired as in consensus.rs
//! (FIFO pool->Votor event queue, FIFO blockstore->Votor queue, own votes looped back through
//! the network with arbitrary delay), orchestrating the pool and votor drivers.

use std::collections::VecDeque;

use serde_json::{Value, json};

use crate::graph::Driver;
use crate::pool_driver::PoolDriver;
use crate::votor_driver::VotorDriver;

pub struct NodeDriver {
    pool: PoolDriver,
    votor: VotorDriver,
    own: usize,
    /// (number of the pool call that emitted it, event)
    chan: VecDeque<(u64, Value)>,
    bchan: VecDeque<Value>,
    calls: u64,
}

impl NodeDriver {
    pub fn new(stakes: &[u64], own: usize, max_slot: u64, seed: u64) -> Self {
        Self {
            pool: PoolDriver::new(stakes, own, max_slot, seed),
            votor: VotorDriver::new(stakes, own, max_slot, seed),
            own,
            chan: VecDeque::new(),
            bchan: VecDeque::new(),
            calls: 0,
        }
    }

    /// real pool events (JSON of the pool driver) -> the event format of the votor driver
    fn enqueue_pool_events(&mut self, got: &Value) {
        self.calls += 1;
        for e in got["ev"].as_array().cloned().unwrap_or_default() {
            let v = match e["t"].as_str().unwrap_or("") {
                "ParentReady" => json!({"t": "ParentReady", "s": e["s"], "p": e["b"]}),
                "SafeToNotar" => json!({"t": "SafeToNotar", "b": e["b"]}),
                "SafeToSkip" => json!({"t": "SafeToSkip", "s": e["s"]}),
                "Cert" => json!({"t": "Cert", "c": e["c"]}),
                _ => continue,
            };
            self.chan.push_back((self.calls, v));
        }
    }
}

impl Driver for NodeDriver {
    fn reset(&mut self) {
        self.pool.reset();
        self.votor.reset();
        self.chan.clear();
        self.bchan.clear();
    }

    fn step(&mut self, act: &Value) -> Value {
        let op = act["op"].as_str().unwrap_or("");
        let none_pool = json!({"ret": "", "ev": [], "rep": [], "woken": [], "panic": ""});
        let none_votor = json!({"msgs": [], "arm": [], "panic": ""});
        match op {
            "pvote" | "own" => {
                let got = self.pool.step(&json!({"op": "vote", "vt": act["vt"]}));
                self.enqueue_pool_events(&got);
                json!({"pool": got, "votor": none_votor, "panic": got["panic"]})
            }
            "pcert" => {
                let got = self.pool.step(&json!({"op": "cert", "c": act["c"]}));
                self.enqueue_pool_events(&got);
                json!({"pool": got, "votor": none_votor, "panic": got["panic"]})
            }
            "block" => {
                // the blockstore sends the Block event before the pool registers the block
                self.bchan.push_back(json!({"t": "Block", "s": act["b"][0], "h": act["b"][1], "par": act["par"]}));
                let got = self.pool.step(&json!({"op": "block", "b": act["b"], "par": act["par"]}));
                self.enqueue_pool_events(&got);
                json!({"pool": got, "votor": none_votor, "panic": got["panic"]})
            }
            "shred" => {
                self.bchan.push_back(json!({"t": "FirstShred", "s": act["s"]}));
                json!({"pool": none_pool, "votor": none_votor, "panic": ""})
            }
            "vpool" | "vbs" => {
                let head = if op == "vpool" {
                    // FIFO between pool calls; the order of the events ONE call emits is not a contract (the pool
                    // replay compares them as a multiset), so the spec's next event may be any event of the batch
                    // at the head of the real queue
                    let batch = self.chan.front().map(|x| x.0);
                    let pos = self
                        .chan
                        .iter()
                        .take_while(|x| Some(x.0) == batch)
                        .position(|x| x.1 == act["e"])
                        .unwrap_or(0);
                    self.chan.remove(pos).map(|x| x.1)
                } else {
                    self.bchan.pop_front()
                };
                let Some(head) = head else {
                    return json!({"pool": none_pool, "votor": none_votor, "panic": "harness: empty queue"});
                };
                let vop = if op == "vpool" { "pool" } else { "bs" };
                let got = self.votor.step(&json!({"op": vop, "e": head}));
                json!({"pool": none_pool, "votor": got, "popped": head, "panic": got["panic"]})
            }
            "timeout" => {
                let got = self.votor.step(&json!({"op": "timeout", "k": act["k"], "s": act["s"]}));
                json!({"pool": none_pool, "votor": got, "panic": got["panic"]})
            }
            _ => json!({"pool": none_pool, "votor": none_votor, "panic": format!("harness: unknown op {op}")}),
        }
    }

    fn obs(&mut self) -> Value {
        json!({"pool": self.pool.obs(), "votor": self.votor.obs()})
    }

    fn diff_out(&mut self, act: &Value, exp: &Value, got: &Value) -> Vec<String> {
        let mut d = Vec::new();
        let op = act["op"].as_str().unwrap_or("");
        match op {
            "pvote" | "own" | "pcert" | "block" => {
                let pact = match op {
                    "pcert" => json!({"op": "cert", "c": act["c"]}),
                    "block" => json!({"op": "block"}),
                    _ => json!({"op": "vote", "vt": act["vt"]}),
                };
                for f in self.pool.diff_out(&pact, &exp["pool"], &got["pool"]) {
                    d.push(format!("pool.{f}"));
                }
            }
            "vpool" | "vbs" | "timeout" => {
                // FIFO: the event the real queue delivered is the one the spec's channel delivers
                if op != "timeout" && got["popped"] != act["e"] {
                    d.push("queue.order".to_string());
                }
                let vact = json!({"op": "x"});
                for f in self.votor.diff_out(&vact, &exp["votor"], &got["votor"]) {
                    d.push(format!("votor.{f}"));
                }
            }
            _ => {}
        }
        d
    }

    fn diff_obs(&self, exp: &Value, got: &Value) -> Vec<String> {
        let mut d: Vec<String> = self
            .pool
            .diff_obs(&exp["pool"], &got["pool"])
            .into_iter()
            .map(|f| format!("pool.{f}"))
            .collect();
        d.extend(self.votor.diff_obs(&exp["votor"], &got["votor"]).into_iter().map(|f| format!("votor.{f}")));
        d
    }

    fn act_label(&self, act: &Value) -> String {
        let op = act["op"].as_str().unwrap_or("?");
        match op {
            "pvote" | "own" => format!("{op}:{}", act["vt"]["k"].as_str().unwrap_or("?")),
            "pcert" => format!("pcert:{}", act["c"]["k"].as_str().unwrap_or("?")),
            "vpool" | "vbs" => format!("{op}:{}", act["e"]["t"].as_str().unwrap_or("?")),
            "timeout" => format!("timeout:{}", act["k"].as_str().unwrap_or("?")),
            o => o.to_string(),
        }
    }
}
