//! C16: records real dissemination runs of Rotor (both constructors), Turbine (several fanouts)
//! and the trivial disseminator on a recording in-memory `Network`, as NDJSON traces that TLC
//! validates against `Trace_Dissemination.tla`.
//!
//! Nothing is judged here: the driver only constructs independent instances, calls
//! `Disseminator::send` / `forward`, maps destination addresses back to validator indices and
//! writes down what happened (a panic is an event, too).
//!
//! Events (one JSON object per line):
//!   {"op":"cfg","id","kind","n","f","stakes"}          new epoch / protocol configuration
//!   {"op":"begin","run"} / {"op":"end","run"}          one fault-free dissemination run
//!   {"op":"call","mode":"net"|"probe","call":"send"|"forward","node","inst","slot","slice",
//!    "shred","from","dests":[..]}                      one API call and the network sends it made
//!   {"op":"endcfg"}
//!   {"op":"note", ..}                                  history of an instance (ignored by the spec)
//!   {"op":"panic","what","node","inst","msg"}

use std::collections::HashMap;
use std::io::Write;
use std::net::SocketAddr;
use std::panic::{AssertUnwindSafe, catch_unwind};
use std::sync::{Arc, Mutex};

use alpenglow::consensus::{EpochInfo, ValidatorEpochInfo};
use alpenglow::crypto::{aggsig, signature};
use alpenglow::disseminator::rotor::sampling_strategy::PartitionSampler;
use alpenglow::disseminator::rotor::{
    FaitAccompli1Sampler, IidQuorumSampler, SamplingStrategy, StakeWeightedSampler,
};
use alpenglow::disseminator::{Disseminator, Rotor, TrivialDisseminator, Turbine};
use alpenglow::network::{Network, localhost_ip_sockaddr};
use alpenglow::shredder::{Shred, TOTAL_SHREDS, ValidatedShred};
use alpenglow::test_utils::create_random_shredded_block;
use alpenglow::types::Slot;
use alpenglow::{Stake, ValidatorIndex, ValidatorInfo};
use rand::prelude::*;
use rand::rngs::StdRng;
use serde_json::{Value, json};

const BASE_PORT: u16 = 2000;

type ShredId = (u64, usize, usize);

/// Recording network: every send is appended to a log, nothing is ever received.
#[derive(Clone)]
struct RecNet {
    log: Arc<Mutex<Vec<(SocketAddr, Vec<u8>)>>>,
}

impl RecNet {
    fn new() -> Self {
        Self {
            log: Arc::new(Mutex::new(Vec::new())),
        }
    }
    fn drain(&self) -> Vec<(SocketAddr, Vec<u8>)> {
        std::mem::take(&mut *self.log.lock().unwrap())
    }
}

impl Network for RecNet {
    type Send = Shred;
    type Recv = Shred;

    async fn send(&self, message: &Shred, addr: SocketAddr) -> std::io::Result<()> {
        let bytes = wincode::serialize(message).expect("serialize shred");
        self.log.lock().unwrap().push((addr, bytes));
        Ok(())
    }

    async fn send_to_many(
        &self,
        message: &Shred,
        addrs: impl IntoIterator<Item = SocketAddr> + Send,
    ) -> std::io::Result<()> {
        let bytes = wincode::serialize(message).expect("serialize shred");
        let addrs: Vec<SocketAddr> = addrs.into_iter().collect();
        let mut log = self.log.lock().unwrap();
        for a in addrs {
            log.push((a, bytes.clone()));
        }
        Ok(())
    }

    async fn receive(&self) -> std::io::Result<Shred> {
        std::future::pending().await
    }
}

enum Dis {
    Rotor(Rotor<RecNet, IidQuorumSampler<StakeWeightedSampler>>),
    Fa1(Rotor<RecNet, FaitAccompli1Sampler<PartitionSampler>>),
    Turbine(Turbine<RecNet>),
    Trivial(TrivialDisseminator<RecNet>),
}

struct Inst {
    net: RecNet,
    dis: Dis,
}

impl Inst {
    fn call(&self, call: &str, shred: &Shred) -> Result<(), String> {
        let r = catch_unwind(AssertUnwindSafe(|| {
            futures::executor::block_on(async {
                match (&self.dis, call) {
                    (Dis::Rotor(d), "send") => d.send(shred).await,
                    (Dis::Rotor(d), _) => d.forward(shred).await,
                    (Dis::Fa1(d), "send") => d.send(shred).await,
                    (Dis::Fa1(d), _) => d.forward(shred).await,
                    (Dis::Turbine(d), "send") => d.send(shred).await,
                    (Dis::Turbine(d), _) => d.forward(shred).await,
                    (Dis::Trivial(d), "send") => d.send(shred).await,
                    (Dis::Trivial(d), _) => d.forward(shred).await,
                }
            })
        }));
        match r {
            Ok(Ok(())) => Ok(()),
            Ok(Err(e)) => Err(format!("io error: {e}")),
            Err(p) => Err(panic_msg(&p)),
        }
    }
}

fn panic_msg(p: &Box<dyn std::any::Any + Send>) -> String {
    if let Some(s) = p.downcast_ref::<&str>() {
        (*s).to_string()
    } else if let Some(s) = p.downcast_ref::<String>() {
        s.clone()
    } else {
        "panic".to_string()
    }
}

struct Epoch {
    n: usize,
    stakes: Vec<u64>,
    validators: Vec<ValidatorInfo>,
    epoch: EpochInfo,
    sk: signature::SecretKey,
}

impl Epoch {
    fn new(stakes: &[u64], rng: &mut StdRng) -> Self {
        let mut validators = Vec::new();
        let sk = signature::SecretKey::new(rng);
        // the keys play no role in routing; one key pair is shared to keep set-up cheap
        let vsk = aggsig::SecretKey::new(rng);
        for (i, st) in stakes.iter().enumerate() {
            validators.push(ValidatorInfo {
                id: ValidatorIndex::new(i as u64),
                stake: Stake::new(*st),
                pubkey: sk.to_pk(),
                voting_pubkey: vsk.to_pk(),
                all2all_address: localhost_ip_sockaddr(1),
                disseminator_address: localhost_ip_sockaddr(BASE_PORT + i as u16),
                repair_requester_address: localhost_ip_sockaddr(2),
                repair_responder_address: localhost_ip_sockaddr(3),
            });
        }
        let epoch = EpochInfo::new(validators.clone());
        Self {
            n: stakes.len(),
            stakes: stakes.to_vec(),
            validators,
            epoch,
            sk,
        }
    }

    fn addr_to_index(&self, a: &SocketAddr) -> i64 {
        let p = a.port();
        if a.ip() == localhost_ip_sockaddr(0).ip() && p >= BASE_PORT && ((p - BASE_PORT) as usize) < self.n {
            (p - BASE_PORT) as i64
        } else {
            -1
        }
    }

    /// Constructs one independent disseminator instance for validator `v`.
    fn construct(&self, kind: &str, fanout: usize, v: usize) -> Result<Inst, String> {
        let net = RecNet::new();
        let n2 = net.clone();
        // every instance gets its own copy of the epoch information, as separate processes would
        let vei = Arc::new(ValidatorEpochInfo::new(
            ValidatorIndex::new(v as u64),
            EpochInfo::new(self.validators.clone()),
        ));
        let validators = self.validators.clone();
        let r = catch_unwind(AssertUnwindSafe(move || match kind {
            "rotor" => Dis::Rotor(Rotor::new(n2, vei)),
            "rotor_fa1" => Dis::Fa1(Rotor::new_fa1(n2, vei)),
            "turbine" => Dis::Turbine(Turbine::new(n2, vei).with_fanout(fanout)),
            _ => Dis::Trivial(TrivialDisseminator::new(validators, n2)),
        }));
        match r {
            Ok(dis) => Ok(Inst { net, dis }),
            Err(p) => Err(panic_msg(&p)),
        }
    }
}

impl Epoch {
    /// The validator set with a different stake distribution (the least-staked validator dominates):
    /// what a sampler looked like before a reconfiguration.
    fn decoy_validators(&self) -> Vec<ValidatorInfo> {
        let total: u64 = self.stakes.iter().sum();
        let least = (0..self.n)
            .filter(|i| self.stakes[*i] > 0)
            .min_by_key(|i| (self.stakes[*i], *i))
            .unwrap_or(0);
        let mut v = self.validators.clone();
        v[least].stake = Stake::new(total.max(1) * 1000);
        v
    }

    /// An instance with a HISTORY: built with an outdated configuration (Rotor: a sampler over
    /// outdated stakes, Turbine: another fanout), used to route the shreds `warm` (which fills its
    /// caches), and then switched - `Rotor::with_sampler` / `Turbine::with_fanout` - to the
    /// configuration all other copies are constructed with.  From then on it is just another
    /// instance of validator `v` and has to agree with everybody else.
    fn construct_switched(&self, kind: &str, fanout: usize, v: usize, warm: &[&Shred]) -> Result<Inst, String> {
        let net = RecNet::new();
        let n2 = net.clone();
        let vei = Arc::new(ValidatorEpochInfo::new(
            ValidatorIndex::new(v as u64),
            EpochInfo::new(self.validators.clone()),
        ));
        let validators = self.validators.clone();
        let decoy = self.decoy_validators();
        let r = catch_unwind(AssertUnwindSafe(move || {
            let warm_up = |d: &Dis| {
                futures::executor::block_on(async {
                    for s in warm {
                        match d {
                            Dis::Rotor(x) => {
                                let _ = x.send(s).await;
                                let _ = x.forward(s).await;
                            }
                            Dis::Fa1(x) => {
                                let _ = x.send(s).await;
                                let _ = x.forward(s).await;
                            }
                            Dis::Turbine(x) => {
                                let _ = x.send(s).await;
                                let _ = x.forward(s).await;
                            }
                            Dis::Trivial(_) => {}
                        }
                    }
                });
            };
            match kind {
                "rotor" => {
                    let old = StakeWeightedSampler::new(decoy).into_quorum_strategy(TOTAL_SHREDS);
                    let d = Dis::Rotor(Rotor::new(n2, vei).with_sampler(old));
                    warm_up(&d);
                    let Dis::Rotor(r) = d else { unreachable!() };
                    // the sampler `Rotor::new` uses
                    Dis::Rotor(r.with_sampler(StakeWeightedSampler::new(validators).into_quorum_strategy(TOTAL_SHREDS)))
                }
                "rotor_fa1" => {
                    let old = FaitAccompli1Sampler::new_with_partition_fallback(decoy, TOTAL_SHREDS as u64);
                    let d = Dis::Fa1(Rotor::new_fa1(n2, vei).with_sampler(old));
                    warm_up(&d);
                    let Dis::Fa1(r) = d else { unreachable!() };
                    // the sampler `Rotor::new_fa1` uses
                    Dis::Fa1(r.with_sampler(FaitAccompli1Sampler::new_with_partition_fallback(
                        validators,
                        TOTAL_SHREDS as u64,
                    )))
                }
                _ => {
                    let other = if fanout == 1 { 2 } else { 1 };
                    let d = Dis::Turbine(Turbine::new(n2, vei).with_fanout(other));
                    warm_up(&d);
                    let Dis::Turbine(t) = d else { unreachable!() };
                    Dis::Turbine(t.with_fanout(fanout))
                }
            }
        }));
        net.drain();
        match r {
            Ok(dis) => Ok(Inst { net, dis }),
            Err(p) => Err(panic_msg(&p)),
        }
    }
}

struct Block {
    slot: u64,
    /// (slice, shred index) -> shred
    shreds: Vec<Vec<ValidatedShred>>,
}

struct Recorder {
    out: std::io::BufWriter<std::fs::File>,
    events: u64,
    calls: u64,
    probes: u64,
    panics: u64,
    cfgs: u64,
    runs: u64,
    switched: u64,
    sample: Vec<Value>,
}

impl Recorder {
    fn emit(&mut self, v: Value) {
        if self.sample.len() < 3 && v["op"] == "call" && v["dests"].as_array().is_some_and(|d| !d.is_empty()) {
            self.sample.push(v.clone());
        }
        writeln!(self.out, "{}", v).unwrap();
        self.events += 1;
    }
}

const COPIES: usize = 3;

struct Scenario<'a> {
    ep: &'a Epoch,
    /// instances[copy][validator]
    inst: Vec<Vec<Option<Inst>>>,
    ids: HashMap<Vec<u8>, ShredId>,
}

impl<'a> Scenario<'a> {
    /// Executes one API call on instance (`copy`, `node`) and records it.
    /// Returns the destinations (validator indices) of the recorded sends.
    #[allow(clippy::too_many_arguments)]
    fn call(
        &self,
        rec: &mut Recorder,
        mode: &str,
        call: &str,
        node: usize,
        copy: usize,
        from: i64,
        id: ShredId,
        shred: &Shred,
    ) -> Option<Vec<i64>> {
        let Some(inst) = self.inst[copy][node].as_ref() else {
            return None;
        };
        inst.net.drain();
        let res = inst.call(call, shred);
        let sent = inst.net.drain();
        if let Err(msg) = res {
            rec.panics += 1;
            rec.emit(json!({"op": "panic", "what": call, "node": node, "inst": copy,
                            "slot": id.0, "slice": id.1, "shred": id.2, "msg": msg}));
            return None;
        }
        let mut dests = Vec::new();
        let mut foreign = Vec::new();
        for (addr, bytes) in &sent {
            dests.push(self.ep.addr_to_index(addr));
            // the shred put on the wire must be the one handed in
            match self.ids.get(bytes) {
                Some(x) if *x == id => {}
                Some(x) => foreign.push(json!([x.0, x.1, x.2])),
                None => foreign.push(json!("unknown")),
            }
        }
        let mut ev = json!({"op": "call", "mode": mode, "call": call, "node": node, "inst": copy,
                            "slot": id.0, "slice": id.1, "shred": id.2, "from": from, "dests": dests});
        if !foreign.is_empty() {
            ev["foreign"] = json!(foreign);
        }
        rec.emit(ev);
        if mode == "net" {
            rec.calls += 1;
        } else {
            rec.probes += 1;
        }
        Some(dests)
    }

    /// One fault-free run: the leader sends the selected shreds of each block, every receiver
    /// forwards every copy it receives, until nothing is in flight.
    /// `pick(node, rng)` chooses which independently constructed instance of `node` acts.
    fn run(
        &self,
        rec: &mut Recorder,
        run_id: u64,
        blocks: &[(&Block, &Vec<(usize, usize)>)],
        rng: &mut StdRng,
        fifo: bool,
        pick: &mut dyn FnMut(usize, &mut StdRng) -> usize,
    ) {
        rec.runs += 1;
        rec.emit(json!({"op": "begin", "run": run_id}));
        // work list: sends not yet made by the leader, and messages in flight
        let mut to_send: Vec<(usize, usize, usize)> = Vec::new(); // (block, slice, shred)
        for (b, (_, sel)) in blocks.iter().enumerate() {
            for (sl, sh) in sel.iter() {
                to_send.push((b, *sl, *sh));
            }
        }
        if !fifo {
            to_send.shuffle(rng);
        }
        to_send.reverse();
        let mut flight: Vec<(i64, usize, usize, usize, usize)> = Vec::new(); // from, to, block, slice, shred
        let mut guard = 0u64;
        let limit = 3 * (to_send.len() as u64 + 1) * (self.ep.n as u64 + 2);
        let mut aborted = false;
        while !to_send.is_empty() || !flight.is_empty() {
            guard += 1;
            if guard > limit {
                aborted = true;
                break;
            }
            let do_send = if flight.is_empty() {
                true
            } else if to_send.is_empty() {
                false
            } else if fifo {
                false
            } else {
                // keep a few shreds in flight concurrently
                flight.len() < 3 * self.ep.n && rng.random_range(0..3u32) == 0
            };
            if do_send {
                let (b, sl, sh) = to_send.pop().unwrap();
                let blk = blocks[b].0;
                let leader = self.ep.epoch.leader(Slot::new(blk.slot)).id.inner() as usize;
                let copy = pick(leader, rng);
                let shred = blk.shreds[sl][sh].as_shred();
                let Some(dests) = self.call(rec, "net", "send", leader, copy, -1, (blk.slot, sl, sh), shred) else {
                    aborted = true;
                    break;
                };
                for d in dests {
                    if d >= 0 {
                        flight.push((leader as i64, d as usize, b, sl, sh));
                    }
                }
            } else {
                let k = if fifo { 0 } else { rng.random_range(0..flight.len()) };
                let (from, to, b, sl, sh) = if fifo { flight.remove(k) } else { flight.swap_remove(k) };
                let blk = blocks[b].0;
                let copy = pick(to, rng);
                let shred = blk.shreds[sl][sh].as_shred();
                let Some(dests) = self.call(rec, "net", "forward", to, copy, from, (blk.slot, sl, sh), shred) else {
                    aborted = true;
                    break;
                };
                for d in dests {
                    if d >= 0 {
                        flight.push((to as i64, d as usize, b, sl, sh));
                    }
                }
            }
        }
        if aborted {
            rec.emit(json!({"op": "abort", "run": run_id, "in_flight": flight.len(), "unsent": to_send.len()}));
        } else {
            rec.emit(json!({"op": "end", "run": run_id}));
        }
    }
}

fn select_shreds(num_slices: usize, per_slice: usize, rng: &mut StdRng) -> Vec<(usize, usize)> {
    let mut out = Vec::new();
    for sl in 0..num_slices {
        if per_slice >= TOTAL_SHREDS {
            out.extend((0..TOTAL_SHREDS).map(|i| (sl, i)));
            continue;
        }
        let mut idx: Vec<usize> = vec![0, TOTAL_SHREDS / 2 - 1, TOTAL_SHREDS / 2, TOTAL_SHREDS - 1];
        let mut rest: Vec<usize> = (0..TOTAL_SHREDS).filter(|i| !idx.contains(i)).collect();
        rest.shuffle(rng);
        idx.extend(rest.into_iter().take(per_slice.saturating_sub(4)));
        idx.truncate(per_slice.max(1));
        idx.sort_unstable();
        out.extend(idx.into_iter().map(|i| (sl, i)));
    }
    out
}

/// One configuration: an epoch, a protocol kind and a fanout.
#[allow(clippy::too_many_arguments)]
fn scenario(
    rec: &mut Recorder,
    cfg_id: u64,
    ep: &Epoch,
    kind: &str,
    fanout: usize,
    per_slice: usize,
    num_slices: usize,
    rng: &mut StdRng,
) {
    rec.cfgs += 1;
    rec.emit(json!({"op": "cfg", "id": cfg_id, "kind": kind, "n": ep.n, "f": fanout, "stakes": ep.stakes}));
    let n = ep.n;
    // two blocks with (when n > 1) different leaders; slot numbers vary with the seed
    let w = 4u64;
    let slot_a = w * rng.random_range(0..1000u64) + rng.random_range(0..w).max(1);
    let mut slot_b = w * rng.random_range(0..1000u64) + rng.random_range(0..w);
    if slot_b == 0 || slot_b == slot_a {
        slot_b = slot_a + w;
    }
    let mut ids = HashMap::new();
    let mut blocks = Vec::new();
    for slot in [slot_a, slot_b] {
        let (_, _, shreds) = create_random_shredded_block(Slot::new(slot), num_slices, &ep.sk);
        for (sl, v) in shreds.iter().enumerate() {
            for (i, s) in v.iter().enumerate() {
                assert_eq!(s.payload().index_in_slot(), sl * TOTAL_SHREDS + i);
                ids.insert(wincode::serialize(s.as_shred()).expect("serialize"), (slot, sl, i));
            }
        }
        blocks.push(Block { slot, shreds });
    }
    let sel_a = select_shreds(num_slices, per_slice, rng);
    let sel_b = select_shreds(num_slices, (per_slice / 2).max(2), rng);

    let mut sc = Scenario {
        ep,
        inst: (0..COPIES).map(|_| (0..n).map(|_| None).collect()).collect(),
        ids,
    };
    // copies 0 and 1 of every validator are constructed up front, in shuffled order;
    // copy 2 is constructed later (after two runs)
    let mut order: Vec<(usize, usize)> = (0..2).flat_map(|c| (0..n).map(move |v| (c, v))).collect();
    order.shuffle(rng);
    let construct = |sc: &mut Scenario, rec: &mut Recorder, c: usize, v: usize| match ep.construct(kind, fanout, v) {
        Ok(i) => sc.inst[c][v] = Some(i),
        Err(msg) => {
            rec.panics += 1;
            rec.emit(json!({"op": "panic", "what": "construct", "node": v, "inst": c, "msg": msg}));
        }
    };
    for (c, v) in order {
        construct(&mut sc, rec, c, v);
    }
    let usable = |sc: &Scenario, copies: usize| (0..copies).all(|c| sc.inst[c].iter().all(Option::is_some));
    if !usable(&sc, 2) {
        rec.emit(json!({"op": "endcfg"}));
        return;
    }
    let ba = (&blocks[0], &sel_a);
    let bb = (&blocks[1], &sel_b);
    // run 0: everybody uses copy 0, in order, FIFO network
    sc.run(rec, 0, &[ba], rng, true, &mut |_, _| 0);
    // run 1: everybody uses copy 1 (cold caches), shuffled order, random delivery order
    sc.run(rec, 1, &[ba], rng, false, &mut |_, _| 1);
    // later construction
    let mut order: Vec<usize> = (0..n).collect();
    order.shuffle(rng);
    // For a seeded half of the validators (at least one) the late copy is an instance with a history:
    // it routed all shreds of this configuration under an outdated sampler / fanout (warm caches) and
    // was then switched to the current one (`with_sampler` / `with_fanout`).
    let mut switched: Vec<bool> = (0..n).map(|_| kind != "trivial" && rng.random_range(0..2u32) == 0).collect();
    if kind != "trivial" && !switched.iter().any(|x| *x) {
        switched[rng.random_range(0..n)] = true;
    }
    let warm: Vec<&Shred> = [(0usize, &sel_a), (1usize, &sel_b)]
        .into_iter()
        .flat_map(|(b, sel)| sel.iter().map(move |(sl, sh)| (b, *sl, *sh)))
        .map(|(b, sl, sh)| blocks[b].shreds[sl][sh].as_shred())
        .collect();
    for v in order {
        if switched[v] {
            match ep.construct_switched(kind, fanout, v, &warm) {
                Ok(i) => {
                    sc.inst[2][v] = Some(i);
                    rec.switched += 1;
                    rec.emit(json!({"op": "note", "node": v, "inst": 2,
                                    "what": "built with an outdated sampler/fanout, routed all shreds of this configuration, then switched with with_sampler/with_fanout"}));
                }
                Err(msg) => {
                    rec.panics += 1;
                    rec.emit(json!({"op": "panic", "what": "construct-switched", "node": v, "inst": 2, "msg": msg}));
                }
            }
        } else {
            construct(&mut sc, rec, 2, v);
        }
    }
    if !usable(&sc, 3) {
        rec.emit(json!({"op": "endcfg"}));
        return;
    }
    // run 2: a fixed, randomly chosen copy per validator; both blocks interleaved
    let assign: Vec<usize> = (0..n).map(|_| rng.random_range(0..COPIES)).collect();
    sc.run(rec, 2, &[ba, bb], rng, false, &mut |v, _| assign[v]);
    // run 3: a random copy for every single call (warm and cold caches mixed)
    sc.run(rec, 3, &[bb, ba], rng, false, &mut |_, r| r.random_range(0..COPIES));
    // probes: what would each instance do as originator / forwarder of a shred (outputs not delivered);
    // repeated queries hit the caches
    let mut probes: Vec<(usize, usize, usize, usize)> = Vec::new(); // (block, slice, shred, _)
    for (b, sel) in [(0usize, &sel_a), (1usize, &sel_b)] {
        let mut s: Vec<(usize, usize)> = sel.to_vec();
        s.shuffle(rng);
        for (sl, sh) in s.into_iter().take(4) {
            probes.push((b, sl, sh, 0));
        }
    }
    // plus a shred nobody has seen yet
    let fresh: Vec<(usize, usize)> = (0..num_slices)
        .flat_map(|sl| (0..TOTAL_SHREDS).map(move |i| (sl, i)))
        .filter(|x| !sel_b.contains(x))
        .collect();
    if let Some(&(sl, sh)) = fresh.choose(rng) {
        probes.push((1, sl, sh, 0));
    }
    let mut who: Vec<(usize, usize)> = (0..COPIES).flat_map(|c| (0..n).map(move |v| (c, v))).collect();
    for (b, sl, sh, _) in probes {
        who.shuffle(rng);
        let blk = &blocks[b];
        let shred = blk.shreds[sl][sh].as_shred();
        for &(c, v) in &who {
            sc.call(rec, "probe", "send", v, c, -1, (blk.slot, sl, sh), shred);
            sc.call(rec, "probe", "forward", v, c, -1, (blk.slot, sl, sh), shred);
        }
    }
    rec.emit(json!({"op": "endcfg"}));
}

fn stake_vectors(tier: &str, rng: &mut StdRng) -> Vec<Vec<u64>> {
    let mut out: Vec<Vec<u64>> = Vec::new();
    let eq = |n: usize, s: u64| vec![s; n];
    let pareto = |n: usize, rng: &mut StdRng| -> Vec<u64> {
        (0..n)
            .map(|_| {
                let u: f64 = rng.random_range(0.02..1.0);
                ((1000.0 / u.powf(1.3)) as u64).clamp(1000, 400_000)
            })
            .collect()
    };
    let dominant = |n: usize, rng: &mut StdRng| -> Vec<u64> {
        let mut v: Vec<u64> = (0..n).map(|_| rng.random_range(500..1500u64)).collect();
        let k = rng.random_range(0..n);
        v[k] = 1000 * n as u64 / 2;
        v
    };
    out.push(eq(2, 1000));
    out.push(vec![7000, 1000]);
    out.push(eq(3, 1));
    out.push(vec![5000, 1000, 1000, 1000]);
    out.push(eq(5, 1000));
    out.push((0..6).map(|_| rng.random_range(1..=9u64) * 100).collect());
    out.push(eq(8, 500));
    let n1 = rng.random_range(9..=13usize);
    out.push(pareto(n1, rng));
    out.push(dominant(16, rng));
    let n2 = rng.random_range(20..=30usize);
    out.push((0..n2).map(|_| rng.random_range(100..2000u64)).collect());
    out.push(eq(40, 1000));
    out.push(pareto(40, rng));
    // small integer stakes
    let n3 = rng.random_range(4..=9usize);
    out.push((0..n3).map(|_| rng.random_range(1..=20u64)).collect());
    if tier != "quick" {
        // a validator without stake is never a relay / sits at the bottom of every tree
        let mut z: Vec<u64> = (0..9).map(|_| rng.random_range(100..900u64)).collect();
        z[4] = 0;
        out.push(z);
        out.push(eq(7, 3));
        out.push(eq(32, 1000));
        out.push(eq(64, 10));
        out.push(dominant(33, rng));
        for _ in 0..24 {
            let n = rng.random_range(2..=40usize);
            let v = match rng.random_range(0..3u32) {
                0 => pareto(n, rng),
                1 => (0..n).map(|_| rng.random_range(1..=20u64)).collect(),
                _ => dominant(n, rng),
            };
            out.push(v);
        }
        out.push(pareto(60, rng));
    }
    out
}

pub fn run(out_dir: &str, tier: &str, seed: u64) -> anyhow::Result<Value> {
    let mut rng = StdRng::seed_from_u64(seed ^ 0xC16_D155);
    let stakes = stake_vectors(tier, &mut rng);
    let quick = tier == "quick";
    let mut report = Vec::new();
    for kind in ["rotor", "rotor_fa1", "turbine", "trivial"] {
        // the configurations of one kind are spread over `parts` trace files (validated in parallel)
        let parts = match (kind, quick) {
            ("turbine", true) => 2,
            ("turbine", false) => 3,
            _ => 1,
        };
        let mut recs = Vec::new();
        for p in 0..parts {
            let label = if parts == 1 { kind.to_string() } else { format!("{kind}_{p}") };
            let path = format!("{out_dir}/trace_{label}.ndjson");
            recs.push((
                label,
                path.clone(),
                Recorder {
                    out: std::io::BufWriter::new(std::fs::File::create(&path)?),
                    events: 0,
                    calls: 0,
                    probes: 0,
                    panics: 0,
                    cfgs: 0,
                    runs: 0,
                    switched: 0,
                    sample: Vec::new(),
                },
            ));
        }
        let mut cfg_id = 0;
        for (k, st) in stakes.iter().enumerate() {
            let n = st.len();
            if kind == "trivial" && k % 3 != 0 {
                continue;
            }
            let ep = Epoch::new(st, &mut rng);
            // the validation cost per event grows with the number of shreds of a configuration:
            // moderate blocks, many configurations
            let per_slice = if quick {
                if n <= 8 { 24 } else { (320 / n).clamp(6, 24) }
            } else if n <= 8 {
                32
            } else {
                (640 / n).clamp(10, 32)
            };
            let num_slices = 2;
            let fanouts: Vec<usize> = if kind == "turbine" {
                let mut f = vec![1usize, 2, 3, 4, 7, n.saturating_sub(1).max(1), n, 200];
                f.sort_unstable();
                f.dedup();
                let keep = if quick { 2 } else { 4 };
                // always one small fanout (deep tree), the rest seeded
                let small = *[1usize, 2, 3].choose(&mut rng).unwrap();
                f.retain(|x| *x != small);
                f.shuffle(&mut rng);
                f.truncate(keep - 1);
                f.push(small);
                f
            } else {
                vec![0]
            };
            for f in fanouts {
                let rec = &mut recs[cfg_id as usize % parts].2;
                scenario(rec, cfg_id, &ep, kind, f, per_slice, num_slices, &mut rng);
                cfg_id += 1;
            }
        }
        for (label, path, mut rec) in recs {
            rec.out.flush()?;
            report.push(json!({"label": label, "kind": kind, "trace": path, "events": rec.events,
                               "calls": rec.calls, "probes": rec.probes, "panics": rec.panics,
                               "cfgs": rec.cfgs, "runs": rec.runs, "switched_instances": rec.switched,
                               "samples": rec.sample}));
        }
    }
    Ok(json!({"model": "dissem", "traces": report, "copies": COPIES, "stake_vectors": stakes}))
}
