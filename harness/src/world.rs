//! Concretisation of the model's abstract values: validators -> keys, hash names -> hashes,
//! abstract votes / certificates -> really signed ones (cached).

use std::collections::HashMap;
use std::sync::Arc;

use alpenglow::consensus::{
    Cert, EpochInfo, FastFinalCert, FinalCert, FinalVote, NotarCert, NotarFallbackCert,
    NotarFallbackVote, NotarVote, SkipCert, SkipFallbackVote, SkipVote, ValidatedCert,
    ValidatedVote, ValidatorEpochInfo, Vote,
};
use alpenglow::crypto::merkle::{BlockHash, GENESIS_BLOCK_HASH};
use alpenglow::crypto::{aggsig, signature};
use alpenglow::network::localhost_ip_sockaddr;
use alpenglow::types::Slot;
use alpenglow::{BlockId, Stake, ValidatorIndex, ValidatorInfo};
use rand::SeedableRng;
use rand::rngs::StdRng;
use serde_json::{Value, json};

pub struct World {
    pub n: usize,
    pub stakes: Vec<u64>,
    pub voting_sks: Vec<aggsig::SecretKey>,
    pub sks: Vec<signature::SecretKey>,
    pub epoch: EpochInfo,
    hash_by_name: HashMap<String, BlockHash>,
    name_by_hash: HashMap<Vec<u8>, String>,
    vote_cache: HashMap<String, ValidatedVote>,
    cert_cache: HashMap<String, ValidatedCert>,
    verdict_cache: HashMap<Vec<u8>, bool>,
    validated_cache: HashMap<Vec<u8>, Option<ValidatedCert>>,
}

pub fn hash_bytes(h: &BlockHash) -> Vec<u8> {
    use alpenglow::crypto::merkle::MerkleRoot;
    let r: &[u8] = h.as_hash().as_ref();
    r.to_vec()
}

impl World {
    pub fn new(stakes: &[u64], seed: u64) -> Self {
        let mut rng = StdRng::seed_from_u64(seed ^ 0xA1FE_6107);
        let n = stakes.len();
        let mut sks = Vec::new();
        let mut voting_sks = Vec::new();
        let mut validators = Vec::new();
        for (i, st) in stakes.iter().enumerate() {
            sks.push(signature::SecretKey::new(&mut rng));
            voting_sks.push(aggsig::SecretKey::new(&mut rng));
            validators.push(ValidatorInfo {
                id: ValidatorIndex::new(i as u64),
                stake: Stake::new(*st),
                pubkey: sks[i].to_pk(),
                voting_pubkey: voting_sks[i].to_pk(),
                all2all_address: localhost_ip_sockaddr(0),
                disseminator_address: localhost_ip_sockaddr(0),
                repair_requester_address: localhost_ip_sockaddr(0),
                repair_responder_address: localhost_ip_sockaddr(0),
            });
        }
        let epoch = EpochInfo::new(validators);
        let mut w = Self {
            n,
            stakes: stakes.to_vec(),
            voting_sks,
            sks,
            epoch,
            hash_by_name: HashMap::new(),
            name_by_hash: HashMap::new(),
            vote_cache: HashMap::new(),
            cert_cache: HashMap::new(),
            verdict_cache: HashMap::new(),
            validated_cache: HashMap::new(),
        };
        w.hash_by_name
            .insert("G".to_string(), GENESIS_BLOCK_HASH);
        w.name_by_hash
            .insert(hash_bytes(&GENESIS_BLOCK_HASH), "G".to_string());
        w
    }

    pub fn validator_epoch(&self, own: usize) -> Arc<ValidatorEpochInfo> {
        Arc::new(ValidatorEpochInfo::new(
            ValidatorIndex::new(own as u64),
            self.epoch.clone(),
        ))
    }

    pub fn hash(&mut self, name: &str) -> BlockHash {
        if let Some(h) = self.hash_by_name.get(name) {
            return h.clone();
        }
        let h: BlockHash = alpenglow::crypto::hash::hash(format!("verif-block-{name}").as_bytes()).into();
        self.hash_by_name.insert(name.to_string(), h.clone());
        self.name_by_hash.insert(hash_bytes(&h), name.to_string());
        h
    }

    pub fn hash_name(&self, h: &BlockHash) -> String {
        let b = hash_bytes(h);
        self.name_by_hash
            .get(&b)
            .cloned()
            .unwrap_or_else(|| b.iter().take(6).map(|x| format!("{x:02x}")).collect())
    }

    pub fn block(&mut self, v: &Value) -> BlockId {
        let s = v[0].as_u64().expect("block slot");
        let h = v[1].as_str().expect("block hash").to_string();
        (Slot::new(s), self.hash(&h))
    }

    pub fn block_json(&self, b: &BlockId) -> Value {
        json!([b.0.inner(), self.hash_name(&b.1)])
    }

    pub fn raw_vote(&mut self, k: &str, s: u64, h: &str, v: usize) -> Vote {
        let slot = Slot::new(s);
        let idx = ValidatorIndex::new(v as u64);
        let sk = self.voting_sks[v].clone();
        match k {
            "notar" => Vote::new_notar(slot, self.hash(h), &sk, idx),
            "nf" => Vote::new_notar_fallback(slot, self.hash(h), &sk, idx),
            "skip" => Vote::new_skip(slot, &sk, idx),
            "sf" => Vote::new_skip_fallback(slot, &sk, idx),
            "final" => Vote::new_final(slot, &sk, idx),
            _ => panic!("unknown vote kind {k}"),
        }
    }

    /// `{k, s, h, v}` -> validated, really signed vote
    pub fn vote(&mut self, vt: &Value) -> ValidatedVote {
        let key = vt.to_string();
        if let Some(v) = self.vote_cache.get(&key) {
            return v.clone();
        }
        let vote = self.raw_vote(
            vt["k"].as_str().unwrap(),
            vt["s"].as_u64().unwrap(),
            vt["h"].as_str().unwrap(),
            vt["v"].as_u64().unwrap() as usize,
        );
        let vv = ValidatedVote::try_new(vote, &self.epoch).expect("harness vote must validate");
        self.vote_cache.insert(key, vv.clone());
        vv
    }

    pub fn vote_json(&self, v: &Vote) -> Value {
        let (k, h) = match v {
            Vote::Notar(x) => ("notar", self.hash_name(x.block_hash())),
            Vote::NotarFallback(x) => ("nf", self.hash_name(x.block_hash())),
            Vote::Skip(_) => ("skip", "-".to_string()),
            Vote::SkipFallback(_) => ("sf", "-".to_string()),
            Vote::Final(_) => ("final", "-".to_string()),
        };
        json!({"k": k, "s": v.slot().inner(), "h": h, "v": v.signer().inner()})
    }

    /// Builds the certificate `{k,s,h}` signed by `sa` (first half) and `sb` (second half).
    pub fn build_cert(&mut self, k: &str, s: u64, h: &str, sa: &[usize], sb: &[usize]) -> Cert {
        let slot = Slot::new(s);
        let vals = self.epoch.validators().to_vec();
        let sk = |w: &Self, v: usize| w.voting_sks[v].clone();
        match k {
            "notar" | "ff" => {
                let hash = self.hash(h);
                let votes: Vec<NotarVote> = sa
                    .iter()
                    .map(|&v| {
                        NotarVote::new(slot, hash.clone(), &sk(self, v), ValidatorIndex::new(v as u64))
                    })
                    .collect();
                if k == "notar" {
                    Cert::Notar(NotarCert::new(&votes, &vals))
                } else {
                    Cert::FastFinal(FastFinalCert::new(&votes, &vals))
                }
            }
            "nf" => {
                let hash = self.hash(h);
                let a: Vec<NotarVote> = sa
                    .iter()
                    .map(|&v| {
                        NotarVote::new(slot, hash.clone(), &sk(self, v), ValidatorIndex::new(v as u64))
                    })
                    .collect();
                let b: Vec<NotarFallbackVote> = sb
                    .iter()
                    .map(|&v| {
                        NotarFallbackVote::new(
                            slot,
                            hash.clone(),
                            &sk(self, v),
                            ValidatorIndex::new(v as u64),
                        )
                    })
                    .collect();
                Cert::NotarFallback(NotarFallbackCert::new(&a, &b, &vals))
            }
            "skip" => {
                let a: Vec<SkipVote> = sa
                    .iter()
                    .map(|&v| SkipVote::new(slot, &sk(self, v), ValidatorIndex::new(v as u64)))
                    .collect();
                let b: Vec<SkipFallbackVote> = sb
                    .iter()
                    .map(|&v| SkipFallbackVote::new(slot, &sk(self, v), ValidatorIndex::new(v as u64)))
                    .collect();
                Cert::Skip(SkipCert::new(&a, &b, &vals))
            }
            "final" => {
                let a: Vec<FinalVote> = sa
                    .iter()
                    .map(|&v| FinalVote::new(slot, &sk(self, v), ValidatorIndex::new(v as u64)))
                    .collect();
                Cert::Final(FinalCert::new(&a, &vals))
            }
            _ => panic!("unknown cert kind {k}"),
        }
    }

    /// `{k, s, h}` -> a validated certificate signed by all validators (first half)
    pub fn cert(&mut self, c: &Value) -> ValidatedCert {
        let key = c.to_string();
        if let Some(v) = self.cert_cache.get(&key) {
            return v.clone();
        }
        let all: Vec<usize> = (0..self.n).collect();
        let cert = self.build_cert(
            c["k"].as_str().unwrap(),
            c["s"].as_u64().unwrap(),
            c["h"].as_str().unwrap(),
            &all,
            &[],
        );
        let vc = ValidatedCert::try_new(cert, &self.epoch).expect("harness cert must validate");
        self.cert_cache.insert(key, vc.clone());
        vc
    }

    pub fn cert_id_json(&self, c: &Cert) -> Value {
        let k = match c {
            Cert::Notar(_) => "notar",
            Cert::NotarFallback(_) => "nf",
            Cert::Skip(_) => "skip",
            Cert::FastFinal(_) => "ff",
            Cert::Final(_) => "final",
        };
        let h = c
            .block_hash()
            .map_or_else(|| "-".to_string(), |h| self.hash_name(h));
        json!({"k": k, "s": c.slot().inner(), "h": h})
    }

    pub fn cert_bytes(c: &Cert) -> Vec<u8> {
        wincode::serialize(c).expect("serialize cert")
    }

    /// Does `ValidatedCert::try_new` accept this certificate? (cached by encoding)
    pub fn cert_valid(&mut self, c: &Cert) -> bool {
        let bytes = Self::cert_bytes(c);
        if let Some(v) = self.verdict_cache.get(&bytes) {
            return *v;
        }
        let ok = ValidatedCert::try_new(c.clone(), &self.epoch).is_ok();
        self.verdict_cache.insert(bytes, ok);
        ok
    }

    /// `ValidatedCert::try_new` as a receiver would run it (cached by encoding)
    pub fn validate_cert(&mut self, c: &Cert) -> Option<ValidatedCert> {
        let bytes = Self::cert_bytes(c);
        if let Some(v) = self.validated_cache.get(&bytes) {
            return v.clone();
        }
        let r = ValidatedCert::try_new(c.clone(), &self.epoch).ok();
        self.validated_cache.insert(bytes, r.clone());
        r
    }

    pub fn vote_valid(&mut self, v: &Vote) -> bool {
        let mut bytes = wincode::serialize(v).expect("serialize vote");
        bytes.push(0xFE);
        if let Some(r) = self.verdict_cache.get(&bytes) {
            return *r;
        }
        let ok = ValidatedVote::try_new(v.clone(), &self.epoch).is_ok();
        self.verdict_cache.insert(bytes, ok);
        ok
    }
}

pub fn hex(b: &[u8]) -> String {
    b.iter().map(|x| format!("{x:02x}")).collect()
}
