//! Case replay for C09 (spec: Auth.tla / MC_Auth.tla).
//!
//! Every CASE line of the TLC run is an abstract vote or certificate of the signature algebra
//! (who signed which (kind, slot, hash); which bits are set; which stake is declared) together
//! with the spec's verdict.  The driver concretises it with real BLS keys as the bytes of a
//! `ConsensusMessage`, runs decode + `ValidatedVote::try_new` / `ValidatedCert::try_new` under
//! `catch_unwind`, and compares admitted / refused with the spec.  A panic is a divergence.
//!
//! The messages are assembled on the wire level (private fields cannot be set otherwise).  The
//! assembly is cross-checked: every honest message of the spec (`MakeVote`, `MakeCert`) is also
//! built with the real constructors (`Vote::new_*`, `*Cert::new`) and must be byte-identical.

use std::collections::HashMap;
use std::panic::AssertUnwindSafe;

use alpenglow::ValidatorIndex;
use alpenglow::consensus::{ConsensusMessage, EpochInfo, ValidatedCert, ValidatedVote, Vote};
use alpenglow::crypto::aggsig;
use alpenglow::crypto::{AggregateSignature, IndividualSignature};
use alpenglow::types::Slot;
use rand::SeedableRng;
use rand::rngs::StdRng;
use serde_json::{Value, json};

use crate::cases::CaseReport;
use crate::world::{World, hash_bytes};

const SIG: usize = 96;
// `by` = -1: a key outside the epoch (any negative index other than GARBLED)
const GARBLED: i64 = -2;
const TORSION: i64 = -3;

/// `sig + T`, where T is a low-order point of E(Fp) outside the prime-order subgroup G1: still a
/// point on the curve (decodable as an aggregate), a different byte string, nobody's signature.
/// The pairing equation alone cannot tell it from `sig` (e(T, Q) = 1); only the subgroup check does.
fn add_low_order_point(sig_bytes: &[u8; SIG]) -> [u8; SIG] {
    use blst::{
        BLST_ERROR, blst_p1, blst_p1_add_or_double, blst_p1_affine, blst_p1_affine_in_g1,
        blst_p1_deserialize, blst_p1_from_affine, blst_p1_is_inf, blst_p1_mult, blst_p1_serialize,
        blst_p1_uncompress,
    };
    // order r of G1, little-endian
    const R_LE: [u8; 32] = [
        0x01, 0x00, 0x00, 0x00, 0xff, 0xff, 0xff, 0xff, 0xfe, 0x5b, 0xfe, 0xff, 0x02, 0xa4, 0xbd,
        0x53, 0x05, 0xd8, 0xa1, 0x09, 0x08, 0xd8, 0x39, 0x33, 0x48, 0x7d, 0x9d, 0x29, 0x53, 0xa7,
        0xed, 0x73,
    ];
    // SAFETY: plain FFI calls on properly sized, initialised buffers.
    unsafe {
        let mut sig_aff = blst_p1_affine::default();
        let res = blst_p1_deserialize(&mut sig_aff, sig_bytes.as_ptr());
        assert_eq!(res, BLST_ERROR::BLST_SUCCESS, "signature bytes must be a curve point");
        let mut sig = blst_p1::default();
        blst_p1_from_affine(&mut sig, &sig_aff);
        let mut compressed = [0u8; 48];
        compressed[0] = 0x80;
        for x in 1..=u8::MAX {
            compressed[47] = x;
            let mut p_aff = blst_p1_affine::default();
            let res = blst_p1_uncompress(&mut p_aff, compressed.as_ptr());
            if res != BLST_ERROR::BLST_SUCCESS || blst_p1_affine_in_g1(&p_aff) {
                continue;
            }
            let mut pnt = blst_p1::default();
            blst_p1_from_affine(&mut pnt, &p_aff);
            // t = r * p is killed by the cofactor: low order, outside G1
            let mut t = blst_p1::default();
            blst_p1_mult(&mut t, &pnt, R_LE.as_ptr(), 255);
            if blst_p1_is_inf(&t) {
                continue;
            }
            let mut out = blst_p1::default();
            blst_p1_add_or_double(&mut out, &sig, &t);
            let mut out_bytes = [0u8; SIG];
            blst_p1_serialize(out_bytes.as_mut_ptr(), &out);
            assert_ne!(&out_bytes, sig_bytes);
            return out_bytes;
        }
    }
    panic!("no low-order point found");
}

fn panic_msg(e: Box<dyn std::any::Any + Send>) -> String {
    if let Some(s) = e.downcast_ref::<&str>() {
        (*s).to_string()
    } else if let Some(s) = e.downcast_ref::<String>() {
        s.clone()
    } else {
        "panic".to_string()
    }
}

fn vote_tag(k: &str) -> u32 {
    match k {
        "notar" => 0,
        "nf" => 1,
        "skip" => 2,
        "sf" => 3,
        "final" => 4,
        _ => panic!("vote kind {k}"),
    }
}

fn cert_tag(k: &str) -> u32 {
    match k {
        "notar" => 0,
        "nf" => 1,
        "skip" => 2,
        "ff" => 3,
        "final" => 4,
        _ => panic!("cert kind {k}"),
    }
}

/// abstract signer index -> wire value (indices that do not fit TLC's integers are encoded)
fn wire_index(v: i64) -> u64 {
    if v == 2_147_483_647 {
        u64::MAX
    } else if v >= 1_000_000 {
        (1u64 << 32) + (v as u64 - 1_000_000)
    } else {
        v as u64
    }
}

fn wire_stake(x: i64) -> u64 {
    if x >= 2_000_000_000 { u64::MAX } else { x as u64 }
}

pub struct AuthDriver {
    world: World,
    foreign: aggsig::SecretKey,
    sig_cache: HashMap<String, [u8; SIG]>,
    isig_cache: HashMap<String, IndividualSignature>,
    agg_cache: HashMap<String, [u8; SIG]>,
}

struct Prepared {
    idx: usize,
    bytes: Vec<u8>,
}

impl AuthDriver {
    pub fn new(stakes: &[u64], seed: u64) -> Self {
        let mut rng = StdRng::seed_from_u64(seed ^ 0xC09_F0E1);
        Self {
            world: World::new(stakes, seed),
            foreign: aggsig::SecretKey::new(&mut rng),
            sig_cache: HashMap::new(),
            isig_cache: HashMap::new(),
            agg_cache: HashMap::new(),
        }
    }

    fn real_vote(&mut self, k: &str, s: u64, h: &str, by: i64) -> Vote {
        if by >= 0 {
            return self.world.raw_vote(k, s, h, by as usize);
        }
        let slot = Slot::new(s);
        let idx = ValidatorIndex::new(0);
        let sk = self.foreign.clone();
        match k {
            "notar" => Vote::new_notar(slot, self.world.hash(h), &sk, idx),
            "nf" => Vote::new_notar_fallback(slot, self.world.hash(h), &sk, idx),
            "skip" => Vote::new_skip(slot, &sk, idx),
            "sf" => Vote::new_skip_fallback(slot, &sk, idx),
            "final" => Vote::new_final(slot, &sk, idx),
            _ => panic!("vote kind {k}"),
        }
    }

    /// The real signature of `by` (validator index or FOREIGN) over the payload (k, s, h),
    /// taken out of a vote built by the real constructor.
    fn sig_bytes(&mut self, by: i64, k: &str, s: u64, h: &str) -> [u8; SIG] {
        let key = format!("{by}|{k}|{s}|{h}");
        if let Some(b) = self.sig_cache.get(&key) {
            return *b;
        }
        let vote = self.real_vote(k, s, h, by);
        let b = wincode::serialize(&vote).expect("serialize vote");
        let mut out = [0u8; SIG];
        out.copy_from_slice(&b[b.len() - 8 - SIG..b.len() - 8]);
        self.sig_cache.insert(key, out);
        out
    }

    /// `owner`: whose real signature an altered one (GARBLED / TORSION) is derived from.
    fn sig_of(&mut self, sg: &Value, owner: i64) -> (i64, [u8; SIG]) {
        let by = sg["by"].as_i64().expect("sig.by");
        let k = sg["k"].as_str().expect("sig.k").to_string();
        let s = sg["s"].as_u64().expect("sig.s");
        let h = sg["h"].as_str().expect("sig.h").to_string();
        if by == GARBLED {
            // one bit of the owner's signature over that payload flipped
            let mut b = self.sig_bytes(owner, &k, s, &h);
            b[SIG - 1] ^= 1;
            (by, b)
        } else if by == TORSION {
            // the owner's signature over that payload plus a low-order point outside G1
            let b = self.sig_bytes(owner, &k, s, &h);
            (by, add_low_order_point(&b))
        } else {
            (by, self.sig_bytes(by, &k, s, &h))
        }
    }

    fn isig(&mut self, sg: &Value) -> IndividualSignature {
        let key = sg.to_string();
        if let Some(x) = self.isig_cache.get(&key) {
            return *x;
        }
        let (_, b) = self.sig_of(sg, 0);
        let x: IndividualSignature = wincode::deserialize(&b).expect("real signature must decode");
        self.isig_cache.insert(key, x);
        x
    }

    fn vote_bytes(&mut self, m: &Value) -> Vec<u8> {
        let k = m["k"].as_str().expect("k");
        let mut out = Vec::with_capacity(160);
        out.extend_from_slice(&0u32.to_le_bytes()); // ConsensusMessage::Vote
        out.extend_from_slice(&vote_tag(k).to_le_bytes());
        out.extend_from_slice(&m["s"].as_u64().expect("s").to_le_bytes());
        if k == "notar" || k == "nf" {
            let h = self.world.hash(m["h"].as_str().expect("h"));
            out.extend_from_slice(&hash_bytes(&h));
        }
        let v = m["v"].as_i64().expect("v");
        let owner = if v >= 0 && (v as usize) < self.world.n { v } else { 0 };
        let (_, sg) = self.sig_of(&m["sig"], owner);
        out.extend_from_slice(&sg);
        out.extend_from_slice(&wire_index(v).to_le_bytes());
        out
    }

    /// Aggregate of the bag (members of `dup` twice); garbled member = one bit of the aggregate
    /// flipped; torsion member = a low-order point outside G1 added to the aggregate.
    fn agg_bytes(&mut self, half: &Value) -> [u8; SIG] {
        let mut members: Vec<Value> = Vec::new();
        let mut garbled = false;
        let mut torsion = false;
        for part in ["bag", "dup"] {
            for sg in half[part].as_array().expect("bag") {
                if sg["by"].as_i64() == Some(GARBLED) {
                    garbled = true;
                } else if sg["by"].as_i64() == Some(TORSION) {
                    torsion = true;
                } else {
                    members.push(sg.clone());
                }
            }
        }
        let mut keys: Vec<String> = members.iter().map(Value::to_string).collect();
        keys.sort();
        let key = keys.join(";");
        let mut out = if let Some(b) = self.agg_cache.get(&key) {
            *b
        } else {
            let b = if members.is_empty() {
                // the aggregate of nothing: the point at infinity (uncompressed encoding)
                let mut z = [0u8; SIG];
                z[0] = 0x40;
                z
            } else {
                let sigs: Vec<IndividualSignature> = members.iter().map(|m| self.isig(m)).collect();
                let idx = (0..sigs.len() as u64).map(ValidatorIndex::new);
                let agg = AggregateSignature::new(sigs.iter(), idx, sigs.len());
                let ser = wincode::serialize(&agg).expect("serialize aggregate");
                let mut z = [0u8; SIG];
                z.copy_from_slice(&ser[..SIG]);
                z
            };
            self.agg_cache.insert(key, b);
            b
        };
        if torsion {
            out = add_low_order_point(&out);
        }
        if garbled {
            out[SIG - 1] ^= 1;
        }
        out
    }

    fn half_bytes(&mut self, half: &Value, out: &mut Vec<u8>) {
        let agg = self.agg_bytes(half);
        out.extend_from_slice(&agg);
        let len = half["len"].as_u64().expect("len") as usize;
        let words = len.div_ceil(64);
        let mut w = vec![0u64; words];
        for b in half["mask"].as_array().expect("mask") {
            let i = b.as_u64().expect("bit") as usize;
            assert!(i < len, "mask bit beyond the bitmask length");
            w[i / 64] |= 1u64 << (i % 64);
        }
        out.extend_from_slice(&(len as u64).to_le_bytes());
        out.extend_from_slice(&(words as u64).to_le_bytes());
        for x in w {
            out.extend_from_slice(&x.to_le_bytes());
        }
    }

    fn cert_bytes(&mut self, m: &Value) -> Vec<u8> {
        let k = m["k"].as_str().expect("k");
        let mut out = Vec::with_capacity(320);
        out.extend_from_slice(&1u32.to_le_bytes()); // ConsensusMessage::Cert
        out.extend_from_slice(&cert_tag(k).to_le_bytes());
        out.extend_from_slice(&m["s"].as_u64().expect("s").to_le_bytes());
        if k == "notar" || k == "nf" || k == "ff" {
            let h = self.world.hash(m["h"].as_str().expect("h"));
            out.extend_from_slice(&hash_bytes(&h));
        }
        if k == "nf" || k == "skip" {
            for name in ["a", "b"] {
                let half = &m[name];
                if half["p"].as_bool().expect("p") {
                    out.push(1);
                    self.half_bytes(half, &mut out);
                } else {
                    out.push(0);
                }
            }
        } else {
            assert!(m["a"]["p"].as_bool().expect("p"), "single-half certificate without half");
            self.half_bytes(&m["a"], &mut out);
        }
        out.extend_from_slice(&wire_stake(m["stake"].as_i64().expect("stake")).to_le_bytes());
        out
    }

    /// The same honest message built by the real constructors.
    fn real_bytes(&mut self, t: &str, m: &Value) -> Vec<u8> {
        let k = m["k"].as_str().expect("k").to_string();
        let s = m["s"].as_u64().expect("s");
        let h = m["h"].as_str().expect("h").to_string();
        let msg: ConsensusMessage = if t == "vote" {
            self.world
                .raw_vote(&k, s, &h, m["v"].as_u64().expect("v") as usize)
                .into()
        } else {
            let set = |x: &Value| -> Vec<usize> {
                let mut v: Vec<usize> = x["mask"]
                    .as_array()
                    .expect("mask")
                    .iter()
                    .map(|b| b.as_u64().expect("bit") as usize)
                    .collect();
                v.sort_unstable();
                v
            };
            let (a, b) = (set(&m["a"]), set(&m["b"]));
            self.world.build_cert(&k, s, &h, &a, &b).into()
        };
        wincode::serialize(&msg).expect("serialize message")
    }
}

fn run_one(bytes: &[u8], want_vote: bool, epoch: &EpochInfo) -> String {
    let r = std::panic::catch_unwind(AssertUnwindSafe(|| {
        match wincode::deserialize::<ConsensusMessage>(bytes) {
            Err(_) => "refused:decode".to_string(),
            Ok(ConsensusMessage::Vote(v)) => {
                if !want_vote {
                    return "harness:decoded-as-vote".to_string();
                }
                match ValidatedVote::try_new(v, epoch) {
                    Ok(_) => "admitted".to_string(),
                    Err(e) => format!("refused:{e:?}"),
                }
            }
            Ok(ConsensusMessage::Cert(c)) => {
                if want_vote {
                    return "harness:decoded-as-cert".to_string();
                }
                match ValidatedCert::try_new(c, epoch) {
                    Ok(_) => "admitted".to_string(),
                    Err(e) => format!("refused:{e:?}"),
                }
            }
        }
    }));
    match r {
        Ok(s) => s,
        Err(e) => format!("panic:{}", panic_msg(e)),
    }
}

/// Reads the `<<"CASE", "{json}">>` lines of a TLC output file in batches.
struct CaseReader {
    rdr: std::io::BufReader<std::fs::File>,
}

impl CaseReader {
    fn open(path: &str) -> anyhow::Result<Self> {
        Ok(Self { rdr: std::io::BufReader::with_capacity(1 << 20, std::fs::File::open(path)?) })
    }

    fn next_batch(&mut self, max: usize) -> anyhow::Result<Vec<Value>> {
        use std::io::BufRead;
        let prefix = "<<\"CASE\", \"";
        let mut out = Vec::new();
        let mut line = String::new();
        while out.len() < max {
            line.clear();
            if self.rdr.read_line(&mut line)? == 0 {
                break;
            }
            let l = line.trim_end_matches(['\n', '\r']);
            let Some(rest) = l.strip_prefix(prefix) else {
                continue;
            };
            let Some(rest) = rest.strip_suffix("\">>") else {
                anyhow::bail!("malformed CASE line");
            };
            // the JSON of the cases contains no escapes other than \" and \\
            let mut s = String::with_capacity(rest.len());
            let mut chars = rest.chars();
            while let Some(c) = chars.next() {
                if c == '\\' {
                    match chars.next() {
                        Some(o) => s.push(o),
                        None => anyhow::bail!("malformed CASE line"),
                    }
                } else {
                    s.push(c);
                }
            }
            out.push(serde_json::from_str(&s)?);
        }
        Ok(out)
    }
}

fn digest(b: &[u8]) -> String {
    use std::hash::{Hash, Hasher};
    let mut h1 = std::collections::hash_map::DefaultHasher::new();
    b.hash(&mut h1);
    let mut h2 = std::collections::hash_map::DefaultHasher::new();
    (0xC09u64, b).hash(&mut h2);
    format!("{:016x}{:016x}", h1.finish(), h2.finish())
}

pub fn replay(path: &str, stakes: &[u64], seed: u64, threads: usize) -> anyhow::Result<Value> {
    let mut d = AuthDriver::new(stakes, seed);
    let mut rep = CaseReport::new("auth");
    let mut selfcheck_failed: Vec<Value> = Vec::new();
    let mut selfchecked = 0u64;
    let mut total = 0u64;
    let mut spec_hist: HashMap<String, u64> = HashMap::new();
    let mut flags: HashMap<String, u64> = HashMap::new();
    let epoch = d.world.epoch.clone();
    let threads = threads.max(1);
    let mut reader = CaseReader::open(path)?;
    loop {
        let cases = reader.next_batch(20_000)?;
        if cases.is_empty() {
            break;
        }
        total += cases.len() as u64;

        // stage 1: concretise
        let mut prepared: Vec<Prepared> = Vec::with_capacity(cases.len());
        for (idx, c) in cases.iter().enumerate() {
            let t = c["t"].as_str().expect("t");
            let bytes = if t == "vote" { d.vote_bytes(&c["msg"]) } else { d.cert_bytes(&c["msg"]) };
            if c["label"] == "honest" || c["label"] == "id" {
                // the spec's honest constructor against the real constructor
                let real = d.real_bytes(t, &c["msg"]);
                selfchecked += 1;
                if real != bytes && selfcheck_failed.len() < 5 {
                    selfcheck_failed.push(json!({"case": c, "assembled": crate::world::hex(&bytes),
                                                  "constructor": crate::world::hex(&real)}));
                }
            }
            prepared.push(Prepared { idx, bytes });
        }

        // stage 2: run the implementation (parallel; panics are caught per case)
        let chunk = prepared.len().div_ceil(threads).max(1);
        let mut verdicts: Vec<String> = vec![String::new(); cases.len()];
        std::thread::scope(|sc| {
            let mut hs = Vec::new();
            for part in prepared.chunks(chunk) {
                let epoch = &epoch;
                let cases = &cases;
                hs.push(sc.spawn(move || {
                    part.iter()
                        .map(|p| (p.idx, run_one(&p.bytes, cases[p.idx]["t"] == "vote", epoch)))
                        .collect::<Vec<_>>()
                }));
            }
            for h in hs {
                for (i, v) in h.join().expect("worker") {
                    verdicts[i] = v;
                }
            }
        });

        // stage 3: compare with the spec's verdict
        for p in &prepared {
            let c = &cases[p.idx];
            let obs = &verdicts[p.idx];
            let t = c["t"].as_str().expect("t");
            let label = c["label"].as_str().expect("label");
            let cls = c["cls"].as_str().expect("cls");
            let admit = c["admit"].as_bool().expect("admit");
            let stage = obs.split(':').next().unwrap_or("");
            rep.case(&format!("{t}:{label}:{obs}"), digest(&p.bytes), c);
            *spec_hist.entry(format!("{t}|{label}|{cls}|{admit}")).or_default() += 1;
            for f in ["dc", "mid", "oor"] {
                if c["info"][f] == true {
                    let kind = c["msg"]["k"].as_str().unwrap_or("");
                    *flags.entry(format!("{f}|{kind}|{admit}")).or_default() += 1;
                }
            }
            let ok = match stage {
                "admitted" => admit,
                "refused" => !admit,
                _ => false, // panic or harness problem
            };
            if !ok {
                let o = if stage == "refused" || stage == "admitted" { stage } else { obs.as_str() };
                rep.diverge(
                    &format!("{t}:{label}|{o}"),
                    &["admit"],
                    &json!({"case": c, "wire": crate::world::hex(&p.bytes)}),
                    json!(if admit { "admitted" } else { "refused with an error" }),
                    json!(obs),
                );
            }
        }
    }
    let mut out = rep.to_json();
    out["total_cases_in_dump"] = json!(total);
    out["selfchecked"] = json!(selfchecked);
    out["selfcheck_failed"] = json!(selfcheck_failed);
    out["spec_hist"] = json!(spec_hist);
    out["flags"] = json!(flags);
    Ok(out)
}

fn arg_after(args: &[String], name: &str) -> Option<String> {
    args.iter()
        .position(|a| a == name)
        .and_then(|i| args.get(i + 1).cloned())
}

/// `replay-auth --tlc-out <file> --stakes 3,3,2,2 [--threads T] --seed S`
pub fn run(args: &[String], seed: u64) -> anyhow::Result<Value> {
    let path = arg_after(args, "--tlc-out").ok_or_else(|| anyhow::anyhow!("--tlc-out"))?;
    let stakes: Vec<u64> = arg_after(args, "--stakes")
        .ok_or_else(|| anyhow::anyhow!("--stakes"))?
        .split(',')
        .map(|x| x.parse())
        .collect::<Result<_, _>>()?;
    let threads = arg_after(args, "--threads").and_then(|s| s.parse().ok()).unwrap_or(4);
    replay(&path, &stakes, seed, threads)
}
