//! Replay driver for `PoolImpl` (spec: Pool.tla / MC_Pool.tla).

use std::collections::{BTreeMap, BTreeSet};
use std::panic::AssertUnwindSafe;

use alpenglow::consensus::{AddVoteError, Pool, PoolEvent, PoolImpl};
use alpenglow::BlockId;
use alpenglow::types::Slot;
use either::Either;
use futures::FutureExt;
use serde_json::{Value, json};
use tokio::sync::{mpsc, oneshot};

use crate::graph::{Driver, canon};
use crate::world::{World, hex};

pub struct PoolDriver {
    pub world: World,
    own: usize,
    max_slot: u64,
    rt: tokio::runtime::Runtime,
    pool: Option<PoolImpl>,
    votor_rx: Option<mpsc::Receiver<PoolEvent>>,
    repair_rx: Option<mpsc::Receiver<BlockId>>,
    waiters: BTreeMap<u64, oneshot::Receiver<BlockId>>,
    expected_certs: std::collections::HashMap<String, String>,
}

fn panic_msg(e: Box<dyn std::any::Any + Send>) -> String {
    if let Some(s) = e.downcast_ref::<&str>() {
        (*s).to_string()
    } else if let Some(s) = e.downcast_ref::<String>() {
        s.clone()
    } else {
        "panic".to_string()
    }
}

impl PoolDriver {
    pub fn new(stakes: &[u64], own: usize, max_slot: u64, seed: u64) -> Self {
        let rt = tokio::runtime::Builder::new_current_thread()
            .enable_all()
            .build()
            .expect("runtime");
        Self {
            world: World::new(stakes, seed),
            own,
            max_slot,
            rt,
            pool: None,
            votor_rx: None,
            repair_rx: None,
            waiters: BTreeMap::new(),
            expected_certs: std::collections::HashMap::new(),
        }
    }

    /// Feeds only the bundle's certificates (validated as a receiver would) into a fresh pool.
    fn catch_up(&mut self, highest: u64, certs: &[alpenglow::consensus::Cert]) -> Value {
        let (vtx, _vrx) = mpsc::channel(4096);
        let (rtx, _rrx) = mpsc::channel(4096);
        // a different validator's pool (the receiver of the re-broadcast)
        let other = (self.own + 1) % self.world.n;
        let mut fresh = PoolImpl::new(self.world.validator_epoch(other), vtx, rtx);
        let mut panic = String::new();
        for c in certs {
            let Some(vc) = self.world.validate_cert(c) else {
                continue;
            };
            let r = self
                .rt
                .block_on(AssertUnwindSafe(fresh.add_cert(vc)).catch_unwind());
            if let Err(e) = r {
                panic = panic_msg(e);
                break;
            }
        }
        let next_window = (highest / 4) * 4 + 4;
        let ready: Vec<Value> = fresh
            .parents_ready(Slot::new(next_window))
            .iter()
            .map(|b| self.world.block_json(b))
            .collect();
        json!({"hi": fresh.finalized_slot().inner(), "ready": ready, "panic": panic})
    }

    fn event_json(&mut self, ev: PoolEvent) -> Value {
        match ev {
            PoolEvent::ParentReady { slot, parent } => {
                json!({"t": "ParentReady", "s": slot.inner(), "b": self.world.block_json(&parent)})
            }
            PoolEvent::SafeToNotar(b) => json!({"t": "SafeToNotar", "b": self.world.block_json(&b)}),
            PoolEvent::SafeToSkip(s) => json!({"t": "SafeToSkip", "s": s.inner()}),
            PoolEvent::CertCreated(c) => {
                let mut signers: Vec<u64> = c.signers().map(|v| v.inner()).collect();
                signers.sort_unstable();
                json!({"t": "Cert", "c": self.world.cert_id_json(&c), "signers": signers,
                       "valid": self.world.cert_valid(&c), "bytes": hex(&World::cert_bytes(&c))})
            }
            PoolEvent::Standstill(s, certs, votes) => {
                let cs: Vec<Value> = certs
                    .iter()
                    .map(|c| {
                        let mut id = self.world.cert_id_json(c);
                        id["valid"] = json!(self.world.cert_valid(c));
                        id
                    })
                    .collect();
                let vs: Vec<Value> = votes
                    .iter()
                    .map(|v| {
                        let mut j = self.world.vote_json(v);
                        j["valid"] = json!(self.world.vote_valid(v));
                        j
                    })
                    .collect();
                let fresh = self.catch_up(s.inner().saturating_sub(1), &certs);
                json!({"t": "Standstill", "s": s.inner(), "certs": cs, "votes": vs, "fresh": fresh})
            }
        }
    }
}

impl Driver for PoolDriver {
    fn reset(&mut self) {
        let (vtx, vrx) = mpsc::channel(4096);
        let (rtx, rrx) = mpsc::channel(4096);
        self.pool = Some(PoolImpl::new(self.world.validator_epoch(self.own), vtx, rtx));
        self.votor_rx = Some(vrx);
        self.repair_rx = Some(rrx);
        self.waiters.clear();
    }

    fn step(&mut self, act: &Value) -> Value {
        let op = act["op"].as_str().unwrap_or("");
        let mut pool = self.pool.take().expect("pool");
        let mut new_waiter: Option<(u64, oneshot::Receiver<BlockId>)> = None;
        let res: Result<Value, String> = match op {
            "vote" => {
                let vv = self.world.vote(&act["vt"]);
                let r = self
                    .rt
                    .block_on(AssertUnwindSafe(pool.add_vote(vv)).catch_unwind());
                match r {
                    Ok(Ok(())) => Ok(json!("Ok")),
                    Ok(Err(AddVoteError::SlotOutOfBounds)) => Ok(json!("SlotOutOfBounds")),
                    Ok(Err(AddVoteError::Duplicate)) => Ok(json!("Duplicate")),
                    Ok(Err(AddVoteError::Slashable(off))) => {
                        let s = format!("{off:?}");
                        Ok(json!(s.split('(').next().unwrap_or("").to_string()))
                    }
                    Err(e) => Err(panic_msg(e)),
                }
            }
            "cert" => {
                let vc = self.world.cert(&act["c"]);
                let r = self
                    .rt
                    .block_on(AssertUnwindSafe(pool.add_cert(vc)).catch_unwind());
                match r {
                    Ok(Ok(())) => Ok(json!("Ok")),
                    Ok(Err(e)) => Ok(json!(format!("{e:?}"))),
                    Err(e) => Err(panic_msg(e)),
                }
            }
            "block" => {
                let b = self.world.block(&act["b"]);
                let par = self.world.block(&act["par"]);
                let r = self
                    .rt
                    .block_on(AssertUnwindSafe(pool.add_block(b, par)).catch_unwind());
                match r {
                    Ok(()) => Ok(json!("Ok")),
                    Err(e) => Err(panic_msg(e)),
                }
            }
            "wait" => {
                let s = act["s"].as_u64().unwrap();
                let r = std::panic::catch_unwind(AssertUnwindSafe(|| {
                    pool.wait_for_parent_ready(Slot::new(s))
                }));
                match r {
                    Ok(Either::Left(b)) => Ok(json!(["ready", self.world.block_json(&b)])),
                    Ok(Either::Right(rx)) => {
                        new_waiter = Some((s, rx));
                        Ok(json!(["wait"]))
                    }
                    Err(e) => Err(panic_msg(e)),
                }
            }
            "standstill" => {
                let r = self
                    .rt
                    .block_on(AssertUnwindSafe(pool.recover_from_standstill()).catch_unwind());
                match r {
                    Ok(()) => Ok(json!("Ok")),
                    Err(e) => Err(panic_msg(e)),
                }
            }
            _ => Err(format!("harness: unknown op {op}")),
        };
        self.pool = Some(pool);
        if let Some((s, rx)) = new_waiter {
            self.waiters.insert(s, rx);
        }
        // drain outputs
        let mut evs = Vec::new();
        let mut raw = Vec::new();
        if let Some(rx) = self.votor_rx.as_mut() {
            while let Ok(ev) = rx.try_recv() {
                raw.push(ev);
            }
        }
        for ev in raw {
            evs.push(self.event_json(ev));
        }
        let mut rep = Vec::new();
        if let Some(rx) = self.repair_rx.as_mut() {
            while let Ok(b) = rx.try_recv() {
                rep.push(self.world.block_json(&b));
            }
        }
        let mut woken = Vec::new();
        let mut done = Vec::new();
        for (s, rx) in self.waiters.iter_mut() {
            match rx.try_recv() {
                Ok(b) => {
                    woken.push(json!([*s, self.world.block_json(&b)]));
                    done.push(*s);
                }
                Err(oneshot::error::TryRecvError::Closed) => {
                    woken.push(json!([*s, "closed"]));
                    done.push(*s);
                }
                Err(oneshot::error::TryRecvError::Empty) => {}
            }
        }
        for s in done {
            self.waiters.remove(&s);
        }
        let (ret, panic) = match res {
            Ok(r) => (r, String::new()),
            Err(p) => (Value::Null, p),
        };
        json!({"ret": ret, "ev": evs, "rep": rep, "woken": woken, "panic": panic})
    }

    fn obs(&mut self) -> Value {
        let pool = self.pool.as_ref().expect("pool");
        let mut fst: Vec<Value> = (0..=self.max_slot).map(|_| json!(["none", "-"])).collect();
        for (slot, tag, h) in pool.verif_finality_status() {
            let t = match tag {
                "notarized" => "notar",
                "final_pending_notar" => "fpn",
                "finalized" => "fin",
                "impl_finalized" => "ifin",
                "impl_skipped" => "iskip",
                o => o,
            };
            if slot.inner() <= self.max_slot {
                let hn = h.map_or_else(|| "-".to_string(), |h| self.world.hash_name(&h));
                fst[slot.inner() as usize] = json!([t, hn]);
            }
        }
        let retained: Vec<u64> = pool.verif_retained_slots().iter().map(|s| s.inner()).collect();
        let mut certs = Vec::new();
        for s in pool.verif_retained_slots() {
            for c in pool.verif_certs(s) {
                certs.push(self.world.cert_id_json(&c));
            }
        }
        let mut ready = Vec::new();
        let mut s = 0;
        while s <= self.max_slot + 8 {
            for b in pool.parents_ready(Slot::new(s)) {
                ready.push(json!([s, self.world.block_json(b)]));
            }
            s += 4;
        }
        let wpar: Vec<Value> = pool
            .verif_waiting_parents()
            .iter()
            .map(|b| self.world.block_json(b))
            .collect();
        json!({"hi": pool.finalized_slot().inner(), "fup": pool.verif_first_unpruned_slot().inner(),
               "ret": retained, "fst": fst, "certs": certs, "ready": ready, "wpar": wpar, "panic": ""})
    }

    fn diff_out(&mut self, act: &Value, exp: &Value, got: &Value) -> Vec<String> {
        let mut d = Vec::new();
        let ep = exp["panic"].as_str().unwrap_or("");
        let gp = got["panic"].as_str().unwrap_or("");
        if ep.is_empty() != gp.is_empty() {
            d.push("panic".to_string());
            return d;
        }
        if !ep.is_empty() {
            return d; // both panicked; outputs before the panic are not compared
        }
        // return value
        if act["op"] == "wait" {
            let e = &exp["ret"];
            let g = &got["ret"];
            if e[0] != g[0] {
                d.push("ret".to_string());
            } else if e[0] == "ready" {
                let cands = e[1].as_array().cloned().unwrap_or_default();
                let min_slot = cands.iter().filter_map(|c| c[0].as_u64()).min();
                if !cands.contains(&g[1]) || g[1][0].as_u64() != min_slot {
                    d.push("ret".to_string());
                }
            }
        } else if exp["ret"] != got["ret"] {
            d.push("ret".to_string());
        }
        // events: multiset matching
        let eev = exp["ev"].as_array().cloned().unwrap_or_default();
        let gev = got["ev"].as_array().cloned().unwrap_or_default();
        let mut used = vec![false; gev.len()];
        for e in &eev {
            let mut hit = None;
            let mut why = String::new();
            for (i, g) in gev.iter().enumerate() {
                if used[i] || g["t"] != e["t"] {
                    continue;
                }
                match self.event_matches(e, g) {
                    Ok(()) => {
                        hit = Some(i);
                        break;
                    }
                    Err(w) => why = w,
                }
            }
            match hit {
                Some(i) => used[i] = true,
                None => {
                    let t = e["t"].as_str().unwrap_or("?");
                    if why.is_empty() {
                        d.push(format!("ev.missing.{t}"));
                    } else {
                        d.push(format!("ev.{t}.{why}"));
                    }
                }
            }
        }
        for (i, g) in gev.iter().enumerate() {
            if !used[i] {
                let t = g["t"].as_str().unwrap_or("?");
                let f = format!("ev.unexpected.{t}");
                // an event reported as mismatching above also shows up as unexpected; keep one
                if !d.iter().any(|x| x.starts_with(&format!("ev.{t}."))) {
                    d.push(f);
                }
            }
        }
        if canon(&exp["rep"]) != canon(&got["rep"]) {
            d.push("rep".to_string());
        }
        // woken waiters
        let ew = exp["woken"].as_array().cloned().unwrap_or_default();
        let gw = got["woken"].as_array().cloned().unwrap_or_default();
        let eslots: BTreeSet<u64> = ew.iter().filter_map(|w| w[0].as_u64()).collect();
        let gslots: BTreeSet<u64> = gw.iter().filter_map(|w| w[0].as_u64()).collect();
        if eslots != gslots {
            d.push("woken".to_string());
        } else {
            for g in &gw {
                let ok = ew.iter().any(|e| {
                    e[0] == g[0] && e[1].as_array().is_some_and(|c| c.contains(&g[1]))
                });
                if !ok {
                    d.push("woken.parent".to_string());
                }
            }
        }
        d
    }

    fn diff_obs(&self, exp: &Value, got: &Value) -> Vec<String> {
        let mut d = Vec::new();
        for k in ["hi", "fup"] {
            if exp[k] != got[k] {
                d.push(k.to_string());
            }
        }
        if exp["fst"] != got["fst"] {
            d.push("fst".to_string());
        }
        for k in ["ret", "certs", "ready"] {
            if canon(&exp[k]) != canon(&got[k]) {
                d.push(k.to_string());
            }
        }
        // retained waiting entries must be among the parents the spec still tracks
        if let (Some(e), Some(g)) = (exp["wpar"].as_array(), got["wpar"].as_array())
            && g.iter().any(|x| !e.contains(x))
        {
            d.push("waiting".to_string());
        }
        d
    }

    fn act_label(&self, act: &Value) -> String {
        let op = act["op"].as_str().unwrap_or("?");
        match op {
            "vote" => format!("vote:{}", act["vt"]["k"].as_str().unwrap_or("?")),
            "cert" => format!("cert:{}", act["c"]["k"].as_str().unwrap_or("?")),
            o => o.to_string(),
        }
    }
}

impl PoolDriver {
    fn event_matches(&mut self, e: &Value, g: &Value) -> Result<(), String> {
        match e["t"].as_str().unwrap_or("") {
            "ParentReady" => {
                if e["s"] != g["s"] {
                    return Err("slot".into());
                }
                if !e["bs"].as_array().is_some_and(|c| c.contains(&g["b"])) {
                    return Err("parent".into());
                }
                Ok(())
            }
            "SafeToNotar" => (e["b"] == g["b"]).then_some(()).ok_or_else(|| "block".into()),
            "SafeToSkip" => (e["s"] == g["s"]).then_some(()).ok_or_else(|| "slot".into()),
            "Cert" => {
                if e["c"] != g["c"] {
                    return Err("id".into());
                }
                if e["created"].as_bool().unwrap_or(false) {
                    let mut sa: Vec<u64> = e["sa"].as_array().unwrap().iter().filter_map(Value::as_u64).collect();
                    let mut sb: Vec<u64> = e["sb"].as_array().unwrap().iter().filter_map(Value::as_u64).collect();
                    sa.sort_unstable();
                    sb.sort_unstable();
                    let mut all: Vec<u64> = sa.iter().chain(sb.iter()).copied().collect();
                    all.sort_unstable();
                    let gs: Vec<u64> = g["signers"].as_array().unwrap().iter().filter_map(Value::as_u64).collect();
                    if all != gs {
                        return Err("signers".into());
                    }
                    if g["valid"] != json!(true) {
                        return Err("invalid".into());
                    }
                    // the whole certificate (halves, aggregate signature, declared stake)
                    // must equal the one built from exactly the expected votes
                    let key = format!("exp|{}|{:?}|{:?}", e["c"], sa, sb);
                    let want = if let Some(w) = self.expected_certs.get(&key) {
                        w.clone()
                    } else {
                        let sa_u: Vec<usize> = sa.iter().map(|x| *x as usize).collect();
                        let sb_u: Vec<usize> = sb.iter().map(|x| *x as usize).collect();
                        let c = self.world.build_cert(
                            e["c"]["k"].as_str().unwrap(),
                            e["c"]["s"].as_u64().unwrap(),
                            e["c"]["h"].as_str().unwrap(),
                            &sa_u,
                            &sb_u,
                        );
                        let w = hex(&World::cert_bytes(&c));
                        self.expected_certs.insert(key, w.clone());
                        w
                    };
                    if g["bytes"].as_str() != Some(want.as_str()) {
                        return Err("content".into());
                    }
                } else if g["valid"] != json!(true) {
                    return Err("invalid".into());
                }
                Ok(())
            }
            "Standstill" => {
                if e["s"] != g["s"] {
                    return Err("slot".into());
                }
                let strip = |v: &Value| -> Value {
                    Value::Array(
                        v.as_array()
                            .cloned()
                            .unwrap_or_default()
                            .into_iter()
                            .map(|mut x| {
                                if let Some(o) = x.as_object_mut() {
                                    o.remove("valid");
                                }
                                x
                            })
                            .collect(),
                    )
                };
                if canon(&e["certs"]) != canon(&strip(&g["certs"])) {
                    return Err("certs".into());
                }
                if canon(&e["votes"]) != canon(&strip(&g["votes"])) {
                    return Err("votes".into());
                }
                if e.get("fresh").is_some() {
                    let ef = &e["fresh"];
                    let gf = &g["fresh"];
                    if ef["hi"] != gf["hi"] || canon(&ef["ready"]) != canon(&gf["ready"])
                        || ef["panic"].as_str().unwrap_or("").is_empty() != gf["panic"].as_str().unwrap_or("").is_empty()
                    {
                        return Err("fresh".into());
                    }
                }
                let all_valid = g["certs"].as_array().unwrap().iter().all(|c| c["valid"] == json!(true))
                    && g["votes"].as_array().unwrap().iter().all(|c| c["valid"] == json!(true));
                if !all_valid {
                    return Err("invalid".into());
                }
                Ok(())
            }
            _ => Err("unknown".into()),
        }
    }
}
