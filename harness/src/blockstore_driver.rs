//! C13 — block store.  Replays every transition of `MC_Blockstore` (spec/Blockstore.tla) into a real
//! `BlockstoreImpl`: the abstract signed slices of a scenario are concretised into real slices, shredded
//! by the real `RegularShredder` and signed with the leader's key (malformed slices are validly signed:
//! a Byzantine leader can sign anything); one model step `deliver(k, b, via)` is the sequence of
//! `add_shred_from_dissemination` calls for the real shreds of group `b` of slice `k`; `own(k)` is
//! `add_own_slice` (leader fast path).  Compared after every step: every return value, the
//! `BlockstoreEvent`s drained from the channel, the hand-over of a reconstructed block to
//! `Pool::add_block` (as consensus.rs does), and the projected state (hooks + public getters:
//! cached commitments, held shreds, last slice, reconstructed slices, misbehaviour flag, completed
//! block, every shred / slice root / double-Merkle proof served).
//! Expectations come from the TLC output only; this file concretises, runs, projects and compares.

use std::cell::RefCell;
use std::collections::HashMap;
use std::panic::{AssertUnwindSafe, catch_unwind};
use std::rc::Rc;

use alpenglow::consensus::{
    AddShredError, BlockInfo, Blockstore, BlockstoreEvent, BlockstoreImpl, Pool, PoolImpl,
};
use alpenglow::crypto::merkle::{BlockHash, DoubleMerkleTree, SliceMerkleTree, SliceRoot};
use alpenglow::crypto::signature::{PublicKey, SecretKey};
use alpenglow::shredder::{
    RegularShredder, Shred, ShredIndex, Shredder, SliceCommitment, TOTAL_SHREDS, ValidatedShred,
};
use alpenglow::types::{Slice, SliceIndex, SlicePayload, Slot};
use alpenglow::{BlockId, Transaction};
use rand::SeedableRng;
use rand::rngs::StdRng;
use serde_json::{Value, json};
use tokio::sync::mpsc;
use wincode::{SchemaRead, SchemaWrite};

use crate::graph::{self, Driver};
use crate::world::{World, hash_bytes};

// ---------------------------------------------------------------- wire mirror of `Shred`
// (only used to read the shard bytes of real shreds and to write the shreds of a crafted slice whose
//  payload no `Slice` can express; checked against the real encoding at start-up)
#[derive(SchemaRead, SchemaWrite, Clone)]
struct WHeader {
    slot: u64,
    slice_index: u64,
    is_last: bool,
}
#[derive(SchemaRead, SchemaWrite, Clone)]
struct WPayload {
    header: WHeader,
    shred_index: u64,
    data: Vec<u8>,
}
#[derive(SchemaRead, SchemaWrite, Clone)]
enum WType {
    Data(WPayload),
    Coding(WPayload),
}
#[derive(SchemaRead, SchemaWrite, Clone)]
struct WShred {
    payload_type: WType,
    slice_sig: [u8; 64],
    merkle_path: Vec<[u8; 32]>,
}

fn wire(s: &Shred) -> Vec<u8> {
    wincode::serialize(s).expect("serialize shred")
}

fn shard_of(bytes: &[u8]) -> Vec<u8> {
    let w: WShred = wincode::deserialize(bytes).expect("harness wire mirror of Shred is out of date");
    match w.payload_type {
        WType::Data(p) | WType::Coding(p) => p.data,
    }
}

fn panic_msg(p: Box<dyn std::any::Any + Send>) -> String {
    if let Some(s) = p.downcast_ref::<&str>() {
        (*s).to_string()
    } else if let Some(s) = p.downcast_ref::<String>() {
        s.clone()
    } else {
        "panic".to_string()
    }
}

fn slice_index(i: usize) -> SliceIndex {
    serde_json::from_str(&i.to_string()).expect("slice index")
}

// ---------------------------------------------------------------- concretised scenario
struct CSlice {
    idx: usize,
    /// decoded payload (own-slice path); None for the crafted undecodable payload
    payload: Option<Vec<u8>>,
    /// fully verified shreds (cache = None)
    valid: Vec<ValidatedShred>,
    raw: Vec<Shred>,
    wire: Vec<Vec<u8>>,
    root: SliceRoot,
    commitment: SliceCommitment,
    txs: Vec<Vec<u8>>,
}

struct Scen {
    cls: String,
    /// everything the leader signed is one correct block (the first `n` slices)
    honest: bool,
    n: usize,
    /// hash of that block: double-Merkle root over the roots of its slices (what a repair is started for)
    leader_hash: Option<BlockHash>,
    slices: Vec<CSlice>,
    blocks: Vec<(usize, usize)>,
    max_idx: usize,
    slot: Slot,
    parents: Vec<(String, BlockId)>,
}

fn mix(a: u64, b: u64) -> u64 {
    let mut x = a ^ b.wrapping_mul(0x9E37_79B9_7F4A_7C15);
    x ^= x >> 31;
    x = x.wrapping_mul(0xBF58_476D_1CE4_E5B9);
    x ^= x >> 29;
    x
}

fn tx_bytes(seed: u64, idx: usize, j: usize, len: usize) -> Vec<u8> {
    let mut st = mix(mix(seed, idx as u64 + 1), j as u64 + 77);
    (0..len)
        .map(|_| {
            st = mix(st, 0xC13);
            (st >> 24) as u8
        })
        .collect()
}

pub struct BsDriver {
    seed: u64,
    sk: SecretKey,
    pk: PublicKey,
    world: World,
    scen_cache: HashMap<String, Rc<Scen>>,
    cur: Option<Rc<Scen>>,
    role: String,
    store: BlockstoreImpl,
    rx: mpsc::Receiver<BlockstoreEvent>,
    log: Vec<Value>,
    last_label: String,
    /// the rule by which the specification flags the leader in the current step, if it does
    last_why: RefCell<String>,
    // own bookkeeping of divergences (graph.rs keeps only the first few hundred)
    fps: RefCell<HashMap<String, (u64, Value)>>,
    outcomes: HashMap<String, u64>,
    micro_calls: u64,
    serve_checks: RefCell<u64>,
}

fn new_store() -> (BlockstoreImpl, mpsc::Receiver<BlockstoreEvent>) {
    let (tx, rx) = mpsc::channel(4096);
    (BlockstoreImpl::new(tx), rx)
}

impl BsDriver {
    pub fn new(seed: u64) -> Self {
        let mut rng = StdRng::seed_from_u64(seed ^ 0xC13_5EED);
        let sk = SecretKey::new(&mut rng);
        let pk = sk.to_pk();
        let (store, rx) = new_store();
        let d = Self {
            seed,
            sk,
            pk,
            world: World::new(&[1, 1, 1], seed),
            scen_cache: HashMap::new(),
            cur: None,
            role: String::new(),
            store,
            rx,
            log: Vec::new(),
            last_label: String::new(),
            last_why: RefCell::new(String::new()),
            fps: RefCell::new(HashMap::new()),
            outcomes: HashMap::new(),
            micro_calls: 0,
            serve_checks: RefCell::new(0),
        };
        d.self_test();
        d
    }

    /// the wire mirror must reproduce the real encoding byte for byte
    fn self_test(&self) {
        let slice = Slice {
            slot: Slot::new(7),
            slice_index: slice_index(1),
            is_last: false,
            parent: None,
            data: vec![1, 2, 3, 4, 5],
        };
        let shreds = RegularShredder::default().shred(&slice, &self.sk).expect("shred");
        for s in [&shreds[0], &shreds[63]] {
            let b = wire(s.as_shred());
            let w: WShred = wincode::deserialize(&b).expect("harness wire mirror of Shred is out of date");
            let b2 = wincode::serialize(&w).expect("serialize mirror");
            assert_eq!(b, b2, "harness wire mirror of Shred is out of date");
        }
    }

    fn parent_id(&self, name: &str, parslot: &Value) -> Option<BlockId> {
        if name == "none" {
            return None;
        }
        let slot = parslot[name].as_u64().unwrap_or_else(|| panic!("harness: no slot for parent {name}"));
        let h: BlockHash = alpenglow::crypto::hash::hash(format!("verif-c13-parent-{name}").as_bytes()).into();
        Some((Slot::new(slot), h))
    }

    fn real_slice(&self, slot: Slot, idx: usize, last: bool, parent: Option<BlockId>, data: Vec<u8>) -> Slice {
        Slice { slot, slice_index: slice_index(idx), is_last: last, parent, data }
    }

    fn payload_bytes(slice: &Slice) -> Vec<u8> {
        let mut b = wincode::serialize(&slice.parent).expect("serialize parent");
        b.extend(wincode::serialize(&slice.data).expect("serialize data"));
        b
    }

    fn finish_slice(&self, idx: usize, payload: Option<Vec<u8>>, valid: Vec<ValidatedShred>, txs: Vec<Vec<u8>>) -> CSlice {
        assert_eq!(valid.len(), TOTAL_SHREDS);
        let raw: Vec<Shred> = valid.iter().map(|v| v.as_shred().clone()).collect();
        let wire: Vec<Vec<u8>> = raw.iter().map(wire).collect();
        let root = valid[0].slice_root().clone();
        let commitment = valid[0].commitment();
        for v in &valid {
            assert!(v.commitment() == commitment, "harness: inconsistent commitments within a slice");
        }
        CSlice { idx, payload, valid, raw, wire, root, commitment, txs }
    }

    /// a validly signed slice whose payload bytes are no `SlicePayload`: the XOR of two codewords of the
    /// (linear) Reed-Solomon code is a codeword; the XOR of two payloads of different data length keeps a
    /// valid padding but its length prefix no longer matches.
    fn garbage_slice(&self, slot: Slot, idx: usize, last: bool, parent: Option<BlockId>, ntx: usize) -> CSlice {
        let l = 4 + 2 * (ntx % 4);
        let a = self.real_slice(slot, idx, last, parent.clone(), tx_bytes(self.seed, idx, 1000 + ntx, l));
        let b = self.real_slice(slot, idx, last, parent, tx_bytes(self.seed, idx, 2000 + ntx, l + 2));
        let mut sh = RegularShredder::default();
        let sa = sh.shred(&a, &self.sk).expect("shred");
        let sb = sh.shred(&b, &self.sk).expect("shred");
        let shards: Vec<Vec<u8>> = (0..TOTAL_SHREDS)
            .map(|i| {
                let x = shard_of(&wire(sa[i].as_shred()));
                let y = shard_of(&wire(sb[i].as_shred()));
                assert_eq!(x.len(), y.len(), "harness: garbage slice needs equal shard sizes");
                x.iter().zip(&y).map(|(p, q)| p ^ q).collect()
            })
            .collect();
        let tree = SliceMerkleTree::new(shards.iter());
        let root = tree.get_root();
        let mut msg = Vec::with_capacity(49);
        msg.extend_from_slice(&slot.inner().to_le_bytes());
        msg.extend_from_slice(&(idx as u64).to_le_bytes());
        msg.push(u8::from(last));
        msg.extend_from_slice(root.as_ref());
        let sig = wincode::serialize(&self.sk.sign_bytes(&msg)).expect("serialize signature");
        let sig: [u8; 64] = sig.as_slice().try_into().expect("signature is 64 bytes");
        let mut valid = Vec::new();
        for (i, data) in shards.iter().enumerate() {
            let proof = tree.create_proof(i);
            let path: Vec<[u8; 32]> = proof
                .as_ref()
                .iter()
                .map(|h| <[u8; 32]>::try_from(h.as_ref()).expect("hash is 32 bytes"))
                .collect();
            let p = WPayload {
                header: WHeader { slot: slot.inner(), slice_index: idx as u64, is_last: last },
                shred_index: i as u64,
                data: data.clone(),
            };
            let w = WShred {
                payload_type: if i < 32 { WType::Data(p) } else { WType::Coding(p) },
                slice_sig: sig,
                merkle_path: path,
            };
            let bytes = wincode::serialize(&w).expect("serialize crafted shred");
            let shred: Shred = wincode::deserialize(&bytes).expect("crafted shred must decode");
            valid.push(ValidatedShred::try_new(shred, None, &self.pk).expect("crafted shred must be validly signed"));
        }
        self.finish_slice(idx, None, valid, vec![])
    }

    fn concretise(&self, act: &Value) -> Scen {
        let sc = &act["sc"];
        let slot = Slot::new(act["slot"].as_u64().expect("slot"));
        let parslot = &act["parslot"];
        let mut slices = Vec::new();
        for u in sc["sl"].as_array().expect("sl") {
            let idx = u["idx"].as_u64().expect("idx") as usize;
            let last = u["last"].as_bool().expect("last");
            let parent = self.parent_id(u["par"].as_str().expect("par"), parslot);
            let ntx = u["ntx"].as_u64().expect("ntx") as usize;
            let cs = match u["body"].as_str().expect("body") {
                "tx" => {
                    let len = if ntx > 8 { alpenglow::MAX_TRANSACTION_SIZE } else { 24 };
                    let txs: Vec<Vec<u8>> = (0..ntx).map(|j| tx_bytes(self.seed, idx, j, len)).collect();
                    let t: Vec<Transaction> = txs.iter().map(|b| Transaction(b.clone())).collect();
                    let data = wincode::serialize(&t).expect("serialize transactions");
                    let slice = self.real_slice(slot, idx, last, parent, data);
                    let shreds = RegularShredder::default().shred(&slice, &self.sk).expect("shred");
                    self.finish_slice(idx, Some(Self::payload_bytes(&slice)), shreds.into_iter().collect(), txs)
                }
                "undec" => {
                    // claims three transactions, carries a few stray bytes
                    let mut data = vec![3u8, 0, 0, 0, 0, 0, 0, 0];
                    data.extend(tx_bytes(self.seed, idx, 3000 + ntx, 5 + ntx % 7));
                    let slice = self.real_slice(slot, idx, last, parent, data);
                    let shreds = RegularShredder::default().shred(&slice, &self.sk).expect("shred");
                    self.finish_slice(idx, Some(Self::payload_bytes(&slice)), shreds.into_iter().collect(), vec![])
                }
                "garbage" => self.garbage_slice(slot, idx, last, parent, ntx),
                o => panic!("harness: unknown slice body {o}"),
            };
            slices.push(cs);
        }
        // distinct signed slices must be distinct for the code, too
        for i in 0..slices.len() {
            for j in 0..i {
                assert!(slices[i].commitment != slices[j].commitment, "harness: two scenario slices share a commitment");
            }
        }
        let blocks = act["blocks"]
            .as_array()
            .expect("blocks")
            .iter()
            .map(|b| (b[0].as_u64().expect("lo") as usize, b[1].as_u64().expect("hi") as usize))
            .collect();
        let mut parents = Vec::new();
        if let Some(o) = parslot.as_object() {
            for name in o.keys() {
                parents.push((name.clone(), self.parent_id(name, parslot).expect("parent")));
            }
        }
        let honest = sc["honest"].as_bool().unwrap_or(false);
        let n = sc["n"].as_u64().unwrap_or(0) as usize;
        let leader_hash = if honest && n > 0 && n <= slices.len() {
            Some(DoubleMerkleTree::new(slices[..n].iter().map(|s| &s.root)).get_root())
        } else {
            None
        };
        Scen {
            cls: sc["cls"].as_str().expect("cls").to_string(),
            honest,
            n,
            leader_hash,
            slices,
            blocks,
            max_idx: act["maxidx"].as_u64().expect("maxidx") as usize,
            slot,
            parents,
        }
    }

    fn parent_name(&self, sc: &Scen, p: &BlockId) -> String {
        for (n, id) in &sc.parents {
            if id.0 == p.0 && hash_bytes(&id.1) == hash_bytes(&p.1) {
                return n.clone();
            }
        }
        format!("?{}:{}", p.0.inner(), crate::world::hex(&hash_bytes(&p.1)[..6]))
    }

    fn drain_events(&mut self, sc: &Scen, returned: Option<&BlockInfo>) -> Vec<Value> {
        let mut evs = Vec::new();
        while let Ok(e) = self.rx.try_recv() {
            let name = match &e {
                BlockstoreEvent::FirstShred(s) if *s == sc.slot => "FirstShred".to_string(),
                BlockstoreEvent::InvalidBlock(s) if *s == sc.slot => "InvalidBlock".to_string(),
                BlockstoreEvent::Block { slot, block_info } if *slot == sc.slot => {
                    // the event must describe the block the call returned
                    match returned {
                        Some(r) if r == block_info => "Block".to_string(),
                        _ => "Block!differs-from-return-value".to_string(),
                    }
                }
                o => format!("wrong-slot:{o:?}"),
            };
            evs.push(json!(name));
        }
        evs
    }

    /// (slice numbers behind the hash, parent, transactions) of an announced / stored block
    fn block_view(&self, sc: &Scen, hash: &BlockHash, parent: &BlockId, txs: Option<&[Transaction]>) -> Value {
        // which scenario slices does the store hold at 0..=last?
        let last = self.store.verif_last_slice(sc.slot);
        let mut nos: Vec<i64> = Vec::new();
        let mut roots: Vec<SliceRoot> = Vec::new();
        let mut want_txs: Vec<Vec<u8>> = Vec::new();
        if let Some(last) = last {
            for i in 0..=last {
                let c = self.store.cached_commitment(sc.slot, slice_index(i));
                match c.and_then(|c| sc.slices.iter().position(|s| s.commitment == c)) {
                    Some(k) => {
                        // a root is named by the first scenario slice of that index carrying it
                        let first = sc.slices.iter().position(|s| s.idx == i && s.root == sc.slices[k].root).unwrap_or(k);
                        nos.push(first as i64 + 1);
                        roots.push(sc.slices[k].root.clone());
                        want_txs.extend(sc.slices[k].txs.iter().cloned());
                    }
                    None => nos.push(0),
                }
            }
        }
        let hash_ok = !roots.is_empty()
            && roots.len() == nos.len()
            && hash_bytes(&DoubleMerkleTree::new(roots.iter()).get_root()) == hash_bytes(hash);
        let hash_view = if hash_ok { json!(nos) } else { json!(["hash-is-not-the-double-merkle-root-of-the-held-slice-roots"]) };
        let ntx = match txs {
            None => Value::Null,
            Some(t) => {
                if t.len() == want_txs.len() && t.iter().zip(&want_txs).all(|(a, b)| &a.0 == b) {
                    json!(t.len())
                } else {
                    json!(format!("transactions-differ({})", t.len()))
                }
            }
        };
        json!({"ok": true, "hash": hash_view, "par": self.parent_name(sc, parent), "ntx": ntx})
    }

    fn pool_handover(&mut self, sc: &Scen, info: &BlockInfo) -> String {
        // consensus.rs: `pool.add_block((slot, hash), parent)` inside the node's message loop
        let (ptx, _prx) = mpsc::channel(64);
        let (rtx, _rrx) = mpsc::channel(64);
        let mut pool = PoolImpl::new(self.world.validator_epoch(0), ptx, rtx);
        let id = (sc.slot, info.verif_hash().clone());
        let par = info.verif_parent().clone();
        let r = catch_unwind(AssertUnwindSafe(|| futures::executor::block_on(pool.add_block(id, par))));
        match r {
            Ok(()) => "ok".to_string(),
            Err(p) => format!("panic:{}", panic_msg(p)),
        }
    }

    fn bump(&mut self, key: String) {
        *self.outcomes.entry(key).or_default() += 1;
    }

    fn record_fp(&self, fp: String, fields: &[String], expected: &Value, observed: &Value) {
        let mut m = self.fps.borrow_mut();
        let e = m.entry(fp.clone()).or_insert_with(|| {
            (
                0,
                json!({"fingerprint": fp, "step": self.log.len().saturating_sub(1), "fields": fields,
                       "expected": expected, "observed": observed, "walk": self.log}),
            )
        });
        e.0 += 1;
    }

    fn deliver(&mut self, sc: &Rc<Scen>, k: usize, b: usize, via: &str) -> Value {
        let cs = &sc.slices[k - 1];
        let (lo, hi) = sc.blocks[b - 1];
        let mut rets: Vec<Value> = Vec::new();
        let mut evs: Vec<Value> = Vec::new();
        let mut blk = json!({"ok": false, "hash": [], "par": "none", "ntx": 0});
        let mut pool = "-".to_string();
        let mut panic = String::new();
        for r in lo..=hi {
            self.micro_calls += 1;
            let validated = match via {
                "direct" => Some(cs.valid[r].clone()),
                _ => {
                    // consensus.rs, handle_disseminator_shred: validate against the cached commitment;
                    // whatever fails validation is dropped
                    let cached = self.store.cached_commitment(sc.slot, slice_index(cs.idx));
                    match ValidatedShred::try_new(cs.raw[r].clone(), cached.as_ref(), &self.pk) {
                        Ok(v) => Some(v),
                        Err(alpenglow::shredder::ShredValidationError::Equivocation) => {
                            // consensus.rs: the shred proves equivocation -> the leader is flagged
                            // (`Blockstore::flag_leader_misbehavior`), the shred itself is dropped
                            let store = &mut self.store;
                            futures::executor::block_on(store.flag_leader_misbehavior(sc.slot));
                            rets.push(json!("dropped"));
                            evs.extend(self.drain_events(sc, None));
                            None
                        }
                        Err(e) => {
                            rets.push(json!(format!("dropped:{e:?}")));
                            None
                        }
                    }
                }
            };
            let Some(v) = validated else { continue };
            let store = &mut self.store;
            let res = catch_unwind(AssertUnwindSafe(|| futures::executor::block_on(store.add_shred_from_dissemination(v))));
            let mut returned: Option<BlockInfo> = None;
            match res {
                Ok(Ok(None)) => rets.push(json!("none")),
                Ok(Ok(Some(info))) => {
                    rets.push(json!("block"));
                    let txs = self
                        .store
                        .get_block(&(sc.slot, info.verif_hash().clone()))
                        .map(|b| b.verif_transactions().to_vec());
                    blk = self.block_view(sc, info.verif_hash(), info.verif_parent(), txs.as_deref());
                    if txs.is_none() {
                        blk["ntx"] = json!("announced-block-not-stored");
                    }
                    pool = self.pool_handover(sc, &info);
                    returned = Some(info);
                }
                Ok(Err(AddShredError::Duplicate)) => rets.push(json!("dup")),
                Ok(Err(AddShredError::Equivocation)) => rets.push(json!("equiv")),
                Ok(Err(AddShredError::InvalidShred)) => rets.push(json!("invalid")),
                Ok(Err(AddShredError::WrongKind)) => rets.push(json!("wrongkind")),
                Err(p) => {
                    panic = panic_msg(p);
                    rets.push(json!(format!("panic:{panic}")));
                }
            }
            evs.extend(self.drain_events(sc, returned.as_ref()));
            if !panic.is_empty() {
                break;
            }
        }
        for e in &evs {
            self.bump(format!("{}:ev:{}", sc.cls, e.as_str().unwrap_or("?")));
        }
        json!({"rets": rets, "evs": evs, "blk": blk, "pool": pool, "panic": panic})
    }

    /// repair.rs, handle_response(Shred): shreds are fully verified (no commitment cache) and filed under the
    /// hash the repair was started for; a completed block must carry that hash and is handed to the pool
    fn repair(&mut self, sc: &Rc<Scen>, k: usize, b: usize) -> Value {
        let cs = &sc.slices[k - 1];
        let (lo, hi) = sc.blocks[b - 1];
        let hash = sc.leader_hash.clone().expect("repair needs the leader's block hash");
        let mut rets: Vec<Value> = Vec::new();
        let mut evs: Vec<Value> = Vec::new();
        let mut blk = json!({"ok": false, "hash": [], "par": "none", "ntx": 0});
        let mut pool = "-".to_string();
        let mut panic = String::new();
        for r in lo..=hi {
            self.micro_calls += 1;
            let v = cs.valid[r].clone();
            let store = &mut self.store;
            let h = hash.clone();
            let res = catch_unwind(AssertUnwindSafe(|| futures::executor::block_on(store.add_shred_from_repair(h, v))));
            let mut returned: Option<BlockInfo> = None;
            match res {
                Ok(Ok(None)) => rets.push(json!("none")),
                Ok(Ok(Some(info))) => {
                    rets.push(json!("block"));
                    blk = self.leader_block_view(sc, info.verif_hash(), info.verif_parent());
                    pool = self.pool_handover(sc, &info);
                    returned = Some(info);
                }
                Ok(Err(AddShredError::Duplicate)) => rets.push(json!("dup")),
                Ok(Err(AddShredError::Equivocation)) => rets.push(json!("equiv")),
                Ok(Err(AddShredError::InvalidShred)) => rets.push(json!("invalid")),
                Ok(Err(AddShredError::WrongKind)) => rets.push(json!("wrongkind")),
                Err(p) => {
                    panic = panic_msg(p);
                    rets.push(json!(format!("panic:{panic}")));
                }
            }
            evs.extend(self.drain_events(sc, returned.as_ref()));
            if !panic.is_empty() {
                break;
            }
        }
        for e in &evs {
            self.bump(format!("{}:rep-ev:{}", sc.cls, e.as_str().unwrap_or("?")));
        }
        json!({"rets": rets, "evs": evs, "blk": blk, "pool": pool, "panic": panic})
    }

    /// a block announced for the repair of the leader's block: must be that block (hash as requested)
    fn leader_block_view(&self, sc: &Scen, hash: &BlockHash, parent: &BlockId) -> Value {
        let want = sc.leader_hash.as_ref().expect("leader hash");
        let hash_view = if hash_bytes(hash) == hash_bytes(want) {
            json!((1..=sc.n as i64).collect::<Vec<_>>())
        } else {
            json!(["repaired-block-has-another-hash-than-requested"])
        };
        let want_txs: Vec<&Vec<u8>> = sc.slices[..sc.n].iter().flat_map(|s| s.txs.iter()).collect();
        let ntx = match self.store.get_block(&(sc.slot, hash.clone())) {
            None => json!("announced-block-not-stored"),
            Some(b) => {
                let t = b.verif_transactions();
                if t.len() == want_txs.len() && t.iter().zip(&want_txs).all(|(a, b)| &a.0 == *b) {
                    json!(t.len())
                } else {
                    json!(format!("transactions-differ({})", t.len()))
                }
            }
        };
        json!({"ok": true, "hash": hash_view, "par": self.parent_name(sc, parent), "ntx": ntx})
    }

    /// honest scenarios: is the leader's block served completely for the id (slot, hash)?
    /// (block, last slice index, every slice root, every proof, all 64 shreds of every slice)
    fn serves_leader(&self, sc: &Scen) -> Result<(), String> {
        *self.serve_checks.borrow_mut() += 1;
        let hash = sc.leader_hash.as_ref().ok_or("no-leader-hash")?;
        let id: BlockId = (sc.slot, hash.clone());
        let block = self.store.get_block(&id).ok_or("get_block")?;
        if hash_bytes(block.verif_hash()) != hash_bytes(hash) || block.verif_slot() != sc.slot {
            return Err("get_block:hash-or-slot".into());
        }
        let want_txs: Vec<&Vec<u8>> = sc.slices[..sc.n].iter().flat_map(|s| s.txs.iter()).collect();
        let t = block.verif_transactions();
        if t.len() != want_txs.len() || !t.iter().zip(&want_txs).all(|(a, b)| &a.0 == *b) {
            return Err("get_block:transactions".into());
        }
        if self.store.get_last_slice_index(&id) != Some(slice_index(sc.n - 1)) {
            return Err("get_last_slice_index".into());
        }
        for i in 0..sc.n {
            let si = slice_index(i);
            let cs = &sc.slices[i];
            match self.store.get_slice_root(&id, si) {
                Some(r) if r == cs.root => {}
                _ => return Err(format!("get_slice_root:{i}")),
            }
            match self.store.create_double_merkle_proof(&id, si) {
                Some(p) if DoubleMerkleTree::check_proof(&cs.root, i, hash, &p) => {}
                _ => return Err(format!("create_double_merkle_proof:{i}")),
            }
            for r in 0..TOTAL_SHREDS {
                match self.store.get_shred(&id, si, ShredIndex::new(r).expect("shred index")) {
                    Some(s) if wire(s.as_shred()) == cs.wire[r] => {}
                    _ => return Err(format!("get_shred:{i}:{r}")),
                }
            }
        }
        if self.store.get_slice_root(&id, slice_index(sc.n)).is_some() {
            return Err("serves-a-slice-beyond-the-last".into());
        }
        Ok(())
    }

    /// what the getters show for the id (slot, hash of the leader's block)
    fn getter_view(&self, sc: &Scen) -> Value {
        let Some(hash) = sc.leader_hash.as_ref() else {
            return json!({"last": -1, "blk": false, "held": []});
        };
        let id: BlockId = (sc.slot, hash.clone());
        let last = self.store.get_last_slice_index(&id).map_or(-1, |l| l.to_string().parse::<i64>().unwrap_or(-9));
        let blk = self.store.get_block(&id).is_some();
        let mut held = Vec::new();
        for i in 0..=sc.max_idx {
            let si = slice_index(i);
            let mut h = [false; TOTAL_SHREDS];
            for (r, hr) in h.iter_mut().enumerate() {
                if let Some(s) = self.store.get_shred(&id, si, ShredIndex::new(r).expect("shred index")) {
                    // whatever is served must be the leader's shred
                    *hr = sc.slices.iter().any(|cs| cs.idx == i && cs.wire[r] == wire(s.as_shred()));
                    if !*hr {
                        return json!({"last": last, "blk": blk, "held": format!("get_shred:{i}:{r}:foreign-shred")});
                    }
                }
            }
            let n = h.iter().filter(|x| **x).count();
            let groups: Vec<usize> =
                sc.blocks.iter().enumerate().filter(|(_, (lo, hi))| (*lo..=*hi).all(|r| h[r])).map(|(b, _)| b + 1).collect();
            // a slice root is served exactly for the slices with at least one shred
            if self.store.get_slice_root(&id, si).is_some() != (n > 0) {
                return json!({"last": last, "blk": blk, "held": format!("get_slice_root:{i}:presence")});
            }
            held.push(json!({"n": n, "groups": groups}));
        }
        json!({"last": last, "blk": blk, "held": held})
    }

    fn own(&mut self, sc: &Rc<Scen>, k: usize) -> Value {
        let cs = &sc.slices[k - 1];
        let payload = SlicePayload::try_from(cs.payload.as_deref().expect("own slice has a payload")).expect("own payload decodes");
        let shreds: [ValidatedShred; TOTAL_SHREDS] = cs.valid.clone().try_into().map_err(|_| ()).expect("64 shreds");
        let store = &mut self.store;
        let res = catch_unwind(AssertUnwindSafe(|| futures::executor::block_on(store.add_own_slice(payload, Box::new(shreds)))));
        let mut blk = json!({"ok": false, "hash": [], "par": "none", "ntx": 0});
        let mut pool = "-".to_string();
        let mut panic = String::new();
        let mut returned = None;
        let ret = match res {
            Ok(None) => "none".to_string(),
            Ok(Some(info)) => {
                let txs = self
                    .store
                    .get_block(&(sc.slot, info.verif_hash().clone()))
                    .map(|b| b.verif_transactions().to_vec());
                blk = self.block_view(sc, info.verif_hash(), info.verif_parent(), txs.as_deref());
                pool = self.pool_handover(sc, &info);
                returned = Some(info);
                "block".to_string()
            }
            Err(p) => {
                panic = panic_msg(p);
                format!("panic:{panic}")
            }
        };
        let evs = self.drain_events(sc, returned.as_ref());
        for e in &evs {
            self.bump(format!("{}:own-ev:{}", sc.cls, e.as_str().unwrap_or("?")));
        }
        json!({"rets": [ret], "evs": evs, "blk": blk, "pool": pool, "panic": panic})
    }

    /// every shred, slice root and proof of slices 0..=last is served and verifies
    fn serves_all(&self, sc: &Scen, hash: &BlockHash) -> Value {
        *self.serve_checks.borrow_mut() += 1;
        let id: BlockId = (sc.slot, hash.clone());
        let Some(last) = self.store.verif_last_slice(sc.slot) else {
            return json!("no-last-slice");
        };
        if self.store.get_last_slice_index(&id) != Some(slice_index(last)) {
            return json!("get_last_slice_index");
        }
        let Some(block) = self.store.get_block(&id) else {
            return json!("get_block");
        };
        if hash_bytes(block.verif_hash()) != hash_bytes(hash) || block.verif_slot() != sc.slot {
            return json!("get_block:hash-or-slot");
        }
        for i in 0..=last {
            let si = slice_index(i);
            let Some(c) = self.store.cached_commitment(sc.slot, si) else {
                return json!(format!("no-commitment:{i}"));
            };
            let Some(k) = sc.slices.iter().position(|s| s.commitment == c) else {
                return json!(format!("unknown-commitment:{i}"));
            };
            let cs = &sc.slices[k];
            match self.store.get_slice_root(&id, si) {
                Some(r) if r == cs.root => {}
                _ => return json!(format!("get_slice_root:{i}")),
            }
            match self.store.create_double_merkle_proof(&id, si) {
                Some(p) if DoubleMerkleTree::check_proof(&cs.root, i, hash, &p) => {}
                _ => return json!(format!("create_double_merkle_proof:{i}")),
            }
            for r in 0..TOTAL_SHREDS {
                match self.store.get_shred(&id, si, ShredIndex::new(r).expect("shred index")) {
                    Some(s) if wire(s.as_shred()) == cs.wire[r] && s.slice_root() == &cs.root => {}
                    _ => return json!(format!("get_shred:{i}:{r}")),
                }
            }
        }
        // nothing is served beyond the last slice
        if self.store.get_slice_root(&id, slice_index(last + 1)).is_some() {
            return json!("serves-a-slice-beyond-the-last");
        }
        json!(true)
    }
}

fn rle(v: &Value) -> String {
    let Some(a) = v.as_array() else { return v.to_string() };
    let mut out: Vec<String> = Vec::new();
    let mut i = 0;
    while i < a.len() {
        let mut j = i;
        while j < a.len() && a[j] == a[i] {
            j += 1;
        }
        let s = a[i].as_str().map_or_else(|| a[i].to_string(), str::to_string);
        // panic texts and the like: keep the class only
        let s = s.split(':').take(2).collect::<Vec<_>>().join(":");
        let s: String = s.chars().filter(|c| c.is_ascii_alphanumeric() || *c == ':' || *c == '_').take(60).collect();
        out.push(if j - i > 1 { format!("{s}*{}", j - i) } else { s });
        i = j;
    }
    if out.is_empty() { "-".to_string() } else { out.join("+") }
}

fn as_set(v: &Value) -> Vec<String> {
    let mut s: Vec<String> = v.as_array().map(|a| a.iter().map(Value::to_string).collect()).unwrap_or_default();
    s.sort();
    s
}

impl Driver for BsDriver {
    fn reset(&mut self) {
        let (store, rx) = new_store();
        self.store = store;
        self.rx = rx;
        self.cur = None;
        self.role.clear();
        self.log.clear();
        // Pool::add_block appends to the process-global verification log
        let _ = alpenglow::verif::drain();
    }

    fn step(&mut self, act: &Value) -> Value {
        self.log.push(act.clone());
        let op = act["op"].as_str().unwrap_or("");
        match op {
            "setup" => {
                let key = format!("{}|{}|{}|{}|{}", act["sc"], act["blocks"], act["slot"], act["parslot"], act["maxidx"]);
                let sc = match self.scen_cache.get(&key) {
                    Some(s) => s.clone(),
                    None => {
                        let s = Rc::new(self.concretise(act));
                        self.scen_cache.insert(key, s.clone());
                        s
                    }
                };
                self.cur = Some(sc);
                self.role = act["role"].as_str().unwrap_or("").to_string();
                self.last_label = "setup".to_string();
                json!({"rets": [], "evs": [], "blk": {"ok": false, "hash": [], "par": "none", "ntx": 0}, "pool": "-", "panic": ""})
            }
            "deliver" => {
                let sc = self.cur.clone().expect("setup first");
                let via = act["via"].as_str().unwrap_or("node").to_string();
                self.last_label = format!("deliver:{}:{}", sc.cls, via);
                let out = self.deliver(&sc, act["k"].as_u64().expect("k") as usize, act["b"].as_u64().expect("b") as usize, &via);
                let kinds: std::collections::BTreeSet<String> = out["rets"]
                    .as_array()
                    .map(|a| a.iter().filter_map(|x| x.as_str().map(|s| s.split(':').next().unwrap_or("").to_string())).collect())
                    .unwrap_or_default();
                for kd in kinds {
                    self.bump(format!("{}:ret:{}", sc.cls, kd));
                }
                out
            }
            "repair" => {
                let sc = self.cur.clone().expect("setup first");
                self.last_label = format!("repair:{}", sc.cls);
                self.repair(&sc, act["k"].as_u64().expect("k") as usize, act["b"].as_u64().expect("b") as usize)
            }
            "own" => {
                let sc = self.cur.clone().expect("setup first");
                self.last_label = format!("own:{}", sc.cls);
                self.own(&sc, act["k"].as_u64().expect("k") as usize)
            }
            o => json!({"panic": format!("harness: unknown op {o}")}),
        }
    }

    fn obs(&mut self) -> Value {
        let Some(sc) = self.cur.clone() else {
            return json!({"unset": true});
        };
        let slot = sc.slot;
        let bad = self.store.verif_leader_misbehaved(slot);
        let hash = self.store.disseminated_block_hash(slot).cloned();
        let (done, serve) = match &hash {
            None => (json!({"ok": false, "hash": [], "par": "none", "ntx": 0}), json!(false)),
            Some(h) => match self.store.get_block(&(slot, h.clone())) {
                None => (json!({"ok": true, "hash": ["get_block-is-none"], "par": "?", "ntx": -1}), json!(false)),
                Some(b) => {
                    let par = b.verif_parent();
                    let txs = b.verif_transactions().to_vec();
                    (self.block_view(&sc, h, &par, Some(&txs)), self.serves_all(&sc, h))
                }
            },
        };
        if bad && hash.is_some() {
            self.bump(format!("{}:obs:done-then-flagged", sc.cls));
        }
        // a correct leader's block: served for (slot, hash) as soon as EITHER spot completed it
        let mut serve_detail = Value::Null;
        let serve = if sc.honest {
            match self.serves_leader(&sc) {
                Ok(()) => json!(true),
                Err(e) => {
                    serve_detail = json!(e);
                    json!(false)
                }
            }
        } else {
            serve
        };
        let get = self.getter_view(&sc);
        if sc.honest && hash.is_some() && get["held"][0]["n"] == json!(TOTAL_SHREDS) {
            self.bump(format!("{}:obs:served-after-dissemination", sc.cls));
        }
        if bad {
            return json!({"bad": true, "done": done, "serve": serve, "serve_detail": serve_detail, "get": get,
                          "last": -2, "cache": [], "held": [], "rec": []});
        }
        let last = self.store.verif_last_slice(slot).map_or(-1, |l| l as i64);
        let mut cache = Vec::new();
        for i in 0..=sc.max_idx {
            let c = self.store.cached_commitment(slot, slice_index(i));
            cache.push(match c {
                None => 0,
                Some(c) => sc.slices.iter().position(|s| s.commitment == c).map_or(99, |k| k as i64 + 1),
            });
        }
        let held_real = self.store.verif_held(slot);
        let mut held = Vec::new();
        for i in 0..=sc.max_idx {
            let h: Vec<usize> = held_real.iter().find(|(s, _)| *s == i).map(|(_, v)| v.clone()).unwrap_or_default();
            let groups: Vec<usize> = sc
                .blocks
                .iter()
                .enumerate()
                .filter(|(_, (lo, hi))| (*lo..=*hi).all(|r| h.contains(&r)))
                .map(|(b, _)| b + 1)
                .collect();
            held.push(json!({"n": h.len(), "groups": groups}));
        }
        let extra: Vec<usize> = held_real.iter().filter(|(s, v)| *s > sc.max_idx && !v.is_empty()).map(|(s, _)| *s).collect();
        let rec: Vec<usize> = if hash.is_some() { vec![] } else { self.store.verif_reconstructed(slot) };
        let mut o = json!({"bad": false, "done": done, "serve": serve, "serve_detail": serve_detail, "get": get,
                           "last": last, "cache": cache, "held": held, "rec": rec});
        if !extra.is_empty() {
            o["held_beyond_model"] = json!(extra);
        }
        o
    }

    fn diff_out(&mut self, _act: &Value, exp: &Value, got: &Value) -> Vec<String> {
        let mut f = Vec::new();
        if got.get("rets").is_none() {
            f.push("harness".to_string());
        } else {
            if exp["rets"] != got["rets"] {
                f.push(format!("rets:{}=>{}", rle(&exp["rets"]), rle(&got["rets"])));
            }
            if exp["evs"] != got["evs"] {
                f.push(format!("evs:{}=>{}", rle(&exp["evs"]), rle(&got["evs"])));
            }
            if exp["blk"] != got["blk"] {
                f.push("blk".to_string());
            }
            let gp = got["pool"].as_str().unwrap_or("?");
            if exp["pool"].as_str().unwrap_or("") != gp {
                f.push(format!("pool:{}", gp.split(':').next().unwrap_or("?")));
            }
        }
        let why = exp["why"].as_str().filter(|w| !w.is_empty()).unwrap_or("-").to_string();
        *self.last_why.borrow_mut() = why.clone();
        if !f.is_empty() {
            let fp = format!("{}|{}|{}", self.last_label, why, f.join(","));
            self.record_fp(fp, &f, &json!({"out": exp}), &json!({"out": got}));
        }
        f
    }

    fn diff_obs(&self, exp: &Value, got: &Value) -> Vec<String> {
        let mut f = Vec::new();
        if exp.get("bad").is_none() || got.get("bad").is_none() {
            // before setup there is nothing to compare
            return f;
        }
        for k in ["bad", "done", "serve", "last", "cache"] {
            if exp[k] != got[k] {
                f.push(k.to_string());
            }
        }
        let (eh, gh) = (exp["held"].as_array().cloned().unwrap_or_default(), got["held"].as_array().cloned().unwrap_or_default());
        if eh.len() != gh.len()
            || eh.iter().zip(&gh).any(|(a, b)| a["n"] != b["n"] || as_set(&a["groups"]) != as_set(&b["groups"]))
        {
            f.push("held".to_string());
        }
        if as_set(&exp["rec"]) != as_set(&got["rec"]) {
            f.push("rec".to_string());
        }
        // getters by block id (dissemination spot if it completed that hash, else the repair spot)
        let (eg, gg) = (&exp["get"], &got["get"]);
        if !eg.is_null() {
            if eg["last"] != gg["last"] {
                f.push("get.last".to_string());
            }
            if eg["blk"] != gg["blk"] {
                f.push("get.blk".to_string());
            }
            let (eh, gh) = (eg["held"].as_array().cloned().unwrap_or_default(), gg["held"].as_array().cloned());
            match gh {
                Some(gh) if eh.len() == gh.len()
                    && eh.iter().zip(&gh).all(|(a, b)| a["n"] == b["n"] && as_set(&a["groups"]) == as_set(&b["groups"])) => {}
                _ => f.push("get.held".to_string()),
            }
        }
        if got.get("held_beyond_model").is_some() {
            f.push("held_beyond_model".to_string());
        }
        if !f.is_empty() {
            let fields: Vec<String> = f.iter().map(|x| format!("obs.{x}")).collect();
            let fp = format!("{}|{}|{}", self.last_label, self.last_why.borrow(), fields.join(","));
            self.record_fp(fp, &fields, &json!({"obs": exp}), &json!({"obs": got}));
        }
        f
    }

    fn act_label(&self, act: &Value) -> String {
        match act["op"].as_str().unwrap_or("?") {
            "setup" => "setup".to_string(),
            // the engine asks right after the step: the scenario is the current one
            _ => self.last_label.clone(),
        }
    }
}

fn arg_after(args: &[String], name: &str) -> Option<String> {
    args.iter().position(|a| a == name).and_then(|i| args.get(i + 1).cloned())
}

/// Minimal reproductions of the recorded findings, straight against the real store (no TLC output needed):
/// `verif-harness replay-blockstore --repro`.
fn repro(seed: u64) -> Value {
    let mut d = BsDriver::new(seed);
    let sl = |idx: u64, last: bool, par: &str, ntx: u64| json!({"idx": idx, "last": last, "par": par, "body": "tx", "ntx": ntx});
    let setup = |cls: &str, sl: Vec<Value>| {
        json!({"op": "setup", "role": "follower", "slot": 5, "maxidx": 2,
               "sc": {"cls": cls, "n": 1, "honest": false, "sl": sl},
               "blocks": [[0, 15], [16, 31], [32, 47], [48, 63]],
               "parslot": {"A": 3, "B": 4, "C": 2, "L": 9, "S": 5}})
    };
    let dl = |k: u64, b: u64, via: &str| json!({"op": "deliver", "k": k, "b": b, "via": via});
    let mut out = serde_json::Map::new();
    let mut run = |d: &mut BsDriver, name: &str, acts: Vec<Value>| {
        d.reset();
        let mut steps = Vec::new();
        for a in acts {
            let o = d.step(&a);
            if a["op"] != "setup" {
                steps.push(json!({"act": a, "returns": rle(&o["rets"]), "events": o["evs"], "block": o["blk"]["ok"]}));
            }
        }
        let obs = d.obs();
        out.insert(name.to_string(), json!({"steps": steps, "flagged": obs["bad"], "block_stored": obs["done"]["ok"]}));
    };
    // slice 0 is signed as the last slice; the leader also signed a slice 1
    let two = || vec![sl(0, true, "A", 2), sl(1, false, "none", 1)];
    run(&mut d, "late_marker: slice 1 first, then the last marker of slice 0",
        vec![setup("beyond_last", two()), dl(2, 1, "direct"), dl(2, 2, "direct"), dl(1, 1, "direct"), dl(1, 2, "direct")]);
    run(&mut d, "reverse order: last marker of slice 0 first, then slice 1",
        vec![setup("beyond_last", two()), dl(1, 1, "direct"), dl(2, 1, "direct")]);
    // two signed slices for index 0 with different content
    let conf = || vec![sl(0, true, "A", 2), sl(0, true, "A", 3)];
    run(&mut d, "conflicting slices through the node's validation (cached commitment)",
        vec![setup("conflict_content", conf()), dl(1, 1, "node"), dl(2, 1, "node"), dl(1, 2, "node")]);
    run(&mut d, "conflicting slices handed to the store directly",
        vec![setup("conflict_content", conf()), dl(1, 1, "direct"), dl(2, 1, "direct"), dl(1, 2, "direct")]);
    Value::Object(out)
}

pub fn run(args: &[String], seed: u64) -> anyhow::Result<Value> {
    if args.iter().any(|a| a == "--repro") {
        return Ok(repro(seed));
    }
    let path = arg_after(args, "--tlc-out").expect("--tlc-out");
    let model = arg_after(args, "--model").unwrap_or_else(|| "blockstore".to_string());
    let sample = arg_after(args, "--sample").and_then(|s| s.parse().ok());
    let budget_s = arg_after(args, "--budget").and_then(|s| s.parse().ok()).unwrap_or(0);
    let g = graph::Graph::load(&path)?;
    let mut d = BsDriver::new(seed);
    // known findings may diverge on many transitions: never stop early, classify by fingerprint
    let opts = graph::ReplayOpts { sample, seed, max_div: usize::MAX, budget_s };
    let rep = graph::replay(&g, &mut d, &opts);
    let mut out = rep.to_json(&model);
    let fps = d.fps.borrow();
    let mut counts = serde_json::Map::new();
    let mut divs = Vec::new();
    let mut keys: Vec<&String> = fps.keys().collect();
    keys.sort();
    for k in keys {
        counts.insert(k.clone(), json!(fps[k].0));
        divs.push(fps[k].1.clone());
    }
    out["fingerprints"] = Value::Object(counts);
    out["divergences"] = Value::Array(divs);
    out["outcomes"] = json!(d.outcomes);
    out["micro_calls"] = json!(d.micro_calls);
    out["serve_checks"] = json!(*d.serve_checks.borrow());
    out["scenarios"] = json!(d.scen_cache.len());
    Ok(out)
}
