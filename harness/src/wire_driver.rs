//! C19 wire format: replays the cases enumerated by `spec/MC_Wire.tla` against the real
//! encoder (`wincode::serialize`, which is all `alpenglow::serialize` does) and the real
//! decoder (`alpenglow::network::deserialize`).
//!
//! A case is `{m: message descriptor, mal: malformed class, size, msize, ops, verdict, strict,
//! resize, same, eq, kind}`; every expectation comes from the specification.  This driver only
//! concretises the descriptor (real keys, real shredders, real Merkle proofs), applies the byte
//! edits `ops` the specification derived from its field layout, runs the code and compares.

use std::collections::{HashMap, HashSet};
use std::panic::{AssertUnwindSafe, catch_unwind};
use std::sync::Arc;

use alpenglow::consensus::{
    Cert, ConsensusMessage, FastFinalCert, FinalCert, FinalVote, NotarCert, NotarFallbackCert,
    NotarFallbackVote, NotarVote, SkipCert, SkipFallbackVote, SkipVote, Vote,
};
use alpenglow::crypto::merkle::{BlockHash, DoubleMerkleProof, DoubleMerkleTree, SliceRoot};
use alpenglow::crypto::{aggsig, signature};
use alpenglow::network::{MTU_BYTES, deserialize, localhost_ip_sockaddr};
use alpenglow::repair::{RepairRequest, RepairRequestType, RepairResponse};
use alpenglow::shredder::{
    AontShredder, CodingOnlyShredder, PetsShredder, RegularShredder, Shred, ShredIndex, Shredder,
};
use alpenglow::types::{Slice, SliceIndex, Slot};
use alpenglow::{BlockId, Stake, Transaction, ValidatorIndex, ValidatorInfo};
use rand::rngs::StdRng;
use rand::{Rng, SeedableRng};
use serde_json::{Value, json};

use crate::cases::CaseReport;

/// Keys and pre-signed votes of all validators (shared by the worker threads).
pub struct Keys {
    validators: Vec<ValidatorInfo>,
    leader_sk: signature::SecretKey,
    hash: BlockHash,
    slot: Slot,
    notar: Vec<NotarVote>,
    nf: Vec<NotarFallbackVote>,
    skip: Vec<SkipVote>,
    sf: Vec<SkipFallbackVote>,
    fin: Vec<FinalVote>,
    seed: u64,
}

impl Keys {
    fn new(n: usize, seed: u64, threads: usize) -> Self {
        let slot = Slot::new(7);
        let hash: BlockHash = alpenglow::crypto::hash::hash(b"verif-wire-block").into();
        let mut rng = StdRng::seed_from_u64(seed ^ 0x19C1_9C19);
        let leader_sk = signature::SecretKey::new(&mut rng);
        let mut sks = Vec::with_capacity(n);
        let mut voting_sks = Vec::with_capacity(n);
        for _ in 0..n {
            sks.push(signature::SecretKey::new(&mut rng));
            voting_sks.push(aggsig::SecretKey::new(&mut rng));
        }
        let validators: Vec<ValidatorInfo> = (0..n)
            .map(|i| ValidatorInfo {
                id: ValidatorIndex::new(i as u64),
                stake: Stake::new(1 + (i as u64 % 7)),
                pubkey: sks[i].to_pk(),
                voting_pubkey: voting_sks[i].to_pk(),
                all2all_address: localhost_ip_sockaddr(0),
                disseminator_address: localhost_ip_sockaddr(0),
                repair_requester_address: localhost_ip_sockaddr(0),
                repair_responder_address: localhost_ip_sockaddr(0),
            })
            .collect();
        // sign one vote of every kind per validator, in parallel
        type Signed = (NotarVote, NotarFallbackVote, SkipVote, SkipFallbackVote, FinalVote);
        let chunk = n.div_ceil(threads.max(1)).max(1);
        let mut signed: Vec<Signed> = Vec::with_capacity(n);
        std::thread::scope(|s| {
            let handles: Vec<_> = (0..n)
                .step_by(chunk)
                .map(|lo| {
                    let hi = (lo + chunk).min(n);
                    let sks = &voting_sks;
                    let hash = &hash;
                    s.spawn(move || {
                        (lo..hi)
                            .map(|i| {
                                let v = ValidatorIndex::new(i as u64);
                                (
                                    NotarVote::new(slot, hash.clone(), &sks[i], v),
                                    NotarFallbackVote::new(slot, hash.clone(), &sks[i], v),
                                    SkipVote::new(slot, &sks[i], v),
                                    SkipFallbackVote::new(slot, &sks[i], v),
                                    FinalVote::new(slot, &sks[i], v),
                                )
                            })
                            .collect::<Vec<Signed>>()
                    })
                })
                .collect();
            for h in handles {
                signed.extend(h.join().expect("signing thread"));
            }
        });
        let mut k = Self {
            validators,
            leader_sk,
            hash,
            slot,
            notar: Vec::new(),
            nf: Vec::new(),
            skip: Vec::new(),
            sf: Vec::new(),
            fin: Vec::new(),
            seed,
        };
        for (a, b, c, d, e) in signed {
            k.notar.push(a);
            k.nf.push(b);
            k.skip.push(c);
            k.sf.push(d);
            k.fin.push(e);
        }
        k
    }
}

/// A concrete protocol message of any of the five wire types.
enum Msg {
    Cm(ConsensusMessage),
    Shred(Shred),
    Rreq(RepairRequest),
    Rresp(RepairResponse),
    Tx(Transaction),
}

#[derive(Clone, Copy)]
enum Ty {
    Cm,
    Shred,
    Rreq,
    Rresp,
    Tx,
}

fn enc<T>(t: &T) -> Vec<u8>
where
    T: wincode::SchemaWrite<wincode::config::DefaultConfig, Src = T>,
{
    // `alpenglow::serialize` (crate-private) is exactly this call
    wincode::serialize(t).expect("serializing an in-memory value should not fail")
}

impl Msg {
    fn encode(&self) -> Vec<u8> {
        match self {
            Msg::Cm(m) => enc(m),
            Msg::Shred(m) => enc(m),
            Msg::Rreq(m) => enc(m),
            Msg::Rresp(m) => enc(m),
            Msg::Tx(m) => enc(m),
        }
    }

    fn decode(ty: Ty, bytes: &[u8]) -> Result<Msg, String> {
        let e = |e: wincode::ReadError| format!("{e:?}");
        Ok(match ty {
            Ty::Cm => Msg::Cm(deserialize::<ConsensusMessage>(bytes).map_err(e)?),
            Ty::Shred => Msg::Shred(deserialize::<Shred>(bytes).map_err(e)?),
            Ty::Rreq => Msg::Rreq(deserialize::<RepairRequest>(bytes).map_err(e)?),
            Ty::Rresp => Msg::Rresp(deserialize::<RepairResponse>(bytes).map_err(e)?),
            Ty::Tx => Msg::Tx(deserialize::<Transaction>(bytes).map_err(e)?),
        })
    }

    /// Structural equality: `PartialEq` where the type has it (certificates; their `Debug`
    /// prints a heap address), field-by-field `Debug` rendering otherwise.
    fn same_as(&self, other: &Msg) -> bool {
        match (self, other) {
            (Msg::Cm(ConsensusMessage::Cert(a)), Msg::Cm(ConsensusMessage::Cert(b))) => a == b,
            (Msg::Cm(ConsensusMessage::Vote(a)), Msg::Cm(ConsensusMessage::Vote(b))) => {
                format!("{a:?}") == format!("{b:?}")
            }
            (Msg::Shred(a), Msg::Shred(b)) => format!("{a:?}") == format!("{b:?}"),
            (Msg::Rreq(a), Msg::Rreq(b)) => {
                a.verif_sender() == b.verif_sender()
                    && a.verif_req_type() == b.verif_req_type()
                    && format!("{a:?}") == format!("{b:?}")
            }
            (Msg::Rresp(a), Msg::Rresp(b)) => format!("{a:?}") == format!("{b:?}"),
            (Msg::Tx(a), Msg::Tx(b)) => a.0 == b.0,
            _ => false,
        }
    }
}

type ShredKey = (String, usize, bool, usize, bool);

/// Per-thread state: shredders and a small cache of shredded slices.
struct Worker {
    keys: Arc<Keys>,
    regular: RegularShredder,
    coding: CodingOnlyShredder,
    aont: AontShredder,
    pets: PetsShredder,
    shred_cache: HashMap<ShredKey, Vec<Shred>>,
    shred_order: Vec<ShredKey>,
    rng: StdRng,
    /// the last concretised message (consecutive cases mutate the same message)
    last: Option<(String, Ty, std::rc::Rc<Msg>, std::rc::Rc<Vec<u8>>)>,
}

fn slice_index(i: usize) -> SliceIndex {
    serde_json::from_str(&i.to_string()).expect("slice index in range")
}

fn us(v: &Value, k: &str) -> usize {
    v[k].as_u64().unwrap_or_else(|| panic!("case field {k} missing in {v}")) as usize
}

fn st<'a>(v: &'a Value, k: &str) -> &'a str {
    v[k].as_str().unwrap_or_else(|| panic!("case field {k} missing in {v}"))
}

fn shape(s: &str, n: usize, salt: u64) -> Vec<usize> {
    match s {
        "rand" => {
            // a seeded random non-empty signer subset
            let mut rng = StdRng::seed_from_u64(salt ^ (n as u64).wrapping_mul(0x9E37_79B9_7F4A_7C15));
            let mut bits = vec![0u8; n];
            rng.fill_bytes(&mut bits);
            let keep = (rng.next_u64() % n as u64) as usize;
            (0..n).filter(|&i| i == keep || bits[i] & 1 == 1).collect()
        }
        "none" => vec![],
        "first" => vec![0],
        "last" => vec![n - 1],
        "all" => (0..n).collect(),
        "even" => (0..n).step_by(2).collect(),
        _ => panic!("unknown signer shape {s}"),
    }
}

impl Worker {
    fn new(keys: Arc<Keys>, id: u64) -> Self {
        let seed = keys.seed;
        Self {
            keys,
            regular: RegularShredder::default(),
            coding: CodingOnlyShredder::default(),
            aont: AontShredder::default(),
            pets: PetsShredder::default(),
            shred_cache: HashMap::new(),
            shred_order: Vec::new(),
            rng: StdRng::seed_from_u64(seed.wrapping_mul(31).wrapping_add(id)),
            last: None,
        }
    }

    fn block_id(&self) -> BlockId {
        (self.keys.slot, self.keys.hash.clone())
    }

    fn shreds(&mut self, s: &Value) -> &Vec<Shred> {
        let key: ShredKey = (
            st(s, "sh").to_string(),
            us(s, "dlen"),
            s["parent"].as_bool().expect("parent"),
            us(s, "si"),
            s["last"].as_bool().expect("last"),
        );
        if !self.shred_cache.contains_key(&key) {
            let mut data = vec![0u8; key.1];
            self.rng.fill_bytes(&mut data);
            let slice = Slice {
                slot: self.keys.slot,
                slice_index: slice_index(key.3),
                is_last: key.4,
                parent: key.2.then(|| (Slot::new(6), self.keys.hash.clone())),
                data,
            };
            let sk = &self.keys.leader_sk;
            let out = match key.0.as_str() {
                "regular" => self.regular.shred(&slice, sk),
                "coding" => self.coding.shred(&slice, sk),
                "aont" => self.aont.shred(&slice, sk),
                "pets" => self.pets.shred(&slice, sk),
                o => panic!("unknown shredder {o}"),
            }
            .unwrap_or_else(|e| panic!("shredder {} refused dlen {}: {e:?}", key.0, key.1));
            let v: Vec<Shred> = out.into_iter().map(|x| x.into_shred()).collect();
            if self.shred_order.len() >= 8 {
                let old = self.shred_order.remove(0);
                self.shred_cache.remove(&old);
            }
            self.shred_order.push(key.clone());
            self.shred_cache.insert(key.clone(), v);
        }
        &self.shred_cache[&key]
    }

    fn req_type(&self, rk: &str, si: usize, j: usize) -> RepairRequestType {
        let b = self.block_id();
        match rk {
            "last" => RepairRequestType::LastSliceRoot(b),
            "root" => RepairRequestType::SliceRoot(b, slice_index(si)),
            "shred" => RepairRequestType::Shred(
                b,
                slice_index(si),
                ShredIndex::new(j).expect("shred index in range"),
            ),
            _ => panic!("unknown request kind {rk}"),
        }
    }

    fn proof(&self, depth: usize, si: usize) -> (SliceRoot, DoubleMerkleProof) {
        let leaves: Vec<SliceRoot> = (0..(1usize << depth))
            .map(|i| alpenglow::crypto::hash::hash(format!("verif-slice-root-{i}").as_bytes()).into())
            .collect();
        let tree = DoubleMerkleTree::new(&leaves);
        let idx = si.min(leaves.len() - 1);
        (leaves[idx].clone(), tree.create_proof(idx))
    }

    fn build_cached(&mut self, m: &Value) -> (Ty, std::rc::Rc<Msg>, std::rc::Rc<Vec<u8>>) {
        let key = m.to_string();
        if let Some((k, ty, msg, bytes)) = &self.last {
            if *k == key {
                return (*ty, msg.clone(), bytes.clone());
            }
        }
        let (ty, msg) = self.build(m);
        let bytes = std::rc::Rc::new(msg.encode());
        let msg = std::rc::Rc::new(msg);
        self.last = Some((key, ty, msg.clone(), bytes.clone()));
        (ty, msg, bytes)
    }

    /// Descriptor -> the message a correct node would emit.
    fn build(&mut self, m: &Value) -> (Ty, Msg) {
        let k = Arc::clone(&self.keys);
        match st(m, "t") {
            "vote" => {
                let sv = us(m, "sv");
                let v = match st(m, "k") {
                    "notar" => Vote::Notar(k.notar[sv].clone()),
                    "nf" => Vote::NotarFallback(k.nf[sv].clone()),
                    "skip" => Vote::Skip(k.skip[sv].clone()),
                    "sf" => Vote::SkipFallback(k.sf[sv].clone()),
                    "final" => Vote::Final(k.fin[sv].clone()),
                    o => panic!("unknown vote kind {o}"),
                };
                (Ty::Cm, Msg::Cm(ConsensusMessage::from(v)))
            }
            "cert" => {
                let n = us(m, "n");
                let a = shape(st(m, "a"), n, k.seed);
                let b = shape(st(m, "b"), n, k.seed ^ 0xB);
                let vals = &k.validators[..n];
                fn pick<T: Clone>(all: &[T], idx: &[usize]) -> Vec<T> {
                    idx.iter().map(|&i| all[i].clone()).collect()
                }
                let c = match st(m, "k") {
                    "notar" => Cert::Notar(NotarCert::new(&pick(&k.notar, &a), vals)),
                    "ff" => Cert::FastFinal(FastFinalCert::new(&pick(&k.notar, &a), vals)),
                    "final" => Cert::Final(FinalCert::new(&pick(&k.fin, &a), vals)),
                    "nf" => Cert::NotarFallback(NotarFallbackCert::new(
                        &pick(&k.notar, &a),
                        &pick(&k.nf, &b),
                        vals,
                    )),
                    "skip" => Cert::Skip(SkipCert::new(&pick(&k.skip, &a), &pick(&k.sf, &b), vals)),
                    o => panic!("unknown cert kind {o}"),
                };
                (Ty::Cm, Msg::Cm(ConsensusMessage::from(c)))
            }
            "shred" => {
                let j = us(m, "j");
                (Ty::Shred, Msg::Shred(self.shreds(m)[j].clone()))
            }
            "rreq" => {
                let rt = self.req_type(st(m, "k"), us(m, "si"), us(m, "j"));
                let r = RepairRequest::verif_new(ValidatorIndex::new(us(m, "sv") as u64), rt);
                (Ty::Rreq, Msg::Rreq(r))
            }
            "rresp" => {
                let (si, j) = (us(m, "si"), us(m, "j"));
                let rt = self.req_type(st(m, "rk"), si, j);
                let r = match st(m, "k") {
                    "last" => {
                        let (root, proof) = self.proof(us(m, "depth"), si);
                        RepairResponse::LastSliceRoot(rt, slice_index(si), root, proof)
                    }
                    "root" => {
                        let (root, proof) = self.proof(us(m, "depth"), si);
                        RepairResponse::SliceRoot(rt, root, proof)
                    }
                    "shred" => {
                        let s = &m["s"];
                        let sj = us(s, "j");
                        RepairResponse::Shred(rt, self.shreds(s)[sj].clone())
                    }
                    "nack" => RepairResponse::Nack(rt),
                    o => panic!("unknown response kind {o}"),
                };
                (Ty::Rresp, Msg::Rresp(r))
            }
            "tx" => {
                let mut data = vec![0u8; us(m, "len")];
                self.rng.fill_bytes(&mut data);
                (Ty::Tx, Msg::Tx(Transaction(data)))
            }
            o => panic!("unknown message type {o}"),
        }
    }
}

/// Applies the byte edits derived by the specification from its field layout.
fn apply_ops(bytes: &[u8], ops: &Value) -> Result<Vec<u8>, String> {
    let mut b = bytes.to_vec();
    for op in ops.as_array().ok_or("ops is not an array")? {
        let off = us(op, "off");
        let n = us(op, "n");
        let val = op["val"].as_u64().ok_or("val")?;
        match st(op, "op") {
            "set" => {
                if off + n > b.len() || n > 8 {
                    return Err(format!("set out of range: {op}"));
                }
                b[off..off + n].copy_from_slice(&val.to_le_bytes()[..n]);
            }
            "fill" => {
                if off + n > b.len() {
                    return Err(format!("fill out of range: {op}"));
                }
                b[off..off + n].fill(val as u8);
            }
            "or" => {
                if off >= b.len() {
                    return Err(format!("or out of range: {op}"));
                }
                b[off] |= val as u8;
            }
            "xor" => {
                if off >= b.len() {
                    return Err(format!("xor out of range: {op}"));
                }
                b[off] ^= val as u8;
            }
            "insert" => {
                if off > b.len() {
                    return Err(format!("insert out of range: {op}"));
                }
                let tail = b.split_off(off);
                b.extend(std::iter::repeat_n(val as u8, n));
                b.extend(tail);
            }
            "remove" => {
                if off + n > b.len() {
                    return Err(format!("remove out of range: {op}"));
                }
                b.drain(off..off + n);
            }
            "append" => b.extend(std::iter::repeat_n(val as u8, n)),
            "truncate" => {
                if n > b.len() {
                    return Err(format!("truncate out of range: {op}"));
                }
                b.truncate(b.len() - n);
            }
            o => return Err(format!("unknown op {o}")),
        }
    }
    Ok(b)
}

fn label(c: &Value) -> String {
    let m = &c["m"];
    let t = st(m, "t");
    let sub = match t {
        "shred" => st(m, "sh").to_string(),
        "rresp" if st(m, "k") == "shred" => format!("shred.{}", st(&m["s"], "sh")),
        "tx" => "-".to_string(),
        _ => st(m, "k").to_string(),
    };
    format!("{t}.{sub}")
}

fn caught<T>(f: impl FnOnce() -> T) -> Result<T, String> {
    catch_unwind(AssertUnwindSafe(f)).map_err(|p| {
        p.downcast_ref::<String>()
            .cloned()
            .or_else(|| p.downcast_ref::<&str>().map(|s| (*s).to_string()))
            .unwrap_or_else(|| "panic".to_string())
    })
}

fn run_case(w: &mut Worker, c: &Value, rep: &mut CaseReport) {
    let lab = label(c);
    let mal = st(c, "mal");
    let fp = |what: &str| {
        if mal == "none" {
            format!("{lab}|{what}")
        } else {
            format!("{lab}|{mal}@{}|{what}", st(c, "field"))
        }
    };
    rep.case(
        &format!("{lab}|{mal}"),
        format!("{}|{}|{}", c["m"], mal, st(c, "field")),
        c,
    );
    // 1. concretise
    let (ty, base, bytes) = match caught(|| w.build_cached(&c["m"])) {
        Ok(x) => x,
        Err(p) => {
            rep.diverge(&fp("build.panic"), &["build"], c, json!("message"), json!({"panic": p}));
            return;
        }
    };
    // 2. size = spec size <= one datagram
    let size = us(c, "size");
    if bytes.len() != size {
        rep.diverge(&fp("size"), &["size"], c, json!(size), json!(bytes.len()));
        return;
    }
    if mal == "none" && bytes.len() > MTU_BYTES {
        rep.diverge(&fp("mtu"), &["size"], c, json!(MTU_BYTES), json!(bytes.len()));
    }
    if let Msg::Shred(s) = &*base {
        let kind = if s.is_data() { "data" } else { "coding" };
        if kind != st(c, "kind") {
            rep.diverge(&fp("kind"), &["kind"], c, c["kind"].clone(), json!(kind));
        }
    }
    // 3. offered bytes
    let offered = match apply_ops(&bytes, &c["ops"]) {
        Ok(b) => b,
        Err(e) => {
            rep.diverge(&fp("ops"), &["ops"], c, json!("applicable"), json!(e));
            return;
        }
    };
    if offered.len() != us(c, "msize") {
        rep.diverge(&fp("ops.len"), &["ops"], c, c["msize"].clone(), json!(offered.len()));
        return;
    }
    // 4. decode
    let expect_accept = st(c, "verdict") == "accept";
    let strict = c["strict"].as_bool().unwrap_or(true);
    let dec = match caught(|| Msg::decode(ty, &offered)) {
        Ok(d) => d,
        Err(p) => {
            rep.diverge(&fp("decode.panic"), &["verdict"], c, c["verdict"].clone(), json!({"panic": p}));
            return;
        }
    };
    let dec = match dec {
        Err(e) => {
            if expect_accept {
                if strict {
                    rep.diverge(&fp("rejected"), &["verdict"], c, json!("accept"), json!({"reject": e}));
                } else {
                    // the decoder may be stricter than the specification on classes the
                    // property does not demand to be accepted
                    *rep.hist.entry(format!("stricter:{lab}|{mal}")).or_default() += 1;
                }
            }
            return;
        }
        Ok(d) => d,
    };
    if !expect_accept {
        rep.diverge(&fp("accepted"), &["verdict"], c, json!("reject"), json!("accept"));
        return;
    }
    // 5. accepted: value, re-encoding, normal form
    let r = caught(|| {
        let r1 = dec.encode();
        let d2 = Msg::decode(ty, &r1);
        let (r2, same2) = match &d2 {
            Ok(m2) => (Some(m2.encode()), m2.same_as(&dec)),
            Err(_) => (None, false),
        };
        (r1, d2.err(), r2, same2)
    });
    let (r1, d2err, r2, same2) = match r {
        Ok(x) => x,
        Err(p) => {
            rep.diverge(&fp("reencode.panic"), &["normalform"], c, json!("stable"), json!({"panic": p}));
            return;
        }
    };
    if dec.same_as(&base) != c["eq"].as_bool().unwrap_or(false) {
        rep.diverge(&fp("value"), &["eq"], c, c["eq"].clone(), json!(dec.same_as(&base)));
    }
    if let Some(e) = d2err {
        rep.diverge(&fp("normalform.reject"), &["normalform"], c, json!("accept"), json!({"reject": e}));
        return;
    }
    if r2.as_deref() != Some(&r1[..]) || !same2 {
        rep.diverge(
            &fp("normalform"),
            &["normalform"],
            c,
            json!("encode(decode(r)) = r"),
            json!({"r1": r1.len(), "r2": r2.map(|x| x.len()), "same_value": same2}),
        );
    }
    if r1.len() != us(c, "resize") {
        rep.diverge(&fp("resize"), &["resize"], c, c["resize"].clone(), json!(r1.len()));
    }
    if (r1 == offered) != c["same"].as_bool().unwrap_or(false) {
        rep.diverge(&fp("same"), &["same"], c, c["same"].clone(), json!(r1 == offered));
    }
}

fn merge(into: &mut CaseReport, from: CaseReport) {
    into.cases += from.cases;
    into.distinct.extend(from.distinct);
    into.div_count += from.div_count;
    for (k, v) in from.fingerprints {
        *into.fingerprints.entry(k).or_default() += v;
    }
    for (k, v) in from.hist {
        *into.hist.entry(k).or_default() += v;
    }
    for d in from.divergences {
        if into.divergences.len() < 60 {
            into.divergences.push(d);
        }
    }
    for s in from.samples {
        if into.samples.len() < 3 {
            into.samples.push(s);
        }
    }
}

pub fn replay(path: &str, seed: u64, threads: usize) -> anyhow::Result<Value> {
    let raw = crate::cases::load_tagged(path, "CASE")?;
    // the enumeration may print a case twice (overlapping quantifier ranges)
    let raw_cases = raw.len();
    let mut seen = HashSet::new();
    let mut cases: Vec<Value> = Vec::with_capacity(raw.len());
    for c in raw {
        if seen.insert(c.to_string()) {
            cases.push(c);
        }
    }
    drop(seen);
    let max_n = cases
        .iter()
        .filter_map(|c| c["m"]["n"].as_u64().or_else(|| c["m"]["sv"].as_u64().map(|x| x + 1)))
        .max()
        .unwrap_or(1) as usize;
    let threads = threads.clamp(1, 8);
    let keys = Arc::new(Keys::new(max_n, seed, threads));
    let chunk = cases.len().div_ceil(threads).max(1);
    let mut total = CaseReport::new("wire");
    let mut max_size = 0usize;
    std::thread::scope(|s| {
        let handles: Vec<_> = cases
            .chunks(chunk)
            .enumerate()
            .map(|(i, part)| {
                let keys = Arc::clone(&keys);
                s.spawn(move || {
                    let mut w = Worker::new(keys, i as u64);
                    let mut rep = CaseReport::new("wire");
                    let mut mx = 0usize;
                    for c in part {
                        run_case(&mut w, c, &mut rep);
                        if st(c, "mal") == "none" {
                            mx = mx.max(us(c, "size"));
                        }
                    }
                    (rep, mx)
                })
            })
            .collect();
        for h in handles {
            let (rep, mx) = h.join().expect("replay thread");
            merge(&mut total, rep);
            max_size = max_size.max(mx);
        }
    });
    let mut out = total.to_json();
    out["raw_cases"] = json!(raw_cases);
    out["max_n"] = json!(max_n);
    out["max_wellformed_size"] = json!(max_size);
    out["mtu"] = json!(MTU_BYTES);
    Ok(out)
}
