//! Deterministic multi-node simulator: N real `Alpenglow` nodes on in-memory networks
//! under tokio's paused (virtual) clock, a seeded adversarial message scheduler, crashed
//! nodes and harness-played Byzantine validators.  Every broadcast vote / certificate and
//! every finalization (through the `verif` event log of the crate) is recorded in one total
//! order and written as NDJSON for validation by TLC against AlpenglowAbs.tla.

use std::collections::{HashMap, HashSet};
use std::net::SocketAddr;
use std::sync::{Arc, Mutex};
use std::time::Duration;

use alpenglow::all2all::TrivialAll2All;
use alpenglow::consensus::{ConsensusMessage, EpochInfo, ValidatorEpochInfo, Vote};
use alpenglow::crypto::{aggsig, signature};
use alpenglow::disseminator::Rotor;
use alpenglow::network::{Network, localhost_ip_sockaddr};
use alpenglow::repair::{RepairRequest, RepairResponse};
use alpenglow::shredder::Shred;
use alpenglow::types::Slot;
use alpenglow::verif::{VerifEvent, drain, record};
use alpenglow::{Alpenglow, Stake, Transaction, ValidatorIndex, ValidatorInfo};
use rand::rngs::StdRng;
use rand::{RngExt, SeedableRng};
use serde_json::{Value, json};
use tokio::sync::mpsc;

use crate::world::hash_bytes;

/// Scheduler policy shared by all simulated networks.
pub struct Hub {
    rng: Mutex<StdRng>,
    /// virtual time (ms) after which all delays are within `delta_ms`
    pub gst_ms: u64,
    /// maximal delay before GST (ms)
    pub chaos_ms: u64,
    /// drop probability before GST (per mille)
    pub drop_pm: u32,
    /// duplicate probability (per mille)
    pub dup_pm: u32,
    /// delay bound after GST (ms)
    pub delta_ms: u64,
    pub start: tokio::time::Instant,
    /// validators that are crashed (never send/receive) -- by index
    pub crashed: Mutex<HashSet<usize>>,
    /// messages sent, by bus name
    pub counts: Mutex<HashMap<&'static str, u64>>,
    pub max_datagram: Mutex<usize>,
    /// a lagging node: (node, from ms, to ms) - in that interval it receives no shreds and no repair answers
    /// from correct validators (votes and certificates still arrive), so it knows certificates but not blocks
    pub lag: Option<(usize, u64, u64)>,
    pub byz: HashSet<usize>,
}

impl Hub {
    fn now_ms(&self) -> u64 {
        self.start.elapsed().as_millis() as u64
    }

    /// Returns the delays (ms) of the copies of one message to deliver (empty = dropped).
    fn schedule(&self) -> Vec<u64> {
        let mut rng = self.rng.lock().unwrap();
        let now = self.now_ms();
        let mut out = Vec::new();
        if now < self.gst_ms {
            if rng.random_range(0..1000) < self.drop_pm {
                return out;
            }
            out.push(rng.random_range(1..=self.chaos_ms.max(1)));
        } else {
            out.push(rng.random_range(1..=self.delta_ms.max(1)));
        }
        if rng.random_range(0..1000) < self.dup_pm {
            let d = out[0] + rng.random_range(1..=self.delta_ms.max(1));
            out.push(d);
        }
        out
    }
}

/// One typed message bus: address -> mailbox.
pub struct Bus<T> {
    name: &'static str,
    boxes: Mutex<HashMap<SocketAddr, mpsc::UnboundedSender<T>>>,
}

impl<T> Bus<T> {
    pub fn new(name: &'static str) -> Arc<Self> {
        Arc::new(Self {
            name,
            boxes: Mutex::new(HashMap::new()),
        })
    }
}

/// `Network` implementation over two buses (what I send / what I receive).
pub struct SimNet<S, R> {
    hub: Arc<Hub>,
    owner: usize,
    out: Arc<Bus<S>>,
    rx: tokio::sync::Mutex<mpsc::UnboundedReceiver<R>>,
    /// observer called on every send (for recording), before scheduling
    tap: Option<Arc<dyn Fn(usize, &S) + Send + Sync>>,
    /// observer called for every copy that is actually scheduled for delivery: (from, to, message)
    dtap: Option<Arc<dyn Fn(usize, usize, &S) + Send + Sync>>,
}

impl<S: Clone + Send + Sync + 'static, R: Send + 'static> SimNet<S, R> {
    pub fn join(
        hub: &Arc<Hub>,
        owner: usize,
        out: &Arc<Bus<S>>,
        inbox: &Arc<Bus<R>>,
        addr: SocketAddr,
        tap: Option<Arc<dyn Fn(usize, &S) + Send + Sync>>,
    ) -> Self {
        let (tx, rx) = mpsc::unbounded_channel();
        inbox.boxes.lock().unwrap().insert(addr, tx);
        Self {
            hub: hub.clone(),
            owner,
            out: out.clone(),
            rx: tokio::sync::Mutex::new(rx),
            tap,
            dtap: None,
        }
    }

    pub fn with_dtap(mut self, dtap: Arc<dyn Fn(usize, usize, &S) + Send + Sync>) -> Self {
        self.dtap = Some(dtap);
        self
    }

    fn deliver(&self, msg: &S, addr: SocketAddr) {
        if self.hub.crashed.lock().unwrap().contains(&self.owner) {
            return;
        }
        *self.hub.counts.lock().unwrap().entry(self.out.name).or_default() += 1;
        let Some(tx) = self.out.boxes.lock().unwrap().get(&addr).cloned() else {
            return;
        };
        if let Some((node, from, to)) = self.hub.lag
            && (self.out.name == "shreds" || self.out.name == "repair_resp")
            && (addr.port() as usize).saturating_sub(1000) / 10 == node
            && !self.hub.byz.contains(&self.owner)
        {
            let now = self.hub.now_ms();
            if now >= from && now < to {
                return;
            }
        }
        if self.out.name == "txs" {
            // client -> node transactions: delivered at once and in order
            let _ = tx.send(msg.clone());
            return;
        }
        let delays = self.hub.schedule();
        if !delays.is_empty() && let Some(t) = &self.dtap {
            t(self.owner, (addr.port() as usize).saturating_sub(1000) / 10, msg);
        }
        for d in delays {
            let tx = tx.clone();
            let m = msg.clone();
            tokio::spawn(async move {
                tokio::time::sleep(Duration::from_millis(d)).await;
                let _ = tx.send(m);
            });
        }
    }
}

impl<S: Clone + Send + Sync + 'static, R: Send + 'static> Network for SimNet<S, R> {
    type Send = S;
    type Recv = R;

    async fn send(&self, message: &S, addr: SocketAddr) -> std::io::Result<()> {
        if let Some(t) = &self.tap {
            t(self.owner, message);
        }
        self.deliver(message, addr);
        Ok(())
    }

    async fn send_to_many(
        &self,
        message: &S,
        addrs: impl IntoIterator<Item = SocketAddr> + Send,
    ) -> std::io::Result<()> {
        if let Some(t) = &self.tap {
            t(self.owner, message);
        }
        for a in addrs {
            self.deliver(message, a);
        }
        Ok(())
    }

    async fn receive(&self) -> std::io::Result<R> {
        let mut rx = self.rx.lock().await;
        loop {
            match rx.recv().await {
                Some(m) => {
                    if self.hub.crashed.lock().unwrap().contains(&self.owner) {
                        continue;
                    }
                    return Ok(m);
                }
                None => std::future::pending::<()>().await,
            }
        }
    }
}

/// Extra networks of a Byzantine player for hostile repair / transaction traffic.
pub struct HostileNets {
    pub req: SimNet<RepairRequest, RepairResponse>,
    pub resp: SimNet<RepairResponse, RepairRequest>,
    pub tx: SimNet<Transaction, Transaction>,
}

pub struct SimConfig {
    pub stakes: Vec<u64>,
    pub byz: Vec<usize>,
    pub byz_mode: String, // "silent" | "spam"
    pub crashed: Vec<usize>,
    pub crash_at_ms: u64,
    /// > 0: the harness triggers standstill recovery at every node every so many virtual ms (the node's own
    /// detector measures wall-clock time with std::time::Instant, which does not move under the paused clock)
    pub standstill_ms: u64,
    /// (node, from ms, to ms): see `Hub::lag`
    pub lag: Option<(usize, u64, u64)>,
    pub seed: u64,
    pub gst_ms: u64,
    pub chaos_ms: u64,
    pub drop_pm: u32,
    pub dup_pm: u32,
    pub delta_ms: u64,
    pub run_ms: u64,
}

fn hash_name(names: &Mutex<HashMap<Vec<u8>, String>>, h: &alpenglow::crypto::merkle::BlockHash) -> String {
    let b = hash_bytes(h);
    if b.iter().all(|x| *x == 0) {
        return "G".to_string();
    }
    let mut m = names.lock().unwrap();
    let n = m.len();
    m.entry(b).or_insert_with(|| format!("h{n}")).clone()
}

fn vote_json(names: &Mutex<HashMap<Vec<u8>, String>>, v: &Vote) -> Value {
    let (k, h) = match v {
        Vote::Notar(x) => ("notar", hash_name(names, x.block_hash())),
        Vote::NotarFallback(x) => ("nf", hash_name(names, x.block_hash())),
        Vote::Skip(_) => ("skip", "-".to_string()),
        Vote::SkipFallback(_) => ("sf", "-".to_string()),
        Vote::Final(_) => ("final", "-".to_string()),
    };
    // TLC integers are 32-bit: far-future slots / signer indices of hostile votes are saturated
    json!({"k": k, "s": v.slot().inner().min(1 << 30), "h": h, "v": v.signer().inner().min(1 << 20)})
}

fn cert_json(names: &Mutex<HashMap<Vec<u8>, String>>, c: &alpenglow::consensus::Cert) -> Value {
    use alpenglow::consensus::Cert;
    let k = match c {
        Cert::Notar(_) => "notar",
        Cert::NotarFallback(_) => "nf",
        Cert::Skip(_) => "skip",
        Cert::FastFinal(_) => "ff",
        Cert::Final(_) => "final",
    };
    let h = c.block_hash().map_or_else(|| "-".to_string(), |h| hash_name(names, h));
    json!({"k": k, "s": c.slot().inner().min(1 << 30), "h": h})
}

fn pool_event_json(names: &Mutex<HashMap<Vec<u8>, String>>, e: &alpenglow::consensus::PoolEvent) -> Value {
    use alpenglow::consensus::PoolEvent as PE;
    match e {
        PE::ParentReady { slot, parent } => json!({"t": "ParentReady", "s": slot.inner(),
            "p": [parent.0.inner(), hash_name(names, &parent.1)]}),
        PE::SafeToNotar((s, h)) => json!({"t": "SafeToNotar", "b": [s.inner(), hash_name(names, h)]}),
        PE::SafeToSkip(s) => json!({"t": "SafeToSkip", "s": s.inner()}),
        PE::CertCreated(c) => json!({"t": "Cert", "c": cert_json(names, c)}),
        PE::Standstill(s, certs, votes) => json!({"t": "Standstill", "s": s.inner(),
            "certs": certs.iter().map(|c| cert_json(names, c)).collect::<Vec<_>>(),
            "votes": votes.iter().map(|v| vote_json(names, v)).collect::<Vec<_>>()}),
    }
}

/// Every panic anywhere in the process while a simulation runs (tasks of the nodes included).
pub static PANICS: Mutex<Vec<String>> = Mutex::new(Vec::new());

pub fn install_panic_recorder() {
    std::panic::set_hook(Box::new(|info| {
        let msg = if let Some(s) = info.payload().downcast_ref::<&str>() {
            (*s).to_string()
        } else if let Some(s) = info.payload().downcast_ref::<String>() {
            s.clone()
        } else {
            "panic".to_string()
        };
        let loc = info.location().map(|l| format!("{}:{}", l.file(), l.line())).unwrap_or_default();
        PANICS.lock().unwrap().push(format!("{loc}: {msg}"));
    }));
}

/// Runs one simulation; returns (events, summary).
pub fn run(cfg: &SimConfig) -> anyhow::Result<(Vec<Value>, Value)> {
    let n = cfg.stakes.len();
    let rt = tokio::runtime::Builder::new_current_thread()
        .enable_all()
        .start_paused(true)
        .rng_seed(tokio::runtime::RngSeed::from_bytes(&cfg.seed.to_le_bytes()))
        .build()?;
    let _ = drain();
    install_panic_recorder();
    PANICS.lock().unwrap().clear();
    let names: Arc<Mutex<HashMap<Vec<u8>, String>>> = Arc::new(Mutex::new(HashMap::new()));
    let panics: Arc<Mutex<Vec<String>>> = Arc::new(Mutex::new(Vec::new()));

    let result = rt.block_on(async {
        let hub = Arc::new(Hub {
            rng: Mutex::new(StdRng::seed_from_u64(cfg.seed ^ 0x5151)),
            gst_ms: cfg.gst_ms,
            chaos_ms: cfg.chaos_ms,
            drop_pm: cfg.drop_pm,
            dup_pm: cfg.dup_pm,
            delta_ms: cfg.delta_ms,
            start: tokio::time::Instant::now(),
            crashed: Mutex::new(HashSet::new()),
            counts: Mutex::new(HashMap::new()),
            max_datagram: Mutex::new(0),
            lag: cfg.lag,
            byz: cfg.byz.iter().copied().collect(),
        });
        let mut rng = StdRng::seed_from_u64(cfg.seed ^ 0xA1FE_6107);
        let mut sks = Vec::new();
        let mut voting_sks = Vec::new();
        let mut validators = Vec::new();
        for (i, st) in cfg.stakes.iter().enumerate() {
            sks.push(signature::SecretKey::new(&mut rng));
            voting_sks.push(aggsig::SecretKey::new(&mut rng));
            let port = |k: u16| localhost_ip_sockaddr(1000 + (i as u16) * 10 + k);
            validators.push(ValidatorInfo {
                id: ValidatorIndex::new(i as u64),
                stake: Stake::new(*st),
                pubkey: sks[i].to_pk(),
                voting_pubkey: voting_sks[i].to_pk(),
                all2all_address: port(0),
                disseminator_address: port(1),
                repair_requester_address: port(2),
                repair_responder_address: port(3),
            });
        }
        let epoch = EpochInfo::new(validators.clone());

        // which validators every shred was scheduled for (fault-free dissemination must reach everyone)
        let shred_seen: Arc<Mutex<HashMap<(u64, usize, usize), HashSet<usize>>>> = Arc::new(Mutex::new(HashMap::new()));
        let shred_seen2 = shred_seen.clone();
        let shred_dtap: Arc<dyn Fn(usize, usize, &Shred) + Send + Sync> = Arc::new(move |_from, to, sh| {
            let (slot, slice, idx) = sh.verif_position();
            shred_seen2.lock().unwrap().entry((slot.inner(), slice, idx)).or_default().insert(to);
        });
        let bus_a2a = Bus::<ConsensusMessage>::new("all2all");
        let bus_shred = Bus::<Shred>::new("shreds");
        let bus_req = Bus::<RepairRequest>::new("repair_req");
        let bus_resp = Bus::<RepairResponse>::new("repair_resp");
        let bus_tx = Bus::<Transaction>::new("txs");

        // record every consensus message at send time (once per broadcast)
        let names2 = names.clone();
        let hub2 = hub.clone();
        let tap: Arc<dyn Fn(usize, &ConsensusMessage) + Send + Sync> = Arc::new(move |from, m| {
            let bytes = wincode::serialize(m).map(|b| b.len()).unwrap_or(0);
            {
                let mut mx = hub2.max_datagram.lock().unwrap();
                if bytes > *mx {
                    *mx = bytes;
                }
            }
            let ev = match m {
                ConsensusMessage::Vote(v) => {
                    json!({"e": "Vote", "from": from, "vote": vote_json(&names2, v), "t": hub2.now_ms()})
                }
                ConsensusMessage::Cert(c) => {
                    let k = match c {
                        alpenglow::consensus::Cert::Notar(_) => "notar",
                        alpenglow::consensus::Cert::NotarFallback(_) => "nf",
                        alpenglow::consensus::Cert::Skip(_) => "skip",
                        alpenglow::consensus::Cert::FastFinal(_) => "ff",
                        alpenglow::consensus::Cert::Final(_) => "final",
                    };
                    let h = c.block_hash().map_or_else(|| "-".to_string(), |h| hash_name(&names2, h));
                    let mut signers: Vec<u64> = c.signers().map(|v| v.inner()).collect();
                    signers.sort_unstable();
                    signers.dedup();
                    json!({"e": "CertSent", "from": from, "c": {"k": k, "s": c.slot().inner().min(1 << 30), "h": h},
                           "signers": signers, "t": hub2.now_ms()})
                }
            };
            record(VerifEvent::Harness(ev.to_string()));
        });

        let mut cancels = Vec::new();
        let mut handles = Vec::new();
        let mut pools = Vec::new();
        let mut byz_inboxes = Vec::new();
        for i in 0..n {
            let v = &validators[i];
            if cfg.byz.contains(&i) {
                // Byzantine validator: the harness plays it; it listens on all2all and can send shreds
                let net: SimNet<ConsensusMessage, ConsensusMessage> =
                    SimNet::join(&hub, i, &bus_a2a, &bus_a2a, v.all2all_address, Some(tap.clone()));
                let snet: SimNet<Shred, Shred> =
                    SimNet::join(&hub, i, &bus_shred, &bus_shred, v.disseminator_address, None).with_dtap(shred_dtap.clone());
                let hostile = HostileNets {
                    req: SimNet::join(&hub, i, &bus_req, &bus_resp, v.repair_requester_address, None),
                    resp: SimNet::join(&hub, i, &bus_resp, &bus_req, v.repair_responder_address, None),
                    tx: SimNet::join(&hub, i, &bus_tx, &bus_tx, localhost_ip_sockaddr(1000 + (i as u16) * 10 + 4), None),
                };
                byz_inboxes.push((i, net, snet, hostile));
                pools.push(None);
                continue;
            }
            let vepoch = Arc::new(ValidatorEpochInfo::new(ValidatorIndex::new(i as u64), epoch.clone()));
            let a2a_net: SimNet<ConsensusMessage, ConsensusMessage> =
                SimNet::join(&hub, i, &bus_a2a, &bus_a2a, v.all2all_address, Some(tap.clone()));
            let all2all = TrivialAll2All::new(validators.clone(), a2a_net);
            let shred_net: SimNet<Shred, Shred> =
                SimNet::join(&hub, i, &bus_shred, &bus_shred, v.disseminator_address, None).with_dtap(shred_dtap.clone());
            let disseminator = Rotor::new(shred_net, vepoch.clone());
            let rq: SimNet<RepairRequest, RepairResponse> =
                SimNet::join(&hub, i, &bus_req, &bus_resp, v.repair_requester_address, None);
            let rp: SimNet<RepairResponse, RepairRequest> =
                SimNet::join(&hub, i, &bus_resp, &bus_req, v.repair_responder_address, None);
            let txs: SimNet<Transaction, Transaction> =
                SimNet::join(&hub, i, &bus_tx, &bus_tx, localhost_ip_sockaddr(1000 + (i as u16) * 10 + 4), None);
            let node = Alpenglow::new(
                sks[i].clone(),
                voting_sks[i].clone(),
                all2all,
                disseminator,
                rq,
                rp,
                vepoch,
                txs,
            );
            cancels.push((i, node.get_cancel_token()));
            pools.push(Some(node.get_pool()));
            let panics2 = panics.clone();
            handles.push(tokio::spawn(async move {
                let r = node.run().await;
                if let Err(e) = r {
                    panics2.lock().unwrap().push(format!("node {i}: {e}"));
                }
            }));
        }

        // Byzantine players
        for (i, net, snet, hostile) in byz_inboxes {
            let mode = cfg.byz_mode.clone();
            let lag = cfg.lag;
            let hub_b = hub.clone();
            let sk = voting_sks[i].clone();
            let leader_sk = sks[i].clone();
            let shred_addrs: Vec<(usize, SocketAddr)> = validators
                .iter()
                .enumerate()
                .filter(|(j, _)| *j != i)
                .map(|(j, v)| (j, v.disseminator_address))
                .collect();
            let nval = n as u64;
            let names3 = names.clone();
            // (requester address, responder address, tx address) of every other validator
            let hostile_targets: Vec<(SocketAddr, SocketAddr, SocketAddr)> = validators
                .iter()
                .enumerate()
                .filter(|(j, _)| *j != i)
                .map(|(j, v)| (v.repair_requester_address, v.repair_responder_address,
                               localhost_ip_sockaddr(1000 + (j as u16) * 10 + 4)))
                .collect();
            let addrs: Vec<SocketAddr> = validators.iter().map(|v| v.all2all_address).collect();
            let seed = cfg.seed;
            tokio::spawn(async move {
                let mut rng = StdRng::seed_from_u64(seed ^ (i as u64) << 8);
                let mut done: HashSet<String> = HashSet::new();
                let idx = ValidatorIndex::new(i as u64);
                // equivocating leader: highest block it has seen certified, windows already served
                let mut best_parent: (Slot, alpenglow::crypto::merkle::BlockHash) =
                    (Slot::genesis(), alpenglow::crypto::merkle::GENESIS_BLOCK_HASH);
                let mut older_parent = best_parent.clone();
                let mut twins: HashMap<u64, Vec<(alpenglow::crypto::merkle::BlockHash, Vec<Shred>)>> = HashMap::new();
                let mut replayed: HashSet<u64> = HashSet::new();
                let mut served: HashSet<u64> = HashSet::new();
                let mut hostile_done: HashSet<u64> = HashSet::new();
                loop {
                    let Ok(m) = net.receive().await else { break };
                    if mode == "silent" {
                        continue;
                    }
                    if mode == "hostile" {
                        // (a) hostile messages on every interface, a burst per observed slot
                        let slot_seen = match &m {
                            ConsensusMessage::Vote(v) => v.slot(),
                            ConsensusMessage::Cert(c) => c.slot(),
                        };
                        if hostile_done.insert(slot_seen.inner()) {
                            let all_a2a: Vec<SocketAddr> = addrs.clone();
                            let junk: alpenglow::crypto::merkle::BlockHash =
                                alpenglow::crypto::hash(b"junk").into();
                            let far = Slot::new(u64::MAX - 1);
                            let hostile_votes = vec![
                                Vote::new_notar(far, junk.clone(), &sk, idx),
                                Vote::new_final(Slot::new(1_000_000_000_000), &sk, idx),
                                Vote::new_skip(slot_seen, &sk, ValidatorIndex::new(nval + 7)),
                                Vote::new_skip(slot_seen, &sk, ValidatorIndex::new(0)),
                                Vote::new_notar(Slot::genesis(), junk.clone(), &sk, idx),
                            ];
                            for a in &all_a2a {
                                for v in &hostile_votes {
                                    let _ = net.send(&ConsensusMessage::Vote(v.clone()), *a).await;
                                }
                            }
                            record(VerifEvent::Harness(json!({"e": "Hostile", "from": i, "s": slot_seen.inner(),
                                                             "what": "votes+repair+tx"}).to_string()));
                            use alpenglow::repair::RepairRequestType;
                            let bid = (slot_seen, junk.clone());
                            let idx0: alpenglow::types::SliceIndex = serde_json::from_str("0").unwrap();
                            let idx_max: alpenglow::types::SliceIndex = serde_json::from_str("1023").unwrap();
                            for (j, v) in hostile_targets.iter().enumerate() {
                                let _ = hostile.resp.send(&RepairResponse::Nack(RepairRequestType::LastSliceRoot(bid.clone())), v.0).await;
                                let _ = hostile.resp.send(&RepairResponse::LastSliceRoot(
                                    RepairRequestType::LastSliceRoot(best_parent.clone()), idx_max,
                                    alpenglow::crypto::hash(b"root").into(), Vec::new().into()), v.0).await;
                                let _ = hostile.req.send(&RepairRequest::verif_new(idx, RepairRequestType::LastSliceRoot(bid.clone())), v.1).await;
                                let _ = hostile.req.send(&RepairRequest::verif_new(ValidatorIndex::new(nval + 3),
                                    RepairRequestType::SliceRoot(best_parent.clone(), idx_max)), v.1).await;
                                let _ = hostile.req.send(&RepairRequest::verif_new(idx,
                                    RepairRequestType::SliceRoot(best_parent.clone(), idx0)), v.1).await;
                                for beyond in ["1", "2", "7", "1023"] {
                                    let bi: alpenglow::types::SliceIndex = serde_json::from_str(beyond).unwrap();
                                    let _ = hostile.req.send(&RepairRequest::verif_new(idx,
                                        RepairRequestType::SliceRoot(best_parent.clone(), bi)), v.1).await;
                                    let si: alpenglow::shredder::ShredIndex = serde_json::from_str("63").unwrap();
                                    let _ = hostile.req.send(&RepairRequest::verif_new(idx,
                                        RepairRequestType::Shred(best_parent.clone(), bi, si)), v.1).await;
                                }
                                let _ = hostile.tx.send(&Transaction(vec![7u8; 600 + 100 * (j % 8)]), v.2).await;
                                // enough oversized transactions to overrun one slice buffer
                                for _ in 0..30 {
                                    let _ = hostile.tx.send(&Transaction(vec![9u8; 1400]), v.2).await;
                                }
                                // legal sizes chosen so that the space left in a slice lands just below the
                                // "room for one more maximal transaction" mark (first slice: parent encoded,
                                // later slices: no parent), followed by a maximal transaction
                                if slot_seen.inner() % 3 == 0 {
                                    for tail in [466usize, 506, 506] {
                                        for _ in 0..61 {
                                            let _ = hostile.tx.send(&Transaction(vec![5u8; 512]), v.2).await;
                                        }
                                        let _ = hostile.tx.send(&Transaction(vec![6u8; tail]), v.2).await;
                                        let _ = hostile.tx.send(&Transaction(vec![8u8; 512]), v.2).await;
                                    }
                                }
                            }
                        }
                    }
                    if mode == "equivtx" {
                        // equivocating leader + a steady stream of legal maximal transactions (full slices)
                        let slot_seen = match &m {
                            ConsensusMessage::Vote(v) => v.slot(),
                            ConsensusMessage::Cert(c) => c.slot(),
                        };
                        if hostile_done.insert(slot_seen.inner()) {
                            for v in hostile_targets.iter() {
                                // fill slices exactly: (61 x 512, 502, 512) leaves 0 bytes in a later slice,
                                // (61 x 512, 462, 512) leaves 0 bytes in a first slice
                                for tail in [462usize, 502, 502, 502] {
                                    for _ in 0..61 {
                                        let _ = hostile.tx.send(&Transaction(vec![5u8; 512]), v.2).await;
                                    }
                                    let _ = hostile.tx.send(&Transaction(vec![6u8; tail]), v.2).await;
                                    let _ = hostile.tx.send(&Transaction(vec![8u8; 512]), v.2).await;
                                }
                            }
                        }
                    }
                    // a late copy of the OTHER block of an own, already certified slot for the lagging node
                    if let (Some((lag_node, _, _)), ConsensusMessage::Cert(c)) = (lag, &m)
                        && let Some(h) = c.block_hash()
                        && let Some(tw) = twins.get(&c.slot().inner())
                        && replayed.insert(c.slot().inner())
                    {
                        for (th, shreds) in tw {
                            if th != h {
                                if let Some((_, a)) = shred_addrs.iter().find(|(j, _)| *j == lag_node) {
                                    for sh in shreds {
                                        let _ = snet.send(sh, *a).await;
                                    }
                                }
                                record(VerifEvent::Harness(json!({"e": "Hostile", "from": i, "s": c.slot().inner(),
                                    "what": "late twin to lagging node"}).to_string()));
                            }
                        }
                    }
                    if mode == "equivocate" || mode == "hostile" || mode == "equivtx" {
                        // track certified blocks
                        if let ConsensusMessage::Cert(c) = &m
                            && let Some(h) = c.block_hash()
                            && c.slot() > best_parent.0
                        {
                            older_parent = best_parent.clone();
                            best_parent = (c.slot(), h.clone());
                        }
                        // my next window, once the last block of the previous window is certified
                        let seen_slot = match &m {
                            ConsensusMessage::Cert(c) if c.block_hash().is_some() => c.slot().inner(),
                            _ => u64::MAX - 1,
                        };
                        let window = (seen_slot + 1) / 4;
                        if seen_slot % 4 == 3 && window % nval == i as u64 && served.insert(window) {
                            let first = window * 4;
                            let mut par_x = best_parent.clone();
                            // every other window the second twin names an OLDER certified block as its parent
                            let mut par_y = if window % 2 == 1 { older_parent.clone() } else { best_parent.clone() };
                            let split: u32 = rng.random();
                            let mut shredder = alpenglow::shredder::RegularShredder::default();
                            use alpenglow::shredder::Shredder;
                            for s in first..first + 4 {
                                let mk = |tag: u8, par: &(Slot, alpenglow::crypto::merkle::BlockHash)| {
                                    let tx = wincode::serialize(&Transaction(vec![tag, s as u8])).unwrap();
                                    let data = wincode::serialize(&vec![tx]).unwrap();
                                    alpenglow::types::Slice {
                                        slot: Slot::new(s),
                                        slice_index: serde_json::from_str("0").expect("slice index"),
                                        is_last: true,
                                        parent: Some(par.clone()),
                                        data,
                                    }
                                };
                                if mode == "hostile" {
                                    // (b) validly signed but malformed blocks, one class per slot
                                    let junkp: alpenglow::crypto::merkle::BlockHash =
                                        alpenglow::crypto::hash(b"unknown-parent").into();
                                    let class = s % 7;
                                    let mut slices = Vec::new();
                                    let mut base = mk(3, &par_x);
                                    match class {
                                        0 => base.parent = Some((Slot::new(s + 8), junkp.clone())),
                                        1 => base.parent = Some((Slot::new(s), junkp.clone())),
                                        2 => base.data = vec![0xFF; 300],
                                        3 => base.parent = None,
                                        4 => {
                                            let mut second = mk(4, &par_x);
                                            second.slice_index = serde_json::from_str("1").unwrap();
                                            second.parent = None;
                                            slices.push(second);
                                        }
                                        5 => base.parent = Some((Slot::new(s.saturating_sub(2)), junkp.clone())),
                                        _ => {
                                            // valid first-slice parent, then a handover to a parent in a LATER slot
                                            base.is_last = false;
                                            let mut second = mk(4, &par_x);
                                            second.slice_index = serde_json::from_str("1").unwrap();
                                            second.parent = Some((Slot::new(s + 3), junkp.clone()));
                                            slices.push(second);
                                        }
                                    }
                                    slices.insert(0, base);
                                    record(VerifEvent::Harness(json!({"e": "Hostile", "from": i, "s": s,
                                        "what": format!("block class {class}")}).to_string()));
                                    for sl in &slices {
                                        if let Ok(shs) = shredder.shred(sl, &leader_sk) {
                                            for (_, a) in &shred_addrs {
                                                for sh in shs.iter() {
                                                    let _ = snet.send(sh.as_shred(), *a).await;
                                                }
                                            }
                                        }
                                    }
                                    tokio::time::sleep(Duration::from_millis(120)).await;
                                    continue;
                                }
                                let sx = shredder.shred(&mk(1, &par_x), &leader_sk).expect("shred");
                                let sy = shredder.shred(&mk(2, &par_y), &leader_sk).expect("shred");
                                let hx: alpenglow::crypto::merkle::BlockHash =
                                    alpenglow::crypto::merkle::DoubleMerkleTree::new([sx[0].slice_root()]).get_root();
                                let hy: alpenglow::crypto::merkle::BlockHash =
                                    alpenglow::crypto::merkle::DoubleMerkleTree::new([sy[0].slice_root()]).get_root();
                                record(VerifEvent::Harness(
                                    json!({"e": "ByzBlocks", "from": i, "s": s,
                                           "x": hash_name(&names3, &hx), "y": hash_name(&names3, &hy)}).to_string(),
                                ));
                                for (j, a) in &shred_addrs {
                                    // the lagging node gets nothing now: the other twin reaches it late (see above)
                                    if lag.is_some_and(|(l, from, to)| l == *j && hub_b.now_ms() >= from && hub_b.now_ms() < to) {
                                        continue;
                                    }
                                    // a seeded split of the receivers, fixed for the whole window
                                    let set = if (split >> (j % 32)) & 1 == 0 { &sx } else { &sy };
                                    for sh in set.iter() {
                                        let _ = snet.send(sh.as_shred(), *a).await;
                                    }
                                }
                                twins.insert(s, vec![
                                    (hx.clone(), sx.iter().map(|v| v.as_shred().clone()).collect()),
                                    (hy.clone(), sy.iter().map(|v| v.as_shred().clone()).collect()),
                                ]);
                                par_x = (Slot::new(s), hx);
                                par_y = (Slot::new(s), hy);
                                tokio::time::sleep(Duration::from_millis(120)).await;
                            }
                        }
                    }
                    // equivocate on everything it hears about: for a slot/block seen in a vote,
                    // send every kind of vote, a different subset to every receiver
                    let (slot, hash) = match &m {
                        ConsensusMessage::Vote(Vote::Notar(v)) => (v.slot(), Some(v.block_hash().clone())),
                        ConsensusMessage::Vote(Vote::NotarFallback(v)) => (v.slot(), Some(v.block_hash().clone())),
                        ConsensusMessage::Vote(v) => (v.slot(), None),
                        ConsensusMessage::Cert(_) => continue,
                    };
                    let key = format!("{}:{:?}", slot.inner(), hash.as_ref().map(hash_bytes));
                    if !done.insert(key) {
                        continue;
                    }
                    let mut votes = vec![
                        Vote::new_skip(slot, &sk, idx),
                        Vote::new_skip_fallback(slot, &sk, idx),
                        Vote::new_final(slot, &sk, idx),
                    ];
                    if let Some(h) = hash {
                        votes.push(Vote::new_notar(slot, h.clone(), &sk, idx));
                        votes.push(Vote::new_notar_fallback(slot, h, &sk, idx));
                    }
                    // a vote for a block nobody proposed
                    let fake: alpenglow::crypto::merkle::BlockHash =
                        alpenglow::crypto::hash(format!("fake-{}", slot.inner()).as_bytes()).into();
                    votes.push(Vote::new_notar(slot, fake, &sk, idx));
                    for a in &addrs {
                        for v in &votes {
                            if rng.random_range(0..3) > 0 {
                                let _ = net.send(&ConsensusMessage::Vote(v.clone()), *a).await;
                            }
                        }
                    }
                }
            });
        }

        // standstill recovery, triggered exactly as consensus.rs's standstill_loop does
        if cfg.standstill_ms > 0 {
            for (i, p) in pools.iter().enumerate() {
                if let Some(p) = p.clone() {
                    let every = cfg.standstill_ms;
                    tokio::spawn(async move {
                        // staggered, so that the nodes do not all recover in the same instant
                        tokio::time::sleep(Duration::from_millis(every + 37 * i as u64)).await;
                        loop {
                            p.read().await.recover_from_standstill().await;
                            tokio::time::sleep(Duration::from_millis(every)).await;
                        }
                    });
                }
            }
        }

        // crashes
        let hub3 = hub.clone();
        let crashed = cfg.crashed.clone();
        let crash_at = cfg.crash_at_ms;
        tokio::spawn(async move {
            tokio::time::sleep(Duration::from_millis(crash_at)).await;
            for c in crashed {
                hub3.crashed.lock().unwrap().insert(c);
            }
        });

        tokio::time::sleep(Duration::from_millis(cfg.run_ms)).await;

        // final state
        let mut finals = Vec::new();
        for (i, p) in pools.iter().enumerate() {
            if let Some(p) = p {
                let fs = p.read().await.finalized_slot().inner();
                finals.push(json!({"node": i, "finalized_slot": fs}));
            }
        }
        for (_, c) in &cancels {
            c.cancel();
        }
        let mut task_panics = Vec::new();
        for h in handles {
            match tokio::time::timeout(Duration::from_millis(5000), h).await {
                Ok(Err(e)) if e.is_panic() => task_panics.push(format!("{e}")),
                _ => {}
            }
        }
        // fault-free dissemination: every shred of every slot that all nodes finalized was scheduled for every
        // validator other than the slot's leader (meaningful only for runs without loss / crashes / Byzantine players)
        let min_final = finals.iter().filter_map(|f| f["finalized_slot"].as_u64()).min().unwrap_or(0);
        let mut shred_total = 0u64;
        let mut shred_gaps = Vec::new();
        for ((slot, slice, idx), tos) in shred_seen.lock().unwrap().iter() {
            if *slot == 0 || *slot + 2 > min_final {
                continue;
            }
            shred_total += 1;
            let leader = ((*slot / 4) % n as u64) as usize;
            let missing: Vec<usize> = (0..n).filter(|v| *v != leader && !tos.contains(v)).collect();
            if !missing.is_empty() && shred_gaps.len() < 20 {
                shred_gaps.push(json!({"slot": slot, "slice": slice, "index": idx, "leader": leader, "missing": missing}));
            }
        }
        // slots of which some slice was under-delivered (fewer than 32 of its shreds scheduled) to some correct,
        // non-crashed validator other than the leader: Rotor's relays that are crashed or Byzantine forward nothing
        let mut starved: std::collections::BTreeSet<u64> = Default::default();
        {
            let crashed_now = hub.crashed.lock().unwrap().clone();
            let mut per: HashMap<(u64, usize), HashMap<usize, usize>> = HashMap::new();
            for ((slot, slice, _idx), tos) in shred_seen.lock().unwrap().iter() {
                let e = per.entry((*slot, *slice)).or_default();
                for t in tos {
                    *e.entry(*t).or_default() += 1;
                }
            }
            for ((slot, _slice), cnt) in &per {
                let leader = ((*slot / 4) % n as u64) as usize;
                if cfg.byz.contains(&leader) {
                    continue;
                }
                for v in 0..n {
                    if v == leader || cfg.byz.contains(&v) || crashed_now.contains(&v) || cfg.crashed.contains(&v) {
                        continue;
                    }
                    if cnt.get(&v).copied().unwrap_or(0) < 32 {
                        starved.insert(*slot);
                    }
                }
            }
        }
        // debugging aid: per-slice delivery bookkeeping of one slot (VERIF_DEBUG_SLOT)
        let mut debug_slot = Value::Null;
        if let Ok(ds) = std::env::var("VERIF_DEBUG_SLOT") && let Ok(ds) = ds.parse::<u64>() {
            let mut per: std::collections::BTreeMap<usize, (usize, HashSet<usize>)> = Default::default();
            for ((slot, slice, _idx), tos) in shred_seen.lock().unwrap().iter() {
                if *slot == ds {
                    let e = per.entry(*slice).or_default();
                    e.0 += 1;
                    e.1.extend(tos.iter().copied());
                }
            }
            debug_slot = json!(per.iter().map(|(k, v)| json!({"slice": k, "shreds": v.0, "to": v.1.iter().collect::<Vec<_>>()})).collect::<Vec<_>>());
        }
        let counts: HashMap<String, u64> = hub
            .counts
            .lock()
            .unwrap()
            .iter()
            .map(|(k, v)| (k.to_string(), *v))
            .collect();
        json!({"finals": finals, "task_panics": task_panics, "messages": counts,
               "shreds_checked": shred_total, "shred_gaps": shred_gaps, "debug_slot": debug_slot,
               "starved_slots": starved.iter().collect::<Vec<_>>(),
               "max_consensus_datagram": *hub.max_datagram.lock().unwrap()})
    });

    // translate the event log
    let mut events = Vec::new();
    for ev in drain() {
        let j = match ev {
            VerifEvent::Harness(s) => serde_json::from_str(&s)?,
            VerifEvent::Finalized { node, block, implicit } => json!({
                "e": "Finalized", "node": node.inner(), "s": block.0.inner(),
                "h": hash_name(&names, &block.1), "implicit": implicit}),
            VerifEvent::ImplicitlySkipped { node, slot } => {
                json!({"e": "ImplSkipped", "node": node.inner(), "s": slot.inner()})
            }
            VerifEvent::Block { node, block, parent } => json!({
                "e": "Block", "node": node.inner(), "s": block.0.inner(), "h": hash_name(&names, &block.1),
                "ps": parent.0.inner(), "ph": hash_name(&names, &parent.1)}),
            VerifEvent::PoolVote { node, vote } => json!({"e": "PoolVote", "node": node.inner(), "vote": vote_json(&names, &vote)}),
            VerifEvent::PoolVoteCounted { node } => json!({"e": "PoolVoteCounted", "node": node.inner()}),
            VerifEvent::PoolCert { node, cert } => json!({"e": "PoolCert", "node": node.inner(), "c": cert_json(&names, &cert)}),
            VerifEvent::PoolEmit { node, event } => json!({"e": "PoolEmit", "node": node.inner(), "ev": pool_event_json(&names, &event)}),
            VerifEvent::VotorPool { node, event } => json!({"e": "VotorPool", "node": node.inner(), "ev": pool_event_json(&names, &event)}),
            VerifEvent::VotorBlockstore { node, event } => {
                use alpenglow::consensus::BlockstoreEvent as BE;
                let ev = match &event {
                    BE::FirstShred(s) => json!({"t": "FirstShred", "s": s.inner()}),
                    BE::InvalidBlock(s) => json!({"t": "InvalidBlock", "s": s.inner()}),
                    BE::Block { slot, block_info } => json!({"t": "Block", "s": slot.inner(),
                        "h": hash_name(&names, block_info.verif_hash()),
                        "par": [block_info.verif_parent().0.inner(), hash_name(&names, &block_info.verif_parent().1)]}),
                };
                json!({"e": "VotorBlockstore", "node": node.inner(), "ev": ev})
            }
            VerifEvent::VotorTimeout { node, slot, crashed_leader } => json!({"e": "VotorTimeout", "node": node.inner(),
                "s": slot.inner(), "crashed": crashed_leader}),
            VerifEvent::CertHeld { node, kind, slot, hash } => json!({
                "e": "CertHeld", "node": node.inner(), "k": kind, "s": slot.inner(),
                "h": hash.map_or_else(|| "-".to_string(), |h| hash_name(&names, &h))}),
        };
        events.push(j);
    }
    let mut summary = result;
    summary["node_errors"] = json!(panics.lock().unwrap().clone());
    summary["panics"] = json!(PANICS.lock().unwrap().clone());
    summary["events"] = json!(events.len());
    let _ = Slot::new(0);
    Ok((events, summary))
}
