//! Generic spec->code replay engine.
//!
//! Input: the stdout of a TLC run whose `ACTION_CONSTRAINT` printed one
//! `<<"EDGE", "{json}">>` line per generated transition (`f`/`t` state ids,
//! `a` action, `e` expected outputs) and whose invariant printed one
//! `<<"STATE", "{json}">>` line per distinct state (`id`, `init`, `obs`).
//!
//! The engine builds the transition graph, generates walks from initial states
//! that cover every transition (or a seeded sample of them), and steps a
//! [`Driver`] (the real implementation object) through each walk, comparing
//! the outputs of every step and the projected state after every step.

use std::collections::{HashMap, VecDeque};
use std::io::{BufRead, BufReader};

use serde_json::{Value, json};

/// The implementation under replay.
pub trait Driver {
    /// Fresh system in its initial state.
    fn reset(&mut self);
    /// Executes one action, returns the observed outputs.
    fn step(&mut self, act: &Value) -> Value;
    /// Projection of the current implementation state (same shape as the spec's `Obs`).
    fn obs(&mut self) -> Value;
    /// Compares expected vs observed outputs; returns the names of diverging fields.
    fn diff_out(&mut self, act: &Value, exp: &Value, got: &Value) -> Vec<String>;
    /// Compares expected vs observed state projection.
    fn diff_obs(&self, exp: &Value, got: &Value) -> Vec<String>;
    /// Short label of an action for fingerprints (e.g. `vote:notar`).
    fn act_label(&self, act: &Value) -> String;
}

pub struct Graph {
    pub ids: HashMap<(i64, i64), u32>,
    pub obs: Vec<Option<u32>>, // index into `strings`
    pub init: Vec<u32>,
    pub out: Vec<Vec<u32>>, // node -> edge indices
    pub edges: Vec<Edge>,
    pub strings: Vec<String>,
    pub intern: HashMap<String, u32>,
    pub other_lines: Vec<String>,
}

#[derive(Clone, Copy)]
pub struct Edge {
    pub from: u32,
    pub to: u32,
    pub act: u32,
    pub exp: u32,
}

fn unwrap_tlc_line<'a>(line: &'a str, tag: &str) -> Option<String> {
    // <<"EDGE", "....">>
    let prefix = format!("<<\"{tag}\", \"");
    let rest = line.strip_prefix(&prefix)?;
    let rest = rest.strip_suffix("\">>")?;
    let mut out = String::with_capacity(rest.len());
    let mut chars = rest.chars();
    while let Some(c) = chars.next() {
        if c == '\\' {
            match chars.next() {
                Some('"') => out.push('"'),
                Some('\\') => out.push('\\'),
                Some('n') => out.push('\n'),
                Some('t') => out.push('\t'),
                Some(o) => {
                    out.push('\\');
                    out.push(o);
                }
                None => out.push('\\'),
            }
        } else {
            out.push(c);
        }
    }
    Some(out)
}

impl Graph {
    fn node(&mut self, id: (i64, i64)) -> u32 {
        if let Some(n) = self.ids.get(&id) {
            return *n;
        }
        let n = self.out.len() as u32;
        self.ids.insert(id, n);
        self.out.push(Vec::new());
        self.obs.push(None);
        n
    }

    fn intern(&mut self, s: String) -> u32 {
        if let Some(i) = self.intern.get(&s) {
            return *i;
        }
        let i = self.strings.len() as u32;
        self.strings.push(s.clone());
        self.intern.insert(s, i);
        i
    }

    pub fn load(path: &str) -> anyhow::Result<Self> {
        let f = std::fs::File::open(path)?;
        let rdr = BufReader::with_capacity(1 << 20, f);
        let mut g = Graph {
            ids: HashMap::new(),
            obs: Vec::new(),
            init: Vec::new(),
            out: Vec::new(),
            edges: Vec::new(),
            strings: Vec::new(),
            intern: HashMap::new(),
            other_lines: Vec::new(),
        };
        for line in rdr.lines() {
            let line = line?;
            if line.starts_with("<<\"EDGE\"") {
                let Some(js) = unwrap_tlc_line(&line, "EDGE") else {
                    anyhow::bail!("malformed EDGE line: {line}");
                };
                let v: Value = serde_json::from_str(&js)?;
                let f = id_of(&v["f"])?;
                let t = id_of(&v["t"])?;
                let from = g.node(f);
                let to = g.node(t);
                let act = g.intern(v["a"].to_string());
                let exp = g.intern(v["e"].to_string());
                let idx = g.edges.len() as u32;
                g.edges.push(Edge { from, to, act, exp });
                g.out[from as usize].push(idx);
            } else if line.starts_with("<<\"STATE\"") {
                let Some(js) = unwrap_tlc_line(&line, "STATE") else {
                    anyhow::bail!("malformed STATE line: {line}");
                };
                let v: Value = serde_json::from_str(&js)?;
                let id = id_of(&v["id"])?;
                let n = g.node(id);
                let o = g.intern(v["obs"].to_string());
                g.obs[n as usize] = Some(o);
                if v["init"].as_bool().unwrap_or(false) {
                    g.init.push(n);
                }
            } else if g.other_lines.len() < 10_000 {
                g.other_lines.push(line);
            }
        }
        Ok(g)
    }
}

fn id_of(v: &Value) -> anyhow::Result<(i64, i64)> {
    let a = v
        .as_array()
        .ok_or_else(|| anyhow::anyhow!("bad state id {v}"))?;
    Ok((
        a[0].as_i64().ok_or_else(|| anyhow::anyhow!("bad id"))?,
        a[1].as_i64().ok_or_else(|| anyhow::anyhow!("bad id"))?,
    ))
}

pub struct ReplayOpts {
    /// Maximum number of edges to cover (None = all).
    pub sample: Option<usize>,
    pub seed: u64,
    /// Stop after this many divergences.
    pub max_div: usize,
    /// Max wall seconds (0 = unlimited); on expiry, stop and report partial coverage.
    pub budget_s: u64,
}

pub struct Divergence {
    pub fingerprint: String,
    pub walk: Vec<Value>,
    pub step: usize,
    pub expected: Value,
    pub observed: Value,
    pub fields: Vec<String>,
}

pub struct ReplayReport {
    pub nodes: usize,
    pub edges: usize,
    pub init: usize,
    pub covered: usize,
    pub steps: u64,
    pub walks: u64,
    pub divergences: Vec<Divergence>,
    pub div_count: u64,
    pub samples: Vec<Value>,
    pub complete: bool,
    pub act_hist: HashMap<String, u64>,
}

impl ReplayReport {
    pub fn to_json(&self, model: &str) -> Value {
        let mut fps: HashMap<String, u64> = HashMap::new();
        for d in &self.divergences {
            *fps.entry(d.fingerprint.clone()).or_default() += 1;
        }
        json!({
            "model": model,
            "nodes": self.nodes, "edges": self.edges, "init": self.init,
            "covered": self.covered, "steps": self.steps, "walks": self.walks,
            "complete": self.complete,
            "div_count": self.div_count,
            "fingerprints": fps,
            "act_hist": self.act_hist,
            "divergences": self.divergences.iter().take(40).map(|d| json!({
                "fingerprint": d.fingerprint, "step": d.step, "fields": d.fields,
                "expected": d.expected, "observed": d.observed, "walk": d.walk,
            })).collect::<Vec<_>>(),
            "samples": self.samples,
        })
    }
}

/// xorshift, good enough for sampling
struct Rng(u64);
impl Rng {
    fn next(&mut self) -> u64 {
        let mut x = self.0;
        x ^= x << 13;
        x ^= x >> 7;
        x ^= x << 17;
        self.0 = x;
        x
    }
}

pub fn replay<D: Driver>(g: &Graph, d: &mut D, opts: &ReplayOpts) -> ReplayReport {
    let t0 = std::time::Instant::now();
    let n = g.out.len();
    let m = g.edges.len();
    let mut rng = Rng(opts.seed.wrapping_mul(0x9E3779B97F4A7C15) | 1);

    // which edges must be covered
    let mut want = vec![true; m];
    let mut want_count = m;
    if let Some(k) = opts.sample
        && k < m
    {
        want = vec![false; m];
        want_count = 0;
        // all edges out of initial states and their successors (depth <= 2)
        let mut near = Vec::new();
        for &i in &g.init {
            for &e in &g.out[i as usize] {
                near.push(e);
                for &e2 in &g.out[g.edges[e as usize].to as usize] {
                    near.push(e2);
                }
            }
        }
        for e in near {
            if !want[e as usize] && want_count < k {
                want[e as usize] = true;
                want_count += 1;
            }
        }
        let mut guard = 0;
        while want_count < k && guard < 50 * k {
            guard += 1;
            let e = (rng.next() % m as u64) as usize;
            if !want[e] {
                want[e] = true;
                want_count += 1;
            }
        }
    }

    // per node: number of wanted-unvisited out edges, and cursor
    let mut pending: Vec<u32> = vec![0; n];
    for (i, e) in g.edges.iter().enumerate() {
        if want[i] {
            pending[e.from as usize] += 1;
        }
    }
    let mut visited = vec![false; m];
    let mut bad = vec![false; m];
    let mut cursor: Vec<u32> = vec![0; n];

    // BFS tree from the initial states (over non-bad edges)
    let bfs = |bad: &Vec<bool>| -> Vec<u32> {
        let mut par = vec![u32::MAX; n]; // parent edge
        let mut seen = vec![false; n];
        let mut q = VecDeque::new();
        for &i in &g.init {
            seen[i as usize] = true;
            q.push_back(i);
        }
        while let Some(u) = q.pop_front() {
            for &e in &g.out[u as usize] {
                if bad[e as usize] {
                    continue;
                }
                let v = g.edges[e as usize].to;
                if !seen[v as usize] {
                    seen[v as usize] = true;
                    par[v as usize] = e;
                    q.push_back(v);
                }
            }
        }
        par
    };
    let mut par = bfs(&bad);
    let mut par_dirty = false;
    let is_init: Vec<bool> = {
        let mut v = vec![false; n];
        for &i in &g.init {
            v[i as usize] = true;
        }
        v
    };

    // nodes with pending edges, processed in index order (BFS discovery order of TLC)
    let mut frontier: Vec<u32> = (0..n as u32).filter(|&u| pending[u as usize] > 0).collect();
    frontier.reverse(); // pop from the end = lowest index first

    let mut rep = ReplayReport {
        nodes: n,
        edges: m,
        init: g.init.len(),
        covered: 0,
        steps: 0,
        walks: 0,
        divergences: Vec::new(),
        div_count: 0,
        samples: Vec::new(),
        complete: false,
        act_hist: HashMap::new(),
    };

    let parse = |idx: u32| -> Value { serde_json::from_str(&g.strings[idx as usize]).unwrap() };
    let mut act_cache: HashMap<u32, Value> = HashMap::new();
    let mut exp_cache: HashMap<u32, Value> = HashMap::new();

    'outer: while let Some(&target) = frontier.last() {
        if pending[target as usize] == 0 {
            frontier.pop();
            continue;
        }
        if opts.budget_s > 0 && t0.elapsed().as_secs() >= opts.budget_s {
            break;
        }
        if par_dirty {
            par = bfs(&bad);
            par_dirty = false;
        }
        // path from an initial state to target
        let mut prefix = Vec::new();
        let mut u = target;
        let mut ok = true;
        while !is_init[u as usize] {
            let e = par[u as usize];
            if e == u32::MAX {
                ok = false;
                break;
            }
            prefix.push(e);
            u = g.edges[e as usize].from;
        }
        if !ok {
            // unreachable without bad edges: give up on this node's edges
            pending[target as usize] = 0;
            frontier.pop();
            continue;
        }
        prefix.reverse();

        // run the walk
        rep.walks += 1;
        d.reset();
        let mut walk_edges: Vec<u32> = Vec::new();
        let mut cur = u;
        let mut pi = 0usize;
        loop {
            // choose next edge
            let e = if pi < prefix.len() {
                let e = prefix[pi];
                pi += 1;
                e
            } else {
                // next wanted-unvisited edge out of cur
                let outs = &g.out[cur as usize];
                let mut found = None;
                while (cursor[cur as usize] as usize) < outs.len() {
                    let e = outs[cursor[cur as usize] as usize];
                    cursor[cur as usize] += 1;
                    if want[e as usize] && !visited[e as usize] && !bad[e as usize] {
                        found = Some(e);
                        break;
                    }
                }
                match found {
                    Some(e) => e,
                    None => break,
                }
            };
            let ed = g.edges[e as usize];
            let act = act_cache.entry(ed.act).or_insert_with(|| parse(ed.act)).clone();
            let exp = exp_cache.entry(ed.exp).or_insert_with(|| parse(ed.exp)).clone();
            if exp_cache.len() > 200_000 {
                exp_cache.clear();
            }
            walk_edges.push(e);
            let got = d.step(&act);
            rep.steps += 1;
            let mut fields = d.diff_out(&act, &exp, &got);
            let mut exp_full = json!({"out": exp});
            let mut got_full = json!({"out": got});
            let panicked = got.get("panic").and_then(Value::as_str).is_some_and(|s| !s.is_empty());
            if fields.is_empty() && !panicked
                && let Some(o) = g.obs[ed.to as usize]
            {
                let eo = parse(o);
                let go = d.obs();
                let f2 = d.diff_obs(&eo, &go);
                if !f2.is_empty() {
                    fields = f2.into_iter().map(|f| format!("obs.{f}")).collect();
                    exp_full["obs"] = eo;
                    got_full["obs"] = go;
                }
            }
            if !visited[e as usize] {
                visited[e as usize] = true;
                if want[e as usize] {
                    rep.covered += 1;
                    pending[ed.from as usize] -= 1;
                    *rep.act_hist.entry(d.act_label(&act)).or_default() += 1;
                }
            }
            if !fields.is_empty() {
                rep.div_count += 1;
                bad[e as usize] = true;
                par_dirty = true;
                let label = d.act_label(&act);
                let fp = format!("{}|{}", label, fields.join(","));
                if rep.divergences.len() < 400 {
                    rep.divergences.push(Divergence {
                        fingerprint: fp,
                        walk: walk_edges
                            .iter()
                            .map(|&we| parse(g.edges[we as usize].act))
                            .collect(),
                        step: walk_edges.len() - 1,
                        expected: exp_full,
                        observed: got_full,
                        fields,
                    });
                }
                if rep.div_count as usize >= opts.max_div {
                    break 'outer;
                }
                break;
            }
            if panicked {
                break; // expected panic: the walk ends here
            }
            cur = ed.to;
        }
        if rep.samples.len() < 3 && walk_edges.len() >= 3 {
            rep.samples.push(Value::Array(
                walk_edges
                    .iter()
                    .map(|&we| {
                        json!({"act": parse(g.edges[we as usize].act), "expected": parse(g.edges[we as usize].exp)})
                    })
                    .collect(),
            ));
        }
    }
    rep.complete = rep.covered >= want_count && rep.div_count == 0;
    rep
}

/// Replays behaviours produced by `tlc -simulate` (one `<<"SIM", "{json}">>` line per visited
/// state: `l` level, `a` action that led here, `e` expected outputs, `obs` expected projection).
pub fn replay_sim<D: Driver>(path: &str, d: &mut D, max_div: usize) -> anyhow::Result<ReplayReport> {
    let f = std::fs::File::open(path)?;
    let rdr = BufReader::with_capacity(1 << 20, f);
    let mut rep = ReplayReport {
        nodes: 0,
        edges: 0,
        init: 0,
        covered: 0,
        steps: 0,
        walks: 0,
        divergences: Vec::new(),
        div_count: 0,
        samples: Vec::new(),
        complete: false,
        act_hist: HashMap::new(),
    };
    let mut walk: Vec<Value> = Vec::new();
    let mut sample: Vec<Value> = Vec::new();
    let mut distinct: std::collections::HashSet<u64> = std::collections::HashSet::new();
    'lines: for line in rdr.lines() {
        let line = line?;
        if !line.starts_with("<<\"REPLAY\"") {
            continue;
        }
        let Some(js) = unwrap_tlc_line(&line, "REPLAY") else {
            anyhow::bail!("malformed REPLAY line");
        };
        let steps: Value = serde_json::from_str(&js)?;
        let steps = steps.as_array().cloned().unwrap_or_default();
        if rep.samples.len() < 3 && sample.len() >= 3 {
            rep.samples.push(Value::Array(std::mem::take(&mut sample)));
        }
        sample.clear();
        d.reset();
        walk.clear();
        rep.walks += 1;
        rep.init += 1;
        for v in &steps {
            let act = &v["a"];
            let exp = &v["e"];
            walk.push(act.clone());
            if sample.len() < 12 {
                sample.push(json!({"act": act, "expected": exp}));
            }
            let got = d.step(act);
            rep.steps += 1;
            rep.edges += 1;
            {
                use std::hash::{Hash, Hasher};
                let mut h = std::collections::hash_map::DefaultHasher::new();
                v["obs"].to_string().hash(&mut h);
                act.to_string().hash(&mut h);
                distinct.insert(h.finish());
            }
            *rep.act_hist.entry(d.act_label(act)).or_default() += 1;
            let mut fields = d.diff_out(act, exp, &got);
            let mut exp_full = json!({"out": exp});
            let mut got_full = json!({"out": got});
            let panicked = got.get("panic").and_then(Value::as_str).is_some_and(|s| !s.is_empty());
            if fields.is_empty() && !panicked {
                let go = d.obs();
                let f2 = d.diff_obs(&v["obs"], &go);
                if !f2.is_empty() {
                    fields = f2.into_iter().map(|f| format!("obs.{f}")).collect();
                    exp_full["obs"] = v["obs"].clone();
                    got_full["obs"] = go;
                }
            }
            if !fields.is_empty() {
                rep.div_count += 1;
                let fp = format!("{}|{}", d.act_label(act), fields.join(","));
                if rep.divergences.len() < 400 {
                    rep.divergences.push(Divergence {
                        fingerprint: fp,
                        walk: walk.clone(),
                        step: walk.len() - 1,
                        expected: exp_full,
                        observed: got_full,
                        fields,
                    });
                }
                if rep.div_count as usize >= max_div {
                    break 'lines;
                }
                break;
            } else if panicked {
                break;
            }
        }
    }
    if rep.samples.is_empty() && !sample.is_empty() {
        rep.samples.push(Value::Array(sample));
    }
    rep.covered = distinct.len();
    rep.nodes = distinct.len();
    rep.complete = rep.div_count == 0;
    Ok(rep)
}

/// Canonical form for multiset/set comparison: recursively sort arrays by their JSON text.
pub fn canon(v: &Value) -> Value {
    match v {
        Value::Array(a) => {
            let mut items: Vec<Value> = a.iter().map(canon).collect();
            items.sort_by_key(|x| x.to_string());
            Value::Array(items)
        }
        Value::Object(o) => {
            let mut m = serde_json::Map::new();
            let mut keys: Vec<_> = o.keys().cloned().collect();
            keys.sort();
            for k in keys {
                m.insert(k.clone(), canon(&o[&k]));
            }
            Value::Object(m)
        }
        _ => v.clone(),
    }
}
