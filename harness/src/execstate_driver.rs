//! Replay drivers for the execution state (spec: ExecState.tla / MC_ExecState.tla).
//!
//! * [`StateDriver`]: every model fork is a real `State` plus a real `LtHash` kept in sync with
//!   `observe(key, old, new)` (the values returned by `insert` / `remove`), in several
//!   *layouts* at once.  A layout maps the model's chunk positions to real 5-bit chunk
//!   positions of the 32-byte address (shallow, as deep as the address allows, spread), all
//!   other chunks being a common filler, so model keys become addresses with long shared
//!   prefixes; and the model's values to byte strings (one layout uses the empty value).
//! * [`EngineDriver`]: a real `DummyExecution`; its tracked blocks are observed after every
//!   step through `end_block` (which only reports).  Commitments are compared as equality
//!   classes: the spec gives the hash *term* of every reported commitment; equal terms must
//!   give equal commitments (determinism, also across engine instances), different terms
//!   different ones, and a term without transactions is the seed block hash itself.

use std::cell::RefCell;
use std::collections::HashMap;
use std::panic::{AssertUnwindSafe, catch_unwind};

use alpenglow::crypto::Hash;
use alpenglow::crypto::merkle::{BlockHash, GENESIS_BLOCK_HASH};
use alpenglow::execution::{
    DummyExecution, ExecutionEngine, ExecutionEvent, InProgressBlock, LtHash, State,
};
use alpenglow::types::Slot;
use alpenglow::{BlockId, Transaction};
use rand::rngs::StdRng;
use rand::{RngExt, SeedableRng};
use serde_json::{Value, json};
use tokio::sync::mpsc;

use crate::graph::Driver;
use crate::world::hex;

type Address = [u8; 32];
/// Number of 5-bit chunk positions of a 256-bit address (the last one holds a single bit).
const NUM_CHUNKS: usize = 52;

fn panic_text(e: Box<dyn std::any::Any + Send>) -> String {
    if let Some(s) = e.downcast_ref::<&str>() {
        (*s).to_string()
    } else if let Some(s) = e.downcast_ref::<String>() {
        s.clone()
    } else {
        "panic".into()
    }
}

/// Writes the 5-bit value `val` at chunk position `pos` (big-endian bit string; the bits of
/// the last chunk that fall outside the address are dropped).
fn set_chunk(addr: &mut Address, pos: usize, val: u32) {
    for b in 0..5 {
        let bit = pos * 5 + b;
        if bit >= 256 {
            continue;
        }
        let mask = 0x80u8 >> (bit % 8);
        if (val >> (4 - b)) & 1 == 1 {
            addr[bit / 8] |= mask;
        } else {
            addr[bit / 8] &= !mask;
        }
    }
}

struct Layout {
    name: String,
    /// real chunk position of every model chunk index
    pos: Vec<usize>,
    /// real chunk value of (model chunk index, model chunk value); increasing in the value
    cv: Vec<Vec<u32>>,
    filler: Address,
    /// bytes of model value v (index v-1)
    values: Vec<Vec<u8>>,
    addr_of: HashMap<Vec<u64>, Address>,
    key_of: HashMap<Address, Vec<u64>>,
    forks: Vec<State>,
    lts: Vec<LtHash>,
    /// take a snapshot (clone) of the written fork before every write, so that every write of
    /// this layout copies the path, and require the snapshot to be unchanged afterwards
    snapshots: bool,
    /// digest of `lts[f]`, recomputed after every write to fork f
    digests: Vec<Option<alpenglow::execution::StateCommitment>>,
    entry_cache: HashMap<(Address, usize), LtHash>,
}

impl Layout {
    fn new(name: &str, pos: Vec<usize>, nchunk: usize, values: Vec<Vec<u8>>, rng: &mut StdRng) -> Self {
        let mut filler = [0u8; 32];
        rng.fill(&mut filler[..]);
        let cv = pos
            .iter()
            .map(|&p| {
                if p == NUM_CHUNKS - 1 {
                    assert!(nchunk <= 2, "the last chunk holds one bit");
                    vec![0, 16]
                } else {
                    let mut v: Vec<u32> = Vec::new();
                    while v.len() < nchunk {
                        let x = rng.random_range(0..32u32);
                        if !v.contains(&x) {
                            v.push(x);
                        }
                    }
                    v.sort_unstable();
                    v
                }
            })
            .collect();
        Self {
            name: name.to_string(),
            pos,
            cv,
            filler,
            values,
            addr_of: HashMap::new(),
            key_of: HashMap::new(),
            forks: Vec::new(),
            lts: Vec::new(),
            snapshots: false,
            digests: Vec::new(),
            entry_cache: HashMap::new(),
        }
    }

    fn addr(&mut self, k: &[u64]) -> Address {
        if let Some(a) = self.addr_of.get(k) {
            return *a;
        }
        let mut a = self.filler;
        for (i, c) in k.iter().enumerate() {
            set_chunk(&mut a, self.pos[i], self.cv[i][*c as usize]);
        }
        self.addr_of.insert(k.to_vec(), a);
        self.key_of.insert(a, k.to_vec());
        a
    }

    /// model value of real value bytes: 0 = none, -1 = bytes that are no model value
    fn val_name(&self, v: Option<&[u8]>) -> i64 {
        match v {
            None => 0,
            Some(b) => self
                .values
                .iter()
                .position(|x| x.as_slice() == b)
                .map_or(-1, |i| i as i64 + 1),
        }
    }

    fn key_json(&self, a: &Address) -> Value {
        match self.key_of.get(a) {
            Some(k) => json!(k),
            None => json!(hex(a)),
        }
    }

    fn entry_hash(&mut self, a: &Address, v: &[u8]) -> LtHash {
        let vi = self.values.iter().position(|x| x.as_slice() == v);
        if let Some(vi) = vi
            && let Some(h) = self.entry_cache.get(&(*a, vi))
        {
            return h.clone();
        }
        let mut h = LtHash::identity();
        h.add_entry(a, v);
        if let Some(vi) = vi {
            self.entry_cache.insert((*a, vi), h.clone());
        }
        h
    }

    fn reset(&mut self, nf: usize) {
        self.forks = (0..nf).map(|_| State::new()).collect();
        self.lts = (0..nf).map(|_| LtHash::identity()).collect();
        self.digests = (0..nf).map(|_| None).collect();
    }

    fn snapshot(&self, f: usize) -> Option<(State, Vec<(Address, Vec<u8>)>)> {
        self.snapshots.then(|| {
            let snap = self.forks[f].clone();
            let entries = snap.iter().map(|(k, v)| (*k, v.to_vec())).collect();
            (snap, entries)
        })
    }

    /// the snapshot taken before the write still has the contents it had
    fn snapshot_intact(snap: Option<(State, Vec<(Address, Vec<u8>)>)>) -> bool {
        snap.is_none_or(|(snap, entries)| {
            snap.len() == entries.len()
                && snap.iter().map(|(k, v)| (*k, v.to_vec())).eq(entries.iter().cloned())
                && entries.iter().all(|(k, v)| snap.get(k) == Some(v.as_slice()))
        })
    }

    /// one model action; returns the model name of the returned value (-7: the snapshot taken
    /// before the write changed)
    fn step(&mut self, act: &Value) -> i64 {
        let f = act["f"].as_u64().unwrap_or(1) as usize - 1;
        match act["op"].as_str().unwrap_or("") {
            "ins" => {
                let k: Vec<u64> = act["k"].as_array().unwrap().iter().map(|x| x.as_u64().unwrap()).collect();
                let a = self.addr(&k);
                let v = self.values[act["v"].as_u64().unwrap() as usize - 1].clone();
                let snap = self.snapshot(f);
                let old = self.forks[f].insert(a, v.clone());
                if !Self::snapshot_intact(snap) {
                    return -7;
                }
                self.lts[f].observe(&a, old.as_deref(), Some(&v));
                self.digests[f] = None;
                self.val_name(old.as_deref())
            }
            "rem" => {
                let k: Vec<u64> = act["k"].as_array().unwrap().iter().map(|x| x.as_u64().unwrap()).collect();
                let a = self.addr(&k);
                let snap = self.snapshot(f);
                let old = self.forks[f].remove(&a);
                if !Self::snapshot_intact(snap) {
                    return -7;
                }
                self.lts[f].observe(&a, old.as_deref(), None);
                self.digests[f] = None;
                self.val_name(old.as_deref())
            }
            "fork" => {
                let g = act["g"].as_u64().unwrap() as usize - 1;
                self.forks[g] = self.forks[f].clone();
                self.lts[g] = self.lts[f].clone();
                self.digests[g] = None;
                0
            }
            _ => 0,
        }
    }

    /// Projection in compact form: per fork `[len, ltok, canon, get(key 0), .., get(key K-1),
    /// (key index, value) of every iterated entry ..]`, plus the `==` and commitment-equality
    /// matrices (row-major).
    fn obs(&mut self, keys: &[Vec<u64>]) -> Value {
        let nf = self.forks.len();
        let mut forks: Vec<Vec<i64>> = Vec::new();
        for f in 0..nf {
            let mut row: Vec<i64> = Vec::with_capacity(3 + 3 * keys.len());
            let entries: Vec<(Address, Vec<u8>)> =
                self.forks[f].iter().map(|(k, v)| (*k, v.to_vec())).collect();
            let via_into = (&self.forks[f]).into_iter().map(|(k, v)| (*k, v.to_vec()));
            let len = if self.forks[f].is_empty() == (self.forks[f].len() == 0)
                && via_into.eq(entries.iter().cloned())
            {
                self.forks[f].len() as i64
            } else {
                -1
            };
            // commitment recomputed from the contents through the public API, entries combined
            // in reverse iteration order
            let mut rec = LtHash::identity();
            for (k, v) in entries.iter().rev() {
                let h = self.entry_hash(k, v);
                rec += &h;
            }
            let mut ltok = self.lts[f] == rec;
            if self.digests[f].is_none() {
                // after every write to the fork: the 32-byte digests agree as well
                let d = self.lts[f].digest();
                ltok = ltok && d == rec.digest();
                self.digests[f] = Some(d);
            }
            // a state built from the same contents by other operation sequences
            let mut asc = State::new();
            for (k, v) in &entries {
                asc.insert(*k, v.clone());
            }
            let mut desc = State::new();
            for (k, v) in entries.iter().rev() {
                desc.insert(*k, vec![0xEE; 3]);
                desc.insert(*k, v.clone());
            }
            let canon = asc == self.forks[f] && self.forks[f] == desc && asc.len() == self.forks[f].len();
            row.push(len);
            row.push(i64::from(ltok));
            row.push(i64::from(canon));
            for k in keys {
                let a = self.addr(k);
                row.push(self.val_name(self.forks[f].get(&a)));
            }
            for (k, v) in &entries {
                let ki = self
                    .key_of
                    .get(k)
                    .and_then(|mk| keys.iter().position(|x| x == mk))
                    .map_or(-1, |i| i as i64);
                row.push(ki);
                row.push(self.val_name(Some(v)));
            }
            forks.push(row);
        }
        let mut eq: Vec<i64> = Vec::with_capacity(nf * nf);
        let mut ceq: Vec<i64> = Vec::with_capacity(nf * nf);
        for f in 0..nf {
            for g in 0..nf {
                eq.push(i64::from(self.forks[f] == self.forks[g]));
                let a = self.digests[f] == self.digests[g];
                let b = self.lts[f] == self.lts[g];
                ceq.push(if a == b { i64::from(a) } else { -1 });
            }
        }
        json!({"forks": forks, "eq": eq, "ceq": ceq})
    }
}

pub struct StateDriver {
    /// wall time spent in step / obs / diff_obs (ns)
    pub timing: [u64; 3],
    nf: usize,
    keys: Vec<Vec<u64>>,
    layouts: Vec<Layout>,
}

impl StateDriver {
    /// `keys`: the model keys (chunk sequences, all of one length), `nv` values, `nf` forks.
    pub fn new(keys: Vec<Vec<u64>>, nv: usize, nf: usize, seed: u64) -> Self {
        let mut rng = StdRng::seed_from_u64(seed ^ 0xC20_57A7E);
        let depth = keys[0].len();
        let nchunk = keys.iter().flatten().max().copied().unwrap_or(1) as usize + 1;
        assert!(depth <= 8 && nv <= 4);
        let small: Vec<Vec<u8>> = (0..nv).map(|i| vec![i as u8 + 1]).collect();
        // the empty value, then zero bytes of growing length (each a prefix of the next)
        let zeros: Vec<Vec<u8>> = (0..nv).map(|i| vec![0u8; i]).collect();
        // long values, value i a prefix of value i+1
        let mut base = vec![0u8; 24];
        rng.fill(&mut base[..]);
        let long: Vec<Vec<u8>> = (0..nv).map(|i| base[..8 + 8 * i.min(2)].to_vec()).collect();
        let long: Vec<Vec<u8>> = long
            .into_iter()
            .enumerate()
            .map(|(i, mut v)| {
                if i >= 3 {
                    v.push(i as u8);
                }
                v
            })
            .collect();
        let shallow: Vec<usize> = (0..depth).collect();
        let deep: Vec<usize> = (NUM_CHUNKS - depth..NUM_CHUNKS).collect();
        // spread: increasing positions, the first one at least 12 chunks (60 bits) deep
        let mut spread: Vec<usize> = Vec::new();
        while spread.len() < depth {
            let p = rng.random_range(12..NUM_CHUNKS - 1);
            if !spread.contains(&p) {
                spread.push(p);
            }
        }
        spread.sort_unstable();
        let mut layouts = vec![
            Layout::new("shallow", shallow, nchunk, small, &mut rng),
            Layout::new("deep", deep, nchunk, zeros, &mut rng),
            Layout::new("spread", spread, nchunk, long, &mut rng),
        ];
        layouts[2].snapshots = true;
        Self { timing: [0; 3], nf, keys, layouts }
    }

    pub fn layout_json(&self) -> Value {
        Value::Array(
            self.layouts
                .iter()
                .map(|l| json!({"name": l.name, "chunk_positions": l.pos, "chunk_values": l.cv,
                                "snapshot_before_every_write": l.snapshots,
                                "values": l.values.iter().map(|v| hex(v)).collect::<Vec<_>>()}))
                .collect(),
        )
    }
}

impl Driver for StateDriver {
    fn reset(&mut self) {
        let nf = self.nf;
        for l in &mut self.layouts {
            l.reset(nf);
        }
    }

    fn step(&mut self, act: &Value) -> Value {
        let t0 = std::time::Instant::now();
        let mut rets = Vec::new();
        let mut panic = String::new();
        for l in &mut self.layouts {
            match catch_unwind(AssertUnwindSafe(|| l.step(act))) {
                Ok(r) => rets.push(r),
                Err(e) => {
                    panic = format!("{}: {}", l.name, panic_text(e));
                    break;
                }
            }
        }
        self.timing[0] += t0.elapsed().as_nanos() as u64;
        json!({"ret": rets, "panic": panic})
    }

    fn obs(&mut self) -> Value {
        let t0 = std::time::Instant::now();
        let keys = self.keys.clone();
        let mut out = Vec::new();
        for l in &mut self.layouts {
            match catch_unwind(AssertUnwindSafe(|| l.obs(&keys))) {
                Ok(o) => out.push(o),
                Err(e) => out.push(json!({"panic": panic_text(e)})),
            }
        }
        self.timing[1] += t0.elapsed().as_nanos() as u64;
        json!({"L": out})
    }

    fn diff_out(&mut self, _act: &Value, exp: &Value, got: &Value) -> Vec<String> {
        let mut d = Vec::new();
        if !got["panic"].as_str().unwrap_or("").is_empty() {
            d.push("panic".into());
            return d;
        }
        for (i, r) in got["ret"].as_array().unwrap().iter().enumerate() {
            if r.as_i64() == Some(-7) {
                d.push(format!("snapshot@{}", self.layouts[i].name));
            } else if r.as_i64() != exp["ret"].as_i64() {
                d.push(format!("ret@{}", self.layouts[i].name));
            }
        }
        d
    }

    fn diff_obs(&self, exp: &Value, got: &Value) -> Vec<String> {
        let mut d = Vec::new();
        // the spec's projection in the compact form of `Layout::obs`
        let nk = self.keys.len();
        let kidx = |k: &Value| -> i64 {
            self.keys
                .iter()
                .position(|x| k.as_array().is_some_and(|a| a.iter().map(|c| c.as_u64().unwrap_or(99)).eq(x.iter().copied())))
                .map_or(-2, |i| i as i64)
        };
        let erows: Vec<Vec<i64>> = exp["forks"]
            .as_array()
            .unwrap()
            .iter()
            .map(|e| {
                let mut row = vec![
                    e["len"].as_i64().unwrap(),
                    i64::from(e["ltok"].as_bool().unwrap()),
                    i64::from(e["canon"].as_bool().unwrap()),
                ];
                let mut get = vec![0i64; nk];
                for x in e["get"].as_array().unwrap() {
                    get[kidx(&x["k"]) as usize] = x["v"].as_i64().unwrap();
                }
                row.extend(get);
                for x in e["iter"].as_array().unwrap() {
                    row.push(kidx(&x["k"]));
                    row.push(x["v"].as_i64().unwrap());
                }
                row
            })
            .collect();
        let flat = |m: &Value| -> Vec<i64> {
            m.as_array()
                .unwrap()
                .iter()
                .flat_map(|r| r.as_array().unwrap().iter().map(|b| i64::from(b.as_bool().unwrap())))
                .collect()
        };
        let eeq = flat(&exp["eq"]);
        let eceq = flat(&exp["ceq"]);
        let ints = |v: &Value| -> Vec<i64> {
            v.as_array().map_or_else(Vec::new, |a| a.iter().map(|x| x.as_i64().unwrap_or(-99)).collect())
        };
        for (i, o) in got["L"].as_array().unwrap().iter().enumerate() {
            let name = &self.layouts[i].name;
            if o.get("panic").is_some() {
                d.push(format!("panic@{name}"));
                continue;
            }
            let grows: Vec<Vec<i64>> = o["forks"].as_array().unwrap().iter().map(ints).collect();
            if grows.len() != erows.len() {
                d.push(format!("forks@{name}"));
                continue;
            }
            for (e, g) in erows.iter().zip(grows.iter()) {
                if e == g {
                    continue;
                }
                for (j, k) in ["len", "ltok", "canon"].iter().enumerate() {
                    if e[j] != g.get(j).copied().unwrap_or(-99) {
                        d.push(format!("{k}@{name}"));
                    }
                }
                if g.len() < 3 + nk || e[3..3 + nk] != g[3..3 + nk] {
                    d.push(format!("get@{name}"));
                }
                if g.len() < 3 + nk || e[3 + nk..] != g[3 + nk..] {
                    d.push(format!("iter@{name}"));
                }
            }
            if eeq != ints(&o["eq"]) {
                d.push(format!("eq@{name}"));
            }
            if eceq != ints(&o["ceq"]) {
                d.push(format!("ceq@{name}"));
            }
        }
        d.sort();
        d.dedup();
        d
    }

    fn act_label(&self, act: &Value) -> String {
        format!("{}:{}", act["op"].as_str().unwrap_or("?"), act["kind"].as_str().unwrap_or(""))
    }
}

// ------------------------------------------------------------------------------------------

pub struct EngineDriver {
    engine: Option<DummyExecution>,
    rx: Option<mpsc::Receiver<ExecutionEvent>>,
    probes: Vec<(u64, String)>,
    hashes: HashMap<String, BlockHash>,
    txs: HashMap<String, Vec<u8>>,
    seed: u64,
    /// commitment classes observed so far, over all walks (= over many engine instances)
    term_commit: RefCell<HashMap<String, String>>,
    commit_term: RefCell<HashMap<String, String>>,
}

fn hash_bytes(h: &BlockHash) -> Vec<u8> {
    crate::world::hash_bytes(h)
}

impl EngineDriver {
    /// `probes`: the block ids (slot, hash name) looked at after every step.
    pub fn new(probes: Vec<(u64, String)>, seed: u64) -> Self {
        let mut hashes = HashMap::new();
        hashes.insert("G".to_string(), GENESIS_BLOCK_HASH);
        Self {
            engine: None,
            rx: None,
            probes,
            hashes,
            txs: HashMap::new(),
            seed,
            term_commit: RefCell::new(HashMap::new()),
            commit_term: RefCell::new(HashMap::new()),
        }
    }

    fn hash(&mut self, name: &str) -> BlockHash {
        if let Some(h) = self.hashes.get(name) {
            return h.clone();
        }
        let h: BlockHash = if name == "G" {
            GENESIS_BLOCK_HASH
        } else {
            alpenglow::crypto::hash::hash(format!("verif-block-{name}-{}", self.seed).as_bytes()).into()
        };
        self.hashes.insert(name.to_string(), h.clone());
        h
    }

    /// transaction bytes of a model transaction name: seeded lengths 0..48; the second
    /// transaction extends the first by one zero byte, the third is empty
    fn tx(&mut self, name: &str) -> Transaction {
        if self.txs.is_empty() {
            let mut rng = StdRng::seed_from_u64(self.seed ^ 0x7C20);
            let mut t1 = vec![0u8; rng.random_range(1..48)];
            rng.fill(&mut t1[..]);
            let mut t2 = t1.clone();
            t2.push(0);
            self.txs.insert("t1".into(), t1);
            self.txs.insert("t2".into(), t2);
            self.txs.insert("t3".into(), Vec::new());
        }
        if !self.txs.contains_key(name) {
            let b = alpenglow::crypto::hash::hash(format!("verif-tx-{name}").as_bytes());
            let r: &[u8] = b.as_ref();
            self.txs.insert(name.to_string(), r.to_vec());
        }
        Transaction(self.txs[name].clone())
    }

    fn in_progress(&mut self, id: &Value) -> InProgressBlock {
        let s = Slot::new(id["s"].as_u64().unwrap());
        if id["m"] == "P" {
            InProgressBlock::Pending(s)
        } else {
            InProgressBlock::Known((s, self.hash(id["h"].as_str().unwrap())))
        }
    }

    /// `end_block` + the event it produced: {cnt, commit} (cnt = -1: no event)
    fn end(&mut self, s: u64, h: &str) -> Value {
        let bid: BlockId = (Slot::new(s), self.hash(h));
        let engine = self.engine.as_mut().expect("engine");
        engine.end_block(bid.clone());
        let mut evs = Vec::new();
        while let Ok(ev) = self.rx.as_mut().expect("rx").try_recv() {
            evs.push(ev);
        }
        match evs.as_slice() {
            [] => json!({"cnt": -1, "commit": ""}),
            [ExecutionEvent::BlockExecuted { block_id, result }] => match result {
                Ok(r) => {
                    let c: Hash = r.state_commitment.clone().into();
                    let cb: &[u8] = c.as_ref();
                    json!({"cnt": r.tx_count, "commit": hex(cb), "same_id": *block_id == bid})
                }
                Err(e) => json!({"cnt": -2, "commit": format!("{e:?}")}),
            },
            _ => json!({"cnt": -3, "commit": format!("{} events", evs.len())}),
        }
    }

    /// compares one expected (cnt, term) with one observed (cnt, commit)
    fn cmp(&self, e_cnt: i64, e_term: &Value, got: &Value, d: &mut Vec<String>) {
        if got["cnt"].as_i64() != Some(e_cnt) {
            d.push("tx_count".into());
            return;
        }
        if e_cnt < 0 {
            return;
        }
        if got["same_id"] == json!(false) {
            d.push("block_id".into());
        }
        let term = e_term.to_string();
        let commit = got["commit"].as_str().unwrap_or("").to_string();
        let names = e_term.as_array().unwrap();
        if names.len() == 1 {
            // no transaction folded in: the commitment is the seed itself, a block hash
            let n = names[0].as_str().unwrap();
            if let Some(h) = self.hashes.get(n)
                && hex(&hash_bytes(h)) != commit
            {
                d.push("commit.seed".into());
            }
        }
        let mut tc = self.term_commit.borrow_mut();
        let mut ct = self.commit_term.borrow_mut();
        match tc.get(&term) {
            Some(c) if *c != commit => d.push("commit.nondeterministic".into()),
            Some(_) => {}
            None => {
                if let Some(t) = ct.get(&commit) {
                    if *t != term {
                        d.push("commit.collision".into());
                    }
                } else {
                    tc.insert(term.clone(), commit.clone());
                    ct.insert(commit, term);
                }
            }
        }
    }

    pub fn classes(&self) -> usize {
        self.term_commit.borrow().len()
    }
}

impl Driver for EngineDriver {
    fn reset(&mut self) {
        let (tx, rx) = mpsc::channel(16);
        self.engine = Some(DummyExecution::new(tx));
        self.rx = Some(rx);
    }

    fn step(&mut self, act: &Value) -> Value {
        let op = act["op"].as_str().unwrap_or("").to_string();
        let r = catch_unwind(AssertUnwindSafe(|| match op.as_str() {
            "begin" => {
                let id = self.in_progress(&act["id"]);
                let par = &act["par"];
                let parent = if par["h"] == "-" {
                    None
                } else {
                    Some((Slot::new(par["s"].as_u64().unwrap()), self.hash(par["h"].as_str().unwrap())))
                };
                self.engine.as_mut().expect("engine").begin_block(id, parent);
                json!({"cnt": -1, "commit": ""})
            }
            "exec" => {
                let id = self.in_progress(&act["id"]);
                let txs: Vec<Transaction> = act["txs"]
                    .as_array()
                    .unwrap()
                    .iter()
                    .map(|t| self.tx(t.as_str().unwrap()))
                    .collect();
                self.engine.as_mut().expect("engine").execute_transactions(id, txs);
                json!({"cnt": -1, "commit": ""})
            }
            "end" => self.end(act["s"].as_u64().unwrap(), act["h"].as_str().unwrap()),
            "fin" => {
                let bid = (Slot::new(act["s"].as_u64().unwrap()), self.hash(act["h"].as_str().unwrap()));
                self.engine.as_mut().expect("engine").finalize(bid);
                json!({"cnt": -1, "commit": ""})
            }
            _ => json!({"cnt": -1, "commit": ""}),
        }));
        match r {
            Ok(ev) => {
                // nothing but end_block may emit
                let mut stray = 0;
                while self.rx.as_mut().expect("rx").try_recv().is_ok() {
                    stray += 1;
                }
                json!({"ev": ev, "stray": stray, "panic": ""})
            }
            Err(e) => json!({"panic": panic_text(e)}),
        }
    }

    fn obs(&mut self) -> Value {
        let probes = self.probes.clone();
        let r = catch_unwind(AssertUnwindSafe(|| {
            probes
                .iter()
                .map(|(s, h)| {
                    let mut v = self.end(*s, h);
                    v["s"] = json!(s);
                    v["h"] = json!(h);
                    v
                })
                .collect::<Vec<Value>>()
        }));
        match r {
            Ok(v) => Value::Array(v),
            Err(e) => json!({"panic": panic_text(e)}),
        }
    }

    fn diff_out(&mut self, _act: &Value, exp: &Value, got: &Value) -> Vec<String> {
        let mut d = Vec::new();
        if !got["panic"].as_str().unwrap_or("").is_empty() {
            d.push("panic".into());
            return d;
        }
        if got["stray"].as_u64().unwrap_or(0) > 0 {
            d.push("unexpected".into());
        }
        self.cmp(exp["ev"]["cnt"].as_i64().unwrap_or(-1), &exp["ev"]["term"], &got["ev"], &mut d);
        d.iter().map(|f| format!("ev.{f}")).collect()
    }

    fn diff_obs(&self, exp: &Value, got: &Value) -> Vec<String> {
        let mut d = Vec::new();
        let Some(gs) = got.as_array() else {
            return vec!["panic".into()];
        };
        for e in exp.as_array().unwrap() {
            let Some(g) = gs.iter().find(|g| g["s"] == e["s"] && g["h"] == e["h"]) else {
                d.push("probe.missing".into());
                continue;
            };
            self.cmp(e["cnt"].as_i64().unwrap_or(-1), &e["term"], g, &mut d);
        }
        d.sort();
        d.dedup();
        d
    }

    fn act_label(&self, act: &Value) -> String {
        format!("{}:{}", act["op"].as_str().unwrap_or("?"), act["kind"].as_str().unwrap_or(""))
    }
}

// ------------------------------------------------------------------------------------------

fn arg_after(args: &[String], name: &str) -> Option<String> {
    args.iter()
        .position(|a| a == name)
        .and_then(|i| args.get(i + 1).cloned())
}

/// `replay-execstate --kind state|engine --tlc-out F [--sim] [--sample N] [--max-div N]`
///   state:  `--keys 000,001,..  --nv N --forks N`
///   engine: `--probes 1:A,2:A,1:?,..`
pub fn run(args: &[String], seed: u64) -> anyhow::Result<Value> {
    let path = arg_after(args, "--tlc-out").expect("--tlc-out");
    let kind = arg_after(args, "--kind").unwrap_or_else(|| "state".into());
    let sample = arg_after(args, "--sample").and_then(|s| s.parse().ok());
    let budget_s = arg_after(args, "--budget").and_then(|s| s.parse().ok()).unwrap_or(0);
    let max_div = arg_after(args, "--max-div").and_then(|s| s.parse().ok()).unwrap_or(60);
    let sim = args.iter().any(|a| a == "--sim");
    let opts = crate::graph::ReplayOpts { sample, seed, max_div, budget_s };
    let t_all = std::time::Instant::now();
    let mut t_load = 0u64;
    if kind == "state" {
        let keys: Vec<Vec<u64>> = arg_after(args, "--keys")
            .expect("--keys")
            .split(',')
            .map(|k| k.chars().map(|c| c.to_digit(10).expect("chunk digit") as u64).collect())
            .collect();
        let nv: usize = arg_after(args, "--nv").and_then(|s| s.parse().ok()).unwrap_or(2);
        let nf: usize = arg_after(args, "--forks").and_then(|s| s.parse().ok()).unwrap_or(2);
        let mut d = StateDriver::new(keys, nv, nf, seed);
        let mut rep = if sim {
            crate::graph::replay_sim(&path, &mut d, max_div)?.to_json("execstate")
        } else {
            let g = crate::graph::Graph::load(&path)?;
            t_load = t_all.elapsed().as_millis() as u64;
            crate::graph::replay(&g, &mut d, &opts).to_json("execstate")
        };
        rep["layouts"] = d.layout_json();
        rep["timing_ms"] = json!({"step": d.timing[0] / 1_000_000, "obs": d.timing[1] / 1_000_000,
                                  "total": t_all.elapsed().as_millis() as u64, "load": t_load});
        Ok(rep)
    } else {
        let probes: Vec<(u64, String)> = arg_after(args, "--probes")
            .expect("--probes")
            .split(',')
            .map(|p| {
                let (s, h) = p.split_once(':').expect("slot:hash");
                (s.parse().expect("slot"), h.to_string())
            })
            .collect();
        let mut d = EngineDriver::new(probes, seed);
        let mut rep = if sim {
            crate::graph::replay_sim(&path, &mut d, max_div)?.to_json("execengine")
        } else {
            let g = crate::graph::Graph::load(&path)?;
            crate::graph::replay(&g, &mut d, &opts).to_json("execengine")
        };
        rep["commitment_classes"] = json!(d.classes());
        Ok(rep)
    }
}
