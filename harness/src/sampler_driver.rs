//! Driver for the committee samplers (spec: Sampler.tla / MC_Sampler.tla / Trace_Sampler.tla).
//!
//! Two bindings:
//!  * `--cases <tlc.out>`: TLC enumerated every small (stakes, k) with the spec's expectations
//!    (guaranteed seats, boundary / zero flags, seat caps, may-refuse flags); every shipped
//!    strategy is constructed twice and drawn from, the committees are compared with them.
//!  * `--record <dir>`: draws from every shipped strategy over generated stake distributions are
//!    recorded as NDJSON events; TLC (Trace_Sampler) judges every event against the predicates;
//!    `--judge <trace>=<tlc.out>,...` joins events and verdicts into a report.
//!
//! Panics of the code under test are data.

use std::collections::{BTreeMap, HashMap};
use std::io::{BufRead, BufReader, Write};
use std::panic::{AssertUnwindSafe, catch_unwind};
use std::sync::OnceLock;

use alpenglow::crypto::{aggsig, signature};
use alpenglow::disseminator::rotor::sampling_strategy::{
    AllSameSampler, DecayingAcceptanceSampler, FaitAccompli1Sampler, FaitAccompli2Sampler,
    IidQuorumSampler, PartitionSampler, QuorumSamplingStrategy, SamplingStrategy,
    StakeWeightedSampler, TurbineSampler, UniformSampler,
};
use alpenglow::disseminator::turbine::VerifWeightedShuffle;
use alpenglow::network::localhost_ip_sockaddr;
use alpenglow::{Stake, ValidatorIndex, ValidatorInfo};
use rand::prelude::*;
use rand::rngs::StdRng;
use serde_json::{Value, json};

use crate::cases::load_tagged;

// ------------------------------------------------------------------ strategies

#[derive(Clone, Debug)]
pub struct Strat {
    /// strategy name as known to the spec (Sampler!AllStrategies)
    name: &'static str,
    /// max_samples = num / den of the decaying sampler (0/1 otherwise)
    num: u64,
    den: u64,
}

impl Strat {
    fn label(&self) -> String {
        if self.name == "decay" {
            format!("decay_{}_{}", self.num, self.den)
        } else {
            self.name.to_string()
        }
    }
}

fn strat(name: &'static str) -> Strat {
    Strat { name, num: 0, den: 1 }
}

fn decay(num: u64, den: u64) -> Strat {
    Strat { name: "decay", num, den }
}

fn all_strats(decays: &[(u64, u64)]) -> Vec<Strat> {
    let mut v = vec![
        strat("all_same"),
        strat("uniform"),
        strat("stake_weighted"),
        strat("turbine"),
        strat("turbine_f2"),
        strat("partition"),
        strat("fa1_partition"),
        strat("fa1_iid"),
        strat("fa2"),
    ];
    for (n, d) in decays {
        v.push(decay(*n, *d));
    }
    v
}

enum AnySampler {
    AllSame(IidQuorumSampler<AllSameSampler>),
    Uniform(IidQuorumSampler<UniformSampler>),
    StakeWeighted(IidQuorumSampler<StakeWeightedSampler>),
    Turbine(IidQuorumSampler<TurbineSampler>),
    Decay(DecayingAcceptanceSampler),
    Partition(PartitionSampler),
    Fa1Partition(FaitAccompli1Sampler<PartitionSampler>),
    Fa1Iid(FaitAccompli1Sampler<IidQuorumSampler<StakeWeightedSampler>>),
    Fa2(FaitAccompli2Sampler),
}

impl AnySampler {
    /// Constructs the sampler exactly as the crate does (`Rotor::new`: stake-weighted IID,
    /// `Rotor::new_fa1`: FA1 with partition fallback; the others through their public constructors).
    fn build(s: &Strat, validators: Vec<ValidatorInfo>, k: usize) -> Self {
        match s.name {
            "all_same" => {
                let v = validators[k % validators.len()].clone();
                Self::AllSame(AllSameSampler(v).into_quorum_strategy(k))
            }
            "uniform" => Self::Uniform(UniformSampler::new(validators).into_quorum_strategy(k)),
            "stake_weighted" => {
                Self::StakeWeighted(StakeWeightedSampler::new(validators).into_quorum_strategy(k))
            }
            "turbine" => Self::Turbine(TurbineSampler::new(validators).into_quorum_strategy(k)),
            "turbine_f2" => {
                Self::Turbine(TurbineSampler::new_with_fanout(validators, 2).into_quorum_strategy(k))
            }
            "decay" => Self::Decay(DecayingAcceptanceSampler::new(
                validators,
                s.num as f64 / s.den as f64,
                k,
            )),
            "partition" => Self::Partition(PartitionSampler::new(validators, k)),
            "fa1_partition" => Self::Fa1Partition(
                FaitAccompli1Sampler::new_with_partition_fallback(validators, k as u64),
            ),
            "fa1_iid" => Self::Fa1Iid(FaitAccompli1Sampler::new_with_stake_weighted_fallback(
                validators, k as u64,
            )),
            "fa2" => Self::Fa2(FaitAccompli2Sampler::new(validators, k as u64)),
            other => panic!("verif: unknown strategy {other}"),
        }
    }

    fn sample_quorum(&self, rng: &mut StdRng) -> Vec<ValidatorIndex> {
        match self {
            Self::AllSame(s) => s.sample_quorum(rng),
            Self::Uniform(s) => s.sample_quorum(rng),
            Self::StakeWeighted(s) => s.sample_quorum(rng),
            Self::Turbine(s) => s.sample_quorum(rng),
            Self::Decay(s) => s.sample_quorum(rng),
            Self::Partition(s) => s.sample_quorum(rng),
            Self::Fa1Partition(s) => s.sample_quorum(rng),
            Self::Fa1Iid(s) => s.sample_quorum(rng),
            Self::Fa2(s) => s.sample_quorum(rng),
        }
    }
}

fn base_info() -> &'static ValidatorInfo {
    static BASE: OnceLock<ValidatorInfo> = OnceLock::new();
    BASE.get_or_init(|| {
        let mut rng = StdRng::seed_from_u64(0xC17);
        let sk = signature::SecretKey::new(&mut rng);
        let vsk = aggsig::SecretKey::new(&mut rng);
        ValidatorInfo {
            id: ValidatorIndex::new(0),
            stake: Stake::new(0),
            pubkey: sk.to_pk(),
            voting_pubkey: vsk.to_pk(),
            all2all_address: localhost_ip_sockaddr(0),
            disseminator_address: localhost_ip_sockaddr(0),
            repair_requester_address: localhost_ip_sockaddr(0),
            repair_responder_address: localhost_ip_sockaddr(0),
        }
    })
}

/// The samplers never look at keys or addresses: one key pair serves all validators.
fn make_validators(stakes: &[u64]) -> Vec<ValidatorInfo> {
    stakes
        .iter()
        .enumerate()
        .map(|(i, s)| {
            let mut v = base_info().clone();
            v.id = ValidatorIndex::new(i as u64);
            v.stake = Stake::new(*s);
            v
        })
        .collect()
}

fn panic_msg(e: Box<dyn std::any::Any + Send>) -> String {
    let s = if let Some(s) = e.downcast_ref::<&str>() {
        (*s).to_string()
    } else if let Some(s) = e.downcast_ref::<String>() {
        s.clone()
    } else {
        "panic".to_string()
    };
    // keep the recorded message plain (it travels through TLC's JSON reader)
    s.chars()
        .map(|c| if c.is_ascii_alphanumeric() || " _.:-<>=!()".contains(c) { c } else { ' ' })
        .take(160)
        .collect()
}

/// Classification of a panic message for fingerprints: words, digits masked.
fn slug(msg: &str) -> String {
    let mut words = Vec::new();
    for w in msg.split(|c: char| !c.is_ascii_alphanumeric()) {
        if w.is_empty() {
            continue;
        }
        if w.chars().all(|c| c.is_ascii_digit()) {
            continue;
        }
        words.push(w.to_ascii_lowercase());
        if words.len() == 9 {
            break;
        }
    }
    if words.is_empty() { "panic".to_string() } else { words.join("_") }
}

/// The random source handed to the sampler: seeded exactly like `Rotor::sample_relays`
/// (slot, slice, 0, 0 as big-endian words), slot = seed, slice = 0.
fn rng_for(seed: u64) -> StdRng {
    let bytes = [seed.to_be_bytes(), 0usize.to_be_bytes(), [0; 8], [0; 8]].concat();
    StdRng::from_seed(bytes.try_into().expect("32 bytes"))
}

struct Run {
    ok: bool,
    c: Vec<u64>,
    panic: String,
}

impl Run {
    fn to_json(&self) -> Value {
        json!({"ok": self.ok, "c": self.c, "panic": self.panic})
    }
}

fn draw(s: &AnySampler, seed: u64) -> Run {
    let mut rng = rng_for(seed);
    match catch_unwind(AssertUnwindSafe(|| s.sample_quorum(&mut rng))) {
        Ok(c) => Run { ok: true, c: c.into_iter().map(|v| v.inner()).collect(), panic: String::new() },
        Err(e) => Run { ok: false, c: Vec::new(), panic: panic_msg(e) },
    }
}

struct Group {
    cpanic: Option<String>,
    /// per seed: first instance, second instance, first instance again
    draws: Vec<(u64, [Run; 3])>,
}

/// Two independently constructed instances; every seed is drawn from both, then from the first
/// one again after all other draws (interior state must not leak between committees).
fn run_group(s: &Strat, stakes: &[u64], k: usize, seeds: &[u64]) -> Group {
    let build = || catch_unwind(AssertUnwindSafe(|| AnySampler::build(s, make_validators(stakes), k)));
    let a = build();
    let b = build();
    let (mut a, mut b) = match (a, b) {
        (Ok(a), Ok(b)) => (a, b),
        (Err(e), _) | (_, Err(e)) => {
            return Group { cpanic: Some(panic_msg(e)), draws: Vec::new() };
        }
    };
    // an instance that panicked inside a draw is replaced by a fresh one (a panic ends the
    // process in production; whatever state it leaves behind is not judged)
    let draw_fresh = |s: &mut AnySampler, seed: u64| -> Run {
        let r = draw(s, seed);
        if !r.ok {
            if let Ok(n) = build() {
                *s = n;
            }
        }
        r
    };
    let mut first: Vec<(u64, Run, Run)> = Vec::new();
    for seed in seeds {
        let r0 = draw_fresh(&mut a, *seed);
        let r1 = draw_fresh(&mut b, *seed);
        first.push((*seed, r0, r1));
    }
    let mut draws = Vec::new();
    for (seed, r0, r1) in first {
        let r2 = draw_fresh(&mut a, seed);
        draws.push((seed, [r0, r1, r2]));
    }
    Group { cpanic: None, draws }
}

// ------------------------------------------------------------------ weighted shuffle

/// Random source of Turbine's tree construction (`TurbineTree::new`): "ALPENGLOWTURBINE",
/// slot, shred index as big-endian words; slot = seed, shred = 0.
fn turbine_rng(seed: u64) -> StdRng {
    let bytes = [&b"ALPENGLOWTURBINE"[..], &seed.to_be_bytes()[..], &0usize.to_be_bytes()[..]].concat();
    StdRng::from_seed(bytes.try_into().expect("32 bytes"))
}

struct ShuffleDraw {
    seed: u64,
    /// size of the partial draw
    m: usize,
    /// full / again: two instances, same seed; part + cont: m, then the rest with the same
    /// source; part2 + rest2: m, then the rest with another source
    runs: [Run; 6],
}

const SHUFFLE_FIELDS: [&str; 6] = ["full", "again", "part", "cont", "part2", "rest2"];

impl ShuffleDraw {
    fn to_json(&self) -> Value {
        let mut o = serde_json::Map::new();
        o.insert("seed".into(), json!(self.seed));
        o.insert("m".into(), json!(self.m));
        for (f, r) in SHUFFLE_FIELDS.iter().zip(&self.runs) {
            o.insert((*f).into(), r.to_json());
        }
        Value::Object(o)
    }
}

fn shuffle_run(ws: &mut VerifWeightedShuffle, rng: &mut StdRng, max: usize) -> Run {
    match catch_unwind(AssertUnwindSafe(|| ws.draw(rng, max))) {
        Ok(c) => Run { ok: true, c: c.into_iter().map(|v| v as u64).collect(), panic: String::new() },
        Err(e) => Run { ok: false, c: Vec::new(), panic: panic_msg(e) },
    }
}

/// Builds four shuffles per seed (a shuffle is consumed by drawing) and draws as described
/// at `ShuffleDraw`. A panic of `WeightedShuffle::new` is the group's construction panic.
fn run_shuffle(stakes: &[u64], seeds: &[u64]) -> (Option<String>, Vec<ShuffleDraw>) {
    let n = stakes.len();
    let build = || catch_unwind(AssertUnwindSafe(|| VerifWeightedShuffle::new(stakes)));
    let mut draws = Vec::new();
    for seed in seeds {
        let (mut a, mut b, mut c, mut d) = match (build(), build(), build(), build()) {
            (Ok(a), Ok(b), Ok(c), Ok(d)) => (a, b, c, d),
            (Err(e), ..) | (_, Err(e), ..) | (_, _, Err(e), _) | (_, _, _, Err(e)) => {
                return (Some(panic_msg(e)), Vec::new());
            }
        };
        let m = n * ((*seed as usize % 3) + 1) / 4;
        let full = shuffle_run(&mut a, &mut turbine_rng(*seed), usize::MAX);
        let again = shuffle_run(&mut b, &mut turbine_rng(*seed), usize::MAX);
        let mut rng = turbine_rng(*seed);
        let part = shuffle_run(&mut c, &mut rng, m);
        let cont = shuffle_run(&mut c, &mut rng, usize::MAX);
        let part2 = shuffle_run(&mut d, &mut turbine_rng(*seed), m);
        let rest2 = shuffle_run(&mut d, &mut turbine_rng(seed.wrapping_add(1000)), usize::MAX);
        draws.push(ShuffleDraw { seed: *seed, m, runs: [full, again, part, cont, part2, rest2] });
    }
    (None, draws)
}

// ------------------------------------------------------------------ report

struct Report {
    model: String,
    cases: u64,
    draws: u64,
    div_count: u64,
    fingerprints: BTreeMap<String, u64>,
    divergences: Vec<Value>,
    samples: Vec<Value>,
    hist: BTreeMap<String, u64>,
}

impl Report {
    fn new(model: &str) -> Self {
        Self {
            model: model.to_string(),
            cases: 0,
            draws: 0,
            div_count: 0,
            fingerprints: BTreeMap::new(),
            divergences: Vec::new(),
            samples: Vec::new(),
            hist: BTreeMap::new(),
        }
    }

    fn count(&mut self, key: &str, n: u64) {
        *self.hist.entry(key.to_string()).or_default() += n;
    }

    /// Every distinct fingerprint is reported (with at most two witnesses each).
    fn diverge(&mut self, fingerprint: &str, pred: &str, replay: Value, observed: Value) {
        self.div_count += 1;
        let n = self.fingerprints.entry(fingerprint.to_string()).or_default();
        *n += 1;
        if *n <= 2 {
            self.divergences.push(json!({
                "fingerprint": fingerprint, "fields": [pred], "step": 0,
                "walk": [replay], "expected": format!("Sampler!{pred} holds"), "observed": observed,
            }));
        }
    }

    fn to_json(&self) -> Value {
        json!({
            "model": self.model,
            "nodes": self.cases, "edges": self.draws, "init": 0,
            "covered": self.draws, "steps": self.draws, "walks": self.draws,
            "complete": self.div_count == 0,
            "div_count": self.div_count,
            "fingerprints": self.fingerprints,
            "act_hist": self.hist,
            "divergences": self.divergences,
            "samples": self.samples,
        })
    }
}

/// Size class of the validator set, part of construction-panic fingerprints.
fn size_class(n: usize) -> &'static str {
    match n {
        1 => "n=1",
        2 => "n=2",
        _ => "n>2",
    }
}

fn replay_cmd(label: &str, stakes: &[u64], k: usize, seed: u64) -> String {
    let st: Vec<String> = stakes.iter().map(|s| s.to_string()).collect();
    format!(
        "/verif/harness/target/debug/verif-harness replay-sampler --one {label} --k {k} --seed {seed} --stakes {}",
        st.join(",")
    )
}

// ------------------------------------------------------------------ spec -> code: small cases

struct Table {
    stake_proportional: Vec<String>,
    fait_accompli: Vec<String>,
    decaying: Vec<String>,
    fa1_exact: Vec<String>,
    partition_fallback: Vec<String>,
    shuffles: Vec<String>,
    all: Vec<String>,
}

fn strs(v: &Value) -> Vec<String> {
    v.as_array()
        .map(|a| a.iter().filter_map(|x| x.as_str().map(str::to_string)).collect())
        .unwrap_or_default()
}

fn replay_cases(path: &str, seeds_per_case: u64, infeasible_every: u64) -> anyhow::Result<Value> {
    let tables = load_tagged(path, "TABLE")?;
    let t = tables.first().ok_or_else(|| anyhow::anyhow!("no TABLE line in TLC output"))?;
    let table = Table {
        stake_proportional: strs(&t["stakeProportional"]),
        fait_accompli: strs(&t["faitAccompli"]),
        decaying: strs(&t["decaying"]),
        fa1_exact: strs(&t["fa1Exact"]),
        partition_fallback: strs(&t["partitionFallback"]),
        shuffles: strs(&t["shuffles"]),
        all: strs(&t["all"]),
    };
    let cases = load_tagged(path, "CASE")?;
    let mut rep = Report::new("sampler_cases");
    let seeds: Vec<u64> = (1..=seeds_per_case).collect();
    for (ci, case) in cases.iter().enumerate() {
        let stakes: Vec<u64> = case["st"].as_array().unwrap().iter().map(|x| x.as_u64().unwrap()).collect();
        let k = case["k"].as_u64().unwrap() as usize;
        let n = stakes.len();
        let min: Vec<u64> = case["min"].as_array().unwrap().iter().map(|x| x.as_u64().unwrap()).collect();
        let bnd: Vec<bool> = case["bnd"].as_array().unwrap().iter().map(|x| x.as_bool().unwrap()).collect();
        let pcap: Vec<u64> = case["pcap"].as_array().unwrap().iter().map(|x| x.as_u64().unwrap()).collect();
        let zero: Vec<bool> = case["zero"].as_array().unwrap().iter().map(|x| x.as_bool().unwrap()).collect();
        let must_construct = case["mustConstruct"].as_bool().unwrap();
        anyhow::ensure!(case["n"].as_u64() == Some(n as u64) && min.len() == n && bnd.len() == n && zero.len() == n && pcap.len() == n,
            "malformed CASE");
        rep.cases += 1;
        if min.iter().any(|m| *m > 0) {
            rep.count("case.owed", 1);
        }
        if min.iter().zip(&bnd).any(|(m, b)| *m > 0 && *b) {
            rep.count("case.owed_boundary", 1);
        }
        if zero.iter().any(|z| *z) {
            rep.count("case.zero", 1);
        }
        // a validator without residual (owed seats, exact multiple) next to one with a residual
        if min.iter().zip(&bnd).any(|(m, b)| *m > 0 && *b) && bnd.iter().any(|b| !*b) {
            rep.count("case.exact_next_to_residual", 1);
        }
        // the weighted shuffle depends on the stake vector only: once per vector (its k = 1 copy)
        if k == 1 {
            anyhow::ensure!(table.shuffles.iter().any(|x| x == "weighted_shuffle"), "weighted_shuffle unknown to the spec");
            let npos = case["npos"].as_u64().unwrap() as usize;
            let label = "weighted_shuffle";
            rep.count("strategy.weighted_shuffle", 1);
            let (cpanic, draws) = run_shuffle(&stakes, &seeds);
            let replay = |seed: u64| json!({"case": case, "strategy": label, "seed": seed,
                "rerun": replay_cmd(label, &stakes, 1, seed)});
            if let Some(msg) = &cpanic {
                rep.diverge(&format!("{label}:Constructible:{}:{}", slug(msg), size_class(n)), "Constructible",
                    replay(0), json!({"panic": msg}));
            }
            for d in &draws {
                rep.draws += 1;
                let obs = d.to_json();
                let [full, again, part, cont, part2, rest2] = &d.runs;
                if let Some(r) = d.runs.iter().find(|r| !r.ok) {
                    rep.diverge(&format!("{label}:Returns:{}", slug(&r.panic)), "Returns", replay(d.seed), obs.clone());
                    continue;
                }
                let mut failed: Vec<&str> = Vec::new();
                let mut sorted = full.c.clone();
                sorted.sort();
                if sorted != (0..n as u64).collect::<Vec<_>>() {
                    failed.push("ShufflePermutation");
                }
                if full.c.iter().take(npos).any(|v| (*v as usize) < n && zero[*v as usize]) {
                    failed.push("ShuffleZerosLast");
                }
                if full.c != again.c {
                    failed.push("Determinism");
                }
                let pre = &full.c[..d.m.min(full.c.len())];
                if part.c != pre || part2.c != pre {
                    failed.push("ShufflePrefix");
                }
                if [part.c.clone(), cont.c.clone()].concat() != full.c {
                    failed.push("ShuffleContinues");
                }
                let mut both = [part2.c.clone(), rest2.c.clone()].concat();
                both.sort();
                if both != (0..n as u64).collect::<Vec<_>>() {
                    failed.push("ShuffleRemoves");
                }
                let drawn_pos = part2.c.iter().filter(|v| (**v as usize) < n && !zero[**v as usize]).count();
                if rest2.c.iter().take(npos.saturating_sub(drawn_pos)).any(|v| (*v as usize) < n && zero[*v as usize]) {
                    failed.push("ShuffleZerosLast");
                }
                failed.sort();
                failed.dedup();
                for p in failed {
                    rep.diverge(&format!("{label}:{p}"), p, replay(d.seed), obs.clone());
                }
            }
        }
        let decays: Vec<(u64, u64)> = case["decay"].as_array().unwrap().iter()
            .map(|d| (d["num"].as_u64().unwrap(), d["den"].as_u64().unwrap())).collect();
        for s in all_strats(&decays) {
            anyhow::ensure!(table.all.iter().any(|x| x == s.name), "strategy {} unknown to the spec", s.name);
            let label = s.label();
            let dinfo = case["decay"].as_array().unwrap().iter()
                .find(|d| d["num"].as_u64() == Some(s.num) && d["den"].as_u64() == Some(s.den));
            let (cap, must_return) = if table.decaying.iter().any(|x| x == s.name) {
                let d = dinfo.expect("decay expectations");
                if !d["feasible"].as_bool().unwrap() {
                    rep.count("case.decay_infeasible", 1);
                    // rejection sampling runs into MAX_TRIES: sample these (slow) cases
                    if (ci as u64) % infeasible_every != 0 {
                        continue;
                    }
                }
                (d["cap"].as_u64().unwrap(), d["mustReturn"].as_bool().unwrap())
            } else {
                (u64::MAX, must_construct)
            };
            let g = run_group(&s, &stakes, k, &seeds);
            rep.count(&format!("strategy.{label}"), 1);
            let replay = |seed: u64| json!({"case": case, "strategy": label, "seed": seed,
                "rerun": replay_cmd(&label, &stakes, k, seed)});
            if let Some(msg) = &g.cpanic {
                rep.count("construct_panic", 1);
                if must_construct {
                    rep.diverge(&format!("{label}:Constructible:{}:{}", slug(msg), size_class(n)), "Constructible",
                        replay(0), json!({"panic": msg}));
                }
                continue;
            }
            for (seed, runs) in &g.draws {
                rep.draws += 1;
                if rep.samples.len() < 3 && runs[0].ok {
                    rep.samples.push(json!({"strategy": label, "stakes": stakes, "k": k, "seed": seed,
                        "committee": runs[0].c, "expected_min_seats": min}));
                }
                let obs = json!({"runs": runs.iter().map(Run::to_json).collect::<Vec<_>>()});
                if let Some(r) = runs.iter().find(|r| !r.ok) {
                    rep.count("sample_panic", 1);
                    if must_return {
                        rep.diverge(&format!("{label}:Returns:{}", slug(&r.panic)), "Returns", replay(*seed), obs.clone());
                    }
                }
                let returned: Vec<&Run> = runs.iter().filter(|r| r.ok).collect();
                if returned.windows(2).any(|w| w[0].c != w[1].c) {
                    rep.diverge(&format!("{label}:Determinism"), "Determinism", replay(*seed), obs.clone());
                }
                let mut failed: Vec<&str> = Vec::new();
                for r in &returned {
                    if r.c.len() != k {
                        failed.push("Sized");
                    }
                    if r.c.iter().any(|v| *v >= n as u64) {
                        failed.push("InRange");
                        continue;
                    }
                    let mut seats = vec![0u64; n];
                    for v in &r.c {
                        seats[*v as usize] += 1;
                    }
                    if table.stake_proportional.iter().any(|x| x == s.name)
                        && (0..n).any(|v| zero[v] && seats[v] > 0)
                    {
                        failed.push("NoZero");
                    }
                    if table.fait_accompli.iter().any(|x| x == s.name) {
                        for v in 0..n {
                            if seats[v] < min[v] {
                                failed.push(if bnd[v] { "FaSeatsBoundary" } else { "FaSeatsInterior" });
                            }
                        }
                    }
                    if table.fa1_exact.iter().any(|x| x == s.name)
                        && (0..n).any(|v| bnd[v] && seats[v] != min[v])
                    {
                        failed.push("FaExactWhenNoResidual");
                    }
                    if table.partition_fallback.iter().any(|x| x == s.name)
                        && (0..n).any(|v| seats[v] > pcap[v])
                    {
                        failed.push("FaPartitionCap");
                    }
                    if seats.iter().any(|x| *x > cap) {
                        failed.push("DecayCap");
                    }
                }
                failed.sort();
                failed.dedup();
                for p in failed {
                    rep.diverge(&format!("{label}:{p}"), p, replay(*seed), obs.clone());
                }
            }
        }
    }
    Ok(rep.to_json())
}

// ------------------------------------------------------------------ stake distributions

/// Deterministic generator of stake vectors: (kind, n, gseed, param) -> stakes.
fn gen_stakes(kind: &str, n: usize, gseed: u64, param: u64) -> Vec<u64> {
    let mut rng = StdRng::seed_from_u64(gseed.wrapping_mul(0x9E37_79B9_7F4A_7C15) ^ (n as u64) << 20 ^ param);
    let pareto = |rng: &mut StdRng, cap: f64| -> u64 {
        let u: f64 = rng.random_range(1e-9..1.0);
        (1.0 / u.powf(1.1)).min(cap).max(1.0) as u64
    };
    match kind {
        // every validator the same stake `param`
        "equal" => vec![param; n],
        "smallint" => (0..n).map(|_| rng.random_range(1..=9u64)).collect(),
        // heavy tail, stakes capped at `param`
        "heavy" => (0..n).map(|_| pareto(&mut rng, param as f64)).collect(),
        // validator 0 holds `param` per mille of the total
        "dominant" => {
            let mut st: Vec<u64> = (0..n).map(|_| rng.random_range(1..=9u64)).collect();
            let others: u64 = st.iter().skip(1).sum::<u64>().max(1);
            st[0] = (others * param).div_ceil(1000 - param).max(1);
            st
        }
        // total = k*q exactly (k = param); several validators sit on / next to a multiple of q = Total/k
        "boundary" => {
            let k = param.max(1);
            let q = (n as u64).div_ceil(k) + rng.random_range(0..12u64);
            let mut st = vec![1u64; n];
            let mut budget = k * q - n as u64;
            for s in st.iter_mut() {
                let m = rng.random_range(1..=3u64);
                let delta: i64 = [-1, 0, 0, 0, 1][rng.random_range(0..5usize)];
                let want = (m * q) as i64 + delta;
                if want < 1 {
                    continue;
                }
                let extra = want as u64 - 1;
                if extra <= budget && rng.random_range(0..3u32) > 0 {
                    *s += extra;
                    budget -= extra;
                }
            }
            let last = n - 1;
            st[last] += budget;
            st
        }
        // small integers, about one in four validators has no stake
        "zeros" => {
            let mut st: Vec<u64> = (0..n)
                .map(|_| if rng.random_range(0..4u32) == 0 { 0 } else { rng.random_range(1..=9u64) })
                .collect();
            if st.iter().all(|s| *s == 0) {
                st[0] = 1;
            }
            st
        }
        // lamport-scale heavy tail: total around `param` (e.g. 4e17)
        "lamports" => {
            let raw: Vec<f64> = (0..n).map(|_| pareto(&mut rng, 1e6) as f64 + rng.random_range(0.0..1.0)).collect();
            let sum: f64 = raw.iter().sum();
            raw.iter().map(|x| ((x / sum) * param as f64) as u64 + 1).collect()
        }
        // lamport scale, validator 0 holds 4/5
        "lamports_dominant" => {
            let each = param / 5 / (n.max(2) as u64 - 1);
            let mut st: Vec<u64> = (0..n).map(|_| each.max(2) - rng.random_range(0..each.max(2) / 2)).collect();
            st[0] = param / 5 * 4;
            st
        }
        // validator 0 holds exactly half of the stake (n-1 of 2(n-1)), everybody else 1: with
        // k = n-1 validator 0 is owed exactly k/2 seats and has no residual, the others have one
        "exactheavy" => {
            let mut st = vec![1u64; n];
            st[0] = (n as u64 - 1).max(1);
            st
        }
        // heavy tail capped at `param`, about one in eight validators without stake
        "skewzero" => {
            let mut st: Vec<u64> = (0..n)
                .map(|_| if rng.random_range(0..8u32) == 0 { 0 } else { pareto(&mut rng, param as f64) })
                .collect();
            if n > 0 && st.iter().all(|s| *s == 0) {
                st[0] = 1;
            }
            st
        }
        "allzero" => vec![0; n],
        // validator 0 holds `param`, everybody else a single-digit stake
        "whale" => {
            let mut st: Vec<u64> = (0..n).map(|_| rng.random_range(1..=9u64)).collect();
            st[0] = param;
            st
        }
        // lamport scale, total = 64*q exactly; some validators on / next to a multiple of q = Total/64
        "lamports_boundary" => {
            let q = param / 64;
            let mut st = vec![0u64; n];
            let mut budget = 64 * q;
            let specials = n.saturating_sub(1).min(24);
            for s in st.iter_mut().take(specials) {
                let m = rng.random_range(1..=2u64);
                let delta: i64 = [-1, 0, 1][rng.random_range(0..3usize)];
                let want = ((m * q) as i64 + delta) as u64;
                if want + (n as u64) < budget {
                    *s = want;
                    budget -= want;
                }
            }
            let rest: Vec<usize> = (0..n).filter(|i| st[*i] == 0).collect();
            let each = budget / rest.len() as u64;
            for i in &rest {
                st[*i] = each;
            }
            st[*rest.last().unwrap()] += budget - each * rest.len() as u64;
            st
        }
        other => panic!("verif: unknown distribution {other}"),
    }
}

struct Dist {
    kind: &'static str,
    n: usize,
    gseed: u64,
    param: u64,
}

fn plan(tier: &str, seed: u64) -> Vec<(Dist, Vec<usize>)> {
    let thorough = tier == "thorough";
    let mut rng = StdRng::seed_from_u64(seed ^ 0xC17_5A3D);
    let mut out: Vec<(Dist, Vec<usize>)> = Vec::new();
    let mut add = |kind: &'static str, n: usize, gseed: u64, param: u64, ks: Vec<usize>| {
        out.push((Dist { kind, n, gseed, param }, ks));
    };
    let reps: u64 = if thorough { 8 } else { 1 };
    let ns_small: Vec<usize> = if thorough {
        vec![1, 2, 3, 4, 5, 7, 11, 16, 33, 49, 63, 64, 65, 100, 128, 200]
    } else {
        vec![1, 2, 3, 4, 5, 7, 11, 33, 49, 64, 65, 100, 200]
    };
    let kpool = [1usize, 2, 3, 5, 7, 16, 32, 49, 64, 100];
    for r in 0..reps {
        for &n in &ns_small {
            let g = seed.wrapping_mul(1000) + r * 100 + 1;
            let mut pick = |extra: usize| -> Vec<usize> {
                let mut ks = vec![64usize, kpool[rng.random_range(0..kpool.len())], extra];
                ks.sort();
                ks.dedup();
                ks
            };
            // n validators of equal stake: stake fraction exactly 1/n (k = n: 1/k boundary, e.g. 1/49)
            add("equal", n, g, [1, 7, 1000][(r % 3) as usize], pick(n));
            add("smallint", n, g, 0, pick(n));
            add("heavy", n, g, 30_000, pick(2 * n));
            add("dominant", n, g, [900, 500, 990][(r % 3) as usize], pick(n));
            add("boundary", n, g, 64, vec![64]);
            add("boundary", n, g + 1, 49, vec![49]);
            add("boundary", n, g + 2, 7, vec![7]);
            add("zeros", n, g, 0, pick(n));
            // without-replacement decay has to reach the single-digit validators next to a whale
            add("whale", n, g, 200_000_000, vec![n.min(5)]);
            // one heavy validator on an exact multiple of Total/k next to validators with residuals
            if n >= 3 && r == 0 {
                add("exactheavy", n, g, 0, vec![n - 1]);
            }
        }
    }
    // large validator sets (panics, well-formedness, determinism; floors not evaluated by TLC
    // for the lamport-scale ones)
    let ns_big: Vec<usize> = if thorough { vec![500, 1000, 2000] } else { vec![1000] };
    for r in 0..(if thorough { 3 } else { 1 }) {
        for &n in &ns_big {
            let g = seed.wrapping_mul(1000) + 50 + r;
            add("equal", n, g, 1, vec![64, n]);
            add("smallint", n, g, 0, vec![64]);
            add("heavy", n, g, 30_000, vec![64, 200]);
            add("lamports", n, g, 400_000_000_000_000_000, vec![64]);
            add("lamports_dominant", n, g, 400_000_000_000_000_000, vec![64]);
            add("boundary", n, g, 64, vec![64]);
            add("zeros", n, g, 0, vec![64]);
        }
    }
    for &n in &[5usize, 64, 200] {
        let g = seed.wrapping_mul(1000) + 77;
        add("lamports", n, g, 400_000_000_000_000_000, vec![64]);
        add("lamports_dominant", n, g, 400_000_000_000_000_000, vec![64]);
        for r in 0..reps {
            add("lamports_boundary", n, g + r, 400_000_000_000_000_000, vec![64]);
        }
    }
    out
}

const DECAYS: [(u64, u64); 3] = [(1, 1), (2, 1), (5, 2)];

fn record(dir: &str, tier: &str, seed: u64, chunk_weight: u64) -> anyhow::Result<Value> {
    std::fs::create_dir_all(dir)?;
    let thorough = tier == "thorough";
    let seeds: Vec<u64> = if thorough { vec![1, 2, 3, 4, 5] } else { vec![1, 2, 3] };
    let turbine_max_n = if thorough { 200 } else { 65 };
    let mut out = ChunkWriter::new(dir, chunk_weight);
    let mut id = 0u64;
    let mut hist: BTreeMap<String, u64> = BTreeMap::new();
    let mut total_draws = 0u64;
    let mut max_n = 0usize;
    for (d, ks) in plan(tier, seed) {
        let stakes = gen_stakes(d.kind, d.n, d.gseed, d.param);
        let n = stakes.len();
        max_n = max_n.max(n);
        let total: u128 = stakes.iter().map(|s| *s as u128).sum();
        let maxs = *stakes.iter().max().unwrap();
        let zeros: Vec<u64> = (0..n as u64).filter(|v| stakes[*v as usize] == 0).collect();
        for k in ks {
            // TLC integers are 32 bit: the floor guarantee is evaluated where stake*k fits
            let small = total < (1u128 << 31) && (maxs as u128) * (k as u128) < (1u128 << 31);
            for s in all_strats(&DECAYS) {
                if s.name.starts_with("turbine") && n > turbine_max_n {
                    continue; // construction is cubic in n
                }
                let g = run_group(&s, &stakes, k, &seeds);
                id += 1;
                let label = s.label();
                *hist.entry(format!("strategy.{label}")).or_default() += 1;
                *hist.entry(format!("dist.{}", d.kind)).or_default() += 1;
                if g.cpanic.is_some() {
                    *hist.entry("construct_panic".to_string()).or_default() += 1;
                }
                total_draws += g.draws.len() as u64;
                let ev = json!({
                    "id": id, "strategy": s.name, "label": label, "n": n, "k": k, "small": small,
                    "stakes": if small { json!(stakes) } else { json!([]) },
                    "zeros": zeros, "npos": n - zeros.len(),
                    "num": s.num, "den": s.den,
                    "cpanic": g.cpanic.is_some(), "cmsg": g.cpanic.clone().unwrap_or_default(),
                    "gen": {"kind": d.kind, "n": d.n, "gseed": d.gseed.to_string(), "param": d.param.to_string()},
                    "draws": g.draws.iter().map(|(seed, runs)| json!({
                        "seed": seed, "runs": runs.iter().map(Run::to_json).collect::<Vec<_>>()})).collect::<Vec<_>>(),
                });
                let w = 20 + if small { n as u64 } else { 0 } + (g.draws.len() * 3 * k) as u64;
                out.write(&ev, w)?;
            }
        }
    }

    // ---- weighted shuffle: every validator count of the range, equal and skewed stakes
    let shuffle_seeds: Vec<u64> = if thorough { vec![1, 2, 3] } else { vec![1, 2] };
    let mut shuffle_plan: Vec<Dist> = Vec::new();
    let g = seed.wrapping_mul(1000) + 300;
    let mut counts: Vec<usize> = (1..=300).collect();
    if thorough {
        counts.extend(4090..=4120);
    }
    for &n in &counts {
        shuffle_plan.push(Dist { kind: "equal", n, gseed: g, param: 1 + (n as u64 % 5) });
        shuffle_plan.push(Dist { kind: "skewzero", n, gseed: g, param: 30_000 });
    }
    for &n in &[1usize, 2, 17, 300] {
        shuffle_plan.push(Dist { kind: "allzero", n, gseed: g, param: 0 });
    }
    if thorough {
        shuffle_plan.extend(plan(tier, seed).into_iter().map(|(d, _)| d));
    }
    for d in shuffle_plan {
        let stakes = gen_stakes(d.kind, d.n, d.gseed, d.param);
        let n = stakes.len();
        max_n = max_n.max(n);
        let total: u128 = stakes.iter().map(|s| *s as u128).sum();
        let small = total < (1u128 << 31);
        let zeros: Vec<u64> = (0..n as u64).filter(|v| stakes[*v as usize] == 0).collect();
        let (cpanic, draws) = run_shuffle(&stakes, &shuffle_seeds);
        id += 1;
        *hist.entry("strategy.weighted_shuffle".to_string()).or_default() += 1;
        *hist.entry(format!("shuffle.dist.{}", d.kind)).or_default() += 1;
        if !zeros.is_empty() && zeros.len() < n {
            *hist.entry("shuffle.mixed_zero".to_string()).or_default() += 1;
        }
        if cpanic.is_some() {
            *hist.entry("construct_panic".to_string()).or_default() += 1;
        }
        total_draws += draws.len() as u64;
        let ev = json!({
            "id": id, "strategy": "weighted_shuffle", "label": "weighted_shuffle", "n": n, "k": n, "small": small,
            "stakes": if small { json!(stakes) } else { json!([]) },
            "zeros": zeros, "npos": n - zeros.len(), "num": 0, "den": 1,
            "cpanic": cpanic.is_some(), "cmsg": cpanic.clone().unwrap_or_default(),
            "gen": {"kind": d.kind, "n": d.n, "gseed": d.gseed.to_string(), "param": d.param.to_string()},
            "draws": draws.iter().map(ShuffleDraw::to_json).collect::<Vec<_>>(),
        });
        let w = 20 + (n as u64) * (1 + 4 * draws.len() as u64);
        out.write(&ev, w)?;
    }
    let chunks = out.finish()?;
    Ok(json!({"chunks": chunks, "events": id, "draws": total_draws, "hist": hist, "max_n": max_n}))
}

/// NDJSON chunks of bounded weight (one TLC run each).
struct ChunkWriter {
    dir: String,
    chunk_weight: u64,
    chunks: Vec<Value>,
    cur: Option<std::io::BufWriter<std::fs::File>>,
    cur_weight: u64,
    cur_events: u64,
}

impl ChunkWriter {
    fn new(dir: &str, chunk_weight: u64) -> Self {
        Self { dir: dir.to_string(), chunk_weight, chunks: Vec::new(), cur: None, cur_weight: 0, cur_events: 0 }
    }

    fn close(&mut self) -> anyhow::Result<()> {
        if let Some(mut f) = self.cur.take() {
            f.flush()?;
            self.chunks.last_mut().unwrap()["events"] = json!(self.cur_events);
        }
        Ok(())
    }

    fn write(&mut self, ev: &Value, w: u64) -> anyhow::Result<()> {
        if self.cur.is_none() || self.cur_weight + w > self.chunk_weight {
            self.close()?;
            let path = format!("{}/trace-{:03}.ndjson", self.dir, self.chunks.len());
            self.cur = Some(std::io::BufWriter::new(std::fs::File::create(&path)?));
            self.chunks.push(json!({"path": path, "events": 0}));
            self.cur_weight = 0;
            self.cur_events = 0;
        }
        let f = self.cur.as_mut().unwrap();
        serde_json::to_writer(&mut *f, ev)?;
        f.write_all(b"\n")?;
        self.cur_weight += w;
        self.cur_events += 1;
        Ok(())
    }

    fn finish(mut self) -> anyhow::Result<Vec<Value>> {
        self.close()?;
        Ok(self.chunks)
    }
}

// ------------------------------------------------------------------ code -> spec: join verdicts

fn judge(pairs: &str) -> anyhow::Result<Value> {
    let mut rep = Report::new("sampler_trace");
    for pair in pairs.split(',') {
        let (trace, out) = pair.split_once('=').ok_or_else(|| anyhow::anyhow!("bad pair {pair}"))?;
        let mut verdicts: HashMap<u64, Value> = HashMap::new();
        for v in load_tagged(out, "VERDICT")? {
            verdicts.insert(v["id"].as_u64().unwrap(), v);
        }
        let f = BufReader::with_capacity(1 << 20, std::fs::File::open(trace)?);
        for line in f.lines() {
            let line = line?;
            if line.trim().is_empty() {
                continue;
            }
            let ev: Value = serde_json::from_str(&line)?;
            let id = ev["id"].as_u64().unwrap();
            let verdict = verdicts
                .remove(&id)
                .ok_or_else(|| anyhow::anyhow!("event {id} of {trace} was not judged by TLC"))?;
            let label = ev["label"].as_str().unwrap().to_string();
            rep.cases += 1;
            rep.count(&format!("strategy.{label}"), 1);
            let ndraws = ev["draws"].as_array().map(|a| a.len()).unwrap_or(0) as u64;
            if label == "weighted_shuffle" {
                let z = ev["zeros"].as_array().map(|a| a.len()).unwrap_or(0) as u64;
                if z > 0 && z < ev["n"].as_u64().unwrap() {
                    rep.count("shuffle.mixed_zero", 1);
                }
                let n = ev["n"].as_u64().unwrap();
                if (17..=31).contains(&n) || (257..=271).contains(&n) {
                    rep.count("shuffle.above_fanout_power", 1);
                }
            }
            rep.draws += ndraws.max(1);
            if ev["small"].as_bool() == Some(true) {
                rep.count("events.small", 1);
            } else {
                rep.count("events.projected", 1);
            }
            if rep.samples.len() < 3 && ndraws > 0 && ev["n"].as_u64().unwrap() <= 12 {
                rep.samples.push(json!({"event": ev, "verdict": verdict}));
            }
            // reproduction: regenerate the stake vector from the recorded generator
            let g = &ev["gen"];
            let stakes = gen_stakes(
                g["kind"].as_str().unwrap(),
                g["n"].as_u64().unwrap() as usize,
                g["gseed"].as_str().unwrap().parse()?,
                g["param"].as_str().unwrap().parse()?,
            );
            let k = ev["k"].as_u64().unwrap() as usize;
            for fl in verdict["failed"].as_array().unwrap() {
                let d = fl["d"].as_u64().unwrap() as usize;
                let p = fl["p"].as_str().unwrap();
                anyhow::ensure!(p != "BadEvent", "TLC rejected the projection of event {id} in {trace}");
                let mut head = ev.clone();
                head.as_object_mut().unwrap().remove("draws");
                let (fp, seed, obs) = if d == 0 {
                    let msg = ev["cmsg"].as_str().unwrap_or("");
                    let n = ev["n"].as_u64().unwrap() as usize;
                    (format!("{label}:{p}:{}:{}", slug(msg), size_class(n)), 0, json!({"panic": msg}))
                } else {
                    let dr = &ev["draws"][d - 1];
                    let seed = dr["seed"].as_u64().unwrap();
                    let fp = if p == "Returns" {
                        let runs: Vec<&Value> = match dr["runs"].as_array() {
                            Some(a) => a.iter().collect(),
                            None => SHUFFLE_FIELDS.iter().map(|f| &dr[*f]).collect(),
                        };
                        let msg = runs.iter()
                            .find(|r| r["ok"].as_bool() == Some(false))
                            .and_then(|r| r["panic"].as_str()).unwrap_or("");
                        format!("{label}:{p}:{}", slug(msg))
                    } else {
                        format!("{label}:{p}")
                    };
                    (fp, seed, dr.clone())
                };
                let replay = json!({"event": head, "seed": seed, "trace": trace,
                    "rerun": if stakes.len() <= 256 { replay_cmd(&label, &stakes, k, seed) } else {
                        format!("regenerate with gen_stakes{} then: replay-sampler --one {label} --k {k} --seed {seed} --stakes ...", g) }});
                rep.diverge(&fp, p, replay, obs);
            }
        }
        anyhow::ensure!(verdicts.is_empty(), "TLC judged events that are not in {trace}");
    }
    Ok(rep.to_json())
}

// ------------------------------------------------------------------ entry

fn parse_label(label: &str) -> Strat {
    if let Some(rest) = label.strip_prefix("decay_") {
        let (n, d) = rest.split_once('_').expect("decay_<num>_<den>");
        return decay(n.parse().unwrap(), d.parse().unwrap());
    }
    for s in all_strats(&[]) {
        if s.name == label {
            return s;
        }
    }
    panic!("unknown strategy label {label}");
}

pub fn run(args: &[String], seed: u64) -> anyhow::Result<Value> {
    let arg = |name: &str| crate::arg_after(args, name);
    if let Some(path) = arg("--cases") {
        let seeds = arg("--seeds").and_then(|s| s.parse().ok()).unwrap_or(2);
        let every = arg("--infeasible-every").and_then(|s| s.parse().ok()).unwrap_or(8);
        return replay_cases(&path, seeds, every);
    }
    if let Some(dir) = arg("--record") {
        let tier = arg("--tier").unwrap_or_else(|| "quick".to_string());
        let w = arg("--chunk-weight").and_then(|s| s.parse().ok()).unwrap_or(600_000);
        return record(&dir, &tier, seed, w);
    }
    if let Some(pairs) = arg("--judge") {
        return judge(&pairs);
    }
    if arg("--one").as_deref() == Some("weighted_shuffle") {
        let stakes: Vec<u64> = arg("--stakes").expect("--stakes").split(',').map(|x| x.parse().unwrap()).collect();
        let (cpanic, draws) = run_shuffle(&stakes, &[seed]);
        return Ok(json!({"strategy": "weighted_shuffle", "seed": seed, "stakes": stakes,
            "construct_panic": cpanic, "draws": draws.iter().map(ShuffleDraw::to_json).collect::<Vec<_>>()}));
    }
    if let Some(label) = arg("--one") {
        let s = parse_label(&label);
        let k: usize = arg("--k").expect("--k").parse()?;
        let stakes: Vec<u64> = arg("--stakes").expect("--stakes").split(',').map(|x| x.parse().unwrap()).collect();
        let g = run_group(&s, &stakes, k, &[seed]);
        return Ok(json!({
            "strategy": label, "k": k, "seed": seed, "stakes": stakes,
            "construct_panic": g.cpanic,
            "runs(first instance, second instance, first again)":
                g.draws.iter().flat_map(|(_, r)| r.iter().map(Run::to_json)).collect::<Vec<_>>(),
        }));
    }
    anyhow::bail!("replay-sampler: one of --cases, --record, --judge, --one")
}
