//! Case replay for C15 (spec: Merkle.tla / MC_Merkle.tla): every enumerated
//! (tree, leaf, claimed index, root, proof, variant) case is concretised with real
//! hashes and the verdict of `check_proof` / `check_proof_last` compared with the spec's.

use std::collections::HashMap;

use alpenglow::crypto::Hash;
use alpenglow::crypto::merkle::PlainMerkleTree;
use serde_json::{Value, json};

use crate::cases::{CaseReport, load_tagged};

struct Eval {
    empty: Vec<Hash>,
    cache: HashMap<String, Hash>,
}

fn data_of(v: &Value) -> Vec<u8> {
    v.as_str().unwrap_or("").as_bytes().to_vec()
}

fn seq_of(v: &Value) -> Vec<Vec<u8>> {
    v.as_array().map(|a| a.iter().map(data_of).collect()).unwrap_or_default()
}

impl Eval {
    fn new() -> Self {
        // E(0) = root of the one-leaf tree over the empty leaf; E(k+1) = pair(E(k), E(k)),
        // obtained through the public derive_root with the all-empty path
        let mut empty = vec![PlainMerkleTree::new(&[Vec::<u8>::new()]).get_root()];
        for k in 1..=40 {
            let path: Vec<Hash> = empty[..k].to_vec();
            empty.push(PlainMerkleTree::derive_root(&Vec::<u8>::new(), 0, &path));
        }
        Self { empty, cache: HashMap::new() }
    }

    fn elem(&mut self, e: &Value) -> Hash {
        let key = e.to_string();
        if let Some(h) = self.cache.get(&key) {
            return h.clone();
        }
        let h = if let Some(k) = e.get("empty").and_then(Value::as_u64) {
            self.empty[k as usize].clone()
        } else if let Some(n) = e.get("junk").and_then(Value::as_u64) {
            alpenglow::crypto::hash(format!("verif-junk-{n}").as_bytes())
        } else {
            let leaves = seq_of(&e["leaves"]);
            assert_eq!(leaves.len(), 1usize << e["h"].as_u64().unwrap());
            PlainMerkleTree::new(&leaves).get_root()
        };
        self.cache.insert(key, h.clone());
        h
    }
}

pub fn run(path: &str) -> anyhow::Result<Value> {
    let cases = load_tagged(path, "CASE")?;
    let mut rep = CaseReport::new("merkle");
    let mut ev = Eval::new();
    for case in &cases {
        let c = &case["c"];
        let exp = case["exp"].as_bool().unwrap_or(false);
        let data = seq_of(&c["data"]);
        let i = c["i"].as_u64().unwrap() as usize;
        let j = c["j"].as_u64().unwrap() as usize;
        let leaf = data_of(&c["leaf"]);
        let last = c["last"].as_bool().unwrap_or(false);
        let mutk = c["mut"].as_str().unwrap_or("?").to_string();
        let proof: Vec<Hash> = c["proof"].as_array().unwrap().iter().map(|e| ev.elem(e)).collect();
        let label = format!("{}{}", mutk, if last { ":last" } else { "" });
        rep.case(&label, c.to_string(), case);

        let res = std::panic::catch_unwind(std::panic::AssertUnwindSafe(|| {
            let tree = PlainMerkleTree::new(&data);
            let root = if c["rootMode"] == "tree" {
                PlainMerkleTree::new(&seq_of(&c["rootOf"])).get_root()
            } else if c["rootMode"] == "prefix32" {
                PlainMerkleTree::derive_root(&leaf, j, &proof[..32].to_vec())
            } else {
                PlainMerkleTree::derive_root(&leaf, j, &proof)
            };
            let mut notes = Vec::new();
            if mutk == "none" {
                // the proof the real tree creates is the spec's proof, its root the spec's root
                let real = tree.create_proof(i);
                if real != proof {
                    notes.push("create_proof");
                }
                if tree.get_root() != root {
                    notes.push("root");
                }
            }
            let verdict = if last {
                PlainMerkleTree::check_proof_last(&leaf, j, &root, &proof)
            } else {
                PlainMerkleTree::check_proof(&leaf, j, &root, &proof)
            };
            (verdict, notes)
        }));
        match res {
            Ok((verdict, notes)) => {
                if !notes.is_empty() {
                    let fp = format!("{label}|{}", notes.join(","));
                    rep.diverge(&fp, &notes, case, json!({"verdict": exp}), json!({"verdict": verdict, "notes": notes}));
                }
                if verdict != exp {
                    let f = if verdict { "accepted" } else { "rejected" };
                    rep.diverge(&format!("{label}|{f}"), &[f], case, json!({"verdict": exp}), json!({"verdict": verdict}));
                }
            }
            Err(_) => {
                rep.diverge(&format!("{label}|panic"), &["panic"], case, json!({"verdict": exp}), json!({"panic": true}));
            }
        }
    }
    Ok(rep.to_json())
}
